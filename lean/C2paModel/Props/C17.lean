import C2paModel.Lemmas.C17
/-
C17 — BMFF mdat hashing is independent of how the payload is chunked.  Statement:

  When a caller feeds the mdat payload to the SDK incrementally and then signs in the BMFF
  placeholder workflow, the resulting asset reads back Valid for every way of splitting the
  payload into chunks. With a fixed leaf size the recorded Merkle leaves depend only on the
  concatenated payload.

The theorems are over every payload, every chunk list `cs` (any number of chunks, any sizes,
empty chunks included), every fixed leaf size `F > 0` (bytes) or variable sizes, and both mdat
header forms.  `cs.flatten` is the payload as the caller delivers it (the box content after the
size/type header, or after the 16-byte header of a large-size box); `covered large payload` is
the part the verifier hashes (it excludes 16 bytes from the start of the box).

"Reads back Valid" is proved for the hash binding of the mdat boxes: the verifier's ranges
(`validate_merkle_maps_mdat_boxes`) are exactly the recorded leaves and every leaf passes
`check_merkle_tree` (C16).  The flat BMFF hash over the rest of the file, the claim signature and
the manifest structure are not part of the model; they are observed end-to-end by the harness.

The theorems describe the code with the repairs /verif/fixes/C17-*.patch applied; before the
repair `MerkleAccumulator::add_merkle_leaf` falsified `leaves_depend_on_concat` (first chunk of
at most 8 bytes: the chunk was dropped and 8 further bytes skipped) and `variable_sizes_sum`
(an empty chunk recorded a zero-length leaf with an empty digest).
-/
namespace C2pa.C17

variable {β : Type}

/-- the leaves stored for one mdat after all chunks and the final flush -/
def finalLeaves (fixed : Option Nat) (large : Bool) (cs : List (List β)) : Except Err (List (Leaf β)) :=
  match runMdat fixed large {} cs with
  | .ok st => .ok (flush st).leaves
  | .error e => .error e

/-- **Fixed leaf size: the recorded leaves are a function of the concatenated payload** — they
are the leaves of the consecutive `F`-byte blocks of the covered payload, for every chunking. -/
theorem leaves_depend_on_concat (F : Nat) (hF : 0 < F) (large : Bool) (cs : List (List β)) :
    finalLeaves (some F) large cs = .ok ((chunksOf F (covered large cs.flatten)).map leafOf) := by
  obtain ⟨st, hrun, _, hwf⟩ := runMdat_fixed_spec F hF large cs {} [] (InvF_init F large)
  simp only [finalLeaves, hrun]
  rw [flush_leaves_of_WF F hF st _ hwf]
  simp

/-- Two chunkings of the same payload record the same leaves (and neither fails). -/
theorem chunking_independent (F : Nat) (hF : 0 < F) (large : Bool) (cs cs' : List (List β))
    (h : cs.flatten = cs'.flatten) :
    finalLeaves (some F) large cs = finalLeaves (some F) large cs'
      ∧ ∃ ls, finalLeaves (some F) large cs = .ok ls := by
  rw [leaves_depend_on_concat F hF, leaves_depend_on_concat F hF, h]
  exact ⟨rfl, _, rfl⟩

/-- No mdat entry (hence no MerkleMap) exactly when nothing of the payload is covered. -/
theorem no_leaves_iff_nothing_covered (F : Nat) (hF : 0 < F) (large : Bool) (cs : List (List β)) :
    finalLeaves (some F) large cs = .ok [] ↔ covered large cs.flatten = [] := by
  rw [leaves_depend_on_concat F hF]
  constructor
  · intro h
    have h' : (chunksOf F (covered large cs.flatten)).map leafOf = ([] : List (Leaf β)) := by
      simpa using h
    have hnil : chunksOf F (covered large cs.flatten) = [] := List.map_eq_nil_iff.mp h'
    have := chunksOf_flatten F (covered large cs.flatten) hF
    rw [hnil] at this
    simpa using this.symm
  · intro h
    rw [h, chunksOf_nil]; simp

/-- **Variable leaf sizes: the leaves tile the covered payload** — one leaf per chunk that
contributes bytes, none of length zero, their data concatenates to the covered payload, so the
sizes sum to the length the verifier requires. -/
theorem variable_sizes_sum (large : Bool) (cs : List (List β)) :
    ∃ pieces : List (List β),
      finalLeaves none large cs = .ok (pieces.map leafOf)
        ∧ (∀ p ∈ pieces, p ≠ [])
        ∧ pieces.flatten = covered large cs.flatten
        ∧ ((pieces.map leafOf).map (·.len)).sum = (covered large cs.flatten).length := by
  obtain ⟨st, hrun, _, hrem, pieces, hp, hl, hfl⟩ := runMdat_var_spec large cs {} [] (InvV_init large)
  refine ⟨pieces, ?_, hp, by simpa using hfl, ?_⟩
  · simp [finalLeaves, hrun, flush, hrem, hl]
  · have : (pieces.map leafOf).map (·.len) = pieces.map List.length := by
      simp [leafOf, Function.comp_def]
    rw [this, sum_map_length_flatten, hfl]
    simp

/-! ### the verifier accepts what the accumulator recorded -/

/-- the mdat box as the verifier reads it: a header of 8 (16 for large-size) bytes, then the
payload -/
def IsBox (large : Bool) (hdr payload box : List β) : Prop :=
  box = hdr ++ payload ∧ hdr.length = if large then 16 else 8

theorem box_region (large : Bool) (hdr payload box : List β) (h : IsBox large hdr payload box) :
    box.drop 16 = covered large payload := by
  obtain ⟨rfl, hl⟩ := h
  cases large with
  | true =>
    simp only [if_true] at hl
    simp [covered, hl]
  | false =>
    simp only [Bool.false_eq_true, if_false] at hl
    simp [covered, List.drop_append, hl]

/-- Fixed leaf size (`F > 1`; the public setter takes KiB): the MerkleMap built from the
accumulated leaves verifies against the mdat box, for every chunking (`covered payload`
non-empty, i.e. the mdat has a Merkle map at all). -/
theorem accumulated_verifies_fixed [DecidableEq β] (F : Nat) (hF : 1 < F) (large : Bool)
    (cs : List (List β)) (hdr box : List β) (id : Nat)
    (hbox : IsBox large hdr cs.flatten box) (hne : covered large cs.flatten ≠ []) :
    ∃ leaves mm ranges, finalLeaves (some F) large cs = .ok leaves
      ∧ leaves ≠ []
      ∧ mkMap (some F) id leaves = .ok mm
      ∧ mm.varSizes = none
      ∧ mdatRanges mm box = some ranges
      ∧ checkMap mm ranges = true := by
  have hF0 : 0 < F := by omega
  let D := covered large cs.flatten
  have hreg := box_region large hdr cs.flatten box hbox
  have hsum : (((chunksOf F D).map leafOf).map (·.len)).sum = D.length := by
    have : ((chunksOf F D).map leafOf).map (·.len) = (chunksOf F D).map List.length := by
      simp [leafOf, Function.comp_def]
    rw [this, sum_map_length_flatten, chunksOf_flatten F D hF0]
  have hFne : ¬ F = 0 := by omega
  have hpos : 0 < D.length := List.length_pos_iff.mpr hne
  refine ⟨(chunksOf F D).map leafOf,
    { id := id, count := ((chunksOf F D).map leafOf).length,
      hashes := ((chunksOf F D).map leafOf).map (·.hash),
      fixedBlock := some (if D.length > 1 then min D.length F else F), varSizes := none },
    chunksOf F D, leaves_depend_on_concat F hF0 large cs, ?_, ?_, rfl, ?_, ?_⟩
  · rw [chunksOf_cons F D hF0 hne]; simp
  · simp only [mkMap, hFne, if_false, hsum]
  · simp only [mdatRanges, hreg]
    by_cases h1 : D.length > 1
    · have hfb : ¬ min D.length F ≤ 1 := by omega
      simp only [h1, if_true, hfb, if_false]
      rw [fixedRanges_eq_chunksOf _ _ (by omega), chunksOf_min F D hF0 hne]
    · have hfb : ¬ F ≤ 1 := by omega
      simp only [h1, if_false, hfb]
      rw [fixedRanges_eq_chunksOf _ _ hF0]
  · apply checkMap_blocks _ _ (chunksOf_ne_nil F D)
    · simp
    · simp [leafOf, Function.comp_def]

/-- Variable leaf sizes: likewise. -/
theorem accumulated_verifies_variable [DecidableEq β] (large : Bool) (cs : List (List β))
    (hdr box : List β) (id : Nat) (hbox : IsBox large hdr cs.flatten box) :
    ∃ leaves mm ranges, finalLeaves none large cs = .ok leaves
      ∧ (covered large cs.flatten ≠ [] → leaves ≠ [])
      ∧ mkMap none id leaves = .ok mm
      ∧ mm.fixedBlock = none
      ∧ mdatRanges mm box = some ranges
      ∧ checkMap mm ranges = true := by
  obtain ⟨pieces, hfin, hp, hfl, hsum⟩ := variable_sizes_sum large cs
  have hreg := box_region large hdr cs.flatten box hbox
  refine ⟨pieces.map leafOf,
    { id := id, count := (pieces.map leafOf).length, hashes := (pieces.map leafOf).map (·.hash),
      fixedBlock := none, varSizes := some ((pieces.map leafOf).map (·.len)) },
    pieces, hfin, ?_, rfl, rfl, ?_, ?_⟩
  · intro hne hnil
    have : pieces = [] := List.map_eq_nil_iff.mp hnil
    rw [this] at hfl
    exact hne (by simpa using hfl.symm)
  · have hsz : (pieces.map leafOf).map (·.len) = pieces.map List.length := by
      simp [leafOf, Function.comp_def]
    simp only [mdatRanges, hreg, hsz, sum_map_length_flatten, hfl, ne_eq, not_true_eq_false, if_false]
    have := varRanges_pieces pieces []
    rw [List.append_nil, hfl] at this
    rw [this]
  · apply checkMap_blocks _ _ hp
    · simp
    · simp [leafOf, Function.comp_def]

/-- An asset with a single mdat: `validate_merkle_maps_mdat_boxes` succeeds for every chunking
and both leaf-size modes. -/
theorem single_mdat_asset_verifies [DecidableEq β] (fixed : Option Nat) (hF : ∀ F, fixed = some F → 1 < F)
    (large : Bool) (cs : List (List β)) (hdr box : List β)
    (hbox : IsBox large hdr cs.flatten box) (hne : covered large cs.flatten ≠ []) :
    ∃ leaves mm, finalLeaves fixed large cs = .ok leaves ∧ mkMap fixed 0 leaves = .ok mm
      ∧ validateMaps [mm] [box] = true := by
  cases fixed with
  | some F =>
    obtain ⟨leaves, mm, ranges, h1, _, h2, hv, h3, h4⟩ :=
      accumulated_verifies_fixed F (hF F rfl) large cs hdr box 0 hbox hne
    exact ⟨leaves, mm, h1, h2, by simp [validateMaps, hv, h3, h4]⟩
  | none =>
    obtain ⟨leaves, mm, ranges, h1, _, h2, hv, h3, h4⟩ :=
      accumulated_verifies_variable large cs hdr box 0 hbox
    exact ⟨leaves, mm, h1, h2, by simp [validateMaps, hv, h3, h4]⟩

/-! ### several mdats: the per-mdat states do not interfere -/

theorem lookup_insert (i j : Nat) (s : MdatState β) (l : List (Nat × MdatState β)) :
    lookupSt j (insertSt i s l) = if j = i then s else lookupSt j l := by
  induction l with
  | nil =>
    by_cases h : j = i
    · simp [insertSt, lookupSt, h]
    · have h' : ¬ i = j := fun e => h e.symm
      simp [insertSt, lookupSt, h, h']
  | cons x xs ih =>
    obtain ⟨k, t⟩ := x
    simp only [insertSt]
    by_cases hk : k = i
    · subst hk
      by_cases h : j = k
      · simp [lookupSt, h]
      · have h' : ¬ k = j := fun e => h e.symm
        simp [lookupSt, h, h']
    · simp only [hk, if_false]
      by_cases hlt : i < k
      · simp only [hlt, if_true]
        by_cases h : j = i
        · simp [lookupSt, h]
        · have h' : ¬ i = j := fun e => h e.symm
          simp [lookupSt, h, h']
      · simp only [hlt, if_false, lookupSt]
        by_cases hkj : k = j
        · have : ¬ j = i := by intro e; exact hk (hkj.trans e)
          simp [hkj, this]
        · simp [hkj, ih]

/-- `hash_bmff_mdat_bytes(id, …)` changes the state of mdat `id` exactly as the single-mdat
step does and leaves every other mdat's state untouched (chunks of different mdats may be
interleaved arbitrarily). -/
theorem mdats_independent (a a' : Acc β) (id : Nat) (large : Bool) (data : List β)
    (h : a.add id large data = .ok a') (j : Nat) :
    a'.fixed = a.fixed ∧
    (j ≠ id → lookupSt j a'.mdats = lookupSt j a.mdats) ∧
    addLeaf a.fixed large (lookupSt id a.mdats) data = .ok (lookupSt id a'.mdats) := by
  simp only [Acc.add] at h
  split at h
  · rename_i s hs
    simp only [Except.ok.injEq] at h
    subst h
    refine ⟨rfl, ?_, ?_⟩
    · intro hj; simp [lookup_insert, hj]
    · simp [lookup_insert, hs]
  · simp at h

/-- the whole call sequence of an application (chunks of several mdats in any order) -/
def Acc.run (a : Acc β) : List (Nat × Bool × List β) → Except Err (Acc β)
  | [] => .ok a
  | (id, large, data) :: rest =>
    match a.add id large data with
    | .ok a' => Acc.run a' rest
    | .error e => .error e

theorem Acc.run_fixed (a a' : Acc β) (calls : List (Nat × Bool × List β))
    (h : a.run calls = .ok a') : a'.fixed = a.fixed := by
  induction calls generalizing a with
  | nil => simp only [Acc.run, Except.ok.injEq] at h; rw [h]
  | cons c rest ih =>
    obtain ⟨id, large, data⟩ := c
    simp only [Acc.run] at h
    split at h
    · rename_i a1 h1
      rw [ih a1 h, (mdats_independent a a1 id large data h1 id).1]
    · simp at h

/-- After any interleaved call sequence, the state of mdat `id` is what feeding just that
mdat's chunks, in order, to a fresh single-mdat accumulator gives. -/
theorem interleaving_irrelevant (a a' : Acc β) (calls : List (Nat × Bool × List β))
    (h : a.run calls = .ok a') (id : Nat) (large : Bool)
    (hcons : ∀ c ∈ calls, c.1 = id → c.2.1 = large) :
    runMdat a.fixed large (lookupSt id a.mdats)
        ((calls.filter (fun c => c.1 = id)).map (·.2.2)) = .ok (lookupSt id a'.mdats) := by
  induction calls generalizing a with
  | nil =>
    simp only [Acc.run, Except.ok.injEq] at h
    subst h
    simp [runMdat]
  | cons c rest ih =>
    obtain ⟨cid, clarge, data⟩ := c
    simp only [Acc.run] at h
    split at h
    · rename_i a1 h1
      obtain ⟨hfx, hother, hsame⟩ := mdats_independent a a1 cid clarge data h1 id
      have hrest := ih a1 h (fun c hc => hcons c (by simp [hc]))
      by_cases hid : cid = id
      · subst hid
        have hl : clarge = large := hcons (cid, clarge, data) (by simp) rfl
        subst hl
        simp only [List.filter_cons, decide_true, if_true, List.map_cons, runMdat, hsame]
        rw [← hfx]; exact hrest
      · have hne : id ≠ cid := fun e => hid e.symm
        simp only [List.filter_cons, hid, decide_false, Bool.false_eq_true, if_false]
        rw [← hother hne, ← hfx]; exact hrest
    · simp at h

/-! ### assets with several mdat boxes -/

/-- element-wise relation between two lists of the same length -/
inductive All2 {α γ : Type} (R : α → γ → Prop) : List α → List γ → Prop
  | nil : All2 R [] []
  | cons {a : α} {c : γ} {as : List α} {cs : List γ} : R a c → All2 R as cs → All2 R (a :: as) (c :: cs)

theorem All2.length_eq {α γ : Type} {R : α → γ → Prop} {l₁ : List α} {l₂ : List γ}
    (h : All2 R l₁ l₂) : l₁.length = l₂.length := by
  induction h with
  | nil => rfl
  | cons _ _ ih => simp [ih]

/-- one mdat of an asset: how it was delivered and how it lies in the file -/
structure MdatRun (β : Type) where
  large : Bool
  cs : List (List β)
  hdr : List β
  box : List β

/-- what `validate_merkle_maps_mdat_boxes` needs of one (map, box) pair -/
def GoodMap [DecidableEq β] (mm : MMap β) (box : List β) : Prop :=
  (mm.fixedBlock.isSome && mm.varSizes.isSome) = false
    ∧ ∃ ranges, mdatRanges mm box = some ranges ∧ checkMap mm ranges = true

theorem validateMaps_of_good [DecidableEq β] (mms : List (MMap β)) (boxes : List (List β))
    (h : All2 GoodMap mms boxes) : validateMaps mms boxes = true := by
  have hany : mms.any (fun mm => mm.fixedBlock.isSome && mm.varSizes.isSome) = false := by
    induction h with
    | nil => rfl
    | cons hd _ ih => simp only [List.any_cons, hd.1, ih, Bool.or_self]
  have hlen : boxes.length = mms.length := h.length_eq.symm
  have hall : ((List.zip boxes mms).all fun (box, mm) =>
      match mdatRanges mm box with
      | some ranges => checkMap mm ranges
      | none => false) = true := by
    induction h with
    | nil => rfl
    | @cons m0 b0 ms bs hd _ ih =>
      obtain ⟨_, ranges, hr, hc⟩ := hd
      simp only [List.zip_cons_cons, List.all_cons, hr, hc, Bool.true_and]
      have hany' : (ms.any fun (mm : MMap β) => mm.fixedBlock.isSome && mm.varSizes.isSome) = false := by
        simp only [List.any_cons, Bool.or_eq_false_iff] at hany
        exact hany.2
      exact ih hany' (by simpa using hlen)
  simp only [validateMaps, hany, Bool.false_eq_true, if_false, hlen, ne_eq, not_true_eq_false]
  exact hall

/-- **Several mdats.** If every mdat of the asset was delivered completely (in any chunking,
its state `p.2` being the result of its own chunk sequence — see `interleaving_irrelevant`),
lies in the file as header ‖ payload, and has a non-empty covered payload, then the MerkleMaps
`update_hash_from_stream` stores verify against the asset's mdat boxes. -/
theorem multi_mdat_asset_verifies [DecidableEq β] (fixed : Option Nat)
    (hF : ∀ F, fixed = some F → 1 < F) (sts : List (Nat × MdatState β)) (runs : List (MdatRun β))
    (h : All2 (fun p r => runMdat fixed r.large {} r.cs = .ok p.2
      ∧ IsBox r.large r.hdr r.cs.flatten r.box ∧ covered r.large r.cs.flatten ≠ []) sts runs) :
    ∃ mms, createMms fixed sts = .ok mms ∧ validateMaps mms (runs.map (·.box)) = true := by
  suffices hs : ∃ mms, createMms fixed sts = .ok mms ∧ All2 GoodMap mms (runs.map (·.box)) by
    obtain ⟨mms, h1, h2⟩ := hs
    exact ⟨mms, h1, validateMaps_of_good mms _ h2⟩
  induction h with
  | nil => exact ⟨[], rfl, All2.nil⟩
  | @cons p r ps rs hd _ ih =>
    obtain ⟨mms, hm, hg⟩ := ih
    obtain ⟨id, st⟩ := p
    obtain ⟨hrun, hbox, hne⟩ := hd
    have hfin : finalLeaves fixed r.large r.cs = .ok (flush st).leaves := by
      simp only [finalLeaves]; simp only at hrun; rw [hrun]
    cases fixed with
    | some F =>
      obtain ⟨leaves, mm, ranges, h1, hnl, h2, hv, h3, h4⟩ :=
        accumulated_verifies_fixed F (hF F rfl) r.large r.cs r.hdr r.box id hbox hne
      rw [hfin] at h1
      have hl : (flush st).leaves = leaves := by simpa using h1
      have hne' : (flush st).leaves.isEmpty = false := by
        rw [hl]; cases leaves with
        | nil => exact absurd rfl hnl
        | cons _ _ => rfl
      refine ⟨mm :: mms, ?_, All2.cons ⟨by simp [hv], ranges, h3, h4⟩ hg⟩
      have hne2 : leaves.isEmpty = false := by rw [← hl]; exact hne'
      simp only [createMms, hl, hne2, Bool.false_eq_true, if_false, h2, hm]
    | none =>
      obtain ⟨leaves, mm, ranges, h1, hnl, h2, hv, h3, h4⟩ :=
        accumulated_verifies_variable r.large r.cs r.hdr r.box id hbox
      rw [hfin] at h1
      have hl : (flush st).leaves = leaves := by simpa using h1
      have hne' : (flush st).leaves.isEmpty = false := by
        rw [hl]; cases leaves with
        | nil => exact absurd rfl (hnl hne)
        | cons _ _ => rfl
      refine ⟨mm :: mms, ?_, All2.cons ⟨by simp [hv], ranges, h3, h4⟩ hg⟩
      have hne2 : leaves.isEmpty = false := by rw [← hl]; exact hne'
      simp only [createMms, hl, hne2, Bool.false_eq_true, if_false, h2, hm]

/-! ### non-vacuity and the repaired inputs -/

-- first chunk of 3 bytes, then the rest: same leaves as the payload in one piece (F = 4)
example :
    (finalLeaves (some 4) false [[0, 1, 2], [3, 4, 5, 6, 7, 8, 9, 10, 11, 12, 13]]).toOption
      = (finalLeaves (some 4) false [[0, 1, 2, 3, 4, 5, 6, 7, 8, 9, 10, 11, 12, 13]]).toOption := by
  decide +kernel

example :
    (finalLeaves (some 4) false [[0, 1, 2], [], [3, 4, 5, 6, 7, 8, 9, 10, 11, 12, 13]]).toOption
      = some [⟨4, .sha [8, 9, 10, 11]⟩, ⟨2, .sha [12, 13]⟩] := by
  decide +kernel

-- variable sizes: header split over three chunks, an empty chunk in between; no empty leaf
example :
    (finalLeaves none false [[0, 1, 2], [3, 4, 5], [], [6, 7, 8, 9], [10, 11]]).toOption
      = some [⟨2, .sha [8, 9]⟩, ⟨2, .sha [10, 11]⟩] := by
  decide +kernel

-- the hypotheses of `accumulated_verifies_fixed` are satisfiable
example : IsBox false [100, 101, 102, 103, 104, 105, 106, 107] [0, 1, 2, 3, 4, 5, 6, 7, 8, 9]
    [100, 101, 102, 103, 104, 105, 106, 107, 0, 1, 2, 3, 4, 5, 6, 7, 8, 9] ∧
    covered false [0, 1, 2, 3, 4, 5, 6, 7, 8, 9] ≠ ([] : List Nat) := by
  refine ⟨⟨rfl, rfl⟩, ?_⟩
  decide

end C2pa.C17
