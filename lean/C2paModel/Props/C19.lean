import C2paModel.Lemmas.C19Topo
import C2paModel.Lemmas.C19Ic
import C2paModel.Lemmas.C19Hb
import C2paModel.Lemmas.C19C04
import C2paModel.Lemmas.C19Clean
import C2paModel.Lemmas.C20Filter
/-
C19 — property theorems. The statement (properties.jsonl):

  For any manifest store whose ingredients form an arbitrary graph (chains, shared
  sub-graphs, self references, cycles, missing manifests, chains deeper than the limit),
  validation terminates in time polynomial in the store size without stack overflow. It
  never reports a cyclic, dangling or over-deep graph as Valid.

All theorems quantify over every store (any number of claims, any ingredient lists, dangling
labels included), every root label, every depth limit `lim` (the code's constant is passed by
the harness) and, for `gcrm`, both log behaviours (`stop`).

"Over-deep" is the walker's own recursion depth (DESIGN §5): `dag_not_over_deep` exhibits a
DAG whose longest path exceeds the limit and which is accepted because every claim is first
reached on a short path.
-/
namespace C2pa.C19

/-! ## `get_claim_referenced_manifests` -/

/-- **fuel_suffices** — fuel `|V| + 1` is never exhausted (termination measure: claims not yet
in the memo map), and any larger fuel gives the same result. -/
theorem gcrm_fuel_suffices (lim : Nat) (s : Store) (stop : Bool) (root : Nat)
    (hr : root < s.length) :
    (gcrm lim s stop (s.length + 1) root {}).1 ≠ .outOfFuel ∧
      ∀ k, gcrm lim s stop (s.length + 1 + k) root {} = gcrm lim s stop (s.length + 1) root {} := by
  have h := gcrm_fuel_unv s stop lim (s.length + 1) root {} (GW.init s lim)
    (fun h => by cases h) hr (by simp)
  exact ⟨h, gcrm_fuel_le s stop lim _ root {} h⟩

/-- **depth_bounded** — the recursion is never more than `lim + 1` frames deep: fuel
`lim + 1` (one unit per nested call) is never exhausted, whatever the store. -/
theorem gcrm_depth_bounded (lim : Nat) (s : Store) (stop : Bool) (root : Nat) :
    (gcrm lim s stop (lim + 1) root {}).1 ≠ .outOfFuel ∧
      ∀ k, gcrm lim s stop (lim + 1 + k) root {} = gcrm lim s stop (lim + 1) root {} := by
  have h := gcrm_fuel_depth s stop lim (lim + 1) root {} (Nat.zero_le _) (by simp)
  exact ⟨h, gcrm_fuel_le s stop lim _ root {} h⟩

/-- **terminates_poly** — for every fuel and every outcome: at most `|V|` claims are expanded,
at most `|E|` ingredient references are looked up, each with at most `lim` label comparisons. -/
theorem gcrm_terminates_poly (lim : Nat) (s : Store) (stop : Bool) (fuel root : Nat)
    (hr : root < s.length) :
    (gcrm lim s stop fuel root {}).2.exp ≤ s.length ∧
    (gcrm lim s stop fuel root {}).2.insp ≤ edgeCount s ∧
    (gcrm lim s stop fuel root {}).2.cmps ≤ lim * (gcrm lim s stop fuel root {}).2.insp := by
  obtain ⟨h, _⟩ := gcrm_safe s stop lim fuel root {} (GW.init s lim) (fun h => by cases h) hr
  have hlen := nodup_length_le s.length _ h.gw.mnd h.gw.mlt
  have hdeg := degSum_le_edgeCount s _ h.gw.mnd h.gw.mlt
  have h1 := h.expg
  have h2 := h.inspg
  have h3 := h.cmpsg
  have e1 : ({} : GSt).map = [] := rfl
  have e2 : ({} : GSt).exp = 0 := rfl
  have e3 : ({} : GSt).insp = 0 := rfl
  have e4 : ({} : GSt).cmps = 0 := rfl
  rw [e1, e2] at h1
  rw [e1, e3] at h2
  rw [e3, e4] at h3
  simp only [List.length_nil, degSum, List.map_nil, List.sum_nil, Nat.mul_zero] at h1 h2 h3
  refine ⟨by omega, ?_, by omega⟩
  have : degSum s (gcrm lim s stop fuel root {}).2.map = (List.map (deg s) (gcrm lim s stop fuel root {}).2.map).sum := rfl
  omega

/-- **ok ⇒ the finish order is a topological order of everything reachable.** -/
theorem gcrm_ok_finish_topological (lim : Nat) (s : Store) (stop : Bool) (fuel root : Nat)
    (hok : (gcrm lim s stop fuel root {}).1 = .ok) :
    Topo s (gcrm lim s stop fuel root {}).2.fin ∧ (gcrm lim s stop fuel root {}).2.fin.Nodup ∧
      ∀ v, Reach s root v → v ∈ (gcrm lim s stop fuel root {}).2.fin := by
  obtain ⟨h, hroot⟩ := gcrm_ok s stop lim fuel root {} (GInv.init s) (fun h => by cases h) hok
  exact ⟨h.inv.topo, h.inv.fnd, fun v hv => h.inv.topo.closed hroot hv⟩

/-- **ok_implies_acyclic** — if the walk returns `Ok`, no claim reachable from the root lies on
a cycle (self references included). -/
theorem gcrm_ok_implies_acyclic (lim : Nat) (s : Store) (stop : Bool) (fuel root : Nat)
    (hok : (gcrm lim s stop fuel root {}).1 = .ok) :
    ∀ v, Reach s root v → ¬ OnCycle s v := by
  obtain ⟨h1, h2, h3⟩ := gcrm_ok_finish_topological lim s stop fuel root hok
  exact fun v hv => h1.acyclic h2 v (h3 v hv)

/-- **cycle_rejected** — a reachable cycle is always rejected: `CyclicIngredients`, or the depth
error when the walk runs into the limit first (or the missing-manifest error when the log
stops on the first error). -/
theorem gcrm_cycle_rejected (lim : Nat) (s : Store) (stop : Bool) (root v k : Nat)
    (hr : root < s.length) (hv : Reach s root v) (hc : OnCycle s v) :
    let o := (gcrm lim s stop (s.length + 1 + k) root {}).1
    o = .cyclic ∨ (o = .tooDeep ∧ lim < s.length) ∨ (o = .missing ∧ stop = true) := by
  intro o
  obtain ⟨hne, heq⟩ := gcrm_fuel_suffices lim s stop root hr
  obtain ⟨_, hout⟩ := gcrm_safe s stop lim (s.length + 1 + k) root {} (GW.init s lim)
    (fun h => by cases h) hr
  rcases hout with h | h | h | h | h
  · exact absurd hc (gcrm_ok_implies_acyclic lim s stop _ root h v hv)
  · exact Or.inr (Or.inl h)
  · exact Or.inl h
  · exact Or.inr (Or.inr h)
  · rw [heq k] at h; exact absurd h hne

/-- With at most `lim` claims and a continuing log the error is exactly `CyclicIngredients`. -/
theorem gcrm_cycle_rejected_small (lim : Nat) (s : Store) (root v k : Nat)
    (hr : root < s.length) (hs : s.length ≤ lim) (hv : Reach s root v) (hc : OnCycle s v) :
    (gcrm lim s false (s.length + 1 + k) root {}).1 = .cyclic := by
  rcases gcrm_cycle_rejected lim s false root v k hr hv hc with h | ⟨_, h⟩ | ⟨_, h⟩
  · exact h
  · omega
  · cases h

/-- **dangling_logged** — if the walk returns `Ok`, every reference from a reachable claim to a
manifest that is not in the store has been logged as `ingredient.manifest.missing`. -/
theorem gcrm_dangling_logged (lim : Nat) (s : Store) (stop : Bool) (fuel root u v : Nat)
    (hok : (gcrm lim s stop fuel root {}).1 = .ok) (hu : Reach s root u) (hd : Dangling s u v) :
    Ev.missing v ∈ (gcrm lim s stop fuel root {}).2.log := by
  obtain ⟨h, hroot⟩ := gcrm_ok s stop lim fuel root {} (GInv.init s) (fun h => by cases h) hok
  exact h.inv.dlog u (h.inv.topo.closed hroot hu) v hd

/-- The only outcomes (with sufficient fuel). -/
theorem gcrm_outcomes (lim : Nat) (s : Store) (stop : Bool) (root k : Nat) (hr : root < s.length) :
    let o := (gcrm lim s stop (s.length + 1 + k) root {}).1
    o = .ok ∨ (o = .tooDeep ∧ lim < s.length) ∨ o = .cyclic ∨ (o = .missing ∧ stop = true) := by
  intro o
  obtain ⟨hne, heq⟩ := gcrm_fuel_suffices lim s stop root hr
  obtain ⟨_, hout⟩ := gcrm_safe s stop lim (s.length + 1 + k) root {} (GW.init s lim)
    (fun h => by cases h) hr
  rcases hout with h | h | h | h | h
  · exact Or.inl h
  · exact Or.inr (Or.inl h)
  · exact Or.inr (Or.inr (Or.inl h))
  · exact Or.inr (Or.inr (Or.inr h))
  · rw [heq k] at h; exact absurd h hne

/-! ### over-deep graphs: the general statement -/

/-- **ok_within_limit** — if the walk returns `Ok`, every claim reachable from the root is
reachable on a path of fewer than `lim` edges (the path on which the walker first entered it).
This holds for every branch of the ingredient loops, every labelling and every root. -/
theorem gcrm_ok_within_limit (lim : Nat) (s : Store) (stop : Bool) (fuel root : Nat)
    (hok : (gcrm lim s stop fuel root {}).1 = .ok) :
    ∀ v, Reach s root v → ∃ k, k < lim ∧ ReachIn s root k v := by
  intro v hv
  obtain ⟨_, _, hfin⟩ := gcrm_ok_finish_topological lim s stop fuel root hok
  obtain ⟨h, _⟩ := gcrm_ok s stop lim fuel root {} (GInv.init s) (fun h => by cases h) hok
  have hd := (gcrm_depth s stop root lim fuel root {} (GD.init s root lim) rfl).ok hok
  exact hd.1.minv v (h.inv.fm v (hfin v hv))

/-- `v` is **over-deep**: reachable from the root, and every path from the root to it has at
least `lim` edges (= passes through more than `lim` claims). -/
def OverDeep (lim : Nat) (s : Store) (root v : Nat) : Prop :=
  Reach s root v ∧ ∀ k, ReachIn s root k v → lim ≤ k

/-- **over_deep_rejected** — a graph with an over-deep claim is never walked successfully,
wherever the long paths hang (first or later ingredient, any labels, shared sub-graphs). -/
theorem gcrm_over_deep_rejected (lim : Nat) (s : Store) (stop : Bool) (fuel root v : Nat)
    (hod : OverDeep lim s root v) : (gcrm lim s stop fuel root {}).1 ≠ .ok := by
  intro hok
  obtain ⟨k, hk, hin⟩ := gcrm_ok_within_limit lim s stop fuel root hok v hod.1
  have := hod.2 k hin
  omega

/-- **rejections have witnesses** — the depth error is returned only when some path from the
root has `lim` edges or more, `CyclicIngredients` only when a reachable claim lies on a cycle. -/
theorem gcrm_rejection_witness (lim : Nat) (s : Store) (stop : Bool) (fuel root : Nat) :
    ((gcrm lim s stop fuel root {}).1 = .tooDeep → ∃ v k, ReachIn s root k v ∧ lim ≤ k) ∧
    ((gcrm lim s stop fuel root {}).1 = .cyclic → ∃ v, Reach s root v ∧ OnCycle s v) :=
  let h := gcrm_depth s stop root lim fuel root {} (GD.init s root lim) rfl
  ⟨h.deep, h.cyc⟩

/-- **ok ⇒ every reference was followed below the limit** — if the walk returns `Ok`, every
reachable claim `u` lies on a path of `k` edges from the root such that `k + 1 < lim`, as soon as
it references an existing claim at all. The depth test precedes the memo test, so this also
holds when the referenced claim has a short path of its own and was walked before
(`gcrm_arrival_too_deep`). -/
theorem gcrm_ok_references_below_limit (lim : Nat) (s : Store) (stop : Bool) (fuel root : Nat)
    (hok : (gcrm lim s stop fuel root {}).1 = .ok) :
    ∀ u v, Reach s root u → Edge s u v → ∃ k, k + 1 < lim ∧ ReachIn s root k u := by
  intro u v hu he
  obtain ⟨_, _, hfin⟩ := gcrm_ok_finish_topological lim s stop fuel root hok
  have hd := (gcrm_depth s stop root lim fuel root {} (GD.init s root lim) rfl).ok hok
  obtain ⟨k, hk, hall⟩ := hd.1.einv u (hfin u hu)
  exact ⟨k, hall v he, hk⟩

/-- a **reference nested at the limit**: `u → v` where every path from the root to `u` has at
least `lim - 1` edges, so `v` is nested under at least `lim` claims on each of them — even if `v`
also has a short path from the root. -/
def DeepRef (lim : Nat) (s : Store) (root u v : Nat) : Prop :=
  Reach s root u ∧ Edge s u v ∧ ∀ k, ReachIn s root k u → lim ≤ k + 1

/-- **deep_reference_rejected** — such a store is never walked successfully, whatever the order
of the ingredient assertions. (In which *other* cases a long path is rejected depends on that
order: the walk rejects exactly when it arrives somewhere with `lim` claims above; the harness
oracle `walk-depth-limit-accepted` / `depth-error-without-deep-walk` states that on the code.) -/
theorem gcrm_deep_reference_rejected (lim : Nat) (s : Store) (stop : Bool) (fuel root u v : Nat)
    (hd : DeepRef lim s root u v) : (gcrm lim s stop fuel root {}).1 ≠ .ok := by
  intro hok
  obtain ⟨k, hk, hin⟩ := gcrm_ok_references_below_limit lim s stop fuel root hok u v hd.1 hd.2.1
  have := hd.2.2 k hin
  omega

/-! ### chains -/

/-- The first ingredient of every claim `k < lim` names claim `k + 1`, and claims `0 … lim`
exist: the store contains a linear chain of `lim + 1` claims starting at claim 0 (whatever
else it contains). -/
def ChainPrefix (lim : Nat) (s : Store) : Prop :=
  lim < s.length ∧
    ∀ k, k < lim → ∃ c i rest, s[k]? = some c ∧ c.ings = i :: rest ∧ i.target = some (k + 1)

theorem gcrm_chain_aux (lim : Nat) (s : Store) (stop : Bool) (hch : ChainPrefix lim s) :
    ∀ (j k : Nat) (st : GSt) (n : Nat), k + j = lim → st.path.length = k →
      (∀ x ∈ st.path, x < k) → (∀ x ∈ st.map, x < k) → j + 1 ≤ n →
      (gcrm lim s stop n k st).1 = .tooDeep := by
  intro j
  induction j with
  | zero =>
    intro k st n hk hlen _ _ hn
    obtain ⟨n', rfl⟩ : ∃ n', n = n' + 1 := ⟨n - 1, by omega⟩
    rw [gcrm_succ]
    have : lim ≤ st.path.length := by omega
    simp [this]
  | succ j ih =>
    intro k st n hk hlen hp hm hn
    obtain ⟨n', rfl⟩ : ∃ n', n = n' + 1 := ⟨n - 1, by omega⟩
    rw [gcrm_succ]
    have h1 : ¬ lim ≤ st.path.length := by omega
    have h2 : k ∉ st.map := fun h => Nat.lt_irrefl _ (hm k h)
    obtain ⟨c, i, rest, hc, hi, ht⟩ := hch.2 k (by omega)
    simp only [h1, if_false, h2, hc, hi]
    rw [gLoop_cons]
    simp only [ht]
    have h3 : k + 1 < s.length := by have := hch.1; omega
    have h4 : k + 1 ∉ (gPush st k).path := by
      intro h
      rcases List.mem_cons.1 h with h | h
      · omega
      · have := hp _ h; omega
    simp only [h3, if_true, h4, if_false]
    have hrec := ih (k + 1) (gPre (gPush st k) k (k + 1)) n' (by omega)
      (by show (k :: st.path).length = k + 1; simp [hlen])
      (by
        intro x hx
        rcases List.mem_cons.1 hx with rfl | hx
        · omega
        · have := hp x hx; omega)
      (by
        intro x hx
        rcases List.mem_cons.1 hx with rfl | hx
        · omega
        · have := hm x hx; omega)
      (by omega)
    have hne : ¬ (gcrm lim s stop n' (k + 1) (gPre (gPush st k) k (k + 1))).1 = .ok := by
      rw [hrec]; decide
    simp [hrec]

/-- **chain_over_limit_rejected** — a store that contains a linear chain of more than `lim`
claims from the root (claim 0) is rejected with the depth error, for every fuel that does not
run out (`lim + 1` suffices) and both log behaviours. -/
theorem gcrm_chain_over_limit_rejected (lim : Nat) (s : Store) (stop : Bool) (k : Nat)
    (hch : ChainPrefix lim s) : (gcrm lim s stop (lim + 1 + k) 0 {}).1 = .tooDeep :=
  gcrm_chain_aux lim s stop hch lim 0 {} (lim + 1 + k) (by simp) rfl
    (fun _ h => by cases h) (fun _ h => by cases h) (by omega)

/-! ## `ingredient_checks` -/

theorem ic_init_iw (s : Store) (root : Nat) (hr : root < s.length) (log : List Ev) :
    IW s { visited := [root], log := log } :=
  ⟨List.nodup_cons.2 ⟨fun h => (by cases h), List.nodup_nil⟩, fun x hx => by
    rcases List.mem_cons.1 hx with rfl | hx
    · exact hr
    · cases hx⟩

/-- **fuel_suffices (ingredient_checks)** — measure: claims not yet in the visited set. -/
theorem ic_fuel_suffices (lim : Nat) (s : Store) (root : Nat) (hr : root < s.length)
    (log : List Ev) :
    (ic lim s (s.length + 1) 0 root { visited := [root], log := log }).1 ≠ .outOfFuel ∧
      ∀ k, ic lim s (s.length + 1 + k) 0 root { visited := [root], log := log } =
        ic lim s (s.length + 1) 0 root { visited := [root], log := log } := by
  have h := ic_fuel_unv s lim (s.length + 1) 0 root _ (ic_init_iw s root hr log) hr
    (by simp)
  exact ⟨h, ic_fuel_le s lim _ 0 root _ h⟩

/-- **depth_bounded (ingredient_checks)** — never more than `lim + 1` nested calls. -/
theorem ic_depth_bounded (lim : Nat) (s : Store) (root : Nat) (st : ISt) :
    (ic lim s (lim + 1) 0 root st).1 ≠ .outOfFuel ∧
      ∀ k, ic lim s (lim + 1 + k) 0 root st = ic lim s (lim + 1) 0 root st := by
  have h := ic_fuel_depth s lim (lim + 1) 0 root st (Nat.zero_le _) (by simp)
  exact ⟨h, ic_fuel_le s lim _ 0 root st h⟩

/-- **terminates_poly (ingredient_checks)** — at most `|V| - 1` recursive expansions and `|E|`
ingredient look-ups (hence at most `|E|` `verify_claim` calls), for every fuel and outcome. -/
theorem ic_terminates_poly (lim : Nat) (s : Store) (fuel root : Nat) (hr : root < s.length)
    (log : List Ev) :
    (ic lim s fuel 0 root { visited := [root], log := log }).2.exp + 1 ≤ s.length ∧
    (ic lim s fuel 0 root { visited := [root], log := log }).2.insp ≤ edgeCount s := by
  obtain ⟨h, _⟩ := ic_safe s lim fuel 0 root _ (ic_init_iw s root hr log) hr
  have hlen := nodup_length_le s.length _ h.iw.vnd h.iw.vlt
  have hdeg := degSum_le_edgeCount s _ h.iw.vnd h.iw.vlt
  have h1 := h.expg
  have h2 := h.inspg
  have e1 : ({ visited := [root], log := log } : ISt).visited = [root] := rfl
  have e2 : ({ visited := [root], log := log } : ISt).exp = 0 := rfl
  have e3 : ({ visited := [root], log := log } : ISt).insp = 0 := rfl
  rw [e1, e2] at h1
  rw [e1, e3, degSum_cons] at h2
  have e4 : degSum s [] = 0 := rfl
  rw [e4] at h2
  simp only [List.length_cons, List.length_nil] at h1
  exact ⟨by omega, by omega⟩

/-- The only outcomes of `ingredient_checks` on an existing claim (with sufficient fuel). -/
theorem ic_outcomes (lim : Nat) (s : Store) (root k : Nat) (hr : root < s.length) (log : List Ev) :
    let o := (ic lim s (s.length + 1 + k) 0 root { visited := [root], log := log }).1
    o = .ok ∨ o = .tooDeep ∨ o = .verifyFailed := by
  intro o
  obtain ⟨hne, heq⟩ := ic_fuel_suffices lim s root hr log
  obtain ⟨_, hout⟩ := ic_safe s lim (s.length + 1 + k) 0 root _ (ic_init_iw s root hr log) hr
  rcases hout with h | h | h | h
  · exact Or.inl h
  · exact Or.inr (Or.inl h)
  · exact Or.inr (Or.inr h)
  · rw [heq k] at h; exact absurd h hne

/-! ## `get_hash_binding_manifest` -/

/-- **binding_search_terminates** — fuel `|V| + 1` is never exhausted (measure: claims not yet
visited), more fuel changes nothing, at most `|V|` claims are examined, and a manifest that
is found is a non-update claim of the store carrying a hash assertion. -/
theorem binding_search_terminates (lim : Nat) (s : Store) (root : Nat) (hr : root < s.length) :
    (hb lim s (s.length + 1) root []).1 ≠ .outOfFuel ∧
    (∀ k, hb lim s (s.length + 1 + k) root [] = hb lim s (s.length + 1) root []) ∧
    (hb lim s (s.length + 1) root []).2.length ≤ s.length ∧
    ∀ l, (hb lim s (s.length + 1) root []).1 = .found l →
      ∃ c, s[l]? = some c ∧ c.update = false ∧ c.hasHash = true := by
  obtain ⟨h1, h2, h3⟩ := hb_fuel lim s (s.length + 1) root [] List.nodup_nil
    (fun _ h => by cases h) hr (by simp)
  exact ⟨h1, hb_fuel_le lim s _ root [] h1, nodup_length_le _ _ h2 h3,
    fun l hl => hb_found_sound lim s _ root [] l hl⟩

/-- **depth_bounded (hash-binding search)** — with the depth guard (fixes/C19-…patch) the
search is never more than `lim + 1` frames deep, whatever the store. -/
theorem binding_search_depth_bounded (lim : Nat) (s : Store) (root : Nat) :
    (hb lim s (lim + 1) root []).1 ≠ .outOfFuel ∧
      ∀ k, hb lim s (lim + 1 + k) root [] = hb lim s (lim + 1) root [] := by
  have h := hb_fuel_depth lim s (lim + 1) root [] (Nat.zero_le _) (by simp)
  exact ⟨h, hb_fuel_le lim s _ root [] h⟩

/-! ## `verify_store` (graph part) -/

theorem fuelFor_eq (s : Store) : fuelFor s = s.length + 1 + 0 := rfl

/-- **validation terminates** — the composed walk never runs out of the fuel `|V| + 1`. -/
theorem validate_terminates (lim : Nat) (s : Store) (root : Nat) :
    (validate lim s root).out ≠ .outOfFuel := by
  unfold validate
  cases hs : s[root]? with
  | none => simp
  | some c =>
    have hr : root < s.length := by
      rcases Nat.lt_or_ge root s.length with h' | h'
      · exact h'
      · rw [List.getElem?_eq_none h'] at hs; cases hs
    simp only
    by_cases hg : (gcrm lim s false (fuelFor s) root {}).1 = .ok
    · simp only [hg, if_true]
      have hb1 := (binding_search_terminates lim s root hr).1
      cases hh : (hb lim s (fuelFor s) root []).1 with
      | found l =>
        simp only
        by_cases hsig : c.sigOk = false
        · simp [hsig]
        · rw [if_neg hsig]
          exact (ic_fuel_suffices lim s root hr []).1
      | none => simp
      | outOfFuel => exact absurd hh hb1
    · simp only [hg, if_false]
      exact (gcrm_fuel_suffices lim s false root hr).1

theorem mem_reverse_all {l : List Ev} {e : Ev} (h : e ∈ l) (hf : e.isFailure = true)
    (rest₁ rest₂ : List Ev) : (rest₁ ++ l.reverse ++ rest₂).all (fun e => !e.isFailure) = false := by
  apply Bool.eq_false_iff.2
  intro hall
  have := List.all_eq_true.1 hall e (by simp [h])
  simp [hf] at this

/-- **never Valid** — if the composed walk yields a clean report (`Ok` and no failure logged)
then no reachable claim lies on a cycle and no reachable claim references a missing manifest. -/
theorem validate_clean_wellformed (lim : Nat) (s : Store) (root : Nat)
    (hclean : (validate lim s root).isClean = true) :
    (∀ v, Reach s root v → ¬ OnCycle s v) ∧ (∀ u v, Reach s root u → ¬ Dangling s u v) := by
  unfold VRes.isClean at hclean
  simp only [Bool.and_eq_true, beq_iff_eq] at hclean
  obtain ⟨hout, hlog⟩ := hclean
  unfold validate at hout hlog
  cases hs : s[root]? with
  | none => rw [hs] at hout; simp at hout
  | some c =>
    rw [hs] at hout hlog
    simp only at hout hlog
    by_cases hg : (gcrm lim s false (fuelFor s) root {}).1 = .ok
    · refine ⟨gcrm_ok_implies_acyclic lim s false _ root hg, ?_⟩
      intro u v hu hd
      have hm := gcrm_dangling_logged lim s false _ root u v hg hu hd
      simp only [hg, if_true] at hlog hout
      cases hh : (hb lim s (fuelFor s) root []).1 with
      | found l =>
        rw [hh] at hlog hout
        simp only at hlog hout
        by_cases hsig : c.sigOk = false
        · simp [hsig] at hout
        · rw [if_neg hsig] at hlog
          have := mem_reverse_all hm rfl []
            ([Ev.verify root] ++ (ic lim s (fuelFor s) 0 root { visited := [root], log := [] }).2.log.reverse)
          simp only [List.nil_append, List.append_assoc] at this hlog
          rw [this] at hlog; cases hlog
      | none => rw [hh] at hout; simp at hout
      | outOfFuel => rw [hh] at hout; simp at hout
    · rw [if_neg hg] at hout
      exact absurd hout hg

/-- **cycle_rejected (composed)** — a reachable cycle makes validation fail with
`CyclicIngredients` or the depth error; never a report. -/
theorem validate_cycle_rejected (lim : Nat) (s : Store) (root v : Nat)
    (hv : Reach s root v) (hc : OnCycle s v) (hr : root < s.length) :
    (validate lim s root).out = .cyclic ∨ (validate lim s root).out = .tooDeep := by
  have hcy := gcrm_cycle_rejected lim s false root v 0 hr hv hc
  unfold validate
  have hs : s[root]? = some s[root] := List.getElem?_eq_getElem hr
  rw [hs]
  simp only
  rw [fuelFor_eq]
  rcases hcy with h | ⟨h, _⟩ | ⟨_, h⟩
  · simp [h]
  · simp [h]
  · cases h

/-- **chain_over_limit_rejected (composed)**. -/
theorem validate_chain_over_limit_rejected (lim : Nat) (s : Store) (hch : ChainPrefix lim s) :
    (validate lim s 0).out = .tooDeep := by
  have h0 : 0 < s.length := by have := hch.1; omega
  have hfuel : fuelFor s = lim + 1 + (s.length - lim) := by unfold fuelFor; have := hch.1; omega
  have := gcrm_chain_over_limit_rejected lim s false (s.length - lim) hch
  unfold validate
  have hs : s[0]? = some s[0] := List.getElem?_eq_getElem h0
  rw [hs]
  simp only
  rw [hfuel]
  simp [this]

/-- **dangling_logged (composed)** — a reachable reference to a missing manifest makes
validation fail or puts `ingredient.manifest.missing` (a failure) in the report. -/
theorem validate_dangling_flagged (lim : Nat) (s : Store) (root u v : Nat)
    (hu : Reach s root u) (hd : Dangling s u v) :
    (validate lim s root).out ≠ .ok ∨ Ev.missing v ∈ (validate lim s root).log := by
  by_cases hok : (validate lim s root).out = .ok
  · right
    unfold validate at hok ⊢
    cases hs : s[root]? with
    | none => rw [hs] at hok; simp at hok
    | some c =>
      rw [hs] at hok
      simp only at hok ⊢
      by_cases hg : (gcrm lim s false (fuelFor s) root {}).1 = .ok
      · have hm := gcrm_dangling_logged lim s false _ root u v hg hu hd
        simp only [hg, if_true] at hok ⊢
        cases hh : (hb lim s (fuelFor s) root []).1 with
        | found l =>
          rw [hh] at hok
          simp only at hok ⊢
          by_cases hsig : c.sigOk = false
          · simp [hsig] at hok
          · rw [if_neg hsig]
            simp [hm]
        | none => rw [hh] at hok; simp at hok
        | outOfFuel => rw [hh] at hok; simp at hok
      · rw [if_neg hg] at hok
        exact absurd hok hg
  · exact Or.inl hok

/-- **dangling ⇒ Invalid (composition with C04)** — when validation returns a report although a
reachable claim references a missing manifest, then for *every* translation of log events into
validation statuses that renders the missing-manifest event as the failure code
`ingredient.manifest.missing`, and every initial results value, the validation state derived by
`ValidationResults::add_status` / `validation_state` (C04 model) is `Invalid`. -/
theorem validate_dangling_invalid (lim : Nat) (s : Store) (root u v : Nat)
    (hok : (validate lim s root).out = .ok) (hu : Reach s root u) (hd : Dangling s u v)
    (toStatus : Ev → C04.Status)
    (hmap : ∀ l, (toStatus (.missing l)).kind = .failure ∧
      (toStatus (.missing l)).code = C04.cManifestMissing)
    (r : C04.Results) :
    C04.state (((validate lim s root).log.map toStatus).foldl C04.addStatus r) = .invalid := by
  rcases validate_dangling_flagged lim s root u v hu hd with h | h
  · exact absurd hok h
  · refine C04.nontolerated_failure_in_sequence_invalid r _ (toStatus (.missing v))
      (List.mem_map.2 ⟨_, h, rfl⟩) (hmap v).1 ?_
    rw [(hmap v).2]
    exact C04.manifestMissing_not_tolerated

/-- **over_deep_rejected (composed)** — a store with an over-deep claim makes validation fail
with the depth error (or `CyclicIngredients` when it also has a reachable cycle): never a
report, hence never Valid. -/
theorem validate_over_deep_rejected (lim : Nat) (s : Store) (root v : Nat) (hr : root < s.length)
    (hod : OverDeep lim s root v) :
    (validate lim s root).out = .tooDeep ∨ (validate lim s root).out = .cyclic := by
  have hne := gcrm_over_deep_rejected lim s false (s.length + 1 + 0) root v hod
  have hout := gcrm_outcomes lim s false root 0 hr
  unfold validate
  have hs : s[root]? = some s[root] := List.getElem?_eq_getElem hr
  rw [hs]
  simp only
  rw [fuelFor_eq]
  rcases hout with h | ⟨h, _⟩ | h | ⟨_, h⟩
  · exact absurd h hne
  · simp [h]
  · simp [h]
  · cases h

/-- **deep_reference_rejected (composed)** — never a report, hence never Valid. -/
theorem validate_deep_reference_rejected (lim : Nat) (s : Store) (root u v : Nat)
    (hr : root < s.length) (hd : DeepRef lim s root u v) :
    (validate lim s root).out = .tooDeep ∨ (validate lim s root).out = .cyclic := by
  have hne := gcrm_deep_reference_rejected lim s false (s.length + 1 + 0) root u v hd
  have hout := gcrm_outcomes lim s false root 0 hr
  unfold validate
  have hs : s[root]? = some s[root] := List.getElem?_eq_getElem hr
  rw [hs]
  simp only
  rw [fuelFor_eq]
  rcases hout with h | ⟨h, _⟩ | h | ⟨_, h⟩
  · exact absurd h hne
  · simp [h]
  · simp [h]
  · cases h

/-- … and on an acyclic reachable graph the error is exactly the depth error. -/
theorem validate_over_deep_acyclic_rejected (lim : Nat) (s : Store) (root v : Nat)
    (hr : root < s.length) (hod : OverDeep lim s root v)
    (hac : ∀ w, Reach s root w → ¬ OnCycle s w) : (validate lim s root).out = .tooDeep := by
  rcases validate_over_deep_rejected lim s root v hr hod with h | h
  · exact h
  · exfalso
    have hg : (gcrm lim s false (fuelFor s) root {}).1 = .cyclic := by
      unfold validate at h
      have hs : s[root]? = some s[root] := List.getElem?_eq_getElem hr
      rw [hs] at h
      simp only at h
      by_cases hg : (gcrm lim s false (fuelFor s) root {}).1 = .ok
      · exact absurd hg (gcrm_over_deep_rejected lim s false _ root v hod)
      · rw [if_neg hg] at h; exact h
    obtain ⟨w, hw, hc⟩ := (gcrm_rejection_witness lim s false _ root).2 hg
    exact hac w hw hc

/-- **wellformed ⇒ clean** (the converse of `validate_clean_wellformed`) — when the part of the
store reachable from the root has no dangling reference, only paths of fewer than `lim` edges
(which excludes cycles, `WF.acyclic`), signatures that parse and hashed URIs carrying the right hash, and the active
claim has a hard binding, the composed walk returns `Ok` and logs no failure. So the model does
not reject everything, and the depth limit is not off by one (a chain of exactly `lim` claims has
paths of at most `lim - 1` edges). -/
theorem validate_wellformed_clean (lim : Nat) (s : Store) (root : Nat) (hwf : WF s root lim)
    (hbf : ∃ l, (hb lim s (fuelFor s) root []).1 = .found l) :
    (validate lim s root).isClean = true := by
  have hac := hwf.acyclic
  have hr := hwf.root_lt
  have hs : s[root]? = some s[root] := List.getElem?_eq_getElem hr
  have hdep := gcrm_depth s false root lim (fuelFor s) root {} (GD.init s root lim) rfl
  have hg : (gcrm lim s false (fuelFor s) root {}).1 = .ok := by
    have hout := gcrm_outcomes lim s false root 0 hr
    rw [← fuelFor_eq] at hout
    rcases hout with h | ⟨h, _⟩ | h | ⟨_, h⟩
    · exact h
    · obtain ⟨v, k, hin, hk⟩ := hdep.deep h
      have := hwf.depth v k hin
      omega
    · obtain ⟨v, hv, hc⟩ := hdep.cyc h
      exact absurd hc (hac v hv)
    · cases h
  have hglog : ∀ e ∈ (gcrm lim s false (fuelFor s) root {}).2.log, e.isFailure = false := by
    intro e he
    obtain ⟨u, v, _, hu, hd⟩ := (hdep.ok hg).1.linv e he
    exact absurd hd (hwf.nd u v hu)
  have hsig : ¬ s[root].sigOk = false := by
    rw [hwf.sig root s[root] .refl hs]; decide
  obtain ⟨hio, hil⟩ := ic_clean s root lim hwf (fuelFor s) 0 root { visited := [root], log := [] }
    .refl (fun _ h => by cases h)
  have hiok : (ic lim s (fuelFor s) 0 root { visited := [root], log := [] }).1 = .ok := by
    rcases hio with h | h
    · exact h
    · exact absurd h (ic_fuel_suffices lim s root hr []).1
  obtain ⟨l, hl⟩ := hbf
  unfold VRes.isClean validate
  rw [hs]
  simp only [hg, if_true, hl]
  rw [if_neg hsig]
  simp only [hiok, beq_self_eq_true, Bool.true_and, List.all_eq_true, List.mem_append,
    List.mem_reverse, List.mem_singleton]
  rintro e ((he | he) | he)
  · simp [hglog e he]
  · subst he; rfl
  · simp [hil e he]

/-! ### composition with `ValidationResults::from_store` (the real filter) and C04 -/

theorem scopeLog_fst (lim : Nat) (s : Store) (root : Nat) :
    (scopeLog lim s root).map Prod.fst = (validate lim s root).log := by
  unfold scopeLog validate
  cases hs : s[root]? with
  | none => rfl
  | some c =>
    simp only
    by_cases hg : (gcrm lim s false (fuelFor s) root {}).1 = .ok
    · simp only [hg, if_true]
      cases hh : (hb lim s (fuelFor s) root []).1 with
      | found l =>
        simp only
        by_cases hsig : c.sigOk = false
        · simp [hsig, Function.comp_def]
        · rw [if_neg hsig, if_neg hsig]
          simp [Function.comp_def]
      | none => simp [Function.comp_def]
      | outOfFuel => simp [Function.comp_def]
    · rw [if_neg hg, if_neg hg]
      simp [Function.comp_def]

/-- the missing-manifest event of `get_claim_referenced_manifests` is logged in the scope of the
active claim -/
theorem scopeLog_dangling_active (lim : Nat) (s : Store) (root u v : Nat)
    (hok : (validate lim s root).out = .ok) (hu : Reach s root u) (hd : Dangling s u v) :
    (Ev.missing v, false) ∈ scopeLog lim s root := by
  unfold validate at hok
  unfold scopeLog
  cases hs : s[root]? with
  | none => rw [hs] at hok; simp at hok
  | some c =>
    rw [hs] at hok
    simp only at hok ⊢
    by_cases hg : (gcrm lim s false (fuelFor s) root {}).1 = .ok
    · have hm := gcrm_dangling_logged lim s false _ root u v hg hu hd
      have hm' : (Ev.missing v, false) ∈
          (gcrm lim s false (fuelFor s) root {}).2.log.reverse.map fun e => (e, false) :=
        List.mem_map.2 ⟨_, List.mem_reverse.2 hm, rfl⟩
      simp only [hg, if_true] at hok ⊢
      cases hh : (hb lim s (fuelFor s) root []).1 with
      | found l =>
        rw [hh] at hok
        simp only at hok ⊢
        by_cases hsig : c.sigOk = false
        · simp [hsig] at hok
        · rw [if_neg hsig]
          exact List.mem_append_left _ (List.mem_append_left _ hm')
      | none => rw [hh] at hok; simp at hok
      | outOfFuel => rw [hh] at hok; simp at hok
    · rw [if_neg hg] at hok
      exact absurd hok hg

/-- **dangling ⇒ Invalid, through the real `from_store` filter** — when validation returns a
report although a reachable claim references a missing manifest, the Reader's state is `Invalid`

* for every rendering of the walkers' events as logged statuses (`render`; `verify_claim` logs
  many) that renders a missing-manifest event as the failure `ingredient.manifest.missing` in
  the scope the event was logged in,
* for every URL the statuses carry (`sts` decorates the log),
* **for every content of the ingredient assertions of the store** (`recs`, written by the signers
  of the manifests under validation — they may pre-record an equal status), every active label,
  every initial results value.

The status that survives is the one `get_claim_referenced_manifests` logs: it is logged before
any ingredient URI is pushed, and `from_store` (after
`fixes/C20-from-store-active-claim-status-filter.patch`) never filters such a status. The
second `ingredient.manifest.missing` logged by `ingredient_checks` is ingredient-scoped and *is*
dropped when pre-recorded; before that repair both were (finding `malformed-reported-valid`,
replayed by the harness with pre-recorded statuses). -/
theorem validate_dangling_invalid_filtered (lim : Nat) (s : Store) (root u v : Nat)
    (hok : (validate lim s root).out = .ok) (hu : Reach s root u) (hd : Dangling s u v)
    (render : Ev → Bool → List C20.Ev)
    (hren : ∀ l sc, C20.fail "ingredient.manifest.missing" sc ∈ render (.missing l) sc)
    (sts : List C20.St)
    (hdec : C20.Decorates sts ((scopeLog lim s root).flatMap fun p => render p.1 p.2))
    (active : C34.Str) (recs : List C20.Rec) (uriOf : C20.St → List Char) (r0 r : C04.Results)
    (h : C20.reportS active recs uriOf r0 sts = some r) : C04.state r = .invalid := by
  have hm := scopeLog_dangling_active lim s root u v hok hu hd
  refine C20.active_scope_failure_invalid _ (C20.fail "ingredient.manifest.missing" false) ?_ rfl rfl
    C04.manifestMissing_not_tolerated sts hdec active recs uriOf r0 r h
  exact List.mem_flatMap.2 ⟨_, hm, hren v false⟩

/-! ### composed step bound -/

/-- **terminates_poly (composed)** — the three walkers of one `validate` together perform at most
`3·|V| + (lim + 2)·|E|` counted steps: claim expansions, ingredient-loop iterations (every
ingredient assertion examined, with or without a manifest reference), label comparisons of the
cycle test, and claims examined by the hash-binding search. Hash-set and hash-map operations count as
one step each. -/
theorem validate_cost_poly (lim : Nat) (s : Store) (root : Nat) (hr : root < s.length) :
    (gcrm lim s false (fuelFor s) root {}).2.exp + (gcrm lim s false (fuelFor s) root {}).2.insp +
      (gcrm lim s false (fuelFor s) root {}).2.cmps + (hb lim s (fuelFor s) root []).2.length +
      (ic lim s (fuelFor s) 0 root { visited := [root], log := [] }).2.exp +
      (ic lim s (fuelFor s) 0 root { visited := [root], log := [] }).2.insp
      ≤ 3 * s.length + (lim + 2) * edgeCount s := by
  obtain ⟨g1, g2, g3⟩ := gcrm_terminates_poly lim s false (fuelFor s) root hr
  obtain ⟨_, _, h3, _⟩ := binding_search_terminates lim s root hr
  obtain ⟨i1, i2⟩ := ic_terminates_poly lim s (fuelFor s) root hr []
  have hh : (hb lim s (fuelFor s) root []).2.length ≤ s.length := h3
  have hc : lim * (gcrm lim s false (fuelFor s) root {}).2.insp ≤ lim * edgeCount s :=
    Nat.mul_le_mul_left _ g2
  rw [Nat.add_mul]
  omega

/-! ## Non-vacuity and the interpretive point (small limit so that `decide` is cheap) -/

def cl (ings : List (Option Nat)) : Claim :=
  { ings := ings.map fun t => { target := t, parent := false, hashOk := false },
    update := false, hasHash := true, sigOk := true }

/-- chain 0→1→2→3 : 4 claims -/
def exChain4 : Store := [cl [some 1], cl [some 2], cl [some 3], cl []]
/-- DAG whose longest path 0→1→2→3→4 has 5 claims but every claim is first reached at depth ≤ 1 -/
def exDag : Store := [cl [some 4, some 3, some 2, some 1], cl [some 2], cl [some 3], cl [some 4], cl []]
def exCycle : Store := [cl [some 1], cl [some 2], cl [some 1]]
def exSelf : Store := [cl [some 0]]
def exDangling : Store := [cl [some 1, some 7], cl []]

example : ChainPrefix 3 exChain4 := by
  refine ⟨by decide, ?_⟩
  intro k hk
  match k, hk with
  | 0, _ => exact ⟨_, _, _, rfl, rfl, rfl⟩
  | 1, _ => exact ⟨_, _, _, rfl, rfl, rfl⟩
  | 2, _ => exact ⟨_, _, _, rfl, rfl, rfl⟩
example : (validate 3 exChain4 0).out = .tooDeep := by decide
/-- (`cl` builds hashed URIs that do *not* carry the target's hash: a report with
`ingredient.manifest.mismatch`; the positive witnesses with matching hashes are at the end) -/
example : (validate 4 exChain4 0).isClean = false ∧ (validate 4 exChain4 0).out = .ok := by decide
/-- **The interpretive point**: longest path 5 > limit 3, accepted. -/
theorem dag_not_over_deep : (validate 3 exDag 0).out = .ok := by decide
example : (validate 3 exCycle 0).out = .cyclic := by decide
example : (validate 200 exSelf 0).out = .cyclic := by decide
example : OnCycle exSelf 0 := ⟨0, ⟨_, rfl, _, List.mem_cons_self .., rfl, by decide⟩, .refl⟩
example : Dangling exDangling 0 7 :=
  ⟨_, rfl, _, List.mem_cons_of_mem _ (List.mem_cons_self ..), rfl, by decide⟩
example : (validate 200 exDangling 0).out = .ok ∧ Ev.missing 7 ∈ (validate 200 exDangling 0).log := by
  decide
example : (hb 200 [ { cl [] with update := true, ings := [{ target := some 1, parent := true, hashOk := false }] },
    cl [] ] 3 0 []).1 = .found 1 := by decide

/-! ### positive witnesses (hashed URIs that match) -/

def clh (ings : List Nat) : Claim :=
  { ings := ings.map fun t => { target := some t, parent := false, hashOk := true },
    update := false, hasHash := true, sigOk := true }

def exGoodChain4 : Store := [clh [1], clh [2], clh [3], clh []]
def exGoodDiamond : Store := [clh [1, 2], clh [3], clh [3], clh []]
/-- the over-deep chain hangs off the *second* ingredient of the root, labels not in path order -/
def exSecondDeep : Store := [clh [4, 2], clh [], clh [3], clh [1], clh []]

/-- exactly at the limit: 4 claims, limit 4 — clean; one claim more than the limit — rejected -/
example : (validate 4 exGoodChain4 0).isClean = true := by decide
example : (validate 3 exGoodChain4 0).out = .tooDeep := by decide
example : (validate 3 exGoodDiamond 0).isClean = true := by decide
example : (validate 3 exSecondDeep 0).out = .tooDeep := by decide
example : (validate 4 exSecondDeep 0).isClean = true := by decide

theorem exTwo_edge (a b : Nat) : Edge [clh [1], clh []] a b ↔ a = 0 ∧ b = 1 := by
  constructor
  · rintro ⟨c, hc, i, hi, ht, _⟩
    match a with
    | 0 =>
      simp only [List.getElem?_cons_zero, Option.some.injEq] at hc
      subst hc
      simp [clh] at hi
      subst hi
      simp at ht
      exact ⟨rfl, ht.symm⟩
    | 1 =>
      simp at hc
      subst hc
      simp [clh] at hi
    | n + 2 => simp at hc
  · rintro ⟨rfl, rfl⟩
    exact ⟨_, rfl, _, List.mem_cons_self .., rfl, by decide⟩

theorem exTwo_reachIn (k v : Nat) (h : ReachIn [clh [1], clh []] 0 k v) :
    (k = 0 ∧ v = 0) ∨ (k = 1 ∧ v = 1) := by
  induction h with
  | refl => exact Or.inl ⟨rfl, rfl⟩
  | step _ he ih =>
    obtain ⟨rfl, rfl⟩ := (exTwo_edge _ _).1 he
    rcases ih with ⟨rfl, _⟩ | ⟨_, h⟩
    · exact Or.inr ⟨rfl, rfl⟩
    · cases h

/-- the hypotheses of `validate_wellformed_clean` are satisfiable by a store with an edge -/
example : WF [clh [1], clh []] 0 2 := by
  have hreach : ∀ u, Reach [clh [1], clh []] 0 u → u = 0 ∨ u = 1 := by
    intro u hu
    obtain ⟨k, hk⟩ := hu.reachIn
    rcases exTwo_reachIn k u hk with ⟨_, h⟩ | ⟨_, h⟩
    · exact Or.inl h
    · exact Or.inr h
  refine ⟨by decide, ?_, ?_, ?_, ?_⟩
  · rintro u v hu ⟨c, hc, i, hi, ht, hv⟩
    rcases hreach u hu with rfl | rfl
    · simp only [List.getElem?_cons_zero, Option.some.injEq] at hc
      subst hc
      simp [clh] at hi
      subst hi
      simp at ht
      subst ht
      simp at hv
    · simp at hc
      subst hc
      simp [clh] at hi
  · intro u c hu hc
    rcases hreach u hu with rfl | rfl
    · simp at hc; subst hc; rfl
    · simp at hc; subst hc; rfl
  · intro u c hu hc i hi v _
    rcases hreach u hu with rfl | rfl
    · simp at hc; subst hc; simp [clh] at hi; subst hi; rfl
    · simp at hc; subst hc; simp [clh] at hi
  · intro v k hk
    rcases exTwo_reachIn k v hk with ⟨rfl, _⟩ | ⟨rfl, _⟩ <;> decide

/-- an over-deep claim that `ChainPrefix` does not see (`exSecondDeep`, limit 3): claim 1 is only
reachable through 0 → 2 → 3 → 1 -/
example : (validate 3 exSecondDeep 0).out ≠ .ok ∧ ¬ ChainPrefix 3 exSecondDeep := by
  refine ⟨by decide, ?_⟩
  rintro ⟨_, h⟩
  obtain ⟨c, i, rest, hc, hi, ht⟩ := h 0 (by decide)
  simp [exSecondDeep] at hc
  subst hc
  simp [clh] at hi
  obtain ⟨rfl, _⟩ := hi
  simp at ht

/-- a chain 0 → 1 → 2 → 3 whose tail the root also lists directly, before or after the chain:
claim 3 has a path of one edge (it is not `OverDeep`), yet with limit 3 the chain nests it under
three claims and the store is rejected in both orders; the reference 2 → 3 is a `DeepRef` -/
def exShortcutFirst : Store := [clh [3, 1], clh [2], clh [3], clh []]
def exShortcutLast : Store := [clh [1, 3], clh [2], clh [3], clh []]
example : (validate 3 exShortcutFirst 0).out = .tooDeep ∧ (validate 3 exShortcutLast 0).out = .tooDeep ∧
    (validate 4 exShortcutFirst 0).isClean = true := by decide
/-- where the order matters: 0 → 3 → 4 and 0 → 1 → 2 → 3, limit 4 — the short side first is
accepted, the long side first is rejected (then 3 is entered with three claims above it and its
reference to 4 arrives at the limit) -/
example : (validate 4 [clh [3, 1], clh [2], clh [3], clh [4], clh []] 0).isClean = true ∧
    (validate 4 [clh [1, 3], clh [2], clh [3], clh [4], clh []] 0).out = .tooDeep := by decide

/-- scopes: the walker's missing event is active-scope, `ingredient_checks`' one is not -/
example : scopeLog 200 exDangling 0 =
    [(.missing 7, false), (.verify 0, false), (.mismatch 1, true), (.verify 1, true),
      (.missing 7, true)] := by decide

end C2pa.C19
