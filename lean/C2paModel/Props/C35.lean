import C2paModel.Model.C35
/-
C35 — property theorems (stream chunking and I/O faults), for the stream-reading code that
is modelled: the sniff loop of `container_from_stream`, `read_exact`-style loops,
`read_to_vec`, and `BoxReader::read_header`.

Statement: signing and reading give identical results when the underlying streams return
data in arbitrarily small pieces; when a stream fails the operation returns an error.

A *schedule* assigns to every `read` call the most it may return (`0` = I/O error); the
theorems quantify over **every** schedule, every stream content and every position.
Whole-operation behaviour (all handlers, sign/read) is explored on the implementation by
the fault/short-read sweeps of the harness; it is not a theorem (see registry/C35.json).
-/
namespace C2pa.C35

open C2pa.C11 (Fmt b sliceEq id3Size firstMatch)

/-- No read of the schedule fails. -/
def NoFault (sched : List Nat) : Prop := ∀ k ∈ sched, k ≠ 0

theorem take_split {α} (l : List α) (m w : Nat) (h : m ≤ w) :
    l.take w = l.take m ++ (l.drop (l.take m).length).take (w - (l.take m).length) := by
  induction l generalizing m w with
  | nil => simp
  | cons a t ih =>
    cases m with
    | zero => simp
    | succ m' =>
      cases w with
      | zero => omega
      | succ w' =>
        have := ih m' w' (by omega)
        simp only [List.take_succ_cons, List.length_cons, List.drop_succ_cons, List.cons_append,
          Nat.add_sub_add_right]
        rw [← this]

/-- One successful read hands out a non-empty prefix of what remains (unless nothing remains). -/
theorem readOnce_ok (s : St) (want : Nat) (hn : NoFault s.sched) (hw : 0 < want) :
    ∃ m s', 1 ≤ m ∧ m ≤ want ∧
      readOnce s want = (some ((s.data.drop s.pos).take m), s') ∧
      s'.data = s.data ∧ s'.pos = s.pos + ((s.data.drop s.pos).take m).length ∧
      NoFault s'.sched := by
  unfold readOnce
  have hw' : want ≠ 0 := by omega
  simp only [hw', if_false]
  cases hs : s.sched with
  | nil =>
    refine ⟨want, _, hw, Nat.le_refl _, rfl, rfl, rfl, ?_⟩
    intro k hk; simp [hs] at hk
  | cons k rest =>
    cases k with
    | zero => exact absurd rfl (hn 0 (by simp [hs]))
    | succ k' =>
      refine ⟨min want (k' + 1), _, by omega, Nat.min_le_left _ _, rfl, rfl, rfl, ?_⟩
      intro j hj
      exact hn j (by simp [hs]; right; exact hj)

/-- **The fill loop is independent of chunking**: under every fault-free schedule it returns
exactly the next `want` bytes (or all that remain) and advances the position by that much. -/
theorem readFill_chunk_independent :
    ∀ (fuel : Nat) (s : St) (want : Nat), want ≤ fuel → NoFault s.sched →
      ∃ s', readFill fuel s want = (some ((s.data.drop s.pos).take want), s') ∧
        s'.data = s.data ∧ s'.pos = s.pos + ((s.data.drop s.pos).take want).length ∧
        NoFault s'.sched := by
  intro fuel
  induction fuel with
  | zero =>
    intro s want hle hn
    have : want = 0 := by omega
    subst this
    exact ⟨s, by simp [readFill], rfl, by simp, hn⟩
  | succ fuel ih =>
    intro s want hle hn
    by_cases hw : want = 0
    · subst hw
      exact ⟨s, by simp [readFill], rfl, by simp, hn⟩
    · obtain ⟨m, s1, hm1, hm2, hro, hd, hp, hn1⟩ := readOnce_ok s want hn (by omega)
      unfold readFill
      simp only [hw, if_false, hro]
      cases hbs : (s.data.drop s.pos).take m with
      | nil =>
        -- nothing was read although m ≥ 1: nothing remains
        have hrem : s.data.drop s.pos = [] := by
          cases hr : s.data.drop s.pos with
          | nil => rfl
          | cons a t =>
            rw [hr] at hbs
            cases m with
            | zero => omega
            | succ m' => simp at hbs
        refine ⟨s1, by simp [hrem], hd, ?_, hn1⟩
        rw [hp, hbs, hrem]; simp
      | cons a t =>
        have hsplit := take_split (s.data.drop s.pos) m want hm2
        rw [hbs] at hp hsplit
        obtain ⟨s2, hrf, hd2, hp2, hn2⟩ :=
          ih s1 (want - (a :: t).length) (by simp; omega) hn1
        have hrem1 : s1.data.drop s1.pos = (s.data.drop s.pos).drop (a :: t).length := by
          rw [hd, hp, List.drop_drop]
        rw [hrem1] at hrf hp2
        simp only [hrf]
        refine ⟨s2, ?_, by rw [hd2, hd], ?_, hn2⟩
        · rw [← hsplit]
        · rw [hp2, hp, hsplit, List.length_append]; omega

/-- `read_exact` under every fault-free schedule: the requested slice, or `UnexpectedEof`
exactly when fewer than `want` bytes remain. -/
theorem readExact_chunk_independent (s : St) (want : Nat) (hn : NoFault s.sched) :
    (readExact s want).1 =
      if want ≤ (s.data.drop s.pos).length then .ok ((s.data.drop s.pos).take want)
      else .error .eof := by
  obtain ⟨s', hrf, _, _, _⟩ := readFill_chunk_independent want s want (Nat.le_refl _) hn
  unfold readExact
  rw [hrf]
  dsimp only
  have hl : ((s.data.drop s.pos).take want).length = min want (s.data.drop s.pos).length :=
    List.length_take
  by_cases h : want ≤ (s.data.drop s.pos).length
  · have hc : ((s.data.drop s.pos).take want).length = want := by rw [hl]; omega
    rw [if_pos hc, if_pos h]
  · have hc : ¬ ((s.data.drop s.pos).take want).length = want := by rw [hl]; omega
    rw [if_neg hc, if_neg h]

/-- A fault that is reached is never turned into data: if the fill loop returns bytes, no
schedule entry it consumed was a fault. -/
theorem readFill_ok_consumed_no_fault :
    ∀ (fuel : Nat) (s : St) (want : Nat) (bs : List UInt8) (s' : St),
      readFill fuel s want = (some bs, s') →
      ∃ consumed, s.sched = consumed ++ s'.sched ∧ NoFault consumed := by
  intro fuel
  induction fuel with
  | zero =>
    intro s want bs s' h
    simp [readFill] at h
    exact ⟨[], by simp [h.2], by intro k hk; cases hk⟩
  | succ fuel ih =>
    intro s want bs s' h
    unfold readFill at h
    by_cases hw : want = 0
    · simp [hw] at h
      exact ⟨[], by simp [h.2], by intro k hk; cases hk⟩
    · simp only [hw, if_false] at h
      -- one readOnce step
      have hstep : ∀ r s1, readOnce s want = (r, s1) →
          ∃ c, s.sched = c ++ s1.sched ∧ (r ≠ none → NoFault c) := by
        intro r s1 hr
        unfold readOnce at hr
        simp only [hw, if_false] at hr
        cases hs : s.sched with
        | nil =>
          rw [hs] at hr; simp at hr
          exact ⟨[], by simp [← hr.2, hs], fun _ => by intro k hk; cases hk⟩
        | cons k rest =>
          rw [hs] at hr
          cases k with
          | zero =>
            simp at hr
            exact ⟨[0], by simp [← hr.2], fun hne => absurd hr.1.symm hne⟩
          | succ k' =>
            simp at hr
            refine ⟨[k' + 1], by simp [← hr.2], fun _ => ?_⟩
            intro j hj; simp at hj; omega
      cases hro : readOnce s want with
      | mk r s1 =>
        obtain ⟨c, hc, hnf⟩ := hstep r s1 hro
        rw [hro] at h
        cases r with
        | none => simp at h
        | some got =>
          have hcn := hnf (by simp)
          cases got with
          | nil =>
            simp at h
            exact ⟨c, by rw [hc, h.2], hcn⟩
          | cons a t =>
            simp only at h
            cases hrec : readFill fuel s1 (want - (a :: t).length) with
            | mk r2 s2 =>
              rw [hrec] at h
              cases r2 with
              | none => simp at h
              | some more =>
                simp at h
                obtain ⟨c2, hc2, hn2⟩ := ih s1 _ more s2 hrec
                refine ⟨c ++ c2, by rw [hc, hc2, ← h.2, List.append_assoc], ?_⟩
                intro k hk
                rcases List.mem_append.1 hk with hk | hk
                · exact hcn k hk
                · exact hn2 k hk

/-- `read_to_vec` under every fault-free schedule equals the full-read result. -/
theorem readToVec_chunk_independent (data : List UInt8) (pos want : Nat) (sched : List Nat)
    (hn : NoFault sched) :
    readToVec data pos want sched false = readToVec data pos want [] false := by
  unfold readToVec
  by_cases h1 : pos + want ≥ 2 ^ 64
  · simp [h1]
  · by_cases h2 : pos + want > data.length
    · simp [h1, h2]
    · simp only [h1, h2, if_false]
      have hf : sched.filter (· ≠ 0) = sched := by
        apply List.filter_eq_self.2; intro k hk; simpa using hn k hk
      have e1 := readFill_chunk_independent want { data := data, pos := pos, sched := sched } want
        (Nat.le_refl _) hn
      have e2 := readFill_chunk_independent want { data := data, pos := pos, sched := [] } want
        (Nat.le_refl _) (by intro k hk; cases hk)
      obtain ⟨_, h1', _⟩ := e1
      obtain ⟨_, h2', _⟩ := e2
      simp only [Bool.false_eq_true, if_false, hf, List.filter_nil, h1', h2']

/-- `read_to_vec`: a delivered fault is an error, never data. -/
theorem readToVec_fault_is_error (data : List UInt8) (pos want : Nat) (sched : List Nat) :
    readToVec data pos want sched true = none := by
  unfold readToVec
  by_cases h1 : pos + want ≥ 2 ^ 64
  · simp [h1]
  · by_cases h2 : pos + want > data.length <;> simp [h1, h2]

/-! ### The sniff: chunk independence (after the fill-loop repair of `container_from_stream`) -/

theorem rules_eq (pdf : Bool) (data : List UInt8) :
    C2pa.C11.rules pdf data =
      rulesB pdf (data.take 16) (sliceEq data (10 + id3Size (data.take 16)) (b "fLaC")) := by
  cases pdf <;> simp [C2pa.C11.rules, rulesB]

/-- **Sniffing does not depend on chunking**: under every fault-free schedule the detected
container is the one detected from a full read (C11's `detect`). -/
theorem sniff_chunk_independent (pdf : Bool) (data : List UInt8) (sched : List Nat)
    (hn : NoFault sched) : sniff pdf data sched = C2pa.C11.detect pdf data := by
  obtain ⟨s1, hrf, hd, hp, hn1⟩ :=
    readFill_chunk_independent 16 { data := data, pos := 0, sched := sched } 16 (Nat.le_refl _) hn
  unfold sniff C2pa.C11.detect
  simp only [List.drop_zero] at hrf
  rw [hrf]
  dsimp only
  by_cases hlen : (data.take 16).length < 2
  · rw [if_pos hlen, if_pos hlen]
  · rw [if_neg hlen, if_neg hlen]
    have hpeek := readExact_chunk_independent
      { s1 with pos := 10 + id3Size (data.take 16) } 4 hn1
    have hd' : s1.data = data := hd
    rw [hd'] at hpeek ⊢
    rw [rules_eq, hpeek]
    congr 1
    unfold sliceEq
    have hb : (b "fLaC").length = 4 := by decide
    rw [hb]
    by_cases h4 : 4 ≤ (List.drop (10 + id3Size (List.take 16 data)) data).length
    · rw [if_pos h4]
    · rw [if_neg h4]
      -- fewer than 4 bytes there: the full-read slice cannot equal the 4-byte marker
      have hne : (List.take 4 (List.drop (10 + id3Size (List.take 16 data)) data)) ≠ b "fLaC" := by
        intro heq
        have := congrArg List.length heq
        rw [List.length_take, hb] at this
        omega
      rw [beq_eq_false_iff_ne.2 hne]

/-- `read_exact` with its post-state, under every fault-free schedule. -/
theorem readExact_spec (s : St) (want : Nat) (hn : NoFault s.sched) :
    ∃ s', readExact s want =
        ((if want ≤ (s.data.drop s.pos).length then .ok ((s.data.drop s.pos).take want)
          else .error .eof), s') ∧
      s'.data = s.data ∧ s'.pos = s.pos + ((s.data.drop s.pos).take want).length ∧
      NoFault s'.sched := by
  obtain ⟨s', hrf, hd, hp, hn'⟩ := readFill_chunk_independent want s want (Nat.le_refl _) hn
  refine ⟨s', ?_, hd, hp, hn'⟩
  unfold readExact
  rw [hrf]
  dsimp only
  have hl : ((s.data.drop s.pos).take want).length = min want (s.data.drop s.pos).length :=
    List.length_take
  by_cases h : want ≤ (s.data.drop s.pos).length
  · have hc : ((s.data.drop s.pos).take want).length = want := by rw [hl]; omega
    rw [if_pos hc, if_pos h]
  · have hc : ¬ ((s.data.drop s.pos).take want).length = want := by rw [hl]; omega
    rw [if_neg hc, if_neg h]

/-- The header as a function of the stream content alone (what a full-read stream yields). -/
def headerOf (data : List UInt8) : Option Hdr :=
  if data = [] then some .empty
  else if data.length < 8 then some .eof
  else
    let size := be (data.take 4)
    let typ := be ((data.drop 4).take 4)
    if size = 1 then
      (if 16 ≤ data.length then some (.ok typ (be ((data.drop 8).take 8))) else some .eof)
    else some (.ok typ size)

/-- **`BoxReader::read_header` is independent of chunking** (after the repair that completes a
short first read): under every fault-free schedule the result is `headerOf data`. -/
theorem readHeader_chunk_independent (data : List UInt8) (sched : List Nat) (hn : NoFault sched) :
    readHeader data sched = headerOf data := by
  obtain ⟨m, s1, hm1, hm2, hro, hd1, hp1, hn1⟩ :=
    readOnce_ok { data := data, pos := 0, sched := sched } 8 hn (by decide)
  simp only [List.drop_zero, Nat.zero_add] at hro hp1
  have hd1' : s1.data = data := hd1
  unfold readHeader headerOf
  rw [hro]
  cases hbs : data.take m with
  | nil =>
    have : data = [] := by
      cases data with
      | nil => rfl
      | cons a t => cases m with
        | zero => omega
        | succ m' => simp at hbs
    simp [this]
  | cons a t =>
    have hne : data ≠ [] := by intro h; rw [h] at hbs; simp at hbs
    have hlen : (a :: t).length = min m data.length := by rw [← hbs, List.length_take]
    obtain ⟨s2, hre, hd2, hp2, hn2⟩ := readExact_spec s1 (8 - (a :: t).length) hn1
    rw [hd1', hp1, hbs] at hre hp2
    dsimp only
    rw [hre]
    have hdl : (data.drop (a :: t).length).length = data.length - (a :: t).length := List.length_drop
    by_cases h8 : data.length < 8
    · have : ¬ (8 - (a :: t).length ≤ (data.drop (a :: t).length).length) := by rw [hdl]; omega
      rw [if_neg this]
      simp [hne, h8]
    · have hfit : 8 - (a :: t).length ≤ (data.drop (a :: t).length).length := by rw [hdl]; omega
      rw [if_pos hfit]
      dsimp only
      have hbuf : (a :: t) ++ (data.drop (a :: t).length).take (8 - (a :: t).length) = data.take 8 := by
        have := take_split data m 8 hm2
        rw [hbs] at this
        exact this.symm
      rw [hbuf]
      have hd2' : s2.data = data := by rw [hd2, hd1']
      have hp2' : s2.pos = 8 := by
        rw [hp2, List.length_take, hdl]; omega
      have hlarge := readExact_spec s2 8 hn2
      obtain ⟨s3, hre3, _, _, _⟩ := hlarge
      rw [hd2', hp2'] at hre3
      have h48 : (data.take 8).take 4 = data.take 4 := by rw [List.take_take]; simp
      have h84 : ((data.take 8).drop 4).take 4 = (data.drop 4).take 4 := by
        rw [List.drop_take, List.take_take]; simp
      rw [h48, h84]
      simp only [hne, h8, if_false]
      by_cases hs1 : be (data.take 4) = 1
      · simp only [hs1, if_true]
        rw [hre3]
        by_cases h16 : 16 ≤ data.length
        · have h' : 8 ≤ data.length - 8 := by omega
          simp [h', h16]
        · have h' : ¬ 8 ≤ data.length - 8 := by omega
          simp [h', h16]
      · simp [hs1]

/-! ### Non-vacuity -/
example : NoFault [1, 3, 2] := by intro k hk; simp at hk; omega
example : sniff true [0xff, 0xd8, 0xff, 0xe0, 0, 16] [1, 1, 1, 1, 1, 1] = some C2pa.C11.lJpg := by
  decide +kernel
example : sniff true [0xff, 0xd8, 0xff, 0xe0, 0, 16] [1, 0] = none := by decide +kernel

end C2pa.C35
