import C2paModel.Model.C35
namespace C2pa.C35

open C2pa.C11 (Fmt b sliceEq id3Size firstMatch detectB rulesB isId3 mFLaC lMp3 lFlac detect)

/-- No read of the schedule fails with a hard error (`Interrupted` is allowed). -/
def NoFault (sched : List Ev) : Prop := ∀ e ∈ sched, e ≠ Ev.rd 0

/-- No seek of the seek schedule fails. -/
def NoSeekFault (seeks : List Bool) : Prop := ∀ x ∈ seeks, x = false

theorem NoFault.nil : NoFault [] := by intro e h; cases h

theorem NoFault.append {a c : List Ev} (ha : NoFault a) (hc : NoFault c) : NoFault (a ++ c) := by
  intro e he
  rcases List.mem_append.1 he with h | h
  · exact ha e h
  · exact hc e h

theorem NoFault.right {a c : List Ev} (h : NoFault (a ++ c)) : NoFault c :=
  fun e he => h e (List.mem_append.2 (Or.inr he))

theorem NoFault.tail {e : Ev} {c : List Ev} (h : NoFault (e :: c)) : NoFault c :=
  fun x hx => h x (List.mem_cons_of_mem _ hx)

theorem take_split {α} (l : List α) (m w : Nat) (h : m ≤ w) :
    l.take w = l.take m ++ (l.drop (l.take m).length).take (w - (l.take m).length) := by
  induction l generalizing m w with
  | nil => simp
  | cons a t ih =>
    cases m with
    | zero => simp
    | succ m' =>
      cases w with
      | zero => omega
      | succ w' =>
        have := ih m' w' (by omega)
        simp only [List.take_succ_cons, List.length_cons, List.drop_succ_cons, List.cons_append,
          Nat.add_sub_add_right]
        rw [← this]

theorem take_pos_eq_nil {α} (l : List α) (m : Nat) (hm : 1 ≤ m) (h : l.take m = []) : l = [] := by
  cases l with
  | nil => rfl
  | cons a t =>
    cases m with
    | zero => omega
    | succ m' => simp at h

/-- What one `read` call can do. -/
theorem readOnce_spec (s : St) (want : Nat) (hw : want ≠ 0) :
    (∃ m s1, 1 ≤ m ∧ m ≤ want ∧ readOnce s want = (.ok ((s.data.drop s.pos).take m), s1) ∧
        s1.data = s.data ∧ s1.pos = s.pos + ((s.data.drop s.pos).take m).length ∧
        s1.seeks = s.seeks ∧ ∃ c, s.sched = c ++ s1.sched ∧ NoFault c)
    ∨ (∃ s1, readOnce s want = (.io, s1) ∧ s.sched = Ev.rd 0 :: s1.sched)
    ∨ (∃ s1, readOnce s want = (.intr, s1) ∧ s.sched = Ev.intr :: s1.sched ∧
        s1.data = s.data ∧ s1.pos = s.pos ∧ s1.seeks = s.seeks) := by
  unfold readOnce
  simp only [hw, if_false]
  cases hs : s.sched with
  | nil =>
    refine Or.inl ⟨want, _, by omega, Nat.le_refl _, rfl, rfl, rfl, rfl, [], by simp, NoFault.nil⟩
  | cons e rest =>
    cases e with
    | intr => exact Or.inr (Or.inr ⟨_, rfl, rfl, rfl, rfl, rfl⟩)
    | rd k =>
      cases k with
      | zero => exact Or.inr (Or.inl ⟨_, rfl, rfl⟩)
      | succ k' =>
        refine Or.inl ⟨min want (k' + 1), _, by omega, Nat.min_le_left _ _, rfl, rfl, rfl, rfl,
          [Ev.rd (k' + 1)], rfl, ?_⟩
        intro e he
        simp at he
        subst he
        intro h
        cases h

/-! ### The fill loop -/

/-- **Whatever the loop returns is the exact data**: for *every* schedule (faults included), if
the fill loop returns bytes they are exactly the next `want` bytes (or all that remain), the
position advanced by that much, and no consumed schedule entry was a hard fault. A fault is
never turned into data, a truncated or a padded buffer. -/
theorem readFill_exact : ∀ (fuel : Nat) (s : St) (want : Nat) (bs : List UInt8) (s' : St),
    want + s.sched.length ≤ fuel → readFill fuel s want = (some bs, s') →
    bs = (s.data.drop s.pos).take want ∧ s'.data = s.data ∧ s'.pos = s.pos + bs.length ∧
      s'.seeks = s.seeks ∧ ∃ c, s.sched = c ++ s'.sched ∧ NoFault c := by
  intro fuel
  induction fuel with
  | zero =>
    intro s want bs s' hf h
    have hw : want = 0 := by omega
    subst hw
    simp [readFill] at h
    obtain ⟨rfl, rfl⟩ := h
    exact ⟨by simp, rfl, by simp, rfl, [], by simp, NoFault.nil⟩
  | succ fuel ih =>
    intro s want bs s' hf h
    by_cases hw : want = 0
    · subst hw
      simp [readFill] at h
      obtain ⟨rfl, rfl⟩ := h
      exact ⟨by simp, rfl, by simp, rfl, [], by simp, NoFault.nil⟩
    · rw [readFill, if_neg hw] at h
      rcases readOnce_spec s want hw with ⟨m, s1, hm1, hm2, hro, hd, hp, hsk, c, hc, hcn⟩ |
        ⟨s1, hro, _⟩ | ⟨s1, hro, hsc, hd, hp, hsk⟩
      · rw [hro] at h
        dsimp only at h
        have hlen : s.sched.length = c.length + s1.sched.length := by rw [hc, List.length_append]
        by_cases hbs : (s.data.drop s.pos).take m = []
        · rw [if_pos hbs] at h
          simp only [Prod.mk.injEq, Option.some.injEq] at h
          obtain ⟨rfl, rfl⟩ := h
          have hrem := take_pos_eq_nil _ m hm1 hbs
          refine ⟨by rw [hrem]; simp, hd, ?_, hsk, c, hc, hcn⟩
          rw [hp, hbs]
        · rw [if_neg hbs] at h
          have hpos : 1 ≤ ((s.data.drop s.pos).take m).length := by
            cases hh : (s.data.drop s.pos).take m with
            | nil => exact absurd hh hbs
            | cons _ _ => simp
          cases hrec : readFill fuel s1 (want - ((s.data.drop s.pos).take m).length) with
          | mk r s2 =>
            rw [hrec] at h
            cases r with
            | none => simp at h
            | some more =>
              simp only [Prod.mk.injEq, Option.some.injEq] at h
              obtain ⟨rfl, rfl⟩ := h
              obtain ⟨e1, e2, e3, e4, c2, hc2, hcn2⟩ := ih s1 _ more s2 (by omega) hrec
              have hrem1 : s1.data.drop s1.pos
                  = (s.data.drop s.pos).drop ((s.data.drop s.pos).take m).length := by
                rw [hd, hp, List.drop_drop]
              rw [hrem1] at e1
              refine ⟨?_, by rw [e2, hd], ?_, by rw [e4, hsk], c ++ c2,
                by rw [hc, hc2, List.append_assoc], hcn.append hcn2⟩
              · rw [e1]; exact (take_split _ m want hm2).symm
              · rw [e3, hp, List.length_append]; omega
      · rw [hro] at h
        simp at h
      · rw [hro] at h
        dsimp only at h
        obtain ⟨e1, e2, e3, e4, c2, hc2, hcn2⟩ := ih s1 want bs s' (by rw [hsc] at hf; simp at hf; omega) h
        refine ⟨by rw [e1, hd, hp], by rw [e2, hd], by rw [e3, hp], by rw [e4, hsk],
          Ev.intr :: c2, by rw [hsc, hc2]; rfl, ?_⟩
        intro e he
        rcases List.mem_cons.1 he with rfl | he
        · intro hh; cases hh
        · exact hcn2 e he

/-- Without a hard fault in the schedule the loop returns bytes (it cannot fail). -/
theorem readFill_total : ∀ (fuel : Nat) (s : St) (want : Nat), NoFault s.sched →
    ∃ bs s', readFill fuel s want = (some bs, s') := by
  intro fuel
  induction fuel with
  | zero => intro s want _; exact ⟨[], s, rfl⟩
  | succ fuel ih =>
    intro s want hn
    by_cases hw : want = 0
    · exact ⟨[], s, by rw [readFill, if_pos hw]⟩
    · rw [readFill, if_neg hw]
      rcases readOnce_spec s want hw with ⟨m, s1, _, _, hro, _, _, _, c, hc, _⟩ |
        ⟨s1, _, hsc⟩ | ⟨s1, hro, hsc, _, _, _⟩
      · rw [hro]
        dsimp only
        by_cases hbs : (s.data.drop s.pos).take m = []
        · rw [if_pos hbs]; exact ⟨_, _, rfl⟩
        · rw [if_neg hbs]
          have hn1 : NoFault s1.sched := by rw [hc] at hn; exact hn.right
          obtain ⟨more, s2, hrec⟩ := ih s1 (want - ((s.data.drop s.pos).take m).length) hn1
          rw [hrec]
          exact ⟨_, _, rfl⟩
      · exact absurd rfl (hn (Ev.rd 0) (by rw [hsc]; exact List.mem_cons_self))
      · rw [hro]
        dsimp only
        exact ih s1 want (by rw [hsc] at hn; exact hn.tail)

/-- **The fill loop is independent of chunking**: under every schedule without a hard fault
(any short reads, `Interrupted` anywhere) it returns exactly the next `want` bytes (or all that
remain) and advances the position by that much. -/
theorem fill_chunk_independent (s : St) (want : Nat) (hn : NoFault s.sched) :
    ∃ s', fill s want = (some ((s.data.drop s.pos).take want), s') ∧
      s'.data = s.data ∧ s'.pos = s.pos + ((s.data.drop s.pos).take want).length ∧
      s'.seeks = s.seeks ∧ NoFault s'.sched := by
  obtain ⟨bs, s', h⟩ := readFill_total (want + s.sched.length) s want hn
  obtain ⟨e1, e2, e3, e4, c, hc, _⟩ := readFill_exact _ s want bs s' (Nat.le_refl _) h
  subst e1
  exact ⟨s', h, e2, e3, e4, by rw [hc] at hn; exact hn.right⟩

/-- **Fault or exact** (every schedule): the fill loop either reports the I/O error or returns
exactly what a full read returns. -/
theorem fill_fault_or_exact (s : St) (want : Nat) :
    (fill s want).1 = none ∨ (fill s want).1 = some ((s.data.drop s.pos).take want) := by
  cases h : fill s want with
  | mk r s' =>
    cases r with
    | none => exact Or.inl rfl
    | some bs =>
      obtain ⟨e1, _⟩ := readFill_exact _ s want bs s' (Nat.le_refl _) h
      exact Or.inr (by rw [e1])

/-- Fuel form of `fill_chunk_independent` (any sufficient fuel). -/
theorem readFill_chunk_independent (fuel : Nat) (s : St) (want : Nat)
    (hf : want + s.sched.length ≤ fuel) (hn : NoFault s.sched) :
    ∃ s', readFill fuel s want = (some ((s.data.drop s.pos).take want), s') ∧
      s'.data = s.data ∧ s'.pos = s.pos + ((s.data.drop s.pos).take want).length ∧
      NoFault s'.sched := by
  obtain ⟨bs, s', h⟩ := readFill_total fuel s want hn
  obtain ⟨e1, e2, e3, _, c, hc, _⟩ := readFill_exact fuel s want bs s' hf h
  subst e1
  exact ⟨s', h, e2, e3, by rw [hc] at hn; exact hn.right⟩

/-- A fault that is reached is never turned into data: if the fill loop returns bytes, no
schedule entry it consumed was a hard fault (any fuel). -/
theorem readFill_ok_consumed_no_fault (s : St) (want : Nat) (bs : List UInt8) (s' : St)
    (h : fill s want = (some bs, s')) :
    ∃ consumed, s.sched = consumed ++ s'.sched ∧ NoFault consumed :=
  (readFill_exact _ s want bs s' (Nat.le_refl _) h).2.2.2.2

/-- bytes the `read` calls of a schedule prefix can deliver at most -/
def budget : List Ev → Nat
  | [] => 0
  | Ev.rd k :: r => k + budget r
  | Ev.intr :: r => budget r

/-- **A hard fault that is reached is an error**: if the reads before the failing one cannot
deliver the `want` bytes (nor reach the end of the data), the loop returns the I/O error —
whatever comes after in the schedule. -/
theorem readFill_fault_reached : ∀ (pre post : List Ev) (fuel : Nat) (s : St) (want : Nat),
    s.sched = pre ++ Ev.rd 0 :: post → NoFault pre → want + s.sched.length ≤ fuel →
    budget pre < want → budget pre < (s.data.drop s.pos).length →
    (readFill fuel s want).1 = none := by
  intro pre
  induction pre with
  | nil =>
    intro post fuel s want hs _ hf hb _
    have hw : want ≠ 0 := by simp [budget] at hb; omega
    obtain ⟨fuel', rfl⟩ : ∃ f, fuel = f + 1 := ⟨fuel - 1, by omega⟩
    have hro : readOnce s want = (.io, { s with sched := post }) := by
      unfold readOnce; simp [hw, hs]
    rw [readFill, if_neg hw, hro]
  | cons e pre ih =>
    intro post fuel s want hs hn hf hb hr
    have hw : want ≠ 0 := by omega
    obtain ⟨fuel', rfl⟩ : ∃ f, fuel = f + 1 := ⟨fuel - 1, by omega⟩
    rw [readFill, if_neg hw]
    cases e with
    | intr =>
      obtain ⟨s1, hro, hd1, hp1, hs1⟩ : ∃ s1, readOnce s want = (.intr, s1) ∧ s1.data = s.data ∧
          s1.pos = s.pos ∧ s1.sched = pre ++ Ev.rd 0 :: post :=
        ⟨{ s with sched := pre ++ Ev.rd 0 :: post }, by unfold readOnce; simp [hw, hs], rfl, rfl, rfl⟩
      rw [hro]
      dsimp only
      apply ih post fuel' s1 want hs1 hn.tail
      · rw [hs1]; rw [hs] at hf; simp at hf ⊢; omega
      · simpa [budget] using hb
      · rw [hd1, hp1]; simpa [budget] using hr
    | rd k =>
      cases k with
      | zero => exact absurd rfl (hn (Ev.rd 0) List.mem_cons_self)
      | succ k' =>
        simp only [budget] at hb hr
        have hmin : min want (k' + 1) = k' + 1 := by omega
        obtain ⟨s1, hro, hd1, hp1, hs1⟩ : ∃ s1, readOnce s want
              = (.ok ((s.data.drop s.pos).take (k' + 1)), s1) ∧ s1.data = s.data ∧
            s1.pos = s.pos + ((s.data.drop s.pos).take (k' + 1)).length ∧
            s1.sched = pre ++ Ev.rd 0 :: post :=
          ⟨{ s with pos := s.pos + ((s.data.drop s.pos).take (k' + 1)).length, sched := pre ++ Ev.rd 0 :: post },
            by unfold readOnce; simp [hw, hs, hmin], rfl, rfl, rfl⟩
        rw [hro]
        dsimp only
        have hlen : ((s.data.drop s.pos).take (k' + 1)).length = k' + 1 := by
          rw [List.length_take]; omega
        have hne : (s.data.drop s.pos).take (k' + 1) ≠ [] := by
          intro h; rw [h] at hlen; simp at hlen
        rw [if_neg hne]
        have hrec := ih post fuel' s1 (want - ((s.data.drop s.pos).take (k' + 1)).length)
          hs1 hn.tail (by rw [hs1]; rw [hs] at hf; simp at hf ⊢; omega) (by omega)
          (by rw [hd1, hp1, hlen, ← List.drop_drop, List.length_drop]; omega)
        cases hrec2 : readFill fuel' s1 (want - ((s.data.drop s.pos).take (k' + 1)).length) with
        | mk r s2 =>
          rw [hrec2] at hrec
          simp only at hrec
          subst hrec
          rfl

theorem fill_fault_reached (pre post : List Ev) (s : St) (want : Nat)
    (hs : s.sched = pre ++ Ev.rd 0 :: post) (hn : NoFault pre)
    (hb : budget pre < want) (hr : budget pre < (s.data.drop s.pos).length) :
    (fill s want).1 = none :=
  readFill_fault_reached pre post _ s want hs hn (Nat.le_refl _) hb hr

/-! ### `read_exact` -/

/-- The value `read_exact(want)` has on a stream that delivers everything. -/
def exactOf (s : St) (want : Nat) : Except RErr (List UInt8) :=
  if want ≤ (s.data.drop s.pos).length then .ok ((s.data.drop s.pos).take want) else .error .eof

/-- **`read_exact`, every schedule**: the I/O error, or exactly the full-read outcome (the
requested slice, or `UnexpectedEof` exactly when fewer than `want` bytes remain) with the
position advanced over what was read. -/
theorem readExact_cases (s : St) (want : Nat) :
    (∃ s', readExact s want = (.error .io, s') ∧ ¬ NoFault s.sched)
    ∨ (∃ s', readExact s want = (exactOf s want, s') ∧ s'.data = s.data ∧
        s'.pos = s.pos + ((s.data.drop s.pos).take want).length ∧ s'.seeks = s.seeks ∧
        ∃ c, s.sched = c ++ s'.sched ∧ NoFault c) := by
  unfold readExact
  cases h : fill s want with
  | mk r s' =>
    cases r with
    | none =>
      refine Or.inl ⟨s', rfl, fun hn => ?_⟩
      obtain ⟨_, hh, _⟩ := fill_chunk_independent s want hn
      rw [h] at hh; simp at hh
    | some bs =>
      obtain ⟨e1, e2, e3, e4, c, hc, hcn⟩ := readFill_exact _ s want bs s' (Nat.le_refl _) h
      subst e1
      refine Or.inr ⟨s', ?_, e2, e3, e4, c, hc, hcn⟩
      dsimp only
      have hl : ((s.data.drop s.pos).take want).length = min want (s.data.drop s.pos).length :=
        List.length_take
      unfold exactOf
      by_cases hle : want ≤ (s.data.drop s.pos).length
      · have hc : ((s.data.drop s.pos).take want).length = want := by rw [hl]; omega
        rw [if_pos hc, if_pos hle]
      · have hc : ¬ ((s.data.drop s.pos).take want).length = want := by rw [hl]; omega
        rw [if_neg hc, if_neg hle]

/-- `read_exact` under every schedule without a hard fault (short reads, `Interrupted`). -/
theorem readExact_spec (s : St) (want : Nat) (hn : NoFault s.sched) :
    ∃ s', readExact s want = (exactOf s want, s') ∧ s'.data = s.data ∧
      s'.pos = s.pos + ((s.data.drop s.pos).take want).length ∧ s'.seeks = s.seeks ∧
      NoFault s'.sched := by
  rcases readExact_cases s want with ⟨_, _, hbad⟩ | ⟨s', h, e2, e3, e4, c, hc, _⟩
  · exact absurd hn hbad
  · exact ⟨s', h, e2, e3, e4, by rw [hc] at hn; exact hn.right⟩

theorem readExact_chunk_independent (s : St) (want : Nat) (hn : NoFault s.sched) :
    (readExact s want).1 = exactOf s want := by
  obtain ⟨s', h, _⟩ := readExact_spec s want hn
  rw [h]

/-- **Fault or exact**: `read_exact` never returns `Ok` with other bytes, and never reports
`UnexpectedEof` for data that is there — under any schedule. -/
theorem readExact_fault_or_exact (s : St) (want : Nat) :
    (readExact s want).1 = .error .io ∨ (readExact s want).1 = exactOf s want := by
  rcases readExact_cases s want with ⟨_, h, _⟩ | ⟨_, h, _⟩
  · exact Or.inl (by rw [h])
  · exact Or.inr (by rw [h])

/-! ### seeks -/

theorem seekTo_spec (s : St) (p : Nat) :
    (∃ s', seekTo s p = (true, s') ∧ s'.data = s.data ∧ s'.pos = p ∧ s'.sched = s.sched ∧
        ∃ c, s.seeks = c ++ s'.seeks ∧ NoSeekFault c)
    ∨ (∃ s', seekTo s p = (false, s') ∧ ¬ NoSeekFault s.seeks) := by
  unfold seekTo
  cases hs : s.seeks with
  | nil => exact Or.inl ⟨_, rfl, rfl, rfl, rfl, [], by simp, by intro x hx; cases hx⟩
  | cons x rest =>
    cases x with
    | true =>
      exact Or.inr ⟨_, rfl, fun h => by have := h true List.mem_cons_self; cases this⟩
    | false =>
      refine Or.inl ⟨_, rfl, rfl, rfl, rfl, [false], rfl, ?_⟩
      intro x hx; simpa using hx

theorem NoSeekFault.right {a c : List Bool} (h : NoSeekFault (a ++ c)) : NoSeekFault c :=
  fun e he => h e (List.mem_append.2 (Or.inr he))

theorem seekTo_ok (s : St) (p : Nat) (hn : NoSeekFault s.seeks) :
    ∃ s', seekTo s p = (true, s') ∧ s'.data = s.data ∧ s'.pos = p ∧ s'.sched = s.sched ∧
      NoSeekFault s'.seeks := by
  rcases seekTo_spec s p with ⟨s', h, e1, e2, e3, c, hc, _⟩ | ⟨_, _, hbad⟩
  · exact ⟨s', h, e1, e2, e3, by rw [hc] at hn; exact hn.right⟩
  · exact absurd hn hbad

/-! ### `read_to_vec` -/

/-- What `read_to_vec` returns on a stream without short reads and faults: the closed form. -/
def toVecOf (data : List UInt8) (pos want : Nat) : Option (List UInt8) :=
  if pos + want ≥ 2 ^ 64 ∨ pos + want > data.length ∨ want ≥ 2 ^ 63 then none
  else some ((data.drop pos).take want)

theorem readToVec_full (data : List UInt8) (pos want : Nat) :
    readToVec data pos want [] [] = toVecOf data pos want := by
  unfold readToVec toVecOf seekTo
  dsimp only
  have hf : ∀ s : St, s.sched = [] → (fill s want).1 = some ((s.data.drop s.pos).take want) := by
    intro s hs
    obtain ⟨s', h, _⟩ := fill_chunk_independent s want (by rw [hs]; exact NoFault.nil)
    rw [h]
  by_cases hp : pos = data.length
  · simp only [hp, if_true]
    split
    · next h => simp [h]
    · next h =>
      split
      · next h2 => simp [h2]
      · next h2 =>
        split
        · next h3 => simp [h3]
        · next h3 =>
          rw [hf _ rfl]
          have : ¬ (data.length + want ≥ 2 ^ 64 ∨ data.length + want > data.length ∨ want ≥ 2 ^ 63) := by
            omega
          rw [if_neg this]
  · simp only [hp, if_false]
    split
    · next h => simp [h]
    · next h =>
      split
      · next h2 => simp [h2]
      · next h2 =>
        split
        · next h3 => simp [h3]
        · next h3 =>
          rw [hf _ rfl]
          have : ¬ (pos + want ≥ 2 ^ 64 ∨ pos + want > data.length ∨ want ≥ 2 ^ 63) := by omega
          rw [if_neg this]

/-- **`read_to_vec`, every read schedule and every seek schedule**: an error, or exactly the
full-read result — never other bytes, never fewer. -/
theorem readToVec_fault_or_exact (data : List UInt8) (pos want : Nat) (sched : List Ev)
    (seeks : List Bool) :
    readToVec data pos want sched seeks = none
      ∨ readToVec data pos want sched seeks = toVecOf data pos want := by
  unfold readToVec
  rcases seekTo_spec { data := data, pos := pos, sched := sched, seeks := seeks } pos with
    ⟨s1, h1, d1, p1, _, _⟩ | ⟨_, h1, _⟩
  · rw [h1]; dsimp only
    rcases seekTo_spec s1 data.length with ⟨s2, h2, d2, p2, _, _⟩ | ⟨_, h2, _⟩
    · rw [h2]; dsimp only
      have h3 : ∃ r, (if pos = data.length then (true, s2) else seekTo s2 pos) = r ∧
          (r.1 = false ∨ (r.1 = true ∧ r.2.data = data ∧ r.2.pos = pos)) := by
        by_cases hp : pos = data.length
        · exact ⟨_, rfl, Or.inr ⟨by simp [hp], by simp [hp, d2, d1], by simp [hp, p2]⟩⟩
        · rcases seekTo_spec s2 pos with ⟨s3, h3, d3, p3, _, _⟩ | ⟨_, h3, _⟩
          · exact ⟨_, rfl, Or.inr ⟨by simp [hp, h3], by simp [hp, h3, d3, d2, d1], by simp [hp, h3, p3]⟩⟩
          · exact ⟨_, rfl, Or.inl (by simp [hp, h3])⟩
      obtain ⟨⟨ok, s3⟩, hr, hcase⟩ := h3
      rw [hr]
      rcases hcase with hfalse | ⟨htrue, d3, p3⟩
      · simp only at hfalse; subst hfalse; exact Or.inl rfl
      · simp only at htrue d3 p3; subst htrue
        dsimp only
        unfold toVecOf
        by_cases c1 : pos + want ≥ 2 ^ 64
        · simp [c1]
        · by_cases c2 : pos + want > data.length
          · simp [c1, c2]
          · by_cases c3 : want ≥ 2 ^ 63
            · simp [c1, c2, c3]
            · rw [if_neg c1, if_neg c2, if_neg c3, if_neg (by omega)]
              rcases fill_fault_or_exact s3 want with h | h
              · exact Or.inl h
              · exact Or.inr (by rw [h, d3, p3])
    · rw [h2]; exact Or.inl rfl
  · rw [h1]; exact Or.inl rfl

/-- **`read_to_vec` is independent of chunking**: without a hard read fault and without a
failing seek (any short reads, `Interrupted` anywhere) the result is the full-read result. -/
theorem readToVec_chunk_independent (data : List UInt8) (pos want : Nat) (sched : List Ev)
    (seeks : List Bool) (hn : NoFault sched) (hs : NoSeekFault seeks) :
    readToVec data pos want sched seeks = toVecOf data pos want := by
  unfold readToVec
  obtain ⟨s1, h1, d1, p1, c1, k1⟩ :=
    seekTo_ok { data := data, pos := pos, sched := sched, seeks := seeks } pos hs
  rw [h1]; dsimp only
  obtain ⟨s2, h2, d2, p2, c2, k2⟩ := seekTo_ok s1 data.length k1
  rw [h2]; dsimp only
  have h3 : ∃ s3, (if pos = data.length then (true, s2) else seekTo s2 pos) = (true, s3) ∧
      s3.data = data ∧ s3.pos = pos ∧ s3.sched = sched := by
    by_cases hp : pos = data.length
    · exact ⟨s2, by simp [hp], by rw [d2, d1], by rw [p2, hp], by rw [c2, c1]⟩
    · obtain ⟨s3, h3, d3, p3, c3, _⟩ := seekTo_ok s2 pos k2
      exact ⟨s3, by simp [hp, h3], by rw [d3, d2, d1], p3, by rw [c3, c2, c1]⟩
  obtain ⟨s3, h3, d3, p3, c3⟩ := h3
  rw [h3]; dsimp only
  unfold toVecOf
  by_cases q1 : pos + want ≥ 2 ^ 64
  · simp [q1]
  · by_cases q2 : pos + want > data.length
    · simp [q1, q2]
    · by_cases q3 : want ≥ 2 ^ 63
      · simp [q1, q2, q3]
      · rw [if_neg q1, if_neg q2, if_neg q3, if_neg (by omega)]
        obtain ⟨_, h, _⟩ := fill_chunk_independent s3 want (by rw [c3]; exact hn)
        rw [h, d3, p3]

/-- **A failing seek is an error**: when the first seek-type call (`stream_position`) fails, or
the second (`seek(End(0))`), or the third (back to the old position, made unless already at the
end), `read_to_vec` returns the error. -/
theorem readToVec_seek_fault_is_error (data : List UInt8) (pos want : Nat) (sched : List Ev)
    (seeks : List Bool)
    (h : (seeks.take (if pos = data.length then 2 else 3)).contains true = true) :
    readToVec data pos want sched seeks = none := by
  unfold readToVec seekTo
  match seeks, h with
  | true :: _, _ => rfl
  | false :: true :: _, _ => rfl
  | false :: false :: true :: _, h =>
    by_cases hp : pos = data.length
    · simp [hp] at h
    · simp [hp]
  | [], h => simp at h
  | [false], h => split at h <;> simp at h
  | [false, false], h => split at h <;> simp at h
  | false :: false :: false :: _, h => split at h <;> simp at h

/-- **A hard read fault that is reached is an error**: in-range request, seeks succeed, and the
reads before the failing one cannot deliver `want` bytes. (Replaces a statement that was true by
definition; the model now decides itself whether the fault is reached.) -/
theorem readToVec_fault_reached (data : List UInt8) (pos want : Nat) (pre post : List Ev)
    (seeks : List Bool) (hs : NoSeekFault seeks) (hn : NoFault pre)
    (hin : pos + want ≤ data.length) (hb : budget pre < want) :
    readToVec data pos want (pre ++ Ev.rd 0 :: post) seeks = none := by
  unfold readToVec
  obtain ⟨s1, h1, d1, p1, c1, k1⟩ :=
    seekTo_ok { data := data, pos := pos, sched := pre ++ Ev.rd 0 :: post, seeks := seeks } pos hs
  rw [h1]; dsimp only
  obtain ⟨s2, h2, d2, p2, c2, k2⟩ := seekTo_ok s1 data.length k1
  rw [h2]; dsimp only
  have h3 : ∃ s3, (if pos = data.length then (true, s2) else seekTo s2 pos) = (true, s3) ∧
      s3.data = data ∧ s3.pos = pos ∧ s3.sched = pre ++ Ev.rd 0 :: post := by
    by_cases hp : pos = data.length
    · exact ⟨s2, by simp [hp], by rw [d2, d1], by rw [p2, hp], by rw [c2, c1]⟩
    · obtain ⟨s3, h3, d3, p3, c3, _⟩ := seekTo_ok s2 pos k2
      exact ⟨s3, by simp [hp, h3], by rw [d3, d2, d1], p3, by rw [c3, c2, c1]⟩
  obtain ⟨s3, h3, d3, p3, c3⟩ := h3
  rw [h3]; dsimp only
  split
  · rfl
  · split
    · rfl
    · split
      · rfl
      · exact fill_fault_reached pre post s3 want c3 hn hb
          (by rw [d3, p3, List.length_drop]; omega)

/-! ### `BoxReader::read_header` -/

/-- The header as a function of the bytes from the current position on (what a stream that
delivers everything yields). -/
def headerOf (data : List UInt8) : Option Hdr :=
  if data = [] then some .empty
  else if data.length < 8 then some .eof
  else
    let size := be (data.take 4)
    let typ := be ((data.drop 4).take 4)
    if size = 1 then
      (if 16 ≤ data.length then some (.ok typ (be ((data.drop 8).take 8))) else some .eof)
    else some (.ok typ size)

/-- Master lemma: `read_header` returns the header of the data, or the I/O error — and the
error only when a read really failed (hard fault somewhere in the schedule, or `Interrupted`
delivered to the first, bare `read`). -/
theorem readHeader_cases (data : List UInt8) (pos : Nat) (sched : List Ev) :
    readHeader data pos sched = headerOf (data.drop pos)
      ∨ (readHeader data pos sched = none ∧ (¬ NoFault sched ∨ sched.head? = some Ev.intr)) := by
  unfold readHeader
  rcases readOnce_spec { data := data, pos := pos, sched := sched } 8 (by decide) with
    ⟨m, s1, hm1, hm2, hro, hd1, hp1, _, c, hc, _⟩ | ⟨s1, hro, hsc⟩ | ⟨s1, hro, hsc, _, _, _⟩
  · simp only at hro hd1 hp1 hc
    rw [hro]
    cases hbs : (data.drop pos).take m with
    | nil =>
      have := take_pos_eq_nil _ m hm1 hbs
      left; unfold headerOf; rw [if_pos this]
    | cons a t =>
      dsimp only
      rw [hbs] at hp1
      have hne : data.drop pos ≠ [] := by intro h; rw [h] at hbs; simp at hbs
      have hlen : (a :: t).length = min m (data.drop pos).length := by rw [← hbs, List.length_take]
      have hrem1 : s1.data.drop s1.pos = (data.drop pos).drop (a :: t).length := by
        rw [hd1, hp1, List.drop_drop]
      have hnf : ¬ NoFault s1.sched → ¬ NoFault sched := by
        intro h1 h2; rw [hc] at h2; exact h1 h2.right
      rcases readExact_cases s1 (8 - (a :: t).length) with ⟨s2, hre, hbad⟩ |
        ⟨s2, hre, hd2, hp2, _, c2, hc2, _⟩
      · rw [hre]; right; exact ⟨rfl, Or.inl (hnf hbad)⟩
      · rw [hre]
        unfold exactOf
        rw [hrem1] at hp2 ⊢
        have hdl : ((data.drop pos).drop (a :: t).length).length
            = (data.drop pos).length - (a :: t).length := List.length_drop
        by_cases h8 : (data.drop pos).length < 8
        · have : ¬ (8 - (a :: t).length ≤ ((data.drop pos).drop (a :: t).length).length) := by
            rw [hdl]; omega
          rw [if_neg this]
          left; unfold headerOf; rw [if_neg hne, if_pos h8]
        · have hfit : 8 - (a :: t).length ≤ ((data.drop pos).drop (a :: t).length).length := by
            rw [hdl]; omega
          rw [if_pos hfit]
          dsimp only
          have hbuf : (a :: t) ++ ((data.drop pos).drop (a :: t).length).take (8 - (a :: t).length)
              = (data.drop pos).take 8 := by
            have := take_split (data.drop pos) m 8 hm2
            rw [hbs] at this
            exact this.symm
          rw [hbuf]
          have h48 : ((data.drop pos).take 8).take 4 = (data.drop pos).take 4 := by
            rw [List.take_take]; simp
          have h84 : (((data.drop pos).take 8).drop 4).take 4 = ((data.drop pos).drop 4).take 4 := by
            rw [List.drop_take, List.take_take]; simp
          rw [h48, h84]
          have hrem2 : s2.data.drop s2.pos = (data.drop pos).drop 8 := by
            rw [hd2, hp2, hd1, hp1, List.length_take, hdl, List.drop_drop]
            congr 1; omega
          by_cases hs1 : be ((data.drop pos).take 4) = 1
          · rw [if_pos hs1]
            have hnf2 : ¬ NoFault s2.sched → ¬ NoFault sched := by
              intro h1; apply hnf; intro h2; rw [hc2] at h2; exact h1 h2.right
            rcases readExact_cases s2 8 with ⟨s3, hre3, hbad3⟩ | ⟨s3, hre3, _⟩
            · rw [hre3]; right; exact ⟨rfl, Or.inl (hnf2 hbad3)⟩
            · rw [hre3]
              unfold exactOf
              rw [hrem2]
              have hdl8 : ((data.drop pos).drop 8).length = (data.drop pos).length - 8 :=
                List.length_drop
              left
              by_cases h16 : 16 ≤ (data.drop pos).length
              · have h' : 8 ≤ ((data.drop pos).drop 8).length := by rw [hdl8]; omega
                rw [if_pos h']
                unfold headerOf; rw [if_neg hne, if_neg h8]; dsimp only
                rw [if_pos hs1, if_pos h16]
              · have h' : ¬ 8 ≤ ((data.drop pos).drop 8).length := by rw [hdl8]; omega
                rw [if_neg h']
                unfold headerOf; rw [if_neg hne, if_neg h8]; dsimp only
                rw [if_pos hs1, if_neg h16]
          · rw [if_neg hs1]
            left; unfold headerOf; rw [if_neg hne, if_neg h8]; dsimp only
            rw [if_neg hs1]
  · rw [hro]; right
    refine ⟨rfl, Or.inl fun hn => ?_⟩
    simp only at hsc
    exact hn (Ev.rd 0) (by rw [hsc]; exact List.mem_cons_self) rfl
  · rw [hro]; right
    simp only at hsc
    exact ⟨rfl, Or.inr (by rw [hsc]; rfl)⟩

/-- **`read_header`: fault or exact** (every schedule, every stream position): the I/O error,
or exactly the header of the bytes at the position — a truncated or zero-padded header is never
decoded after a fault. -/
theorem readHeader_fault_or_exact (data : List UInt8) (pos : Nat) (sched : List Ev) :
    readHeader data pos sched = none ∨ readHeader data pos sched = headerOf (data.drop pos) := by
  rcases readHeader_cases data pos sched with h | ⟨h, _⟩
  · exact Or.inr h
  · exact Or.inl h

/-- **`read_header` is independent of chunking** (after the repair that completes a short first
read): any short reads, and `Interrupted` anywhere but on the very first `read`. -/
theorem readHeader_chunk_independent (data : List UInt8) (pos : Nat) (sched : List Ev)
    (hn : NoFault sched) (hi : sched.head? ≠ some Ev.intr) :
    readHeader data pos sched = headerOf (data.drop pos) := by
  rcases readHeader_cases data pos sched with h | ⟨_, h | h⟩
  · exact h
  · exact absurd hn h
  · exact absurd h hi

/-- The first, bare `read` does not retry: `Interrupted` there is returned as an error (it is an
error, not a hidden one; std convention would retry). -/
theorem readHeader_interrupted_first (data : List UInt8) (pos : Nat) (rest : List Ev) :
    readHeader data pos (Ev.intr :: rest) = none := by
  unfold readHeader readOnce; rfl

/-! ### The sniff (`container_from_stream`) -/

theorem firstMatch_append (a c : List (Bool × Fmt)) :
    firstMatch (a ++ c) = match firstMatch a with | some d => some d | none => firstMatch c := by
  induction a with
  | nil => rfl
  | cons r a ih =>
    obtain ⟨x, d⟩ := r
    cases x with
    | true => rfl
    | false => simpa [firstMatch] using ih

def pre8 (pdf : Bool) (buf : List UInt8) : List (Bool × Fmt) := (rulesB pdf buf false).take 8
def post10 (pdf : Bool) (buf : List UInt8) : List (Bool × Fmt) := (rulesB pdf buf false).drop 10

/-- The rule list around the ID3 branch: eight magic tests, the two ID3 rules, the rest. -/
theorem rulesB_split (pdf : Bool) (buf : List UInt8) (f : Bool) :
    rulesB pdf buf f = pre8 pdf buf
      ++ ((isId3 buf && f, lFlac) :: (isId3 buf, lMp3) :: post10 pdf buf) := by
  cases pdf <;> rfl

theorem id3Reached_eq (pdf : Bool) (buf : List UInt8) :
    id3Reached pdf buf = ((firstMatch (pre8 pdf buf)).isNone && isId3 buf) := rfl

/-- Outside the ID3 branch the probe's answer is irrelevant. -/
theorem detectB_not_reached (pdf : Bool) (buf : List UInt8) (f : Bool)
    (h : id3Reached pdf buf = false) : detectB pdf buf f = detectB pdf buf false := by
  unfold detectB
  split
  · rfl
  · rw [rulesB_split pdf buf f, rulesB_split pdf buf false, firstMatch_append, firstMatch_append]
    cases hA : firstMatch (pre8 pdf buf) with
    | some d => rfl
    | none =>
      have : isId3 buf = false := by
        rw [id3Reached_eq, hA] at h; simpa using h
      simp [this, firstMatch]

/-- Inside the ID3 branch the probe's answer decides between FLAC and MP3. -/
theorem detectB_reached (pdf : Bool) (buf : List UInt8) (f : Bool)
    (h : id3Reached pdf buf = true) :
    detectB pdf buf f = some (if f then lFlac else lMp3) := by
  rw [id3Reached_eq] at h
  simp only [Bool.and_eq_true, Option.isNone_iff_eq_none] at h
  obtain ⟨hA, hid⟩ := h
  have hlen : ¬ buf.length < 2 := by
    unfold isId3 at hid; simp at hid; omega
  unfold detectB
  rw [if_neg hlen, rulesB_split pdf buf f, firstMatch_append, hA, hid]
  cases f <;> rfl

theorem fill_cases (s : St) (want : Nat) :
    (∃ s', fill s want = (none, s') ∧ ¬ NoFault s.sched)
    ∨ (∃ s', fill s want = (some ((s.data.drop s.pos).take want), s') ∧ s'.data = s.data ∧
        s'.pos = s.pos + ((s.data.drop s.pos).take want).length ∧ s'.seeks = s.seeks ∧
        (NoFault s.sched → NoFault s'.sched)) := by
  cases h : fill s want with
  | mk r s' =>
    cases r with
    | none =>
      refine Or.inl ⟨s', rfl, fun hn => ?_⟩
      obtain ⟨_, hh, _⟩ := fill_chunk_independent s want hn
      rw [h] at hh; simp at hh
    | some bs =>
      obtain ⟨e1, e2, e3, e4, c, hc, _⟩ := readFill_exact _ s want bs s' (Nat.le_refl _) h
      subst e1
      exact Or.inr ⟨s', rfl, e2, e3, e4, fun hn => by rw [hc] at hn; exact hn.right⟩

theorem seekTo_cases (s : St) (p : Nat) :
    (∃ s', seekTo s p = (true, s') ∧ s'.data = s.data ∧ s'.pos = p ∧ s'.sched = s.sched ∧
        (NoSeekFault s.seeks → NoSeekFault s'.seeks))
    ∨ (∃ s', seekTo s p = (false, s') ∧ ¬ NoSeekFault s.seeks) := by
  rcases seekTo_spec s p with ⟨s', h, e1, e2, e3, c, hc, _⟩ | h
  · exact Or.inl ⟨s', h, e1, e2, e3, fun hn => by rw [hc] at hn; exact hn.right⟩
  · exact Or.inr h

/-- The ID3 probe: the true answer ("the four bytes after the tag are fLaC", `false` when fewer
than four bytes are there), or a hard I/O error of its seek / its reads. -/
theorem probe_cases (s : St) (buf : List UInt8) :
    probe s buf = .ok (sliceEq s.data (10 + id3Size buf) mFLaC)
      ∨ (probe s buf = .error () ∧ (¬ NoFault s.sched ∨ ¬ NoSeekFault s.seeks)) := by
  unfold probe
  rcases seekTo_cases s (10 + id3Size buf) with ⟨s3, h3, d3, p3, c3, _⟩ | ⟨_, h3, hbad⟩
  · rw [h3]; dsimp only
    rcases readExact_cases s3 4 with ⟨_, hre, hbad⟩ | ⟨_, hre, _⟩
    · rw [hre]; right; exact ⟨rfl, Or.inl (by rw [← c3]; exact hbad)⟩
    · rw [hre]; left
      unfold exactOf
      rw [d3, p3]
      have hb : mFLaC.length = 4 := rfl
      by_cases h4 : 4 ≤ (s.data.drop (10 + id3Size buf)).length
      · rw [if_pos h4]; rfl
      · rw [if_neg h4]
        dsimp only
        have hne : (s.data.drop (10 + id3Size buf)).take 4 ≠ mFLaC := by
          intro heq
          have := congrArg List.length heq
          rw [List.length_take, hb] at this
          omega
        unfold sliceEq
        rw [hb, beq_eq_false_iff_ne.2 hne]
  · rw [h3]; right; exact ⟨rfl, Or.inr hbad⟩

/-- Master lemma for the sniff, every read schedule and every seek schedule: the full-read
detection; or nothing, because an I/O operation failed; or — the one hidden error — `mp3` for a
FLAC stream behind an ID3 tag, because the probe's seek or read failed (`unwrap_or(false)`). -/
theorem sniff_cases (pdf : Bool) (data : List UInt8) (sched : List Ev) (seeks : List Bool) :
    sniff pdf data sched seeks = detect pdf data
    ∨ (sniff pdf data sched seeks = none ∧ (¬ NoFault sched ∨ ¬ NoSeekFault seeks))
    ∨ (id3Reached pdf (data.take 16) = true ∧ sniff pdf data sched seeks = some lMp3 ∧
        detect pdf data = some lFlac ∧ (¬ NoFault sched ∨ ¬ NoSeekFault seeks)) := by
  unfold sniff
  rcases seekTo_cases { data := data, pos := 0, sched := sched, seeks := seeks } 0 with
    ⟨s0, h0, d0, p0, c0, k0⟩ | ⟨_, h0, hbad⟩
  · rw [h0]; dsimp only
    simp only at d0 c0 k0
    rcases fill_cases s0 16 with ⟨_, hf, hbad⟩ | ⟨s1, hf, d1, _, k1, c1⟩
    · rw [hf]; right; left; exact ⟨rfl, Or.inl (by rw [← c0]; exact hbad)⟩
    · rw [d0, p0, List.drop_zero] at hf
      rw [hf]; dsimp only
      rcases seekTo_cases s1 0 with ⟨s2, h2, d2, _, c2, k2⟩ | ⟨_, h2, hbad⟩
      · rw [h2]; dsimp only
        have hsched : NoFault sched → NoFault s2.sched := by
          intro hn; rw [c2]; exact c1 (by rw [c0]; exact hn)
        have hseeks : NoSeekFault seeks → NoSeekFault s2.seeks := by
          intro hn; exact k2 (by rw [k1]; exact k0 hn)
        have hdata : s2.data = data := by rw [d2, d1, d0]
        by_cases hr : id3Reached pdf (data.take 16) = true
        · rw [if_pos hr]
          rcases probe_cases s2 (data.take 16) with hp | ⟨hp, hbad⟩
          · rw [hp, hdata]; left; rfl
          · rw [hp]; dsimp only
            by_cases hflac : sliceEq data (10 + id3Size (data.take 16)) mFLaC = true
            · right; right
              refine ⟨hr, ?_, ?_, ?_⟩
              · rw [detectB_reached pdf _ false hr]; rfl
              · unfold detect; rw [hflac, detectB_reached pdf _ true hr]; rfl
              · rcases hbad with hb | hb
                · exact Or.inl fun hn => hb (hsched hn)
                · exact Or.inr fun hn => hb (hseeks hn)
            · left
              unfold detect
              rw [Bool.not_eq_true] at hflac
              rw [hflac]
        · rw [if_neg hr]; left
          unfold detect
          rw [Bool.not_eq_true] at hr
          exact (detectB_not_reached pdf _ _ hr).symm
      · rw [h2]; right; left
        exact ⟨rfl, Or.inr fun hn => hbad (by rw [k1]; exact k0 hn)⟩
  · rw [h0]; right; left; exact ⟨rfl, Or.inr hbad⟩

/-- **Sniffing does not depend on chunking**: without a hard read fault and without a failing
seek (any short reads, `Interrupted` anywhere) the detected container is the one detected from
the whole byte string (C11's `detect`). -/
theorem sniff_chunk_independent (pdf : Bool) (data : List UInt8) (sched : List Ev)
    (seeks : List Bool) (hn : NoFault sched) (hs : NoSeekFault seeks) :
    sniff pdf data sched seeks = detect pdf data := by
  rcases sniff_cases pdf data sched seeks with h | ⟨_, h | h⟩ | ⟨_, _, _, h | h⟩
  · exact h
  · exact absurd hn h
  · exact absurd hs h
  · exact absurd hn h
  · exact absurd hs h

/-- **A fault never yields a foreign container**: under every read and seek schedule the sniff
returns nothing, or the full-read detection, or — ID3 header, probe failed — `mp3`. A partially
filled or zero-padded buffer is never matched against the magics. -/
theorem sniff_fault_outcomes (pdf : Bool) (data : List UInt8) (sched : List Ev) (seeks : List Bool) :
    sniff pdf data sched seeks = none ∨ sniff pdf data sched seeks = detect pdf data
      ∨ (isId3 (data.take 16) = true ∧ detect pdf data = some lFlac
          ∧ sniff pdf data sched seeks = some lMp3) := by
  rcases sniff_cases pdf data sched seeks with h | ⟨h, _⟩ | ⟨hr, h, hd, _⟩
  · exact Or.inr (Or.inl h)
  · exact Or.inl h
  · refine Or.inr (Or.inr ⟨?_, hd, h⟩)
    unfold id3Reached at hr
    simp only [Bool.and_eq_true] at hr
    exact hr.2

/-- **A hard read fault while filling the sniff buffer is "nothing detected"**, never a format:
the reads before the failing one cannot fill the 16 bytes nor reach the end of the data. -/
theorem sniff_read_fault_is_none (pdf : Bool) (data : List UInt8) (pre post : List Ev)
    (seeks : List Bool) (hn : NoFault pre) (hb : budget pre < 16) (hd : budget pre < data.length) :
    sniff pdf data (pre ++ Ev.rd 0 :: post) seeks = none := by
  unfold sniff
  rcases seekTo_cases { data := data, pos := 0, sched := pre ++ Ev.rd 0 :: post, seeks := seeks } 0
    with ⟨s0, h0, d0, p0, c0, _⟩ | ⟨_, h0, _⟩
  · rw [h0]; dsimp only
    have := fill_fault_reached pre post s0 16 c0 hn hb (by rw [d0, p0]; simpa using hd)
    cases hf : fill s0 16 with
    | mk r s1 => rw [hf] at this; simp only at this; subst this; rfl
  · rw [h0]

/-- The full statement for the sniff: an I/O error is never turned into a detection. -/
def SniffFaultNeverHidden : Prop :=
  ∀ (pdf : Bool) (data : List UInt8) (sched : List Ev) (seeks : List Bool),
    sniff pdf data sched seeks = none ∨ sniff pdf data sched seeks = detect pdf data

/-- **Witness — the code falsifies the full statement**: a FLAC stream behind an ID3v2 tag whose
probe read fails (or whose probe seek fails) is reported as `mp3`. Replayed on
`container_from_stream` by the harness (class `sniff-id3-probe-error-hidden`). -/
theorem sniff_id3_fault_hidden :
    ∃ (data : List UInt8) (sched : List Ev) (seeks : List Bool),
      detect false data = some lFlac ∧ sniff false data sched seeks = some lMp3 :=
  ⟨[0x49, 0x44, 0x33, 4, 0, 0, 0, 0, 0, 2, 0x78, 0x78, 0x66, 0x4c, 0x61, 0x43],
    [Ev.rd 16, Ev.rd 0], [], by decide +kernel⟩

theorem sniff_id3_seek_fault_hidden :
    detect false [0x49, 0x44, 0x33, 4, 0, 0, 0, 0, 0, 2, 0x78, 0x78, 0x66, 0x4c, 0x61, 0x43] = some lFlac
    ∧ sniff false [0x49, 0x44, 0x33, 4, 0, 0, 0, 0, 0, 2, 0x78, 0x78, 0x66, 0x4c, 0x61, 0x43] []
        [false, false, true] = some lMp3 := by decide +kernel

theorem sniff_fault_never_hidden_false : ¬ SniffFaultNeverHidden := by
  intro h
  have := h false [0x49, 0x44, 0x33, 4, 0, 0, 0, 0, 0, 2, 0x78, 0x78, 0x66, 0x4c, 0x61, 0x43]
    [Ev.rd 16, Ev.rd 0] []
  revert this
  decide +kernel

/-! ### `format_from_stream` -/

/-- Chunking does not change the resolved format. -/
theorem format_chunk_independent (pdf : Bool) (hinted : Option Fmt) (hint : Fmt)
    (data : List UInt8) (sched : List Ev) (seeks : List Bool)
    (hn : NoFault sched) (hs : NoSeekFault seeks) :
    formatFromStream pdf hinted hint data sched seeks = reconcile hinted hint (detect pdf data) := by
  unfold formatFromStream; rw [sniff_chunk_independent pdf data sched seeks hn hs]

/-- Every read/seek schedule: the fault-free answer, or the caller's hint (the sniff's I/O error
became "nothing detected"), or the answer for `mp3` on a FLAC-behind-ID3 stream. -/
theorem format_outcomes_partial (pdf : Bool) (hinted : Option Fmt) (hint : Fmt)
    (data : List UInt8) (sched : List Ev) (seeks : List Bool) :
    formatFromStream pdf hinted hint data sched seeks = reconcile hinted hint (detect pdf data)
    ∨ (formatFromStream pdf hinted hint data sched seeks = hint
        ∧ (¬ NoFault sched ∨ ¬ NoSeekFault seeks))
    ∨ (formatFromStream pdf hinted hint data sched seeks = reconcile hinted hint (some lMp3)
        ∧ detect pdf data = some lFlac ∧ (¬ NoFault sched ∨ ¬ NoSeekFault seeks)) := by
  unfold formatFromStream
  rcases sniff_cases pdf data sched seeks with h | ⟨h, hb⟩ | ⟨_, h, hd, hb⟩
  · exact Or.inl (by rw [h])
  · refine Or.inr (Or.inl ⟨?_, hb⟩)
    rw [h]; unfold reconcile; cases hinted <;> rfl
  · exact Or.inr (Or.inr ⟨by rw [h], hd, hb⟩)

/-- The full statement for `format_from_stream` (which returns a `String` and so cannot report an
error): an I/O fault does not change the resolved format. -/
def FormatFaultTransparent : Prop :=
  ∀ (pdf : Bool) (hinted : Option Fmt) (hint : Fmt) (data : List UInt8) (sched : List Ev)
    (seeks : List Bool),
    formatFromStream pdf hinted hint data sched seeks = reconcile hinted hint (detect pdf data)

/-- **Witness — `format_from_stream` hides a sniff I/O error**: JPEG bytes, hint `png`, the first
read fails: the answer is the hint `png` (fault-free: `jpg`). Replayed by the harness; end to end
this is the open finding `transient-io-absorbed:jumbf_io::format_from_stream…`. -/
theorem format_hides_sniff_fault :
    ¬ NoFault [Ev.rd 0]
    ∧ formatFromStream false (some C2pa.C11.lPng) C2pa.C11.lPng [0xff, 0xd8, 0xff, 0xe0] [Ev.rd 0] []
        = C2pa.C11.lPng
    ∧ reconcile (some C2pa.C11.lPng) C2pa.C11.lPng (detect false [0xff, 0xd8, 0xff, 0xe0])
        = C2pa.C11.lJpg := by
  refine ⟨fun h => h (Ev.rd 0) List.mem_cons_self rfl, by decide +kernel, by decide +kernel⟩

theorem format_fault_transparent_false : ¬ FormatFaultTransparent := by
  intro h
  have := h false (some C2pa.C11.lPng) C2pa.C11.lPng [0xff, 0xd8, 0xff, 0xe0] [Ev.rd 0] []
  revert this
  decide +kernel

/-! ### Non-vacuity -/
example : NoFault [Ev.rd 1, Ev.intr, Ev.rd 3, Ev.rd 2] := by
  intro e he; simp at he; rcases he with rfl | rfl | rfl | rfl <;> simp
example : NoSeekFault [false, false] := by intro x hx; simpa using hx
example : sniff true [0xff, 0xd8, 0xff, 0xe0, 0, 16] [.rd 1, .intr, .rd 1, .rd 1, .rd 1, .rd 1, .rd 1] []
    = some C2pa.C11.lJpg := by decide +kernel
example : sniff true [0xff, 0xd8, 0xff, 0xe0, 0, 16] [.rd 1, .rd 0] [] = none := by decide +kernel
example : sniff true [0xff, 0xd8, 0xff, 0xe0, 0, 16] [] [false, true] = none := by decide +kernel
-- fault-reached hypotheses are satisfiable: two 1-byte reads, then the failing one
example : budget [Ev.rd 1, Ev.intr, Ev.rd 1] < 16 ∧ NoFault [Ev.rd 1, Ev.intr, Ev.rd 1] := by
  refine ⟨by decide, ?_⟩
  intro e he; simp at he; rcases he with rfl | rfl | rfl <;> simp
example : readToVec [1, 2, 3, 4, 5] 1 3 [.rd 1, .intr, .rd 5] [false] = some [2, 3, 4] := by decide +kernel
example : readToVec [1, 2, 3, 4, 5] 1 3 [.rd 1, .rd 0] [] = none := by decide +kernel
example : readToVec [1, 2, 3, 4, 5] 1 3 [.rd 3, .rd 0] [] = some [2, 3, 4] := by decide +kernel
example : readToVec [1, 2, 3, 4, 5] 1 3 [] [false, false, true] = none := by decide +kernel
example : readHeader [0, 0, 0, 12, 0x6a, 0x75, 0x6d, 0x62, 9] 0 [.rd 3, .intr, .rd 2] = some (.ok 0x6A756D62 12) := by
  decide +kernel
example : readHeader [7, 0, 0, 0, 12, 0x6a, 0x75, 0x6d, 0x62] 1 [.rd 3, .rd 0] = none := by decide +kernel
example : id3Reached false [0x49, 0x44, 0x33, 4, 0, 0, 0, 0, 0, 2, 0x78, 0x78, 0x66, 0x4c, 0x61, 0x43] = true := by
  decide +kernel

end C2pa.C35
