import C2paModel.Model.C09Bmff
import C2paModel.Gen.C09AdjSites
import C2paModel.Lemmas.C07A
/-
C09 — "every absolute file offset stored in the container still addresses the same media
bytes", for the BMFF offset tables.

The model `adjOffset` / `adjField` / `adjustTable` (Model/C09Bmff.lean) is compared on every
run with the real `adjust_offset` / `adjust_offset_u32` / `adjust_known_offsets_from`
(bmff_io.rs) through the hook `verif_hooks::c09` — single values at the u32 / u64 / i64
boundaries, and whole tables found in generated and fixture BMFF files by an independent
walker. Which box paths are patched, by how many `adjust_offset*` call sites each, and with
which pivot argument every caller invokes the fix-up, is a table regenerated from the source
(Gen/C09AdjSites.lean) and proved equal to the table the model was written against.

Setting of the soundness theorems: the file `pre ++ old ++ post` is rewritten to
`pre ++ new ++ post` (insert: `old = []`; remove: `new = []`), `pivot = |pre| + |old|` (end of
the changed box in the source layout, what `write_cai` / `remove_cai_store_from_stream` pass),
`adjust = |new| − |old|`.
-/
namespace C2pa.C09Bmff

open C2pa.C07 (Bytes slice adjOff slice_before slice_after)

/-! ### `adjust_offset`: exact characterisation -/

/-- Offsets below the pivot are never touched. -/
theorem adjOffset_below (o : Nat) (adj : Int) (pivot : Nat) (h : o < pivot) :
    adjOffset o adj pivot = some o := by
  unfold adjOffset; rw [if_pos h]

/-- `adjust_offset` succeeds with `v` iff `v` is the offset itself (below the pivot) or the
shifted offset and that lies in `[0, 2^64)`. -/
theorem adjOffset_eq_some_iff (o : Nat) (adj : Int) (pivot v : Nat) :
    adjOffset o adj pivot = some v ↔
      (o < pivot ∧ v = o) ∨ (pivot ≤ o ∧ (v : Int) = (o : Int) + adj ∧ v < U64) := by
  unfold adjOffset
  by_cases h : o < pivot
  · rw [if_pos h]
    constructor
    · intro e; left; exact ⟨h, (Option.some.inj e).symm⟩
    · rintro (⟨_, rfl⟩ | ⟨h2, _⟩)
      · rfl
      · omega
  · rw [if_neg h]
    simp only
    by_cases hr : 0 ≤ (o : Int) + adj ∧ (o : Int) + adj < (U64 : Int)
    · rw [if_pos hr]
      constructor
      · intro e
        have e' := Option.some.inj e
        right
        refine ⟨by omega, ?_, ?_⟩ <;> omega
      · rintro (⟨h2, _⟩ | ⟨_, h3, _⟩)
        · omega
        · congr 1; omega
    · rw [if_neg hr]
      constructor
      · intro e; cases e
      · rintro (⟨h2, _⟩ | ⟨_, h3, h4⟩)
        · omega
        · exfalso; apply hr; constructor <;> omega

/-- `adjust_offset` fails exactly when the offset is at or after the pivot and the shifted
value is negative or does not fit in 64 bits. -/
theorem adjOffset_eq_none_iff (o : Nat) (adj : Int) (pivot : Nat) :
    adjOffset o adj pivot = none ↔
      pivot ≤ o ∧ ((o : Int) + adj < 0 ∨ (U64 : Int) ≤ (o : Int) + adj) := by
  unfold adjOffset
  by_cases h : o < pivot
  · rw [if_pos h]
    constructor
    · intro e; cases e
    · rintro ⟨h2, _⟩; omega
  · rw [if_neg h]
    simp only
    by_cases hr : 0 ≤ (o : Int) + adj ∧ (o : Int) + adj < (U64 : Int)
    · rw [if_pos hr]
      constructor
      · intro e; cases e
      · rintro ⟨_, h3 | h3⟩ <;> omega
    · rw [if_neg hr]
      constructor
      · intro _; refine ⟨by omega, ?_⟩; omega
      · intro _; rfl

/-- `adjust_offset_u32` succeeds with `v` iff `adjust_offset` does and `v < 2^32`. -/
theorem adjOffset32_eq_some_iff (o : Nat) (adj : Int) (pivot v : Nat) :
    adjOffset32 o adj pivot = some v ↔ adjOffset o adj pivot = some v ∧ v < U32 := by
  unfold adjOffset32
  cases h : adjOffset o adj pivot with
  | none => simp
  | some w =>
    simp only
    by_cases hw : w < U32
    · rw [if_pos hw]
      constructor
      · intro e; have := Option.some.inj e; subst this; exact ⟨rfl, hw⟩
      · rintro ⟨e, _⟩; exact e
    · rw [if_neg hw]
      constructor
      · intro e; cases e
      · rintro ⟨e, hv⟩; have := Option.some.inj e; subst this; exact absurd hv hw

/-- The model of the Rust function is the abstract fix-up `adjOff` of layer A (Model/C07Base,
Props/C09 `offset_shift_sound`) whenever the result fits in 64 bits. -/
theorem adjOffset_eq_adjOff (off oldLen newLen o : Nat) (h : adjOff off oldLen newLen o < U64) :
    adjOffset o ((newLen : Int) - (oldLen : Int)) (off + oldLen) = some (adjOff off oldLen newLen o) := by
  rw [adjOffset_eq_some_iff]
  unfold adjOff at h ⊢
  by_cases hlt : o < off + oldLen
  · rw [if_pos hlt]; left; exact ⟨hlt, rfl⟩
  · rw [if_neg hlt] at h ⊢
    right
    refine ⟨by omega, ?_, h⟩
    omega

/-! ### soundness on bytes -/

theorem slice_zero (b : Bytes) (o : Nat) : slice b o 0 = [] := by
  unfold slice; simp

/-- **adjOffset_sound_of_some**: whenever the real fix-up returns `o'` for an offset `o`, the
`n` bytes at `o'` in the rewritten file are the `n` bytes at `o` in the source file, for every
range that does not straddle the changed box. -/
theorem adjOffset_sound_of_some (pre old new post : Bytes) (o n o' : Nat)
    (h : o + n ≤ pre.length ∨ pre.length + old.length ≤ o)
    (hs : adjOffset o ((new.length : Int) - (old.length : Int)) (pre.length + old.length) = some o') :
    slice (pre ++ new ++ post) o' n = slice (pre ++ old ++ post) o n := by
  rw [adjOffset_eq_some_iff] at hs
  by_cases hn : n = 0
  · subst hn; rw [slice_zero, slice_zero]
  rcases hs with ⟨hlt, rfl⟩ | ⟨hge, hv, _⟩
  · rcases h with h | h
    · exact slice_before pre old new post o' n h
    · omega
  · rcases h with h | h
    · omega
    · have : o' = o - old.length + new.length := by omega
      rw [this]
      exact slice_after pre old new post o n h

/-- **adjOffset_sound**: for an offset inside the source file and an output shorter than
2^64 bytes the fix-up does not fail, and the adjusted offset addresses the same bytes. -/
theorem adjOffset_sound (pre old new post : Bytes) (o n : Nat)
    (h : o + n ≤ pre.length ∨ pre.length + old.length ≤ o)
    (hin : o ≤ (pre ++ old ++ post).length)
    (hout : (pre ++ new ++ post).length < U64) :
    ∃ o', adjOffset o ((new.length : Int) - (old.length : Int)) (pre.length + old.length) = some o' ∧
      slice (pre ++ new ++ post) o' n = slice (pre ++ old ++ post) o n := by
  have hb : adjOff pre.length old.length new.length o < U64 := by
    simp only [List.length_append] at hin hout
    unfold adjOff
    by_cases hlt : o < pre.length + old.length
    · rw [if_pos hlt]; omega
    · rw [if_neg hlt]; omega
  refine ⟨_, adjOffset_eq_adjOff pre.length old.length new.length o hb, ?_⟩
  exact adjOffset_sound_of_some pre old new post o n _ h
    (adjOffset_eq_adjOff pre.length old.length new.length o hb)

/-- The rule that was in the code before the F15 repair (pivot 0: every offset shifted)
moves offsets of data located before the box: refuted on the model of the real function. -/
theorem pivot_zero_unsound :
    ∃ (pre old new post : Bytes) (o n o' : Nat), o + n ≤ pre.length ∧
      adjOffset o ((new.length : Int) - (old.length : Int)) 0 = some o' ∧
      slice (pre ++ new ++ post) o' n ≠ slice (pre ++ old ++ post) o n :=
  ⟨[1, 2, 3], [], [9], [4], 0, 1, 1, by decide, by decide, by decide⟩

/-- An off-by-one pivot (`pivot + 1`) is refuted as well: the first byte after the changed
box would not be shifted. -/
theorem pivot_off_by_one_unsound :
    ∃ (pre old new post : Bytes) (o n o' : Nat), pre.length + old.length ≤ o ∧
      adjOffset o ((new.length : Int) - (old.length : Int)) (pre.length + old.length + 1) = some o' ∧
      slice (pre ++ new ++ post) o' n ≠ slice (pre ++ old ++ post) o n :=
  ⟨[1], [], [9], [4, 5], 1, 1, 1, by decide, by decide, by decide⟩

/-! ### the table -/

/-- Field kinds that hold one absolute file offset each. -/
def Field.plain (f : Field) : Bool :=
  match f.kind with
  | .stco | .co64 | .saio | .tfhd | .tfra => true
  | .ilocb | .iloce => false

theorem adjW_some {w v : Nat} {adj : Int} {pivot r : Nat} (h : adjW w v adj pivot = some r) :
    adjOffset v adj pivot = some r := by
  unfold adjW at h
  by_cases hw : (w == 4) = true
  · rw [if_pos hw] at h; exact ((adjOffset32_eq_some_iff _ _ _ _).1 h).1
  · rw [if_neg hw] at h; exact h

/-- A plain field is patched to exactly what `adjust_offset` yields for its value. -/
theorem adjField_plain {adj : Int} {pivot : Nat} {f : Field} {r : Nat}
    (hp : f.plain = true) (h : adjField adj pivot f = some r) :
    adjOffset f.val adj pivot = some r := by
  unfold adjField at h
  unfold Field.plain at hp
  cases hk : f.kind <;> rw [hk] at h hp <;> simp only at h hp
  · exact ((adjOffset32_eq_some_iff _ _ _ _).1 h).1
  · exact h
  · exact adjW_some h
  · exact h
  · exact adjW_some h
  · cases hp
  · cases hp

theorem mapOpt_some {α β : Type} (f : α → Option β) :
    ∀ (l : List α) (vs : List β), mapOpt f l = some vs →
      vs.length = l.length ∧ ∀ i (h1 : i < l.length) (h2 : i < vs.length), f l[i] = some vs[i]
  | [], vs, h => by
    have : vs = [] := by simpa [mapOpt] using h.symm
    subst this
    exact ⟨rfl, fun i h1 => absurd h1 (Nat.not_lt_zero _)⟩
  | x :: rest, vs, h => by
    unfold mapOpt at h
    cases hx : f x with
    | none => rw [hx] at h; cases h
    | some y =>
      rw [hx] at h
      cases hr : mapOpt f rest with
      | none => rw [hr] at h; cases h
      | some ys =>
        rw [hr] at h
        have e : vs = y :: ys := (Option.some.inj h).symm
        subst e
        obtain ⟨hl, hi⟩ := mapOpt_some f rest ys hr
        refine ⟨by simp [hl], ?_⟩
        intro i h1 h2
        cases i with
        | zero => simpa using hx
        | succ j =>
          simp only [List.getElem_cons_succ]
          exact hi j (by simpa using h1) (by simpa using h2)

/-- **adjustTable_sound**: if the real fix-up succeeds on a table of absolute-offset fields
(stco, co64, saio, tfhd, tfra), it yields one value per field, and the value of field `i`
addresses, in the rewritten file, the same `n` bytes its old value addressed in the source
file — for every `n` such that the addressed range does not straddle the changed box. -/
theorem adjustTable_sound (pre old new post : Bytes) (fs : List Field) (vs : List Nat)
    (hplain : ∀ f ∈ fs, f.plain = true)
    (h : adjustTable ((new.length : Int) - (old.length : Int)) (pre.length + old.length) fs = some vs) :
    vs.length = fs.length ∧
    ∀ i (h1 : i < fs.length) (h2 : i < vs.length) (n : Nat),
      (fs[i].val + n ≤ pre.length ∨ pre.length + old.length ≤ fs[i].val) →
      slice (pre ++ new ++ post) vs[i] n = slice (pre ++ old ++ post) fs[i].val n := by
  obtain ⟨hl, hi⟩ := mapOpt_some _ fs vs h
  refine ⟨hl, ?_⟩
  intro i h1 h2 n hn
  have hf := adjField_plain (hplain fs[i] (List.getElem_mem h1)) (hi i h1 h2)
  exact adjOffset_sound_of_some pre old new post fs[i].val n vs[i] hn hf

theorem mapOpt_isSome {α β : Type} (f : α → Option β) :
    ∀ (l : List α), (∀ x ∈ l, (f x).isSome = true) → (mapOpt f l).isSome = true
  | [], _ => rfl
  | x :: rest, h => by
    unfold mapOpt
    have hx := h x (List.mem_cons_self ..)
    cases e : f x with
    | none => rw [e] at hx; cases hx
    | some y =>
      simp only
      have hr := mapOpt_isSome f rest (fun z hz => h z (List.mem_cons_of_mem _ hz))
      cases e2 : mapOpt f rest with
      | none => rw [e2] at hr; cases hr
      | some ys => rfl

/-- **adjustTable_total**: no spurious error. When every offset of a plain table lies inside
the source file and both files are shorter than 4 GiB, the fix-up succeeds. -/
theorem adjustTable_total (pre old new post : Bytes) (fs : List Field)
    (hplain : ∀ f ∈ fs, f.plain = true)
    (hin : ∀ f ∈ fs, f.val ≤ (pre ++ old ++ post).length)
    (hsrc : (pre ++ old ++ post).length < U32)
    (hout : (pre ++ new ++ post).length < U32) :
    (adjustTable ((new.length : Int) - (old.length : Int)) (pre.length + old.length) fs).isSome = true := by
  apply mapOpt_isSome
  intro f hf
  have hb : adjOff pre.length old.length new.length f.val < U32 := by
    have := hin f hf
    simp only [List.length_append] at this hout hsrc
    unfold adjOff
    by_cases hlt : f.val < pre.length + old.length
    · rw [if_pos hlt]; omega
    · rw [if_neg hlt]; omega
  have h64 : adjOff pre.length old.length new.length f.val < U64 := by
    have : U32 < U64 := by decide
    omega
  have e := adjOffset_eq_adjOff pre.length old.length new.length f.val h64
  have e32 : adjOffset32 f.val ((new.length : Int) - (old.length : Int)) (pre.length + old.length)
      = some (adjOff pre.length old.length new.length f.val) :=
    (adjOffset32_eq_some_iff _ _ _ _).2 ⟨e, hb⟩
  have hp := hplain f hf
  unfold Field.plain at hp
  unfold adjField adjW
  cases hk : f.kind <;> rw [hk] at hp <;> simp only at hp ⊢
  · rw [e32]; rfl
  · rw [e]; rfl
  · split <;> simp [e32, e]
  · rw [e]; rfl
  · split <;> simp [e32, e]
  · cases hp
  · cases hp

/-! ### item locations (`/meta/iloc`) -/

/-- Items that are not located by file offset (construction_method 1 = idat, 2 = item) keep
all their fields. -/
theorem iloc_other_methods_untouched (adj : Int) (pivot : Nat) (f : Field)
    (hk : f.kind = .ilocb ∨ f.kind = .iloce) (hw : f.width = 4 ∨ f.width = 8) (hcm : f.cm ≠ 0) :
    adjField adj pivot f = some f.val := by
  unfold adjField
  rcases hk with hk | hk <;> rw [hk] <;> rcases hw with hw | hw <;> simp [hw, hcm]

/-- **iloc_extent_sound**: the data of an extent of a file-offset item lives at
`base_offset + extent_offset`. With the base and the extent patched as coded (base adjusted
when non-zero; the extent adjusted only when the base is 0), the new effective address is
the adjusted old effective address — provided the base and the data it leads to are on the
same side of the changed box (or the base is 0) and the sum stays below 2^64. -/
theorem iloc_extent_sound (adj : Int) (pivot : Nat) (hp : 0 < pivot)
    (wb we b e b' e' : Nat)
    (hb : adjField adj pivot ⟨.ilocb, wb, b, 0, 0, 0⟩ = some b')
    (he : adjField adj pivot ⟨.iloce, we, e, 0, b, 0⟩ = some e')
    (side : b = 0 ∨ (b < pivot ↔ b + e < pivot))
    (hfit : b' + e' < U64) :
    adjOffset (b + e) adj pivot = some (b' + e') := by
  unfold adjField at hb he
  simp only at hb he
  have hb1 : adjOffset b adj pivot = some b' := by
    split at hb
    · cases hb
    · simp only [beq_self_eq_true, if_true] at hb
      cases hx : adjOffset b adj pivot with
      | none => rw [hx] at hb; cases hb
      | some v =>
        rw [hx] at hb
        simp only [Option.bind] at hb
        unfold fit at hb
        split at hb
        · split at hb
          · rw [← Option.some.inj hb]
          · cases hb
        · split at hb
          · split at hb
            · rw [← Option.some.inj hb]
            · cases hb
          · cases hb
  split at he
  · cases he
  · by_cases hb0 : b = 0
    · subst hb0
      have hb' : b' = 0 := by
        rw [adjOffset_below 0 adj pivot hp] at hb1; exact (Option.some.inj hb1).symm
      subst hb'
      by_cases he0 : e = 0
      · subst he0
        simp at he
        subst he
        exact adjOffset_below 0 adj pivot hp
      · have : ((0 : Nat) == 0 && (0 : Nat) == 0 && e != 0) = true := by simp [he0]
        rw [if_pos this] at he
        simpa using adjW_some he
    · have : ((0 : Nat) == 0 && b == 0 && e != 0) = false := by simp [hb0]
      rw [this] at he
      simp only [Bool.false_eq_true, if_false] at he
      have he' : e' = e := (Option.some.inj he).symm
      subst he'
      rcases side with s | s
      · exact absurd s hb0
      · rw [adjOffset_eq_some_iff] at hb1 ⊢
        rcases hb1 with ⟨hlt, rfl⟩ | ⟨hge, hv, _⟩
        · left; exact ⟨s.1 hlt, rfl⟩
        · right
          refine ⟨?_, ?_, hfit⟩
          · by_cases hh : b + e' < pivot
            · have := s.2 hh; omega
            · omega
          · push_cast; omega

/-- The limitation of the rule as coded: a non-zero base located before the changed box whose
extent reaches data after it is not shifted (base and data on different sides). -/
theorem iloc_base_straddle_unsound :
    ∃ (adj : Int) (pivot wb we b e b' e' r : Nat),
      adjField adj pivot ⟨.ilocb, wb, b, 0, 0, 0⟩ = some b' ∧
      adjField adj pivot ⟨.iloce, we, e, 0, b, 0⟩ = some e' ∧
      adjOffset (b + e) adj pivot = some r ∧ r ≠ b' + e' :=
  ⟨10, 100, 4, 4, 50, 60, 50, 60, 120, by decide, by decide, by decide, by decide⟩

/-! ### `/mfra/tfra` before the repair -/

/-- The code before the C09 repair (every tfra entry of a track := offset of the track's
last moof) breaks the first entry of a track with two fragments even when nothing moves
(`adjust = 0`): the entry addressing the moof at 100 is overwritten with 200. -/
theorem tfraLegacy_unsound :
    ∃ (moofs : List (Nat × Nat)) (f : Field) (r : Nat),
      tfraLegacy moofs f = some r ∧ adjField 0 0 f = some f.val ∧ r ≠ f.val :=
  ⟨[(1, 100), (1, 200)], ⟨.tfra, 4, 100, 0, 0, 1⟩, 200, by decide, by decide, by decide⟩

/-! ### which boxes are patched: the source table -/

/-- The sections of `adjust_known_offsets_from` in the current source — box paths in order,
number of `adjust_offset` / `adjust_offset_u32` call sites per section — are exactly the ones
the model mirrors. A section added, dropped, or rewritten to store an offset without going
through `adjust_offset*` changes the generated table and breaks this theorem. -/
theorem sites_match : (Gen.sites == sites) = true := by decide +kernel

/-- Every caller passes as pivot the end (for an insertion: the position) of the changed box in
the source layout; the dead wrapper `adjust_known_offsets` passes 0. -/
theorem callers_match :
    (Gen.callers == [("adjust_known_offsets", "0"), ("write_cai", "end as u64"),
      ("remove_cai_store_from_stream", "end as u64"), ("embed_reference_to_stream", "end as u64"),
      ("inject_placeholder", "start"), ("verif_adjust_known_offsets_from", "pivot")]) = true := by
  decide +kernel

/-- The field kinds of the model and the patched box paths of the source coincide. -/
theorem kinds_cover_sites :
    ([Kind.stco, .co64, .saio, .tfhd, .tfra, .ilocb, .iloce].all
        (fun k => Gen.sites.any (fun s => s.1 == k.path)) &&
      Gen.sites.all (fun s => [Kind.stco, .co64, .saio, .tfhd, .tfra, .ilocb, .iloce].any
        (fun k => s.1 == k.path))) = true := by
  decide +kernel

/-! ### non-vacuity -/

-- insert 3 bytes after a 2-byte prefix; the offset of the data after the insertion point moves
example : adjustTable ((3 : Nat) - (0 : Nat) : Int) 2 [⟨.stco, 4, 2, 0, 0, 0⟩, ⟨.co64, 8, 0, 0, 0, 0⟩]
    = some [5, 0] := by decide
example : slice ([1, 2] ++ [9, 9, 9] ++ [3, 4]) 5 2 = slice ([1, 2] ++ [] ++ [3, 4]) 2 2 := by decide
-- shrinking below zero is an error, as is leaving the u32 range
example : adjOffset 5 (-6) 5 = none := by decide
example : adjOffset32 4294967295 1 0 = none := by decide
example : adjOffset 18446744073709551615 1 0 = none := by decide
-- boundary: the offset equal to the pivot moves, the one before does not
example : adjOffset 10 7 10 = some 17 ∧ adjOffset 9 7 10 = some 9 := by decide
-- iloc: base 0 → extent adjusted; base ≠ 0 → base adjusted, extent kept
example : adjField 10 100 ⟨.iloce, 4, 150, 0, 0, 0⟩ = some 160 := by decide
example : adjField 10 100 ⟨.iloce, 4, 150, 0, 120, 0⟩ = some 150 := by decide
example : adjField 10 100 ⟨.ilocb, 8, 120, 0, 0, 0⟩ = some 130 := by decide

end C2pa.C09Bmff
