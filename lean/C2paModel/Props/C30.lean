import C2paModel.Lemmas.C30
/-
C30 — property theorems. The statement (properties.jsonl):

  For every format that supports remote references and every URL, the remote manifest URL
  the reader extracts from an asset equals the URL that was embedded when signing with a
  remote reference. Embedding preserves the XMP properties that were already present.

Every handler embeds with `add_provenance` and the reader extracts with `extract_provenance`
(the container part is observed end to end by the harness). The theorems quantify over every
string (URL or not), every key and every packet: any `pre`/`post` text, any number of
attributes with any raw values, start or empty element, with or without trailer, any length.
-/
namespace C2pa.C30

/-! ### escaping -/

/-- **`unescape (escape s) = s` for every string.** -/
theorem unescape_escape (s : Str) : unescape (escape s) = some s :=
  unescGo_escape s

theorem unescapeLenient_escape (s : Str) : unescapeLenient (escape s) = s := by
  simp [unescapeLenient, unescape_escape]

/-- Returning the raw attribute value (the behaviour before the repair, F8) is not the
identity: the stored form of `a&b` is `a&amp;b`. -/
theorem raw_value_is_escaped : escape ['a', '&', 'b'] = ['a', '&', 'a', 'm', 'p', ';', 'b'] := by
  decide

/-! ### shape of a successful `add_xmp_key` -/

theorem addKey_ok (p : Packet) (k v : Str) (q : Packet) (h : addKey p k v = .ok q) :
    ¬(p.trailer = true ∧ p.origLen < 19) ∧
    ((p.desc = none ∧ q = finish p none) ∨
      ∃ d, p.desc = some d ∧ dupKeys d.attrs = false ∧
        q = finish p (some { d with attrs := editAttrs k (escape v) d.attrs })) := by
  unfold addKey at h
  split at h
  · cases h
  · rename_i hp
    refine ⟨hp, ?_⟩
    cases hd : p.desc with
    | none => rw [hd] at h; simp only [Res.ok.injEq] at h; exact Or.inl ⟨rfl, h.symm⟩
    | some d =>
      rw [hd] at h
      simp only at h
      split at h
      · cases h
      · rename_i hdup
        simp only [Res.ok.injEq] at h
        exact Or.inr ⟨d, rfl, by simpa using hdup, h.symm⟩

/-- `add_xmp_key` fails only for a duplicated attribute (or the length underflow). -/
theorem addKey_succeeds (p : Packet) (k v : Str) (hp : ¬(p.trailer = true ∧ p.origLen < 19))
    (hd : ∀ d, p.desc = some d → dupKeys d.attrs = false) : ∃ q, addKey p k v = .ok q := by
  unfold addKey
  rw [if_neg hp]
  cases hdesc : p.desc with
  | none => exact ⟨_, rfl⟩
  | some d => simp [hd d hdesc]

theorem finish_fields (p : Packet) (d : Option Desc) :
    (finish p d).pre = p.pre ∧ (finish p d).desc = d ∧ (finish p d).post = p.post ∧
    (finish p d).trailer = true ∧
    (finish p d).gap = (if p.trailer then [] else p.gap) ++
      padding (targetLen p - utf8Len (bodyWith p d)) ∧
    (finish p d).origLen = utf8Len (render (finish p d)) := by
  simp [finish, render]

/-! ### round trip -/

/-- **The value read back for the key is the value that was added** — for every key, every
value (any characters) and every packet that has an rdf:Description element. -/
theorem key_roundtrip (p : Packet) (k v : Str) (q : Packet) (h : addKey p k v = .ok q)
    (hd : p.desc ≠ none) : extractKey q k = some v := by
  obtain ⟨_, h1 | ⟨d, hpd, _, hq⟩⟩ := addKey_ok p k v q h
  · exact absurd h1.1 hd
  · subst hq
    simp [extractKey, (finish_fields p _).2.1, findAttr_editAttrs_self, unescapeLenient_escape]

theorem addKey_desc_some (p : Packet) (k v : Str) (q : Packet) (h : addKey p k v = .ok q)
    (hd : p.desc ≠ none) : q.desc ≠ none := by
  obtain ⟨_, h1 | ⟨d, hpd, _, hq⟩⟩ := addKey_ok p k v q h
  · exact absurd h1.1 hd
  · subst hq; simp [(finish_fields p _).2.1]

/-- **`extract_provenance (add_provenance xmp url) = url`** for every URL and every packet
with an rdf:Description element. -/
theorem provenance_roundtrip (p : Packet) (url : Str) (q : Packet)
    (h : addProvenance p url = .ok q) (hd : p.desc ≠ none) : extractProvenance q = some url := by
  unfold addProvenance at h
  cases h1 : addKey p kXmlnsDcterms vDcterms with
  | ok p1 =>
    rw [h1] at h
    exact key_roundtrip p1 kProvenance url q h (addKey_desc_some p _ _ p1 h1 hd)
  | readErr => rw [h1] at h; cases h
  | panic => rw [h1] at h; cases h

theorem origLen_finish_ge (p : Packet) (d : Option Desc) : 19 ≤ (finish p d).origLen := by
  rw [(finish_fields p d).2.2.2.2.2]
  simp only [render, utf8Len_append, utf8Len_xmpEnd]
  omega

theorem addKey_ok_trailer (p : Packet) (k v : Str) (q : Packet) (h : addKey p k v = .ok q) :
    q.trailer = true ∧ 19 ≤ q.origLen := by
  obtain ⟨_, ⟨_, hq⟩ | ⟨d, _, _, hq⟩⟩ := addKey_ok p k v q h
  · subst hq; exact ⟨(finish_fields p _).2.2.2.1, origLen_finish_ge p _⟩
  · subst hq; exact ⟨(finish_fields p _).2.2.2.1, origLen_finish_ge p _⟩

/-- `add_provenance` succeeds whenever the first `add_xmp_key` does, and then round-trips. -/
theorem provenance_roundtrip_total (p : Packet) (url : Str) (d : Desc) (hd : p.desc = some d)
    (hdup : dupKeys d.attrs = false) (hp : ¬(p.trailer = true ∧ p.origLen < 19)) :
    ∃ q, addProvenance p url = .ok q ∧ extractProvenance q = some url := by
  obtain ⟨p1, h1⟩ := addKey_succeeds p kXmlnsDcterms vDcterms hp (by
    intro d' hd'; rw [hd] at hd'; cases hd'; exact hdup)
  obtain ⟨_, hn | ⟨d1, hpd, _, hq⟩⟩ := addKey_ok p _ _ p1 h1
  · rw [hd] at hn; cases hn.1
  · rw [hd] at hpd; cases hpd
    have hp1 : ¬(p1.trailer = true ∧ p1.origLen < 19) := by
      subst hq; intro hc; have := origLen_finish_ge p (some { d with attrs := editAttrs kXmlnsDcterms (escape vDcterms) d.attrs }); omega
    obtain ⟨q, h2⟩ := addKey_succeeds p1 kProvenance url hp1 (by
      intro d' hd'
      subst hq
      rw [(finish_fields p _).2.1] at hd'
      cases hd'
      exact dupKeys_editAttrs _ _ _ hdup)
    have hall : addProvenance p url = .ok q := by
      unfold addProvenance; rw [h1]; exact h2
    exact ⟨q, hall, provenance_roundtrip p url q hall (by rw [hd]; simp)⟩

/-! ### what was already there stays -/

/-- **Everything else is unchanged**: the text before and after the element, the element
form, and every other attribute in its original order (a literal `"` inside a value is
written `&quot;`, see `reqAttr_spec`). Without an rdf:Description nothing is written. -/
theorem other_attrs_preserved (p : Packet) (k v : Str) (q : Packet) (h : addKey p k v = .ok q) :
    q.pre = p.pre ∧ q.post = p.post ∧ (p.desc = none → q.desc = none) ∧
    ∀ d, p.desc = some d → ∃ d', q.desc = some d' ∧ d'.empty = d.empty ∧
      d'.attrs.filter (fun a => !decide (a.key = k)) =
        (d.attrs.filter (fun a => !decide (a.key = k))).map reqAttr := by
  obtain ⟨_, ⟨hn, hq⟩ | ⟨d, hpd, _, hq⟩⟩ := addKey_ok p k v q h
  · subst hq
    refine ⟨(finish_fields p _).1, (finish_fields p _).2.2.1, fun _ => (finish_fields p _).2.1, ?_⟩
    intro d hd; rw [hn] at hd; cases hd
  · subst hq
    refine ⟨(finish_fields p _).1, (finish_fields p _).2.2.1, (fun hn => by rw [hpd] at hn; cases hn), ?_⟩
    intro d0 hd0
    rw [hpd] at hd0; cases hd0
    exact ⟨_, (finish_fields p _).2.1, rfl, filter_editAttrs k (escape v) d.attrs⟩

/-- The rewritten form of an untouched attribute: same key; the same meaning whenever the
value is well-formed escaped text; the same characters when it has no literal `"`. -/
theorem reqAttr_spec (a : Attr) :
    (reqAttr a).key = a.key ∧
    (∀ s, unescape a.val = some s → unescape (reqAttr a).val = some s) ∧
    ('"' ∉ a.val → reqAttr a = a) := by
  refine ⟨rfl, fun s hs => unescape_requote a.val s hs, fun hq => ?_⟩
  simp [reqAttr, requote_of_no_quote a.val hq]

/-- **Every other key reads back as before** (the values being well-formed escaped text or
free of literal double quotes). -/
theorem other_keys_unchanged (p : Packet) (k v : Str) (q : Packet) (h : addKey p k v = .ok q)
    (k' : Str) (hk : k' ≠ k)
    (hw : ∀ d a, p.desc = some d → findAttr k' d.attrs = some a →
      (unescape a.val).isSome ∨ '"' ∉ a.val) :
    extractKey q k' = extractKey p k' := by
  obtain ⟨_, ⟨hn, hq⟩ | ⟨d, hpd, _, hq⟩⟩ := addKey_ok p k v q h
  · subst hq; simp [extractKey, (finish_fields p _).2.1, hn]
  · subst hq
    simp only [extractKey, (finish_fields p _).2.1, hpd, findAttr_editAttrs_other k _ k' hk]
    cases hf : findAttr k' d.attrs with
    | none => rfl
    | some a =>
      simp only [Option.map_some]
      rcases hw d a hpd hf with hu | hq
      · obtain ⟨s, hs⟩ := Option.isSome_iff_exists.1 hu
        have := unescape_requote a.val s hs
        simp [unescapeLenient, reqAttr, hs, this]
      · simp [reqAttr, requote_of_no_quote a.val hq]

/-- The output text is the edited body, then blanks, then the trailer. -/
theorem output_shape (p : Packet) (k v : Str) (q : Packet) (h : addKey p k v = .ok q) :
    ∃ g, (∀ c ∈ g, c = ' ' ∨ c = '\n') ∧ render q = bodyWith p q.desc ++ g ++ xmpEnd := by
  have key : ∀ d, render (finish p d) =
      bodyWith p d ++ padding (targetLen p - utf8Len (bodyWith p d)) ++ xmpEnd := by
    intro d; simp [render, finish, bodyWith, List.append_assoc]
  obtain ⟨_, ⟨_, hq⟩ | ⟨d, _, _, hq⟩⟩ := addKey_ok p k v q h
  · subst hq; exact ⟨_, blank_padding _, by rw [(finish_fields p _).2.1]; exact key _⟩
  · subst hq; exact ⟨_, blank_padding _, by rw [(finish_fields p _).2.1]; exact key _⟩

/-! ### packet length -/

theorem utf8Len_render_finish (p : Packet) (d : Option Desc) :
    utf8Len (render (finish p d)) = max (utf8Len (bodyWith p d) + 1) (targetLen p) + 19 := by
  have : render (finish p d) =
      bodyWith p d ++ padding (targetLen p - utf8Len (bodyWith p d)) ++ xmpEnd := by
    simp [render, finish, bodyWith, List.append_assoc]
  rw [this]
  simp only [utf8Len_append, utf8Len_padding, utf8Len_xmpEnd]
  omega

/-- Length of the output for every packet: the body plus at least one line break, padded up
to the target (original length when there was a trailer, else at least 4096), plus trailer. -/
theorem out_length (p : Packet) (k v : Str) (q : Packet) (h : addKey p k v = .ok q) :
    q.origLen = utf8Len (render q) ∧
    q.origLen = max (utf8Len (bodyWith p q.desc) + 1) (targetLen p) + 19 := by
  obtain ⟨_, ⟨_, hq⟩ | ⟨d, _, _, hq⟩⟩ := addKey_ok p k v q h <;> subst hq <;>
    exact ⟨(finish_fields p _).2.2.2.2.2, by
      rw [(finish_fields p _).2.2.2.2.2, (finish_fields p _).2.1]; exact utf8Len_render_finish p _⟩

/-- **When the packet had a trailer and the new body (with one line break) fits, the output
has exactly the original length.** -/
theorem padding_length (p : Packet) (k v : Str) (q : Packet) (h : addKey p k v = .ok q)
    (ht : p.trailer = true) (hfit : utf8Len (bodyWith p q.desc) + 1 ≤ p.origLen - 19) :
    q.origLen = p.origLen := by
  have hp := (addKey_ok p k v q h).1
  have := (out_length p k v q h).2
  simp only [targetLen, ht, if_true] at this
  have h19 : 19 ≤ p.origLen := by
    apply Nat.le_of_not_lt; intro hc; exact hp ⟨ht, hc⟩
  omega

/-! ### idempotence -/

theorem finish_fixed (q : Packet) (ht : q.trailer = true) (n : Nat) (hg : q.gap = padding n)
    (hl : q.origLen = utf8Len (render q)) : finish q q.desc = q := by
  have hbody : bodyWith q q.desc = q.pre ++ renderOptDesc q.desc ++ q.post := by
    simp [bodyWith, ht]
  have htl : targetLen q - utf8Len (bodyWith q q.desc) = max n 1 := by
    simp only [targetLen, ht, if_true, hl, hbody, render, hg, utf8Len_append, utf8Len_padding,
      utf8Len_xmpEnd]
    omega
  have hgap : (finish q q.desc).gap = q.gap := by
    rw [(finish_fields q _).2.2.2.2.1, htl, padding_max, hg]; simp [ht]
  have hrender : render (finish q q.desc) = render q := by
    simp only [render, (finish_fields q _).1, (finish_fields q _).2.1, (finish_fields q _).2.2.1, hgap]
  cases q with
  | mk pre desc post gap trailer origLen =>
    have h1 := (finish_fields ⟨pre, desc, post, gap, trailer, origLen⟩ desc)
    simp only at ht hg hl hgap hrender h1
    have e : finish ⟨pre, desc, post, gap, trailer, origLen⟩ desc =
        ⟨(finish ⟨pre, desc, post, gap, trailer, origLen⟩ desc).pre,
         (finish ⟨pre, desc, post, gap, trailer, origLen⟩ desc).desc,
         (finish ⟨pre, desc, post, gap, trailer, origLen⟩ desc).post,
         (finish ⟨pre, desc, post, gap, trailer, origLen⟩ desc).gap,
         (finish ⟨pre, desc, post, gap, trailer, origLen⟩ desc).trailer,
         (finish ⟨pre, desc, post, gap, trailer, origLen⟩ desc).origLen⟩ := rfl
    rw [e, h1.1, h1.2.1, h1.2.2.1, h1.2.2.2.1, hgap, h1.2.2.2.2.2, hrender, ← hl, ht]

/-- **Adding the same key and value a second time changes nothing** (the text is identical),
when the input had a trailer or no white space at its end. -/
theorem add_idempotent (p : Packet) (k v : Str) (q : Packet) (h : addKey p k v = .ok q)
    (hg : p.trailer = true ∨ p.gap = []) : addKey q k v = .ok q := by
  obtain ⟨_, hcase⟩ := addKey_ok p k v q h
  have hgap0 : (if p.trailer = true then [] else p.gap) = ([] : Str) := by
    rcases hg with hg | hg <;> simp [hg]
  have hq19 : ¬(q.trailer = true ∧ q.origLen < 19) := by
    intro hc; have := (addKey_ok_trailer p k v q h).2; omega
  rcases hcase with ⟨hn, hq⟩ | ⟨d, hpd, hdup, hq⟩
  · have hfix : finish q q.desc = q := by
      subst hq
      exact finish_fixed _ (finish_fields p _).2.2.2.1 _
        (by rw [(finish_fields p _).2.2.2.2.1, hgap0]; rfl) (finish_fields p _).2.2.2.2.2
    have hqd : q.desc = none := by subst hq; exact (finish_fields p _).2.1
    unfold addKey
    rw [if_neg hq19, hqd]
    rw [hqd] at hfix
    simp [hfix]
  · have hqd : q.desc = some { d with attrs := editAttrs k (escape v) d.attrs } := by
      subst hq; exact (finish_fields p _).2.1
    have hfix : finish q q.desc = q := by
      subst hq
      exact finish_fixed _ (finish_fields p _).2.2.2.1 _
        (by rw [(finish_fields p _).2.2.2.2.1, hgap0]; rfl) (finish_fields p _).2.2.2.2.2
    unfold addKey
    rw [if_neg hq19, hqd]
    simp only [dupKeys_editAttrs k (escape v) d.attrs hdup, editAttrs_idem]
    rw [hqd] at hfix
    simp [hfix]

/-- For every packet (also one ending in white space without trailer) a second addition
keeps the text before, the element, the text after and the total length; only the blanks
before the trailer are laid out again. -/
theorem add_again_content (p : Packet) (k v : Str) (q : Packet) (h : addKey p k v = .ok q) :
    ∃ q', addKey q k v = .ok q' ∧ q'.pre = q.pre ∧ q'.desc = q.desc ∧ q'.post = q.post ∧
      q'.trailer = q.trailer ∧ q'.origLen = q.origLen ∧ ∀ c ∈ q'.gap, c = ' ' ∨ c = '\n' := by
  obtain ⟨_, hcase⟩ := addKey_ok p k v q h
  have hqt : q.trailer = true := by
    rcases hcase with ⟨_, hq⟩ | ⟨d, _, _, hq⟩ <;> subst hq <;> exact (finish_fields p _).2.2.2.1
  have hql : q.origLen = utf8Len (render q) := (out_length p k v q h).1
  have hq19 : ¬(q.trailer = true ∧ q.origLen < 19) := by
    intro hc; have := (addKey_ok_trailer p k v q h).2; omega
  have hdup : ∀ d, q.desc = some d → dupKeys d.attrs = false := by
    intro d' hd'
    rcases hcase with ⟨_, hq⟩ | ⟨d, _, hdup, hq⟩
    · subst hq; rw [(finish_fields p _).2.1] at hd'; cases hd'
    · subst hq; rw [(finish_fields p _).2.1] at hd'; cases hd'
      exact dupKeys_editAttrs _ _ _ hdup
  obtain ⟨q', h'⟩ := addKey_succeeds q k v hq19 hdup
  have hdesc : q'.desc = q.desc := by
    obtain ⟨_, ⟨hn, hq'⟩ | ⟨d', hqd, _, hq'⟩⟩ := addKey_ok q k v q' h'
    · subst hq'; rw [(finish_fields q _).2.1, hn]
    · subst hq'
      rw [(finish_fields q _).2.1, hqd]
      rcases hcase with ⟨_, hq⟩ | ⟨d, _, _, hq⟩
      · subst hq; rw [(finish_fields p _).2.1] at hqd; cases hqd
      · subst hq; rw [(finish_fields p _).2.1] at hqd; cases hqd
        simp [editAttrs_idem]
  have hpre : q'.pre = q.pre := (other_attrs_preserved q k v q' h').1
  have hpost : q'.post = q.post := (other_attrs_preserved q k v q' h').2.1
  have hgapblank : ∀ c ∈ q'.gap, c = ' ' ∨ c = '\n' := by
    obtain ⟨_, ⟨_, hq'⟩ | ⟨d', _, _, hq'⟩⟩ := addKey_ok q k v q' h' <;> subst hq' <;>
      (rw [(finish_fields q _).2.2.2.2.1, hqt]; simpa using blank_padding _)
  have htr : q'.trailer = q.trailer := by
    rw [hqt]
    obtain ⟨_, ⟨_, hq'⟩ | ⟨d', _, _, hq'⟩⟩ := addKey_ok q k v q' h' <;> subst hq' <;>
      exact (finish_fields q _).2.2.2.1
  refine ⟨q', h', hpre, hdesc, hpost, htr, ?_, hgapblank⟩
  -- total length: the body is the old body, and it fits
  have hlen := (out_length q k v q' h').2
  rw [hdesc] at hlen
  have hb : utf8Len (bodyWith q q.desc) + utf8Len q.gap + 19 = q.origLen := by
    rw [hql]; simp only [bodyWith, hqt, if_true, render, utf8Len_append, utf8Len_xmpEnd]; simp [utf8Len]
  have hgpos : 1 ≤ utf8Len q.gap := by
    rcases hcase with ⟨_, hq⟩ | ⟨d, _, _, hq⟩ <;> subst hq <;>
      (rw [(finish_fields p _).2.2.2.2.1, utf8Len_append, utf8Len_padding]; omega)
  simp only [targetLen, hqt, if_true] at hlen
  omega

/-! ### non-vacuity -/

def exAttrs : List Attr :=
  [⟨"rdf:about".toList, []⟩,
   ⟨"xmpMM:DocumentID".toList, "xmp.did:1".toList⟩,
   ⟨"dc:source".toList, "say \"hi\" &amp; bye".toList⟩]

/-- a packet with trailer, 120 bytes of padding room -/
def exPacket : Packet :=
  { pre := "<x:xmpmeta><rdf:RDF>".toList, desc := some ⟨exAttrs, false⟩,
    post := "</rdf:Description></rdf:RDF></x:xmpmeta>".toList,
    gap := List.replicate 300 ' ', trailer := true, origLen := 500 }

def exUrl : Str := "https://h.example/m?a=1&b=2#'<>\"".toList

example : dupKeys exAttrs = false := by decide
example : ∃ q, addProvenance exPacket exUrl = .ok q ∧ extractProvenance q = some exUrl :=
  provenance_roundtrip_total exPacket exUrl ⟨exAttrs, false⟩ rfl (by decide) (by decide)
example : ∃ q, addKey exPacket kProvenance exUrl = .ok q :=
  addKey_succeeds exPacket _ _ (by decide) (by intro d hd; cases hd; decide)
-- the fit hypothesis of `padding_length` is met by `exPacket` (the new body is well below
-- the 481 bytes available)
set_option maxRecDepth 16384 in
example : utf8Len (bodyWith exPacket
    (some ⟨editAttrs kProvenance (escape exUrl) exAttrs, false⟩)) + 1 ≤ exPacket.origLen - 19 := by
  decide
/-- an untouched value with a literal `"` keeps its meaning -/
example : unescape (reqAttr ⟨"dc:source".toList, "say \"hi\" &amp; bye".toList⟩).val
    = some "say \"hi\" & bye".toList := by decide
/-- `other_keys_unchanged`'s side condition holds for every attribute of `exAttrs` -/
example : ∀ a ∈ exAttrs, (unescape a.val).isSome = true := by decide
/-- duplicates are rejected -/
example : addKey { exPacket with desc := some ⟨exAttrs ++ exAttrs, true⟩ } kProvenance exUrl
    = .readErr := by decide

end C2pa.C30
