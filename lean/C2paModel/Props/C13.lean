import C2paModel.Lemmas.C13Top
import C2paModel.Lemmas.C13Pipe
import C2paModel.Lemmas.C13Count
import C2paModel.Lemmas.C13PipeRef
import C2paModel.Lemmas.C13Env
/-
C13 — property theorems. The statement (properties.jsonl):

  Hashing a stream with a set of exclusion (or inclusion) ranges yields the digest of the
  concatenation of exactly the bytes not excluded (or the bytes included, in range order), with
  BMFF offset markers contributing their 8-byte big-endian offsets at their positions. This
  holds for unsorted, overlapping, adjacent and empty ranges, independent of the internal
  read-chunk size and thread pipelining; ranges reaching past the end of the data are rejected
  with an error and nothing panics.

`hashModel` (Model/C13.lean) returns the byte string that is fed to the hasher, so "the digest
is the digest of X" is "the absorbed string is X": for every hash function `H`,
`H absorbed = H X` (idealisation H-free of DESIGN §3 is not even needed for this direction).

Specifications used below (Lemmas/C13Spec.lean, Lemmas/C13Build.lean):
* `exclSpec data hr` — position-wise: for x = 0,1,…: the offset `x` big-endian `markerCopies`
  times, then byte x unless an exclusion range covers it. Entries that carry a BMFF offset are
  markers, not ranges. A marker contributes when its position is hashed or lies strictly between
  the first and the last hashed byte (strictly inside the stream when nothing is hashed);
  duplicates of a marker at a hashed position are all kept, at an excluded position they
  collapse to one (this is what the code does; no caller passes duplicates).
* `inclSpec data hr` — entries in start order (stable), each non-empty entry contributing its
  optional offset and then its bytes.
All theorems quantify over every stream, every entry list (any order, overlaps, empties,
arbitrary `Nat` starts/lengths/offsets), every chunk size ≥ 1 and every cancellation point.
-/
namespace C2pa.C13

/-! ### what a successful run absorbed -/

theorem ok_absorbed {alg : String} {data : List UInt8} {hr : Option (List HashRange)}
    {isExcl : Bool} {buf : Nat} {c : Option Nat} {abs : List UInt8} {prog : List (Nat × Nat)}
    (h : hashModel alg data hr isExcl buf c = .ok abs prog) :
    ∃ ps, buildPieces data.length hr isExcl = .ok ps ∧ abs = ps.flatMap (pieceBytes data) := by
  obtain ⟨_, _, ps, T, st, hb, _, hrun, ha, _⟩ := hashModel_ok_inv h
  obtain ⟨a, _, _⟩ := runPieces_ok ps {} st hrun
  exact ⟨ps, hb, by rw [ha, a]; rfl⟩

/-- **Exclusion hashing**: whenever a digest is returned for a non-empty exclusion list, the
bytes absorbed are exactly the position-wise specification (so the digest is its digest). -/
theorem excl_digest (alg : String) (data : List UInt8) (hr : List HashRange) (buf : Nat)
    (c : Option Nat) (abs : List UInt8) (prog : List (Nat × Nat)) (hne : hr ≠ [])
    (h : hashModel alg data (some hr) true buf c = .ok abs prog) : abs = exclSpec data hr := by
  obtain ⟨ps, hb, ha⟩ := ok_absorbed h
  obtain ⟨_, h1, _⟩ := hashModel_ok_inv h
  rw [ha]
  cases hr with
  | nil => exact absurd rfl hne
  | cons a t =>
    unfold buildPieces at hb
    simp only at hb
    cases hm : maxEnd (stableSort HashRange.start (a :: t)) 0 with
    | none => simp [hm] at hb
    | some e =>
      simp only [hm] at hb
      by_cases hlt : data.length < e
      · simp [hlt] at hb
      · simp only [hlt, if_false, if_true] at hb
        cases he : exclLoop (stableSort HashRange.start (a :: t)) [(0, data.length - 1)] [] with
        | error e' => simp [he] at hb
        | ok r =>
          obtain ⟨rs, ms⟩ := r
          simp only [he, Except.ok.injEq] at hb
          subst hb
          exact (exclPieces_spec data (a :: t) _ (stableSort_perm _ _) h1 rs ms he).1

/-- the same for any hash function -/
theorem excl_digest_hash {δ : Type} (H : List UInt8 → δ) (alg : String) (data : List UInt8)
    (hr : List HashRange) (buf : Nat) (c : Option Nat) (abs : List UInt8) (prog : List (Nat × Nat))
    (hne : hr ≠ []) (h : hashModel alg data (some hr) true buf c = .ok abs prog) :
    H abs = H (exclSpec data hr) := by
  rw [excl_digest alg data hr buf c abs prog hne h]

/-- `x` is hashed or lies strictly inside the hashed span -/
def inSpan (n : Nat) (hr : List HashRange) (x : Nat) : Bool := included n hr x || between n hr x

theorem markerCopies_nodup (n : Nat) (hr : List HashRange) (x : Nat)
    (hnd : (markersOf hr).Nodup) :
    markerCopies n hr x = if x ∈ markersOf hr ∧ inSpan n hr x = true then 1 else 0 := by
  unfold markerCopies inSpan
  rw [hnd.count]
  by_cases hm : x ∈ markersOf hr
  · have hc : (markersOf hr).contains x = true := List.contains_iff_mem.2 hm
    by_cases hi : included n hr x = true
    · simp [hm, hi]
    · have hi' : included n hr x = false := by simpa using hi
      simp [hm, hi', hc]
  · have hc : (markersOf hr).contains x = false := by
      rw [Bool.eq_false_iff]; intro h; exact hm (List.contains_iff_mem.1 h)
    by_cases hi : included n hr x = true
    · simp [hm, hi]
    · have hi' : included n hr x = false := by simpa using hi
      simp [hm, hi', hc]

/-- **Markers, exactly**: with pairwise distinct marker offsets (what the BMFF code produces),
the absorbed string is, position by position: the 8-byte big-endian offset `x` iff `x` is a
marker offset inside the hashed span, followed by byte `x` iff no exclusion covers it. A marker
never replaces or duplicates a data byte, whatever the length of the run it sits in. -/
theorem marker_exact (alg : String) (data : List UInt8) (hr : List HashRange) (buf : Nat)
    (c : Option Nat) (abs : List UInt8) (prog : List (Nat × Nat)) (hne : hr ≠ [])
    (hnd : (markersOf hr).Nodup)
    (h : hashModel alg data (some hr) true buf c = .ok abs prog) :
    abs = (List.range data.length).flatMap fun x =>
      (if x ∈ markersOf hr ∧ inSpan data.length hr x = true then be64 x else []) ++
        (if included data.length hr x then byteAt data x else []) := by
  rw [excl_digest alg data hr buf c abs prog hne h]
  unfold exclSpec
  apply flatMap_congr'
  intro x _
  rw [markerCopies_nodup _ _ _ hnd]
  by_cases hc : x ∈ markersOf hr ∧ inSpan data.length hr x = true
  · rw [if_pos hc, if_pos hc]; simp
  · rw [if_neg hc, if_neg hc]; simp

/-- no ranges (`None` or an empty list): the whole stream -/
theorem whole_digest (alg : String) (data : List UInt8) (hr : Option (List HashRange))
    (isExcl : Bool) (buf : Nat) (c : Option Nat) (abs : List UInt8) (prog : List (Nat × Nat))
    (hnone : hr = none ∨ hr = some [])
    (h : hashModel alg data hr isExcl buf c = .ok abs prog) : abs = data := by
  obtain ⟨ps, hb, ha⟩ := ok_absorbed h
  obtain ⟨_, h1, _⟩ := hashModel_ok_inv h
  have : ps = [⟨0, data.length - 1, false⟩] := by
    rcases hnone with rfl | rfl <;> simp [buildPieces] at hb <;> exact hb.symm
  rw [ha, this]
  simp only [List.flatMap_cons, List.flatMap_nil, List.append_nil, pieceBytes, Bool.false_eq_true,
    if_false, List.drop_zero]
  rw [List.take_of_length_le (by omega)]

/-- **Inclusion hashing**: the bytes absorbed are the entries in start order. -/
theorem incl_digest (alg : String) (data : List UInt8) (hr : List HashRange) (buf : Nat)
    (c : Option Nat) (abs : List UInt8) (prog : List (Nat × Nat)) (hne : hr ≠ [])
    (h : hashModel alg data (some hr) false buf c = .ok abs prog) : abs = inclSpec data hr := by
  obtain ⟨ps, hb, ha⟩ := ok_absorbed h
  rw [ha]
  cases hr with
  | nil => exact absurd rfl hne
  | cons a t =>
    unfold buildPieces at hb
    simp only at hb
    cases hm : maxEnd (stableSort HashRange.start (a :: t)) 0 with
    | none => simp [hm] at hb
    | some e =>
      simp only [hm] at hb
      by_cases hlt : data.length < e
      · simp [hlt] at hb
      · simp only [hlt, if_false, Bool.false_eq_true] at hb
        exact inclLoop_spec data _ ps hb

/-- "in range order" is the stable sort by start: a permutation of the input, ordered by
start, entries with equal start in input order. -/
theorem range_order (hr : List HashRange) :
    (stableSort HashRange.start hr).Perm hr ∧
      (stableSort HashRange.start hr).Pairwise (fun a b => a.start ≤ b.start) ∧
      ∀ k, (stableSort HashRange.start hr).filter (fun a => a.start == k) =
        hr.filter (fun a => a.start == k) :=
  ⟨stableSort_perm _ _, stableSort_sorted _ _, stableSort_stable _ _⟩

/-! ### ranges past the end -/

/-- **Every entry that reaches past the end of the data is rejected** (any position in the
list, either mode): no digest is returned. -/
theorem past_end_rejected (alg : String) (data : List UInt8) (hr : List HashRange) (isExcl : Bool)
    (buf : Nat) (c : Option Nat) (x : HashRange) (hx : x ∈ hr)
    (hpast : data.length < x.start + x.length) :
    ∀ abs prog, hashModel alg data (some hr) isExcl buf c ≠ .ok abs prog := by
  intro abs prog h
  obtain ⟨ps, hb, _⟩ := ok_absorbed h
  have := buildPieces_ok_within hb x hx
  omega

/-- … and the result is the `BadParam` error, before any progress callback. -/
theorem past_end_error (alg : String) (data : List UInt8) (hr : List HashRange) (isExcl : Bool)
    (buf : Nat) (c : Option Nat) (x : HashRange) (hx : x ∈ hr)
    (hpast : data.length < x.start + x.length) (halg : supported alg = true)
    (hdata : 1 ≤ data.length) :
    hashModel alg data (some hr) isExcl buf c = .err .badparam [] := by
  have key : ∀ o, Stage alg data (some hr) isExcl buf c o → o = .err .badparam [] := by
    intro o hs
    cases hs with
    | unsupported h => rw [halg] at h; cases h
    | nodata _ h => omega
    | build s _ _ hb => rw [buildPieces_error hb]; rfl
    | total ps s _ _ hb _ => have := buildPieces_ok_within hb x hx; omega
    | run ps T s _ _ hb _ _ => have := buildPieces_ok_within hb x hx; omega
    | done ps T st _ _ hb _ _ => have := buildPieces_ok_within hb x hx; omega
  exact key _ (hashModel_stage ..)

/-! ### panics, early stops, progress -/

/-- rejected before any piece is built -/
def Early (o : Outcome) : Prop :=
  o = .err .unsupported [] ∨ o = .err .nodata [] ∨ o = .err .badparam []

theorem not_early_panic (p : Panic) : ¬ Early (.panic p) := by
  intro h; rcases h with h | h | h <;> cases h

theorem not_early_ok (a : List UInt8) (p : List (Nat × Nat)) : ¬ Early (.ok a p) := by
  intro h; rcases h with h | h | h <;> cases h

theorem not_early_cancelled (p : List (Nat × Nat)) : ¬ Early (.err .cancelled p) := by
  intro h; rcases h with h | h | h <;> cases h

/-- once the builder accepts, the run is not rejected early -/
theorem stage_not_early {alg : String} {data : List UInt8} {hr : Option (List HashRange)}
    {isExcl : Bool} {buf : Nat} {c : Option Nat} (halg : supported alg = true)
    (h1 : 1 ≤ data.length) (hlen : data.length ≤ u64Max) (hb : 0 < buf) (ps0 : List Piece)
    (hps0 : buildPieces data.length hr isExcl = .ok ps0) (o : Outcome)
    (hs : Stage alg data hr isExcl buf c o) : ¬ Early o := by
  cases hs with
  | unsupported h => rw [halg] at h; cases h
  | nodata _ h => omega
  | build s _ _ hbd => rw [hps0] at hbd; cases hbd
  | total ps s _ _ hbd ht =>
    have hok := buildPieces_pieceOK h1 hlen hbd
    have := totalOf_spec (data := data) buf ps 0 hok
    rw [ht] at this
    rw [this.1]
    exact not_early_panic _
  | run ps T s _ _ hbd ht hrun =>
    have hok := buildPieces_pieceOK h1 hlen hbd
    have hinv : ProgInv T ({} : St) := by simp [ProgInv, ticks]
    have := runPieces_tri (data := data) (T := T) (c := c) hb ps {} hok hinv
    rw [hrun] at this
    simp only at this
    rcases this with ⟨a, _⟩ | ⟨n, a, _, _, _⟩
    · rw [a]; exact not_early_panic _
    · rw [a]; exact not_early_cancelled _
  | done ps T st _ _ _ _ _ => exact not_early_ok _ _

/-- what a run can end with when the stream length fits `u64` and the chunk size is ≥ 1 -/
theorem outcome_cases (alg : String) (data : List UInt8) (hr : Option (List HashRange))
    (isExcl : Bool) (buf : Nat) (c : Option Nat) (hlen : data.length ≤ u64Max) (hb : 0 < buf) :
    let o := hashModel alg data hr isExcl buf c
    o = .err .unsupported [] ∨ o = .err .nodata [] ∨ o = .err .badparam [] ∨
    (∃ ps, buildPieces data.length hr isExcl = .ok ps ∧
      ((o = .panic .counter ∧ chunkCount buf ps > u32Max) ∨
       (∃ n, o = .err .cancelled (ticks (wrapCount buf ps) n) ∧ 0 < n ∧ n ≤ chunkCount buf ps ∧
          c = some n) ∨
       (o = .ok (ps.flatMap (pieceBytes data)) (ticks (chunkCount buf ps) (chunkCount buf ps)) ∧
          chunkCount buf ps ≤ u32Max))) := by
  intro o
  have key : ∀ o, Stage alg data hr isExcl buf c o →
      o = .err .unsupported [] ∨ o = .err .nodata [] ∨ o = .err .badparam [] ∨
      (∃ ps, buildPieces data.length hr isExcl = .ok ps ∧
        ((o = .panic .counter ∧ chunkCount buf ps > u32Max) ∨
         (∃ n, o = .err .cancelled (ticks (wrapCount buf ps) n) ∧ 0 < n ∧ n ≤ chunkCount buf ps ∧
            c = some n) ∨
         (o = .ok (ps.flatMap (pieceBytes data)) (ticks (chunkCount buf ps) (chunkCount buf ps)) ∧
            chunkCount buf ps ≤ u32Max))) := by
    intro o hs
    cases hs with
    | unsupported _ => exact Or.inl rfl
    | nodata _ _ => exact Or.inr (Or.inl rfl)
    | build s _ _ hbd => rw [buildPieces_error hbd]; exact Or.inr (Or.inr (Or.inl rfl))
    | total ps s _ h1 hbd ht =>
      have hok := buildPieces_pieceOK h1 hlen hbd
      have := totalOf_spec (data := data) buf ps 0 hok
      rw [ht] at this
      simp only at this
      refine Or.inr (Or.inr (Or.inr ⟨ps, hbd, Or.inl ⟨by rw [this.1]; rfl, ?_⟩⟩))
      have := wrapCount_le buf ps; omega
    | run ps T s _ h1 hbd ht hrun =>
      have hok := buildPieces_pieceOK h1 hlen hbd
      have htot := totalOf_spec (data := data) buf ps 0 hok
      rw [ht] at htot
      simp only [Nat.zero_add] at htot
      have hinv : ProgInv T ({} : St) := by simp [ProgInv, ticks]
      have := runPieces_tri (data := data) (T := T) (c := c) hb ps {} hok hinv
      rw [hrun] at this
      simp only at this
      refine Or.inr (Or.inr (Or.inr ⟨ps, hbd, ?_⟩))
      rcases this with ⟨a, b⟩ | ⟨n, a, b1, b2, b3⟩
      · left; exact ⟨by rw [a]; rfl, by simpa using b⟩
      · right; left
        refine ⟨n, by rw [a, htot]; rfl, b1, by simpa using b2, b3⟩
    | done ps T st _ h1 hbd ht hrun =>
      have hok := buildPieces_pieceOK h1 hlen hbd
      have htot := totalOf_spec (data := data) buf ps 0 hok
      rw [ht] at htot
      simp only [Nat.zero_add] at htot
      have hinv : ProgInv T ({} : St) := by simp [ProgInv, ticks]
      have htri := runPieces_tri (data := data) (T := T) (c := c) hb ps {} hok hinv
      rw [hrun] at htri
      simp only at htri
      obtain ⟨hstep, hprog⟩ := htri
      obtain ⟨habs, _, _⟩ := runPieces_ok ps {} st hrun
      have hle := runPieces_step_le ps {} st hrun
      have hstep' : st.step = chunkCount buf ps := by simpa using hstep
      have hcc : chunkCount buf ps ≤ u32Max := by
        rcases hle with h | h
        · omega
        · have : st.step = 0 := h
          omega
      refine Or.inr (Or.inr (Or.inr ⟨ps, hbd, Or.inr (Or.inr ⟨?_, hcc⟩)⟩))
      have hT : T = chunkCount buf ps := by rw [htot, wrapCount_eq buf ps hcc]
      have : st.prog = ticks (chunkCount buf ps) (chunkCount buf ps) := by
        rw [hprog, hT, hstep']
      rw [this, habs]; rfl
  exact key _ (hashModel_stage ..)

/-- **No arithmetic panic**: for every input — any `u64` starts, lengths and offsets, including
`u64::MAX`, any order, any mode, any chunk size ≥ 1 — the u64 range arithmetic never overflows
or underflows, the chunk loop terminates and no read goes past the end of the stream. -/
theorem no_panic (alg : String) (data : List UInt8) (hr : Option (List HashRange)) (isExcl : Bool)
    (buf : Nat) (c : Option Nat) (hlen : data.length ≤ u64Max) (hb : 0 < buf) :
    hashModel alg data hr isExcl buf c ≠ .panic .arith ∧
    hashModel alg data hr isExcl buf c ≠ .panic .fuel ∧
    ∀ p, hashModel alg data hr isExcl buf c ≠ .err .io p := by
  have := outcome_cases alg data hr isExcl buf c hlen hb
  simp only at this
  rcases this with h | h | h | ⟨ps, _, ⟨h, _⟩ | ⟨n, h, _⟩ | ⟨h, _⟩⟩ <;> rw [h] <;>
    exact ⟨(by intro hh; cases hh), (by intro hh; cases hh), (by intro p hh; cases hh)⟩

/-- The full "nothing panics" for the `u32` progress counters `total` and `step`
(overflow-checked builds). -/
def NoCounterOverflowFull : Prop :=
  ∀ (alg : String) (data : List UInt8) (hr : Option (List HashRange)) (isExcl : Bool) (buf : Nat)
    (c : Option Nat), data.length ≤ u64Max → 0 < buf →
    hashModel alg data hr isExcl buf c ≠ .panic .counter

/-- The `u32` progress counters do not overflow as long as the run needs at most `u32::MAX`
callbacks (one per chunk). The hypothesis is about the piece list; `no_counter_overflow_input`
replaces it by a bound computed from the inputs, `no_counter_overflow_production` instantiates
that at the production chunk size 2^28 (streams < 2^59 bytes, < 2^30 entries). -/
theorem no_counter_overflow_partial (alg : String) (data : List UInt8)
    (hr : Option (List HashRange)) (isExcl : Bool) (buf : Nat) (c : Option Nat)
    (hlen : data.length ≤ u64Max) (hb : 0 < buf)
    (hcnt : ∀ ps, buildPieces data.length hr isExcl = .ok ps → chunkCount buf ps ≤ u32Max) :
    hashModel alg data hr isExcl buf c ≠ .panic .counter := by
  have := outcome_cases alg data hr isExcl buf c hlen hb
  simp only at this
  rcases this with h | h | h | ⟨ps, hbd, ⟨_, h⟩ | ⟨n, h, _⟩ | ⟨h, _⟩⟩
  · rw [h]; intro hh; cases hh
  · rw [h]; intro hh; cases hh
  · rw [h]; intro hh; cases hh
  · have := hcnt ps hbd; omega
  · rw [h]; intro hh; cases hh
  · rw [h]; intro hh; cases hh

/-- **Completeness**: a supported algorithm, a non-empty stream, every entry inside the data,
no cancellation, counters in range ⇒ a digest is returned, of the pieces' bytes, after exactly
`T` callbacks `(1,T) … (T,T)`. (Non-vacuity of the `… = .ok …` hypotheses above.) -/
theorem accepted_of_within (alg : String) (data : List UInt8) (hr : List HashRange) (isExcl : Bool)
    (buf : Nat) (halg : supported alg = true) (h1 : 1 ≤ data.length) (hlen : data.length ≤ u64Max)
    (hb : 0 < buf) (hall : ∀ x ∈ hr, x.start + x.length ≤ data.length)
    (hcnt : ∀ ps, buildPieces data.length (some hr) isExcl = .ok ps → chunkCount buf ps ≤ u32Max) :
    ∃ ps, buildPieces data.length (some hr) isExcl = .ok ps ∧
      hashModel alg data (some hr) isExcl buf none =
        .ok (ps.flatMap (pieceBytes data)) (ticks (chunkCount buf ps) (chunkCount buf ps)) := by
  obtain ⟨ps0, hps0⟩ := buildPieces_of_within hr isExcl hlen hall
  have := outcome_cases alg data (some hr) isExcl buf none hlen hb
  simp only at this
  have hne := stage_not_early (c := none) halg h1 hlen hb ps0 hps0 _ (hashModel_stage ..)
  rcases this with h | h | h | ⟨ps, hbd, ⟨_, h⟩ | ⟨n, _, _, _, h⟩ | ⟨h, _⟩⟩
  · exact absurd (Or.inl h) hne
  · exact absurd (Or.inr (Or.inl h)) hne
  · exact absurd (Or.inr (Or.inr h)) hne
  · have := hcnt ps hbd; omega
  · cases h
  · exact ⟨ps, hbd, h⟩

/-- **Chunk-size independence**: two successful runs on the same input with any two chunk sizes
(and any cancellation settings) absorbed the same byte string. -/
theorem chunk_independent (alg : String) (data : List UInt8) (hr : Option (List HashRange))
    (isExcl : Bool) (b1 b2 : Nat) (c1 c2 : Option Nat) (a1 a2 : List UInt8)
    (p1 p2 : List (Nat × Nat))
    (h1 : hashModel alg data hr isExcl b1 c1 = .ok a1 p1)
    (h2 : hashModel alg data hr isExcl b2 c2 = .ok a2 p2) : a1 = a2 := by
  obtain ⟨ps1, hb1, e1⟩ := ok_absorbed h1
  obtain ⟨ps2, hb2, e2⟩ := ok_absorbed h2
  rw [hb1] at hb2
  cases hb2
  rw [e1, e2]

/-- … and whether a digest is returned does not depend on the chunk size either, as long as
the progress counters stay in range. -/
theorem chunk_independent_ok (alg : String) (data : List UInt8) (hr : Option (List HashRange))
    (isExcl : Bool) (b1 b2 : Nat) (a1 : List UInt8) (p1 : List (Nat × Nat))
    (hlen : data.length ≤ u64Max) (hb2 : 0 < b2)
    (hcnt : ∀ ps, buildPieces data.length hr isExcl = .ok ps → chunkCount b2 ps ≤ u32Max)
    (h1 : hashModel alg data hr isExcl b1 none = .ok a1 p1) :
    ∃ p2, hashModel alg data hr isExcl b2 none = .ok a1 p2 := by
  obtain ⟨halg, hd, ps, T, st, hbd, _, _, _, _⟩ := hashModel_ok_inv h1
  obtain ⟨ps1, hb1, e1⟩ := ok_absorbed h1
  have := outcome_cases alg data hr isExcl b2 none hlen hb2
  simp only at this
  have hne := stage_not_early (c := none) halg hd hlen hb2 ps hbd _ (hashModel_stage ..)
  rcases this with h | h | h | ⟨ps', hbd', ⟨_, h⟩ | ⟨n, _, _, _, h⟩ | ⟨h, _⟩⟩
  · exact absurd (Or.inl h) hne
  · exact absurd (Or.inr (Or.inl h)) hne
  · exact absurd (Or.inr (Or.inr h)) hne
  · have := hcnt ps' hbd'; omega
  · cases h
  · rw [hb1] at hbd'; cases hbd'
    exact ⟨_, by rw [h, e1]⟩

/-- **Progress callbacks are well-formed**: the callback sees (1,T),(2,T),… with a constant
total; a successful run ends with (T,T) exactly; a cancelled run stops at the cancelling call
`n ≤` the number of chunks, which is `T` whenever the counters are in range. -/
theorem progress_wf (alg : String) (data : List UInt8) (hr : Option (List HashRange))
    (isExcl : Bool) (buf : Nat) (c : Option Nat) (hlen : data.length ≤ u64Max) (hb : 0 < buf) :
    (∀ abs prog, hashModel alg data hr isExcl buf c = .ok abs prog →
        ∃ T, T ≤ u32Max ∧ prog = ticks T T) ∧
    (∀ e prog, hashModel alg data hr isExcl buf c = .err e prog →
        prog = [] ∨ ∃ T n ps, prog = ticks T n ∧ e = .cancelled ∧ c = some n ∧ 0 < n ∧
          buildPieces data.length hr isExcl = .ok ps ∧ n ≤ chunkCount buf ps ∧
          (chunkCount buf ps ≤ u32Max → T = chunkCount buf ps)) := by
  have := outcome_cases alg data hr isExcl buf c hlen hb
  simp only at this
  refine ⟨?_, ?_⟩
  · intro abs prog h
    rw [h] at this
    rcases this with h' | h' | h' | ⟨ps, _, ⟨h', _⟩ | ⟨n, h', _⟩ | ⟨h', hc⟩⟩ <;> try cases h'
    exact ⟨_, hc, rfl⟩
  · intro e prog h
    rw [h] at this
    rcases this with h' | h' | h' | ⟨ps, hbd, ⟨h', _⟩ | ⟨n, h', h0, hn, hc⟩ | ⟨h', _⟩⟩ <;> try cases h'
    · exact Or.inl rfl
    · exact Or.inl rfl
    · exact Or.inl rfl
    · exact Or.inr ⟨_, n, ps, rfl, rfl, hc, h0, hbd, hn, fun hcc => wrapCount_eq buf ps hcc⟩

/-! ### the counter hypothesis is necessary (model level, overflow-checked build)

A 4 GiB stream hashed with chunk size 1 needs 2^32 callbacks: `total` is computed as
`2^32 as u32 = 0` and `step += 1` overflows at the 2^32-th chunk. This needs the test-only
chunk-size parameter (the public entry points use 2^28, where the same needs a 2^60-byte
stream) and 2^32 worker-thread spawns, so it is *not replayed on the implementation*;
it is recorded here to show that `no_counter_overflow_partial` cannot drop its hypothesis. -/

theorem ceilDiv_by_one (a : Nat) : ceilDiv a 1 = a := by simp [ceilDiv]

theorem counter_overflow_witness :
    hashModel "sha256" (List.replicate 4294967296 0) none true 1 none = .panic .counter := by
  have hlenv : (List.replicate 4294967296 (0 : UInt8)).length = 4294967296 := List.length_replicate ..
  have hbuild : buildPieces (List.replicate 4294967296 (0 : UInt8)).length none true =
      .ok [⟨0, 4294967295, false⟩] := by rw [hlenv]; rfl
  have hcount : chunkCount 1 [⟨0, 4294967295, false⟩] = 4294967296 := by
    simp [chunkCount, ceilDiv_by_one]
  have := outcome_cases "sha256" (List.replicate 4294967296 0) none true 1 none
    (by rw [hlenv]; decide) (by decide)
  simp only at this
  have hne := stage_not_early (c := none) (alg := "sha256") (by decide) (by rw [hlenv]; decide)
    (by rw [hlenv]; decide) (by decide : 0 < 1) _ hbuild _ (hashModel_stage ..)
  rcases this with h | h | h | ⟨ps, hbd, ⟨h, _⟩ | ⟨n, _, _, _, h⟩ | ⟨_, h⟩⟩
  · exact absurd (Or.inl h) hne
  · exact absurd (Or.inr (Or.inl h)) hne
  · exact absurd (Or.inr (Or.inr h)) hne
  · exact h
  · cases h
  · rw [hbuild] at hbd; cases hbd
    rw [hcount] at h
    exact absurd h (by decide)

theorem no_counter_overflow_full_false : ¬ NoCounterOverflowFull := by
  intro h
  exact h "sha256" (List.replicate 4294967296 0) none true 1 none
    (by rw [List.length_replicate]; decide) (by decide) counter_overflow_witness

/-! ### thread pipelining -/

/-- **Schedule independence of the read-ahead hand-off**: from the state in which the main
thread holds the first chunk `c` and a hasher that has absorbed `h0`, every interleaving of
the two actors that reaches the end of the range leaves the hasher, back on the main thread,
having absorbed `h0 ++ c ++ c₂ ++ … ++ cₙ` — the chunks in stream order. -/
theorem pipeline_schedule_independent (h0 c : List UInt8) (cs : List (List UInt8)) (s : PState)
    (hr : PReach (pInit h0 c cs) s) (hd : s.done = true) :
    s.mainH = some (h0 ++ c ++ cs.flatten) ∧ s.worker = none ∧ s.chan = none :=
  pipeline_done_mainH h0 c cs s hr hd

/-- In every reachable state the hasher has exactly one owner and nothing absorbed or pending
is lost or reordered; a state that is not finished can always move (no deadlock). -/
theorem pipeline_invariant (h0 c : List UInt8) (cs : List (List UInt8)) (s : PState)
    (hr : PReach (pInit h0 c cs) s) :
    s.view = some (h0 ++ c ++ cs.flatten) ∧ (s.done = false → ∃ t, PStep s t) := by
  refine ⟨?_, fun hd => (hr.shape (PShape.holding cs c h0)).progress hd⟩
  rw [hr.view_eq]; simp [PState.view, pInit]

/-! ### the hand-off system is the chunk loop's hand-off

`PStep` is not a free-standing toy: the sequential `chunkLoop` (what `hashModel` runs, what the
differential run compares with the code) is one schedule of it, and every other completed
schedule on the same chunks ends with the same hasher content. -/

/-- **Termination**: every hand-off can be completed (the `s.done` hypothesis of
`pipeline_schedule_independent` is reachable from every initial state). -/
theorem pipeline_terminates (h0 c : List UInt8) (cs : List (List UInt8)) :
    ∃ s, PReach (pInit h0 c cs) s ∧ s.done = true :=
  pipeline_reaches_done cs h0 c

/-- **Refinement**: when the sequential chunk loop succeeds, the chunks it read after the entry
chunk are `loopChunks …` (each the result of a successful `read_exact`, non-empty, ≤ `buf`
bytes), a completed schedule of the hand-off system on these chunks exists, and *every*
completed schedule ends with the hasher content the sequential loop ends with. -/
theorem chunkLoop_refines_pipeline {data : List UInt8} {buf T : Nat} {c : Option Nat}
    (fuel pos : Nat) (chunk : List UInt8) (left : Nat) (st st' : St)
    (h : chunkLoop data buf T c fuel pos chunk left st = .ok st') :
    (∃ s, PReach (pInit st.absorbed chunk (loopChunks data buf fuel pos (left - chunk.length))) s ∧
      s.done = true) ∧
    ∀ s, PReach (pInit st.absorbed chunk (loopChunks data buf fuel pos (left - chunk.length))) s →
      s.done = true → s.mainH = some st'.absorbed :=
  chunkLoop_pipeline fuel pos chunk left st st' h

theorem runPiece_data_inv {data : List UInt8} {buf T : Nat} {c : Option Nat} {p : Piece}
    {st st' : St} (h : runPiece data buf T c p st = .ok st') (hm : p.marker = false) :
    ∃ st1 chunk, tick T c st = .ok st1 ∧
      readExact data p.lo (min (p.hi - p.lo + 1) buf) = some chunk ∧
      chunkLoop data buf T c (p.hi - p.lo + 1) (p.lo + min (p.hi - p.lo + 1) buf) chunk
        (p.hi - p.lo + 1) st1 = .ok st' := by
  unfold runPiece at h
  cases ht : tick T c st with
  | error o => simp [ht] at h
  | ok st1 =>
    simp only [ht] at h
    by_cases h1 : p.hi < p.lo
    · simp [h1] at h
    · simp only [h1, if_false] at h
      by_cases h2 : p.hi - p.lo + 1 > u64Max
      · simp [h2] at h
      · simp only [h2, if_false, hm, Bool.false_eq_true] at h
        cases hr : readExact data p.lo (min (p.hi - p.lo + 1) buf) with
        | none => simp [hr] at h
        | some chunk =>
          simp only [hr] at h
          exact ⟨st1, chunk, rfl, rfl, h⟩

theorem runPieces_split {data : List UInt8} {buf T : Nat} {c : Option Nat} :
    ∀ (pre : List Piece) (p : Piece) (post : List Piece) (st st' : St),
      runPieces data buf T c (pre ++ p :: post) st = .ok st' →
      ∃ sa sb, runPieces data buf T c pre st = .ok sa ∧ runPiece data buf T c p sa = .ok sb ∧
        runPieces data buf T c post sb = .ok st' := by
  intro pre
  induction pre with
  | nil =>
    intro p post st st' h
    simp only [List.nil_append] at h
    unfold runPieces at h
    cases hp : runPiece data buf T c p st with
    | error o => simp [hp] at h
    | ok sb =>
      simp only [hp] at h
      exact ⟨st, sb, rfl, hp, h⟩
  | cons q pre ih =>
    intro p post st st' h
    simp only [List.cons_append] at h
    unfold runPieces at h
    cases hq : runPiece data buf T c q st with
    | error o => simp [hq] at h
    | ok s1 =>
      simp only [hq] at h
      obtain ⟨sa, sb, a1, a2, a3⟩ := ih p post s1 st' h
      refine ⟨sa, sb, ?_, a2, a3⟩
      unfold runPieces
      simp only [hq]
      exact a1

/-- **Every range of a successful run**: for each data range `p` of the piece list, with the
hasher having absorbed the bytes of the pieces before it, the chunks the loop reads are the
first chunk and `loopChunks …`; a completed schedule of the hand-off exists and every completed
schedule hands back a hasher that has absorbed exactly the bytes of the range after what was
there before. The digest returned is therefore the same for every interleaving of the main
thread and the workers. -/
theorem run_refines_pipeline (alg : String) (data : List UInt8) (hr : Option (List HashRange))
    (isExcl : Bool) (buf : Nat) (c : Option Nat) (abs : List UInt8) (prog : List (Nat × Nat))
    (h : hashModel alg data hr isExcl buf c = .ok abs prog) :
    ∃ ps, buildPieces data.length hr isExcl = .ok ps ∧ abs = ps.flatMap (pieceBytes data) ∧
      ∀ pre p post, ps = pre ++ p :: post → p.marker = false →
        (∃ s, PReach (pInit (pre.flatMap (pieceBytes data))
            ((data.drop p.lo).take (min (p.hi - p.lo + 1) buf))
            (loopChunks data buf (p.hi - p.lo + 1) (p.lo + min (p.hi - p.lo + 1) buf)
              (p.hi - p.lo + 1 - min (p.hi - p.lo + 1) buf))) s ∧ s.done = true) ∧
        ∀ s, PReach (pInit (pre.flatMap (pieceBytes data))
            ((data.drop p.lo).take (min (p.hi - p.lo + 1) buf))
            (loopChunks data buf (p.hi - p.lo + 1) (p.lo + min (p.hi - p.lo + 1) buf)
              (p.hi - p.lo + 1 - min (p.hi - p.lo + 1) buf))) s → s.done = true →
          s.mainH = some (pre.flatMap (pieceBytes data) ++ pieceBytes data p) := by
  obtain ⟨_, _, ps, T, st, hb, _, hrun, ha, _⟩ := hashModel_ok_inv h
  obtain ⟨a, _, _⟩ := runPieces_ok ps {} st hrun
  refine ⟨ps, hb, by rw [ha, a]; rfl, ?_⟩
  intro pre p post hps hm
  subst hps
  obtain ⟨sa, sb, r1, r2, _⟩ := runPieces_split pre p post {} st hrun
  obtain ⟨a1, _, _⟩ := runPieces_ok pre {} sa r1
  obtain ⟨a2, _, _⟩ := runPiece_ok r2
  obtain ⟨st1, chunk, t1, t2, t3⟩ := runPiece_data_inv r2 hm
  obtain ⟨hn, _, hl⟩ := readExact_some t2
  obtain ⟨e1, _⟩ := tick_ok t1
  have hsa : sa.absorbed = pre.flatMap (pieceBytes data) := by rw [a1]; rfl
  have key := chunkLoop_pipeline _ _ _ _ _ _ t3
  rw [hl, e1, hsa, hn] at key
  rw [a2, hsa] at key
  exact key

/-! ### the progress counters, from the inputs alone -/

/-- **No counter overflow, input-level**: when `callbackBound` (a function of the stream
length, the number of entries, the mode and the chunk size) fits `u32`, the progress counters
do not overflow. -/
theorem no_counter_overflow_input (alg : String) (data : List UInt8)
    (hr : Option (List HashRange)) (isExcl : Bool) (buf : Nat) (c : Option Nat)
    (hlen : data.length ≤ u64Max) (hb : 0 < buf)
    (hbound : callbackBound data.length hr isExcl buf ≤ u32Max) :
    hashModel alg data hr isExcl buf c ≠ .panic .counter := by
  by_cases h1 : 1 ≤ data.length
  · apply no_counter_overflow_partial alg data hr isExcl buf c hlen hb
    intro ps hps
    exact Nat.le_trans (chunkCount_le_bound hps h1 hb) hbound
  · have h2 : data.length < 1 := by omega
    unfold hashModel
    by_cases hs : supported alg = true
    · simp [hs, h2]
    · have hs' : supported alg = false := by simpa using hs
      simp [hs']

/-- … in particular at the production chunk size 2^28 (`MAX_HASH_BUF`), in exclusion mode, for
every stream shorter than 2^59 bytes with fewer than 2^30 entries. -/
theorem no_counter_overflow_production (alg : String) (data : List UInt8)
    (hr : Option (List HashRange)) (c : Option Nat)
    (hlen : data.length < 576460752303423488)
    (hn : ∀ l, hr = some l → l.length < 1073741824) :
    hashModel alg data hr true 268435456 c ≠ .panic .counter := by
  apply no_counter_overflow_input alg data hr true 268435456 c (by unfold u64Max; omega) (by omega)
  unfold callbackBound u32Max
  cases hr with
  | none => simp only; omega
  | some l =>
    cases l with
    | nil => simp only; omega
    | cons a t =>
      have := hn (a :: t) rfl
      simp only [if_true]
      omega

/-- **Completeness, input-level**: a supported algorithm, a non-empty stream, every entry
inside the data, `callbackBound` within `u32`, and a cancellation point (if any) beyond the
bound ⇒ a digest is returned, of the pieces' bytes, after exactly `T` callbacks. -/
theorem accepted_of_within_input (alg : String) (data : List UInt8) (hr : List HashRange)
    (isExcl : Bool) (buf : Nat) (c : Option Nat) (halg : supported alg = true)
    (h1 : 1 ≤ data.length) (hlen : data.length ≤ u64Max) (hb : 0 < buf)
    (hall : ∀ x ∈ hr, x.start + x.length ≤ data.length)
    (hbound : callbackBound data.length (some hr) isExcl buf ≤ u32Max)
    (hc : ∀ k, c = some k → k = 0 ∨ callbackBound data.length (some hr) isExcl buf < k) :
    ∃ ps, buildPieces data.length (some hr) isExcl = .ok ps ∧
      hashModel alg data (some hr) isExcl buf c =
        .ok (ps.flatMap (pieceBytes data)) (ticks (chunkCount buf ps) (chunkCount buf ps)) := by
  obtain ⟨ps0, hps0⟩ := buildPieces_of_within hr isExcl hlen hall
  have := outcome_cases alg data (some hr) isExcl buf c hlen hb
  simp only at this
  have hne := stage_not_early (c := c) halg h1 hlen hb ps0 hps0 _ (hashModel_stage ..)
  rcases this with h | h | h | ⟨ps, hbd, ⟨_, h⟩ | ⟨n, _, h0, hn, hcn⟩ | ⟨h, _⟩⟩
  · exact absurd (Or.inl h) hne
  · exact absurd (Or.inr (Or.inl h)) hne
  · exact absurd (Or.inr (Or.inr h)) hne
  · have := chunkCount_le_bound hbd h1 hb; omega
  · have := chunkCount_le_bound hbd h1 hb
    rcases hc n hcn with hz | hz <;> omega
  · exact ⟨ps, hbd, h⟩

/-- **Exclusion hashing, existence and value**: every range inside the data and the callback
bound within `u32` ⇒ the run returns a digest and it is the digest of the specification. -/
theorem excl_complete (alg : String) (data : List UInt8) (hr : List HashRange) (buf : Nat)
    (halg : supported alg = true) (h1 : 1 ≤ data.length) (hlen : data.length ≤ u64Max)
    (hb : 0 < buf) (hne : hr ≠ []) (hall : ∀ x ∈ hr, x.start + x.length ≤ data.length)
    (hbound : data.length / buf + 2 * hr.length + 1 ≤ u32Max) :
    ∃ prog, hashModel alg data (some hr) true buf none = .ok (exclSpec data hr) prog := by
  have hcb : callbackBound data.length (some hr) true buf ≤ u32Max := by
    cases hr with
    | nil => exact absurd rfl hne
    | cons a t => simpa [callbackBound] using hbound
  obtain ⟨ps, _, h⟩ := accepted_of_within_input alg data hr true buf none halg h1 hlen hb hall hcb
    (fun k hk => by cases hk)
  have := excl_digest alg data hr buf none _ _ hne h
  exact ⟨_, by rw [h, this]⟩

/-- **Inclusion hashing, existence and value.** -/
theorem incl_complete (alg : String) (data : List UInt8) (hr : List HashRange) (buf : Nat)
    (halg : supported alg = true) (h1 : 1 ≤ data.length) (hlen : data.length ≤ u64Max)
    (hb : 0 < buf) (hne : hr ≠ []) (hall : ∀ x ∈ hr, x.start + x.length ≤ data.length)
    (hbound : hr.length * (data.length / buf + 2) ≤ u32Max) :
    ∃ prog, hashModel alg data (some hr) false buf none = .ok (inclSpec data hr) prog := by
  have hcb : callbackBound data.length (some hr) false buf ≤ u32Max := by
    cases hr with
    | nil => exact absurd rfl hne
    | cons a t => simpa [callbackBound] using hbound
  obtain ⟨ps, _, h⟩ := accepted_of_within_input alg data hr false buf none halg h1 hlen hb hall hcb
    (fun k hk => by cases hk)
  have := incl_digest alg data hr buf none _ _ hne h
  exact ⟨_, by rw [h, this]⟩

/-- **Chunk-size independence of acceptance, input-level.** -/
theorem chunk_independent_ok_input (alg : String) (data : List UInt8)
    (hr : Option (List HashRange)) (isExcl : Bool) (b1 b2 : Nat) (a1 : List UInt8)
    (p1 : List (Nat × Nat)) (hlen : data.length ≤ u64Max) (hb2 : 0 < b2)
    (hbound : callbackBound data.length hr isExcl b2 ≤ u32Max)
    (h1 : hashModel alg data hr isExcl b1 none = .ok a1 p1) :
    ∃ p2, hashModel alg data hr isExcl b2 none = .ok a1 p2 := by
  obtain ⟨_, hd, _⟩ := hashModel_ok_inv h1
  exact chunk_independent_ok alg data hr isExcl b1 b2 a1 p1 hlen hb2
    (fun ps hps => Nat.le_trans (chunkCount_le_bound hps hd hb2) hbound) h1

/-- **A cancellation point beyond the last callback never fires**: the run with `cancel = k`,
`k` greater than the number of callbacks of the uncancelled run, returns the same result. -/
theorem cancel_beyond_count (alg : String) (data : List UInt8) (hr : Option (List HashRange))
    (isExcl : Bool) (buf k : Nat) (abs : List UInt8) (prog : List (Nat × Nat))
    (hlen : data.length ≤ u64Max) (hb : 0 < buf)
    (h : hashModel alg data hr isExcl buf none = .ok abs prog) (hk : prog.length < k) :
    hashModel alg data hr isExcl buf (some k) = .ok abs prog := by
  obtain ⟨halg, hd, ps0, _, _, hps0, _, _, _, _⟩ := hashModel_ok_inv h
  have o1 := outcome_cases alg data hr isExcl buf none hlen hb
  simp only at o1
  rw [h] at o1
  have o2 := outcome_cases alg data hr isExcl buf (some k) hlen hb
  simp only at o2
  have hne := stage_not_early (c := some k) halg hd hlen hb ps0 hps0 _ (hashModel_stage ..)
  rcases o1 with h' | h' | h' | ⟨ps, hbd, ⟨h', _⟩ | ⟨n, h', _⟩ | ⟨h', hcc⟩⟩ <;> try cases h'
  rcases o2 with g | g | g | ⟨ps', hbd', ⟨_, g⟩ | ⟨n, _, _, hn, hcn⟩ | ⟨g, _⟩⟩
  · exact absurd (Or.inl g) hne
  · exact absurd (Or.inr (Or.inl g)) hne
  · exact absurd (Or.inr (Or.inr g)) hne
  · rw [hbd] at hbd'; cases hbd'; omega
  · rw [hbd] at hbd'; cases hbd'
    simp only [ticks_length] at hk
    cases hcn; omega
  · rw [hbd] at hbd'; cases hbd'; exact g

/-! ### the order of the exclusion entries does not matter -/

theorem included_perm (n : Nat) {a b : List HashRange} (h : a.Perm b) :
    included n a = included n b := by
  funext x; unfold included; rw [excluded_perm h]

theorem exclSpec_perm (data : List UInt8) {a b : List HashRange} (h : a.Perm b) :
    exclSpec data a = exclSpec data b := by
  have hi := included_perm data.length h
  have hm : (markersOf a).Perm (markersOf b) := h.filterMap _
  unfold exclSpec
  apply flatMap_congr'
  intro x _
  have hc : markerCopies data.length a x = markerCopies data.length b x := by
    unfold markerCopies between includedBelow includedAbove
    rw [hi, hm.count_eq, hm.contains_eq]
  rw [hc, hi]

/-- **Permutation invariance** (exclusion mode): two successful runs on entry lists that are
permutations of each other (any chunk sizes, any cancellation points) absorbed the same bytes.
(Inclusion mode hashes "in range order", where entries with equal start keep their input
order, so it is invariant only up to that order: `range_order`.) -/
theorem excl_perm_invariant (alg : String) (data : List UInt8) (hr hr' : List HashRange)
    (b1 b2 : Nat) (c1 c2 : Option Nat) (a1 a2 : List UInt8) (p1 p2 : List (Nat × Nat))
    (hp : hr.Perm hr')
    (h1 : hashModel alg data (some hr) true b1 c1 = .ok a1 p1)
    (h2 : hashModel alg data (some hr') true b2 c2 = .ok a2 p2) : a1 = a2 := by
  by_cases hne : hr = []
  · subst hne
    have : hr' = [] := List.nil_perm.1 hp
    subst this
    rw [whole_digest alg data _ true b1 c1 a1 p1 (Or.inr rfl) h1,
      whole_digest alg data _ true b2 c2 a2 p2 (Or.inr rfl) h2]
  · have hne' : hr' ≠ [] := fun e => hne (by subst e; exact List.perm_nil.1 hp)
    rw [excl_digest alg data hr b1 c1 a1 p1 hne h1, excl_digest alg data hr' b2 c2 a2 p2 hne' h2,
      exclSpec_perm data hp]

/-! ### markers: where they contribute, and the decision about the hashed span

The property text says markers contribute "at their positions". The code (and therefore
`exclSpec`) hashes a marker offset `x` only when `x` lies in the hashed span (`inSpan`: byte `x`
is hashed, or `x` lies strictly between the first and the last hashed byte). `marker_exact` is
the exact statement for that rule; `marker_contributes` is its positive half without the
distinctness hypothesis; `marker_outside_span_dropped` is a concrete input on which the
unconditional reading fails (`markers_unconditional_false`). The witness is replayed on the
implementation by the harness (oracle class `marker-outside-span-dropped`). -/

/-- what position `x` contributes according to the specification -/
def specAt (data : List UInt8) (hr : List HashRange) (x : Nat) : List UInt8 :=
  (List.replicate (markerCopies data.length hr x) (be64 x)).flatten ++
    (if included data.length hr x then byteAt data x else [])

theorem exclSpec_split (data : List UInt8) (hr : List HashRange) (x : Nat) (hx : x < data.length) :
    exclSpec data hr = (List.range x).flatMap (specAt data hr) ++ specAt data hr x ++
      (List.range' (x + 1) (data.length - (x + 1))).flatMap (specAt data hr) := by
  have e1 : List.range data.length = List.range' 0 x ++ List.range' (0 + x) (data.length - x) := by
    rw [List.range_eq_range']; exact range'_split 0 data.length x (by omega)
  have e2 : data.length - x = (data.length - (x + 1)) + 1 := by omega
  show (List.range data.length).flatMap (specAt data hr) = _
  rw [e1, e2, List.range'_succ, List.flatMap_append, List.flatMap_cons, ← List.range_eq_range',
    Nat.zero_add, List.append_assoc]

/-- **A marker in the hashed span contributes at its position**: for a marker offset `x` inside
the stream that is hashed or lies strictly between hashed bytes, the absorbed string is the
contributions of the positions `< x`, then the 8-byte big-endian `x`, then the rest. -/
theorem marker_contributes (alg : String) (data : List UInt8) (hr : List HashRange) (buf : Nat)
    (c : Option Nat) (abs : List UInt8) (prog : List (Nat × Nat)) (hne : hr ≠ [])
    (h : hashModel alg data (some hr) true buf c = .ok abs prog) (x : Nat)
    (hx : x < data.length) (hm : x ∈ markersOf hr) (hin : inSpan data.length hr x = true) :
    ∃ post, abs = (List.range x).flatMap (specAt data hr) ++ be64 x ++ post := by
  rw [excl_digest alg data hr buf c abs prog hne h, exclSpec_split data hr x hx]
  have hpos : 1 ≤ markerCopies data.length hr x := by
    unfold markerCopies
    by_cases hi : included data.length hr x = true
    · rw [if_pos hi]; exact List.count_pos_iff.2 hm
    · rw [if_neg hi]
      have hb : between data.length hr x = true := by
        unfold inSpan at hin
        have hi' : included data.length hr x = false := by simpa using hi
        simpa [hi'] using hin
      have hc : (markersOf hr).contains x = true := List.contains_iff_mem.2 hm
      simp [hb, hc, hm]
  obtain ⟨k, hk⟩ : ∃ k, markerCopies data.length hr x = k + 1 := ⟨_, (Nat.sub_add_cancel hpos).symm⟩
  refine ⟨(List.replicate k (be64 x)).flatten ++
    (if included data.length hr x then byteAt data x else []) ++
    (List.range' (x + 1) (data.length - (x + 1))).flatMap (specAt data hr), ?_⟩
  unfold specAt
  rw [hk, List.replicate_succ, List.flatten_cons]
  simp only [List.append_assoc]

/-- a marker on an excluded position before the first hashed byte: **not hashed** (exclusion
0..1, marker at 0 on ten bytes: only the bytes 2..9 are absorbed) -/
theorem marker_outside_span_dropped :
    hashModel "sha256" [10, 11, 12, 13, 14, 15, 16, 17, 18, 19]
      (some [⟨0, 2, none⟩, ⟨0, 1, some 0⟩]) true 3 none =
    .ok [12, 13, 14, 15, 16, 17, 18, 19] [(1, 3), (2, 3), (3, 3)] := by decide

/-- … and one after the last hashed byte -/
theorem marker_after_span_dropped :
    hashModel "sha256" [10, 11, 12, 13, 14, 15, 16, 17, 18, 19]
      (some [⟨8, 2, none⟩, ⟨9, 1, some 9⟩]) true 4 none =
    .ok [10, 11, 12, 13, 14, 15, 16, 17] [(1, 2), (2, 2)] := by decide

/-- The unconditional reading of "markers contribute their offsets at their positions": every
marker offset inside the stream is hashed, inside the hashed span or not. -/
def MarkersUnconditionalFull : Prop :=
  ∀ (alg : String) (data : List UInt8) (hr : List HashRange) (buf : Nat) (c : Option Nat)
    (abs : List UInt8) (prog : List (Nat × Nat)), hr ≠ [] → (markersOf hr).Nodup →
    hashModel alg data (some hr) true buf c = .ok abs prog →
    abs = (List.range data.length).flatMap fun x =>
      (if x ∈ markersOf hr then be64 x else []) ++
        (if included data.length hr x then byteAt data x else [])

/-- the unconditional reading is false of the code: `marker_exact` (with `inSpan`) is the
statement that holds -/
theorem markers_unconditional_false : ¬ MarkersUnconditionalFull := by
  intro hfull
  have := hfull _ _ _ _ _ _ _ (by decide) (by decide) marker_outside_span_dropped
  revert this
  decide

/-! ### thread creation fails -/

/-- **Spawn failure is an error, never a panic or a wrong digest**: in an environment where
`thread::Builder::spawn` fails, the outcome is that of the ordinary run (no range needed a
second chunk) or `Err(IoError)`; it is never an arithmetic panic or non-termination, and a
digest that is returned is the digest the ordinary run returns. -/
theorem spawn_failure_safe (alg : String) (data : List UInt8) (hr : Option (List HashRange))
    (isExcl : Bool) (buf : Nat) (c : Option Nat) (hlen : data.length ≤ u64Max) (hb : 0 < buf) :
    (hashModelE false alg data hr isExcl buf c = hashModel alg data hr isExcl buf c ∨
      ∃ prog, hashModelE false alg data hr isExcl buf c = .err .io prog) ∧
    hashModelE false alg data hr isExcl buf c ≠ .panic .arith ∧
    hashModelE false alg data hr isExcl buf c ≠ .panic .fuel ∧
    ∀ abs prog, hashModelE false alg data hr isExcl buf c = .ok abs prog →
      hashModel alg data hr isExcl buf c = .ok abs prog := by
  have hf := hashModelE_false alg data hr isExcl buf c
  obtain ⟨n1, n2, _⟩ := no_panic alg data hr isExcl buf c hlen hb
  refine ⟨hf, ?_, ?_, ?_⟩
  · rcases hf with h | ⟨p, h⟩ <;> rw [h]
    · exact n1
    · intro hh; cases hh
  · rcases hf with h | ⟨p, h⟩ <;> rw [h]
    · exact n2
    · intro hh; cases hh
  · intro abs prog h
    rcases hf with h' | ⟨p, h'⟩
    · rw [← h', h]
    · rw [h'] at h; cases h

/-- an I/O error can only come from a failed spawn (the stream itself is an in-memory
`Cursor`; I/O errors of other streams are C35's subject) -/
theorem io_error_only_when_spawn_fails (b : Bool) (alg : String) (data : List UInt8)
    (hr : Option (List HashRange)) (isExcl : Bool) (buf : Nat) (c : Option Nat)
    (hlen : data.length ≤ u64Max) (hb : 0 < buf) (p : List (Nat × Nat))
    (h : hashModelE b alg data hr isExcl buf c = .err .io p) : b = false := by
  cases b with
  | false => rfl
  | true =>
    rw [hashModelE_true] at h
    exact absurd h ((no_panic alg data hr isExcl buf c hlen hb).2.2 p)

/-- ten bytes, chunk size 3, no worker threads: the first range needs a second chunk, the
spawn fails after the first callback -/
example : hashModelE false "sha256" [10, 11, 12, 13, 14, 15, 16, 17, 18, 19] none true 3 none =
    .err .io [(1, 4)] := by decide
/-- … chunk size 10: no worker is needed, the digest is returned -/
example : hashModelE false "sha256" [10, 11, 12, 13, 14, 15, 16, 17, 18, 19] none true 10 none =
    .ok [10, 11, 12, 13, 14, 15, 16, 17, 18, 19] [(1, 1)] := by decide

/-! ### non-vacuity and the two repaired defects -/

def d10 : List UInt8 := [10, 11, 12, 13, 14, 15, 16, 17, 18, 19]

/-- F1 input (DESIGN §5): the earlier-starting range reaches past the end — rejected now. -/
example : hashModel "sha256" d10 (some [⟨0, 100, none⟩, ⟨5, 1, none⟩]) true 3 none =
    .err .badparam [] := by decide

/-- F2 input: a one-byte included run at a marker offset: offset once, then the data byte. -/
example : hashModel "sha256" d10 (some [⟨1, 9, none⟩, ⟨0, 1, some 0⟩]) true 3 none =
    .ok (be64 0 ++ [10]) [(1, 2), (2, 2)] := by decide

example : exclSpec d10 [⟨1, 9, none⟩, ⟨0, 1, some 0⟩] = be64 0 ++ [10] := by decide

/-- unsorted, overlapping, adjacent and empty exclusions with a marker inside a run, one in a
gap and one outside the hashed span; chunk size 2 -/
example : hashModel "sha256" d10
    (some [⟨9, 1, none⟩, ⟨2, 3, none⟩, ⟨4, 2, none⟩, ⟨9, 0, none⟩, ⟨1, 1, some 1⟩, ⟨3, 1, some 3⟩,
      ⟨9, 1, some 9⟩]) true 2 none =
    .ok ([10] ++ be64 1 ++ [11] ++ be64 3 ++ [16, 17, 18])
      [(1, 6), (2, 6), (3, 6), (4, 6), (5, 6), (6, 6)] := by decide

example : inclSpec d10 [⟨7, 3, some 5⟩, ⟨5, 1, none⟩, ⟨0, 0, none⟩] = [15] ++ be64 5 ++ [17, 18, 19] := by
  decide

/-- the hypotheses of `excl_complete` / `incl_complete` / `accepted_of_within_input` are met by
ordinary inputs: the bound is a small number -/
example : callbackBound 10 (some [⟨9, 1, none⟩, ⟨2, 3, none⟩, ⟨3, 1, some 3⟩]) true 2 = 12 := by decide
example : callbackBound 10 (some [⟨7, 3, some 5⟩, ⟨5, 1, none⟩]) false 2 = 14 := by decide
example : callbackBound 4096 none true 268435456 = 1 := by decide

/-- `excl_perm_invariant`: the same entries in two orders, different chunk sizes -/
example : hashModel "sha256" d10 (some [⟨9, 1, none⟩, ⟨2, 3, none⟩, ⟨3, 1, some 3⟩]) true 2 none =
    .ok ([10, 11] ++ be64 3 ++ [15, 16, 17, 18]) [(1, 4), (2, 4), (3, 4), (4, 4)] := by decide
example : hashModel "sha256" d10 (some [⟨3, 1, some 3⟩, ⟨2, 3, none⟩, ⟨9, 1, none⟩]) true 7 none =
    .ok ([10, 11] ++ be64 3 ++ [15, 16, 17, 18]) [(1, 3), (2, 3), (3, 3)] := by decide

/-- `run_refines_pipeline` / `chunkLoop_refines_pipeline`: the chunks the loop reads for the
range 2..9 with chunk size 3 after the entry chunk [12,13,14] -/
example : loopChunks d10 3 8 5 5 = [[15, 16, 17], [18, 19]] := by decide

/-- `cancel_beyond_count`: three callbacks, cancellation at the fourth never fires -/
example : hashModel "sha256" d10 (some [⟨0, 2, none⟩]) true 3 (some 4) =
    hashModel "sha256" d10 (some [⟨0, 2, none⟩]) true 3 none := by decide

example : hashModel "sha256" d10 (some [⟨7, 3, some 5⟩, ⟨5, 1, none⟩, ⟨0, 0, none⟩]) false 2 (some 3) =
    .err .cancelled [(1, 4), (2, 4), (3, 4)] := by decide

end C2pa.C13
