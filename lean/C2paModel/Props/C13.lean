import C2paModel.Lemmas.C13Top
import C2paModel.Lemmas.C13Pipe
/-
C13 — property theorems. The statement (properties.jsonl):

  Hashing a stream with a set of exclusion (or inclusion) ranges yields the digest of the
  concatenation of exactly the bytes not excluded (or the bytes included, in range order), with
  BMFF offset markers contributing their 8-byte big-endian offsets at their positions. This
  holds for unsorted, overlapping, adjacent and empty ranges, independent of the internal
  read-chunk size and thread pipelining; ranges reaching past the end of the data are rejected
  with an error and nothing panics.

`hashModel` (Model/C13.lean) returns the byte string that is fed to the hasher, so "the digest
is the digest of X" is "the absorbed string is X": for every hash function `H`,
`H absorbed = H X` (idealisation H-free of DESIGN §3 is not even needed for this direction).

Specifications used below (Lemmas/C13Spec.lean, Lemmas/C13Build.lean):
* `exclSpec data hr` — position-wise: for x = 0,1,…: the offset `x` big-endian `markerCopies`
  times, then byte x unless an exclusion range covers it. Entries that carry a BMFF offset are
  markers, not ranges. A marker contributes when its position is hashed or lies strictly between
  the first and the last hashed byte (strictly inside the stream when nothing is hashed);
  duplicates of a marker at a hashed position are all kept, at an excluded position they
  collapse to one (this is what the code does; no caller passes duplicates).
* `inclSpec data hr` — entries in start order (stable), each non-empty entry contributing its
  optional offset and then its bytes.
All theorems quantify over every stream, every entry list (any order, overlaps, empties,
arbitrary `Nat` starts/lengths/offsets), every chunk size ≥ 1 and every cancellation point.
-/
namespace C2pa.C13

/-! ### what a successful run absorbed -/

theorem ok_absorbed {alg : String} {data : List UInt8} {hr : Option (List HashRange)}
    {isExcl : Bool} {buf : Nat} {c : Option Nat} {abs : List UInt8} {prog : List (Nat × Nat)}
    (h : hashModel alg data hr isExcl buf c = .ok abs prog) :
    ∃ ps, buildPieces data.length hr isExcl = .ok ps ∧ abs = ps.flatMap (pieceBytes data) := by
  obtain ⟨_, _, ps, T, st, hb, _, hrun, ha, _⟩ := hashModel_ok_inv h
  obtain ⟨a, _, _⟩ := runPieces_ok ps {} st hrun
  exact ⟨ps, hb, by rw [ha, a]; rfl⟩

/-- **Exclusion hashing**: whenever a digest is returned for a non-empty exclusion list, the
bytes absorbed are exactly the position-wise specification (so the digest is its digest). -/
theorem excl_digest (alg : String) (data : List UInt8) (hr : List HashRange) (buf : Nat)
    (c : Option Nat) (abs : List UInt8) (prog : List (Nat × Nat)) (hne : hr ≠ [])
    (h : hashModel alg data (some hr) true buf c = .ok abs prog) : abs = exclSpec data hr := by
  obtain ⟨ps, hb, ha⟩ := ok_absorbed h
  obtain ⟨_, h1, _⟩ := hashModel_ok_inv h
  rw [ha]
  cases hr with
  | nil => exact absurd rfl hne
  | cons a t =>
    unfold buildPieces at hb
    simp only at hb
    cases hm : maxEnd (stableSort HashRange.start (a :: t)) 0 with
    | none => simp [hm] at hb
    | some e =>
      simp only [hm] at hb
      by_cases hlt : data.length < e
      · simp [hlt] at hb
      · simp only [hlt, if_false, if_true] at hb
        cases he : exclLoop (stableSort HashRange.start (a :: t)) [(0, data.length - 1)] [] with
        | error e' => simp [he] at hb
        | ok r =>
          obtain ⟨rs, ms⟩ := r
          simp only [he, Except.ok.injEq] at hb
          subst hb
          exact (exclPieces_spec data (a :: t) _ (stableSort_perm _ _) h1 rs ms he).1

/-- the same for any hash function -/
theorem excl_digest_hash {δ : Type} (H : List UInt8 → δ) (alg : String) (data : List UInt8)
    (hr : List HashRange) (buf : Nat) (c : Option Nat) (abs : List UInt8) (prog : List (Nat × Nat))
    (hne : hr ≠ []) (h : hashModel alg data (some hr) true buf c = .ok abs prog) :
    H abs = H (exclSpec data hr) := by
  rw [excl_digest alg data hr buf c abs prog hne h]

/-- `x` is hashed or lies strictly inside the hashed span -/
def inSpan (n : Nat) (hr : List HashRange) (x : Nat) : Bool := included n hr x || between n hr x

theorem markerCopies_nodup (n : Nat) (hr : List HashRange) (x : Nat)
    (hnd : (markersOf hr).Nodup) :
    markerCopies n hr x = if x ∈ markersOf hr ∧ inSpan n hr x = true then 1 else 0 := by
  unfold markerCopies inSpan
  rw [hnd.count]
  by_cases hm : x ∈ markersOf hr
  · have hc : (markersOf hr).contains x = true := List.contains_iff_mem.2 hm
    by_cases hi : included n hr x = true
    · simp [hm, hi]
    · have hi' : included n hr x = false := by simpa using hi
      simp [hm, hi', hc]
  · have hc : (markersOf hr).contains x = false := by
      rw [Bool.eq_false_iff]; intro h; exact hm (List.contains_iff_mem.1 h)
    by_cases hi : included n hr x = true
    · simp [hm, hi]
    · have hi' : included n hr x = false := by simpa using hi
      simp [hm, hi', hc]

/-- **Markers, exactly**: with pairwise distinct marker offsets (what the BMFF code produces),
the absorbed string is, position by position: the 8-byte big-endian offset `x` iff `x` is a
marker offset inside the hashed span, followed by byte `x` iff no exclusion covers it. A marker
never replaces or duplicates a data byte, whatever the length of the run it sits in. -/
theorem marker_exact (alg : String) (data : List UInt8) (hr : List HashRange) (buf : Nat)
    (c : Option Nat) (abs : List UInt8) (prog : List (Nat × Nat)) (hne : hr ≠ [])
    (hnd : (markersOf hr).Nodup)
    (h : hashModel alg data (some hr) true buf c = .ok abs prog) :
    abs = (List.range data.length).flatMap fun x =>
      (if x ∈ markersOf hr ∧ inSpan data.length hr x = true then be64 x else []) ++
        (if included data.length hr x then byteAt data x else []) := by
  rw [excl_digest alg data hr buf c abs prog hne h]
  unfold exclSpec
  apply flatMap_congr'
  intro x _
  rw [markerCopies_nodup _ _ _ hnd]
  by_cases hc : x ∈ markersOf hr ∧ inSpan data.length hr x = true
  · rw [if_pos hc, if_pos hc]; simp
  · rw [if_neg hc, if_neg hc]; simp

/-- no ranges (`None` or an empty list): the whole stream -/
theorem whole_digest (alg : String) (data : List UInt8) (hr : Option (List HashRange))
    (isExcl : Bool) (buf : Nat) (c : Option Nat) (abs : List UInt8) (prog : List (Nat × Nat))
    (hnone : hr = none ∨ hr = some [])
    (h : hashModel alg data hr isExcl buf c = .ok abs prog) : abs = data := by
  obtain ⟨ps, hb, ha⟩ := ok_absorbed h
  obtain ⟨_, h1, _⟩ := hashModel_ok_inv h
  have : ps = [⟨0, data.length - 1, false⟩] := by
    rcases hnone with rfl | rfl <;> simp [buildPieces] at hb <;> exact hb.symm
  rw [ha, this]
  simp only [List.flatMap_cons, List.flatMap_nil, List.append_nil, pieceBytes, Bool.false_eq_true,
    if_false, List.drop_zero]
  rw [List.take_of_length_le (by omega)]

/-- **Inclusion hashing**: the bytes absorbed are the entries in start order. -/
theorem incl_digest (alg : String) (data : List UInt8) (hr : List HashRange) (buf : Nat)
    (c : Option Nat) (abs : List UInt8) (prog : List (Nat × Nat)) (hne : hr ≠ [])
    (h : hashModel alg data (some hr) false buf c = .ok abs prog) : abs = inclSpec data hr := by
  obtain ⟨ps, hb, ha⟩ := ok_absorbed h
  rw [ha]
  cases hr with
  | nil => exact absurd rfl hne
  | cons a t =>
    unfold buildPieces at hb
    simp only at hb
    cases hm : maxEnd (stableSort HashRange.start (a :: t)) 0 with
    | none => simp [hm] at hb
    | some e =>
      simp only [hm] at hb
      by_cases hlt : data.length < e
      · simp [hlt] at hb
      · simp only [hlt, if_false, Bool.false_eq_true] at hb
        exact inclLoop_spec data _ ps hb

/-- "in range order" is the stable sort by start: a permutation of the input, ordered by
start, entries with equal start in input order. -/
theorem range_order (hr : List HashRange) :
    (stableSort HashRange.start hr).Perm hr ∧
      (stableSort HashRange.start hr).Pairwise (fun a b => a.start ≤ b.start) ∧
      ∀ k, (stableSort HashRange.start hr).filter (fun a => a.start == k) =
        hr.filter (fun a => a.start == k) :=
  ⟨stableSort_perm _ _, stableSort_sorted _ _, stableSort_stable _ _⟩

/-! ### ranges past the end -/

/-- **Every entry that reaches past the end of the data is rejected** (any position in the
list, either mode): no digest is returned. -/
theorem past_end_rejected (alg : String) (data : List UInt8) (hr : List HashRange) (isExcl : Bool)
    (buf : Nat) (c : Option Nat) (x : HashRange) (hx : x ∈ hr)
    (hpast : data.length < x.start + x.length) :
    ∀ abs prog, hashModel alg data (some hr) isExcl buf c ≠ .ok abs prog := by
  intro abs prog h
  obtain ⟨ps, hb, _⟩ := ok_absorbed h
  have := buildPieces_ok_within hb x hx
  omega

/-- … and the result is the `BadParam` error, before any progress callback. -/
theorem past_end_error (alg : String) (data : List UInt8) (hr : List HashRange) (isExcl : Bool)
    (buf : Nat) (c : Option Nat) (x : HashRange) (hx : x ∈ hr)
    (hpast : data.length < x.start + x.length) (halg : supported alg = true)
    (hdata : 1 ≤ data.length) :
    hashModel alg data (some hr) isExcl buf c = .err .badparam [] := by
  have key : ∀ o, Stage alg data (some hr) isExcl buf c o → o = .err .badparam [] := by
    intro o hs
    cases hs with
    | unsupported h => rw [halg] at h; cases h
    | nodata _ h => omega
    | build s _ _ hb => rw [buildPieces_error hb]; rfl
    | total ps s _ _ hb _ => have := buildPieces_ok_within hb x hx; omega
    | run ps T s _ _ hb _ _ => have := buildPieces_ok_within hb x hx; omega
    | done ps T st _ _ hb _ _ => have := buildPieces_ok_within hb x hx; omega
  exact key _ (hashModel_stage ..)

/-! ### panics, early stops, progress -/

/-- rejected before any piece is built -/
def Early (o : Outcome) : Prop :=
  o = .err .unsupported [] ∨ o = .err .nodata [] ∨ o = .err .badparam []

theorem not_early_panic (p : Panic) : ¬ Early (.panic p) := by
  intro h; rcases h with h | h | h <;> cases h

theorem not_early_ok (a : List UInt8) (p : List (Nat × Nat)) : ¬ Early (.ok a p) := by
  intro h; rcases h with h | h | h <;> cases h

theorem not_early_cancelled (p : List (Nat × Nat)) : ¬ Early (.err .cancelled p) := by
  intro h; rcases h with h | h | h <;> cases h

/-- once the builder accepts, the run is not rejected early -/
theorem stage_not_early {alg : String} {data : List UInt8} {hr : Option (List HashRange)}
    {isExcl : Bool} {buf : Nat} {c : Option Nat} (halg : supported alg = true)
    (h1 : 1 ≤ data.length) (hlen : data.length ≤ u64Max) (hb : 0 < buf) (ps0 : List Piece)
    (hps0 : buildPieces data.length hr isExcl = .ok ps0) (o : Outcome)
    (hs : Stage alg data hr isExcl buf c o) : ¬ Early o := by
  cases hs with
  | unsupported h => rw [halg] at h; cases h
  | nodata _ h => omega
  | build s _ _ hbd => rw [hps0] at hbd; cases hbd
  | total ps s _ _ hbd ht =>
    have hok := buildPieces_pieceOK h1 hlen hbd
    have := totalOf_spec (data := data) buf ps 0 hok
    rw [ht] at this
    rw [this.1]
    exact not_early_panic _
  | run ps T s _ _ hbd ht hrun =>
    have hok := buildPieces_pieceOK h1 hlen hbd
    have hinv : ProgInv T ({} : St) := by simp [ProgInv, ticks]
    have := runPieces_tri (data := data) (T := T) (c := c) hb ps {} hok hinv
    rw [hrun] at this
    simp only at this
    rcases this with ⟨a, _⟩ | ⟨n, a, _, _, _⟩
    · rw [a]; exact not_early_panic _
    · rw [a]; exact not_early_cancelled _
  | done ps T st _ _ _ _ _ => exact not_early_ok _ _

/-- what a run can end with when the stream length fits `u64` and the chunk size is ≥ 1 -/
theorem outcome_cases (alg : String) (data : List UInt8) (hr : Option (List HashRange))
    (isExcl : Bool) (buf : Nat) (c : Option Nat) (hlen : data.length ≤ u64Max) (hb : 0 < buf) :
    let o := hashModel alg data hr isExcl buf c
    o = .err .unsupported [] ∨ o = .err .nodata [] ∨ o = .err .badparam [] ∨
    (∃ ps, buildPieces data.length hr isExcl = .ok ps ∧
      ((o = .panic .counter ∧ chunkCount buf ps > u32Max) ∨
       (∃ n, o = .err .cancelled (ticks (wrapCount buf ps) n) ∧ 0 < n ∧ n ≤ chunkCount buf ps ∧
          c = some n) ∨
       (o = .ok (ps.flatMap (pieceBytes data)) (ticks (chunkCount buf ps) (chunkCount buf ps)) ∧
          chunkCount buf ps ≤ u32Max))) := by
  intro o
  have key : ∀ o, Stage alg data hr isExcl buf c o →
      o = .err .unsupported [] ∨ o = .err .nodata [] ∨ o = .err .badparam [] ∨
      (∃ ps, buildPieces data.length hr isExcl = .ok ps ∧
        ((o = .panic .counter ∧ chunkCount buf ps > u32Max) ∨
         (∃ n, o = .err .cancelled (ticks (wrapCount buf ps) n) ∧ 0 < n ∧ n ≤ chunkCount buf ps ∧
            c = some n) ∨
         (o = .ok (ps.flatMap (pieceBytes data)) (ticks (chunkCount buf ps) (chunkCount buf ps)) ∧
            chunkCount buf ps ≤ u32Max))) := by
    intro o hs
    cases hs with
    | unsupported _ => exact Or.inl rfl
    | nodata _ _ => exact Or.inr (Or.inl rfl)
    | build s _ _ hbd => rw [buildPieces_error hbd]; exact Or.inr (Or.inr (Or.inl rfl))
    | total ps s _ h1 hbd ht =>
      have hok := buildPieces_pieceOK h1 hlen hbd
      have := totalOf_spec (data := data) buf ps 0 hok
      rw [ht] at this
      simp only at this
      refine Or.inr (Or.inr (Or.inr ⟨ps, hbd, Or.inl ⟨by rw [this.1]; rfl, ?_⟩⟩))
      have := wrapCount_le buf ps; omega
    | run ps T s _ h1 hbd ht hrun =>
      have hok := buildPieces_pieceOK h1 hlen hbd
      have htot := totalOf_spec (data := data) buf ps 0 hok
      rw [ht] at htot
      simp only [Nat.zero_add] at htot
      have hinv : ProgInv T ({} : St) := by simp [ProgInv, ticks]
      have := runPieces_tri (data := data) (T := T) (c := c) hb ps {} hok hinv
      rw [hrun] at this
      simp only at this
      refine Or.inr (Or.inr (Or.inr ⟨ps, hbd, ?_⟩))
      rcases this with ⟨a, b⟩ | ⟨n, a, b1, b2, b3⟩
      · left; exact ⟨by rw [a]; rfl, by simpa using b⟩
      · right; left
        refine ⟨n, by rw [a, htot]; rfl, b1, by simpa using b2, b3⟩
    | done ps T st _ h1 hbd ht hrun =>
      have hok := buildPieces_pieceOK h1 hlen hbd
      have htot := totalOf_spec (data := data) buf ps 0 hok
      rw [ht] at htot
      simp only [Nat.zero_add] at htot
      have hinv : ProgInv T ({} : St) := by simp [ProgInv, ticks]
      have htri := runPieces_tri (data := data) (T := T) (c := c) hb ps {} hok hinv
      rw [hrun] at htri
      simp only at htri
      obtain ⟨hstep, hprog⟩ := htri
      obtain ⟨habs, _, _⟩ := runPieces_ok ps {} st hrun
      have hle := runPieces_step_le ps {} st hrun
      have hstep' : st.step = chunkCount buf ps := by simpa using hstep
      have hcc : chunkCount buf ps ≤ u32Max := by
        rcases hle with h | h
        · omega
        · have : st.step = 0 := h
          omega
      refine Or.inr (Or.inr (Or.inr ⟨ps, hbd, Or.inr (Or.inr ⟨?_, hcc⟩)⟩))
      have hT : T = chunkCount buf ps := by rw [htot, wrapCount_eq buf ps hcc]
      have : st.prog = ticks (chunkCount buf ps) (chunkCount buf ps) := by
        rw [hprog, hT, hstep']
      rw [this, habs]; rfl
  exact key _ (hashModel_stage ..)

/-- **No arithmetic panic**: for every input — any `u64` starts, lengths and offsets, including
`u64::MAX`, any order, any mode, any chunk size ≥ 1 — the u64 range arithmetic never overflows
or underflows, the chunk loop terminates and no read goes past the end of the stream. -/
theorem no_panic (alg : String) (data : List UInt8) (hr : Option (List HashRange)) (isExcl : Bool)
    (buf : Nat) (c : Option Nat) (hlen : data.length ≤ u64Max) (hb : 0 < buf) :
    hashModel alg data hr isExcl buf c ≠ .panic .arith ∧
    hashModel alg data hr isExcl buf c ≠ .panic .fuel ∧
    ∀ p, hashModel alg data hr isExcl buf c ≠ .err .io p := by
  have := outcome_cases alg data hr isExcl buf c hlen hb
  simp only at this
  rcases this with h | h | h | ⟨ps, _, ⟨h, _⟩ | ⟨n, h, _⟩ | ⟨h, _⟩⟩ <;> rw [h] <;>
    exact ⟨(by intro hh; cases hh), (by intro hh; cases hh), (by intro p hh; cases hh)⟩

/-- The full "nothing panics" for the `u32` progress counters `total` and `step`
(overflow-checked builds). -/
def NoCounterOverflowFull : Prop :=
  ∀ (alg : String) (data : List UInt8) (hr : Option (List HashRange)) (isExcl : Bool) (buf : Nat)
    (c : Option Nat), data.length ≤ u64Max → 0 < buf →
    hashModel alg data hr isExcl buf c ≠ .panic .counter

/-- The `u32` progress counters do not overflow as long as the run needs at most `u32::MAX`
callbacks (one per chunk). At the production chunk size 2^28 this is every stream shorter
than 2^60 bytes with fewer than 2^31 entries. -/
theorem no_counter_overflow_partial (alg : String) (data : List UInt8)
    (hr : Option (List HashRange)) (isExcl : Bool) (buf : Nat) (c : Option Nat)
    (hlen : data.length ≤ u64Max) (hb : 0 < buf)
    (hcnt : ∀ ps, buildPieces data.length hr isExcl = .ok ps → chunkCount buf ps ≤ u32Max) :
    hashModel alg data hr isExcl buf c ≠ .panic .counter := by
  have := outcome_cases alg data hr isExcl buf c hlen hb
  simp only at this
  rcases this with h | h | h | ⟨ps, hbd, ⟨_, h⟩ | ⟨n, h, _⟩ | ⟨h, _⟩⟩
  · rw [h]; intro hh; cases hh
  · rw [h]; intro hh; cases hh
  · rw [h]; intro hh; cases hh
  · have := hcnt ps hbd; omega
  · rw [h]; intro hh; cases hh
  · rw [h]; intro hh; cases hh

/-- **Completeness**: a supported algorithm, a non-empty stream, every entry inside the data,
no cancellation, counters in range ⇒ a digest is returned, of the pieces' bytes, after exactly
`T` callbacks `(1,T) … (T,T)`. (Non-vacuity of the `… = .ok …` hypotheses above.) -/
theorem accepted_of_within (alg : String) (data : List UInt8) (hr : List HashRange) (isExcl : Bool)
    (buf : Nat) (halg : supported alg = true) (h1 : 1 ≤ data.length) (hlen : data.length ≤ u64Max)
    (hb : 0 < buf) (hall : ∀ x ∈ hr, x.start + x.length ≤ data.length)
    (hcnt : ∀ ps, buildPieces data.length (some hr) isExcl = .ok ps → chunkCount buf ps ≤ u32Max) :
    ∃ ps, buildPieces data.length (some hr) isExcl = .ok ps ∧
      hashModel alg data (some hr) isExcl buf none =
        .ok (ps.flatMap (pieceBytes data)) (ticks (chunkCount buf ps) (chunkCount buf ps)) := by
  obtain ⟨ps0, hps0⟩ := buildPieces_of_within hr isExcl hlen hall
  have := outcome_cases alg data (some hr) isExcl buf none hlen hb
  simp only at this
  have hne := stage_not_early (c := none) halg h1 hlen hb ps0 hps0 _ (hashModel_stage ..)
  rcases this with h | h | h | ⟨ps, hbd, ⟨_, h⟩ | ⟨n, _, _, _, h⟩ | ⟨h, _⟩⟩
  · exact absurd (Or.inl h) hne
  · exact absurd (Or.inr (Or.inl h)) hne
  · exact absurd (Or.inr (Or.inr h)) hne
  · have := hcnt ps hbd; omega
  · cases h
  · exact ⟨ps, hbd, h⟩

/-- **Chunk-size independence**: two successful runs on the same input with any two chunk sizes
(and any cancellation settings) absorbed the same byte string. -/
theorem chunk_independent (alg : String) (data : List UInt8) (hr : Option (List HashRange))
    (isExcl : Bool) (b1 b2 : Nat) (c1 c2 : Option Nat) (a1 a2 : List UInt8)
    (p1 p2 : List (Nat × Nat))
    (h1 : hashModel alg data hr isExcl b1 c1 = .ok a1 p1)
    (h2 : hashModel alg data hr isExcl b2 c2 = .ok a2 p2) : a1 = a2 := by
  obtain ⟨ps1, hb1, e1⟩ := ok_absorbed h1
  obtain ⟨ps2, hb2, e2⟩ := ok_absorbed h2
  rw [hb1] at hb2
  cases hb2
  rw [e1, e2]

/-- … and whether a digest is returned does not depend on the chunk size either, as long as
the progress counters stay in range. -/
theorem chunk_independent_ok (alg : String) (data : List UInt8) (hr : Option (List HashRange))
    (isExcl : Bool) (b1 b2 : Nat) (a1 : List UInt8) (p1 : List (Nat × Nat))
    (hlen : data.length ≤ u64Max) (hb2 : 0 < b2)
    (hcnt : ∀ ps, buildPieces data.length hr isExcl = .ok ps → chunkCount b2 ps ≤ u32Max)
    (h1 : hashModel alg data hr isExcl b1 none = .ok a1 p1) :
    ∃ p2, hashModel alg data hr isExcl b2 none = .ok a1 p2 := by
  obtain ⟨halg, hd, ps, T, st, hbd, _, _, _, _⟩ := hashModel_ok_inv h1
  obtain ⟨ps1, hb1, e1⟩ := ok_absorbed h1
  have := outcome_cases alg data hr isExcl b2 none hlen hb2
  simp only at this
  have hne := stage_not_early (c := none) halg hd hlen hb2 ps hbd _ (hashModel_stage ..)
  rcases this with h | h | h | ⟨ps', hbd', ⟨_, h⟩ | ⟨n, _, _, _, h⟩ | ⟨h, _⟩⟩
  · exact absurd (Or.inl h) hne
  · exact absurd (Or.inr (Or.inl h)) hne
  · exact absurd (Or.inr (Or.inr h)) hne
  · have := hcnt ps' hbd'; omega
  · cases h
  · rw [hb1] at hbd'; cases hbd'
    exact ⟨_, by rw [h, e1]⟩

/-- **Progress callbacks are well-formed**: the callback sees (1,T),(2,T),… with a constant
total; a successful run ends with (T,T) exactly; a cancelled run stops at the cancelling call
`n ≤` the number of chunks, which is `T` whenever the counters are in range. -/
theorem progress_wf (alg : String) (data : List UInt8) (hr : Option (List HashRange))
    (isExcl : Bool) (buf : Nat) (c : Option Nat) (hlen : data.length ≤ u64Max) (hb : 0 < buf) :
    (∀ abs prog, hashModel alg data hr isExcl buf c = .ok abs prog →
        ∃ T, T ≤ u32Max ∧ prog = ticks T T) ∧
    (∀ e prog, hashModel alg data hr isExcl buf c = .err e prog →
        prog = [] ∨ ∃ T n ps, prog = ticks T n ∧ e = .cancelled ∧ c = some n ∧ 0 < n ∧
          buildPieces data.length hr isExcl = .ok ps ∧ n ≤ chunkCount buf ps ∧
          (chunkCount buf ps ≤ u32Max → T = chunkCount buf ps)) := by
  have := outcome_cases alg data hr isExcl buf c hlen hb
  simp only at this
  refine ⟨?_, ?_⟩
  · intro abs prog h
    rw [h] at this
    rcases this with h' | h' | h' | ⟨ps, _, ⟨h', _⟩ | ⟨n, h', _⟩ | ⟨h', hc⟩⟩ <;> try cases h'
    exact ⟨_, hc, rfl⟩
  · intro e prog h
    rw [h] at this
    rcases this with h' | h' | h' | ⟨ps, hbd, ⟨h', _⟩ | ⟨n, h', h0, hn, hc⟩ | ⟨h', _⟩⟩ <;> try cases h'
    · exact Or.inl rfl
    · exact Or.inl rfl
    · exact Or.inl rfl
    · exact Or.inr ⟨_, n, ps, rfl, rfl, hc, h0, hbd, hn, fun hcc => wrapCount_eq buf ps hcc⟩

/-! ### the counter hypothesis is necessary (model level, overflow-checked build)

A 4 GiB stream hashed with chunk size 1 needs 2^32 callbacks: `total` is computed as
`2^32 as u32 = 0` and `step += 1` overflows at the 2^32-th chunk. This needs the test-only
chunk-size parameter (the public entry points use 2^28, where the same needs a 2^60-byte
stream) and 2^32 worker-thread spawns, so it is *not replayed on the implementation*;
it is recorded here to show that `no_counter_overflow_partial` cannot drop its hypothesis. -/

theorem ceilDiv_by_one (a : Nat) : ceilDiv a 1 = a := by simp [ceilDiv]

theorem counter_overflow_witness :
    hashModel "sha256" (List.replicate 4294967296 0) none true 1 none = .panic .counter := by
  have hlenv : (List.replicate 4294967296 (0 : UInt8)).length = 4294967296 := List.length_replicate ..
  have hbuild : buildPieces (List.replicate 4294967296 (0 : UInt8)).length none true =
      .ok [⟨0, 4294967295, false⟩] := by rw [hlenv]; rfl
  have hcount : chunkCount 1 [⟨0, 4294967295, false⟩] = 4294967296 := by
    simp [chunkCount, ceilDiv_by_one]
  have := outcome_cases "sha256" (List.replicate 4294967296 0) none true 1 none
    (by rw [hlenv]; decide) (by decide)
  simp only at this
  have hne := stage_not_early (c := none) (alg := "sha256") (by decide) (by rw [hlenv]; decide)
    (by rw [hlenv]; decide) (by decide : 0 < 1) _ hbuild _ (hashModel_stage ..)
  rcases this with h | h | h | ⟨ps, hbd, ⟨h, _⟩ | ⟨n, _, _, _, h⟩ | ⟨_, h⟩⟩
  · exact absurd (Or.inl h) hne
  · exact absurd (Or.inr (Or.inl h)) hne
  · exact absurd (Or.inr (Or.inr h)) hne
  · exact h
  · cases h
  · rw [hbuild] at hbd; cases hbd
    rw [hcount] at h
    exact absurd h (by decide)

theorem no_counter_overflow_full_false : ¬ NoCounterOverflowFull := by
  intro h
  exact h "sha256" (List.replicate 4294967296 0) none true 1 none
    (by rw [List.length_replicate]; decide) (by decide) counter_overflow_witness

/-! ### thread pipelining -/

/-- **Schedule independence of the read-ahead hand-off**: from the state in which the main
thread holds the first chunk `c` and a hasher that has absorbed `h0`, every interleaving of
the two actors that reaches the end of the range leaves the hasher, back on the main thread,
having absorbed `h0 ++ c ++ c₂ ++ … ++ cₙ` — the chunks in stream order. -/
theorem pipeline_schedule_independent (h0 c : List UInt8) (cs : List (List UInt8)) (s : PState)
    (hr : PReach (pInit h0 c cs) s) (hd : s.done = true) :
    s.mainH = some (h0 ++ c ++ cs.flatten) ∧ s.worker = none ∧ s.chan = none := by
  have hv := hr.view_eq
  have hsh := hr.shape (PShape.holding cs c h0)
  cases hsh with
  | finished h =>
    simp [PState.view, pInit] at hv
    exact ⟨by rw [hv, List.append_assoc], rfl, rfl⟩
  | holding us c' h => simp at hd
  | spawned u us h c' => simp at hd
  | hashed u us h => simp at hd
  | readAhead us nx h c' => simp at hd
  | both us nx h => simp at hd

/-- In every reachable state the hasher has exactly one owner and nothing absorbed or pending
is lost or reordered; a state that is not finished can always move (no deadlock). -/
theorem pipeline_invariant (h0 c : List UInt8) (cs : List (List UInt8)) (s : PState)
    (hr : PReach (pInit h0 c cs) s) :
    s.view = some (h0 ++ c ++ cs.flatten) ∧ (s.done = false → ∃ t, PStep s t) := by
  refine ⟨?_, fun hd => (hr.shape (PShape.holding cs c h0)).progress hd⟩
  rw [hr.view_eq]; simp [PState.view, pInit]

/-! ### non-vacuity and the two repaired defects -/

def d10 : List UInt8 := [10, 11, 12, 13, 14, 15, 16, 17, 18, 19]

/-- F1 input (DESIGN §5): the earlier-starting range reaches past the end — rejected now. -/
example : hashModel "sha256" d10 (some [⟨0, 100, none⟩, ⟨5, 1, none⟩]) true 3 none =
    .err .badparam [] := by decide

/-- F2 input: a one-byte included run at a marker offset: offset once, then the data byte. -/
example : hashModel "sha256" d10 (some [⟨1, 9, none⟩, ⟨0, 1, some 0⟩]) true 3 none =
    .ok (be64 0 ++ [10]) [(1, 2), (2, 2)] := by decide

example : exclSpec d10 [⟨1, 9, none⟩, ⟨0, 1, some 0⟩] = be64 0 ++ [10] := by decide

/-- unsorted, overlapping, adjacent and empty exclusions with a marker inside a run, one in a
gap and one outside the hashed span; chunk size 2 -/
example : hashModel "sha256" d10
    (some [⟨9, 1, none⟩, ⟨2, 3, none⟩, ⟨4, 2, none⟩, ⟨9, 0, none⟩, ⟨1, 1, some 1⟩, ⟨3, 1, some 3⟩,
      ⟨9, 1, some 9⟩]) true 2 none =
    .ok ([10] ++ be64 1 ++ [11] ++ be64 3 ++ [16, 17, 18])
      [(1, 6), (2, 6), (3, 6), (4, 6), (5, 6), (6, 6)] := by decide

example : inclSpec d10 [⟨7, 3, some 5⟩, ⟨5, 1, none⟩, ⟨0, 0, none⟩] = [15] ++ be64 5 ++ [17, 18, 19] := by
  decide

example : hashModel "sha256" d10 (some [⟨7, 3, some 5⟩, ⟨5, 1, none⟩, ⟨0, 0, none⟩]) false 2 (some 3) =
    .err .cancelled [(1, 4), (2, 4), (3, 4)] := by decide

end C2pa.C13
