import C2paModel.Model.C23
import C2paModel.Gen.C23Sites
/-
C23 — property theorems (cancellation).

Statement: if the progress callback returns false at any of its invocations, or the context
is cancelled at any point, the running operation ends with the cancellation error; it never
succeeds and never reports the cancellation as a validation failure. Progress steps are
positive, never exceed a non-zero total, and increase within a run of one phase.

The theorems are about the checkpoint skeleton of an operation (any length, any callback):
when every checkpoint propagates, a `false` at invocation k ends the operation with
`OperationCancelled` after exactly k+1 callback calls. That every checkpoint of the *current
source* propagates is the regenerated-table obligation below (one reviewed exception, which
is a known finding). The end-to-end sweep (cancel at every k of every recorded operation) is
run on the implementation by the harness.
-/
namespace C2pa.C23

theorem run_cancel_at (cb : Cb) (k : Nat) (hk : cb k = false) :
    ∀ (sites : List Site) (i : Nat) (logged : Bool),
      AllPropagate sites → i ≤ k → k - i < sites.length → (∀ j, i ≤ j → j < k → cb j = true) →
      run (some cb) false sites i logged = .cancelled (k + 1) := by
  intro sites
  induction sites with
  | nil => intro i logged _ _ hlen _; simp at hlen
  | cons s rest ih =>
    intro i logged hall hik hlen hpre
    unfold run
    simp only [checkProgress, Bool.not_false, Bool.and_true]
    by_cases hi : i = k
    · subst hi
      have hs : s.disp = .propagate := hall s (List.mem_cons_self ..)
      simp [hk, hs]
    · have hlt : i < k := Nat.lt_of_le_of_ne hik hi
      have hcb : cb i = true := hpre i (Nat.le_refl _) hlt
      simp only [hcb, if_true]
      apply ih
      · intro x hx; exact hall x (List.mem_cons_of_mem _ hx)
      · omega
      · simp at hlen; omega
      · intro j hj hjk; exact hpre j (by omega) hjk

/-- **Cancel at invocation k cancels**: with every checkpoint propagating, if the callback
first answers `false` at its k-th invocation (k below the number of checkpoints), the
operation ends with `OperationCancelled`, and the callback is never invoked again. -/
theorem cancel_at_k_cancels (sites : List Site) (cb : Cb) (k : Nat)
    (hall : AllPropagate sites) (hk : k < sites.length) (hfalse : cb k = false)
    (hpre : ∀ j, j < k → cb j = true) :
    run (some cb) false sites 0 false = .cancelled (k + 1) :=
  run_cancel_at cb k hfalse sites 0 false hall (Nat.zero_le _) (by simpa using hk)
    (fun j _ hj => hpre j hj)

/-- In particular the operation never finishes (no success, no "logged" cancellation). -/
theorem cancel_never_finishes (sites : List Site) (cb : Cb) (k : Nat)
    (hall : AllPropagate sites) (hk : k < sites.length) (hfalse : cb k = false)
    (hpre : ∀ j, j < k → cb j = true) (c : Nat) (l : Bool) :
    run (some cb) false sites 0 false ≠ .finished c l := by
  rw [cancel_at_k_cancels sites cb k hall hk hfalse hpre]; intro h; cases h

/-- **The cancel flag is sticky**: once set, the very first checkpoint ends the operation,
whatever the callback answers. -/
theorem cancel_flag_sticky (sites : List Site) (s : Site) (cb : Option Cb) (i : Nat) (logged : Bool)
    (hs : s.disp = .propagate) :
    ∃ c, run cb true (s :: sites) i logged = .cancelled c := by
  unfold run
  cases cb with
  | none => exact ⟨i, by simp [checkProgress, hs]⟩
  | some f => exact ⟨i + 1, by simp [checkProgress, hs]⟩

theorem runF_cancel_at (cb : Cb) (k : Nat) (hcb : ∀ j, cb j = true) :
    ∀ (sites : List Site) (i : Nat) (logged : Bool),
      AllPropagate sites → i ≤ k → k - i < sites.length →
      runF cb k sites i false logged = .cancelled (k + 1) := by
  intro sites
  induction sites with
  | nil => intro i logged _ _ hlen; simp at hlen
  | cons s rest ih =>
    intro i logged hall hik hlen
    unfold runF
    simp only [checkProgressF, Bool.false_or, hcb, Bool.true_and]
    by_cases hi : i = k
    · subst hi
      have hs : s.disp = .propagate := hall s (List.mem_cons_self ..)
      simp [hs]
    · have hne : (i == k) = false := by simpa using hi
      simp only [hne, Bool.not_false, if_true]
      apply ih
      · intro x hx; exact hall x (List.mem_cons_of_mem _ hx)
      · omega
      · simp at hlen; omega

/-- **Cancelling from inside a callback cancels**: if the callback of invocation k calls
`Context::cancel()` (and answers `true`), the operation ends with `OperationCancelled` at
that very checkpoint — the flag is examined after the callback returns. -/
theorem cancel_in_callback_cancels (sites : List Site) (cb : Cb) (k : Nat)
    (hall : AllPropagate sites) (hk : k < sites.length) (hcb : ∀ j, cb j = true) :
    runF cb k sites 0 false false = .cancelled (k + 1) :=
  runF_cancel_at cb k hcb sites 0 false hall (Nat.zero_le _) (by simpa using hk)

/-- The shape of the repaired defect: one swallowing checkpoint lets a cancelled operation
finish with the cancellation logged as a validation failure (proved witness). -/
theorem swallow_breaks_cancellation :
    ∃ sites cb, run (some cb) false sites 0 false = .finished 2 true :=
  ⟨[{ tick := ⟨"VerifyingAssetHash", 1, 1⟩, disp := .swallow },
    { tick := ⟨"Reading", 1, 1⟩, disp := .propagate }],
   fun i => i != 0, by decide⟩

/-- Well-formed traces have positive steps that do not exceed a non-zero total. -/
theorem traceWf_tickOk : ∀ (ts : List Tick), traceWf ts = true → ∀ t ∈ ts, tickOk t = true := by
  intro ts
  induction ts with
  | nil => intro _ t ht; cases ht
  | cons a rest ih =>
    intro h t ht
    cases rest with
    | nil =>
      simp [traceWf] at h
      rcases List.mem_singleton.1 ht with rfl
      exact h
    | cons u rest' =>
      simp only [traceWf, Bool.and_eq_true] at h
      rcases List.mem_cons.1 ht with rfl | ht'
      · exact h.1.1
      · exact ih h.2 t ht'

/-! ### Obligations on the regenerated call-site table (re-checked on every run) -/

/-- Checkpoints whose swallowing of the cancellation has been reviewed and recorded as a known
finding (`swallow-site:<file>`). -/
def reviewedSwallow : List (List Char) := ["crypto/ocsp/fetch.rs".toList]

/-- Every `check_progress` call site of the current source propagates its result, except the
reviewed ones. -/
theorem all_sites_propagate_or_reviewed :
    Gen.sites.all (fun s => s.2.2 == Disp.propagate || reviewedSwallow.contains s.1.toList) = true := by
  decide +kernel

/-- Every invocation of a progress closure inside the hashing code propagates its result. -/
theorem all_invocations_propagate :
    Gen.invocations.all (fun s => s.2.2 == Disp.propagate) = true := by decide +kernel

/-- Every `match hash_result` of `Claim::verify_hash_binding` returns a cancellation to the
caller instead of logging it as a hash mismatch. -/
theorem hash_binding_arms_guarded :
    Gen.hashResultGuards = Gen.hashResultMatches ∧ Gen.cancelIsFatal = true ∧ 0 < Gen.hashResultMatches := by
  decide

/-! ### Non-vacuity -/
example : AllPropagate (skeleton 5) := by
  intro s hs; simp [skeleton] at hs; rw [hs]
example : run (some (fun i => i != 3)) false (skeleton 5) 0 false = .cancelled 4 := by decide
example : runF (fun _ => true) 2 (skeleton 5) 0 false false = .cancelled 3 := by decide
example : traceWf [⟨"Hashing", 1, 3⟩, ⟨"Hashing", 2, 3⟩, ⟨"Signing", 1, 1⟩] = true := by decide +kernel
example : traceWf [⟨"Hashing", 2, 3⟩, ⟨"Hashing", 2, 3⟩] = false := by decide +kernel

end C2pa.C23
