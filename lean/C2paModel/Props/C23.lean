import C2paModel.Model.C23
import C2paModel.Gen.C23Sites
/-
C23 — property theorems (cancellation).

Statement: if the progress callback returns false at any of its invocations, or the context
is cancelled at any point, the running operation ends with the cancellation error; it never
succeeds and never reports the cancellation as a validation failure. Progress steps are
positive, never exceed a non-zero total, and increase within a run of one phase.

Three layers, tied together in this file:

1. **Source table** (`Gen/C23Sites.lean`, regenerated from sdk/src on every run): the transitive
   closure `cancelFns`/`condFns` of the functions that can return `OperationCancelled`, and one
   row per call of such a function with what the caller does with the error.
   `all_cancel_paths_propagate`: every row hands the error to the caller's own return value
   (reviewed exception: the OCSP checkpoint, an open finding). `callers_closed`: the caller of a
   propagating row is itself in the closure — so its callers are rows too, up to the public API.
2. **Checkpoint semantics** (`run`/`runF`/`runS`): for every sequence of checkpoints *taken from
   the table* (`source_sites_cancel`, `source_sites_cancel_in_callback`,
   `source_sites_cancel_schedule`) the first checkpoint whose callback answers `false`, or that
   observes the cancel flag (set in the callback, by another thread during the callback, or at
   any time since the previous checkpoint), ends the operation with `OperationCancelled` after
   exactly k+1 callback calls; it never finishes. The harness sends the (file, line) sequence each
   real operation reached; the driver checks every one is a table row and runs this model on it.
3. **Tick emitters**: the counters of the source (`ingredient_checks`, the C13 hash ticks, the BMFF
   tick counter and the re-counting closure of `verify_hash_binding`) emit strictly well-formed
   traces (`ingredientTicks_wf`, `hashTicks_wf`, `zeroTicks_wf`, `recount_wf`); strict
   well-formedness implies every clause of the third sentence (`traceWfStrict_tickOk`,
   `traceWfStrict_adjacent`).
-/
namespace C2pa.C23

/-! ### checkpoint semantics: generic theorems -/

theorem run_cancel_at (cb : Cb) (k : Nat) (hk : cb k = false) :
    ∀ (sites : List Site) (i : Nat) (logged : Bool),
      AllPropagate sites → i ≤ k → k - i < sites.length → (∀ j, i ≤ j → j < k → cb j = true) →
      run (some cb) false sites i logged = .cancelled (k + 1) := by
  intro sites
  induction sites with
  | nil => intro i logged _ _ hlen _; simp at hlen
  | cons s rest ih =>
    intro i logged hall hik hlen hpre
    unfold run
    simp only [checkProgress, Bool.not_false, Bool.and_true]
    by_cases hi : i = k
    · subst hi
      have hs : s.disp = .propagate := hall s (List.mem_cons_self ..)
      simp [hk, hs]
    · have hlt : i < k := Nat.lt_of_le_of_ne hik hi
      have hcb : cb i = true := hpre i (Nat.le_refl _) hlt
      simp only [hcb, if_true]
      apply ih
      · intro x hx; exact hall x (List.mem_cons_of_mem _ hx)
      · omega
      · simp at hlen; omega
      · intro j hj hjk; exact hpre j (by omega) hjk

/-- **Cancel at invocation k cancels**: with every checkpoint propagating, if the callback
first answers `false` at its k-th invocation (k below the number of checkpoints), the
operation ends with `OperationCancelled`, and the callback is never invoked again. -/
theorem cancel_at_k_cancels (sites : List Site) (cb : Cb) (k : Nat)
    (hall : AllPropagate sites) (hk : k < sites.length) (hfalse : cb k = false)
    (hpre : ∀ j, j < k → cb j = true) :
    run (some cb) false sites 0 false = .cancelled (k + 1) :=
  run_cancel_at cb k hfalse sites 0 false hall (Nat.zero_le _) (by simpa using hk)
    (fun j _ hj => hpre j hj)

/-- In particular the operation never finishes (no success, no "logged" cancellation). -/
theorem cancel_never_finishes (sites : List Site) (cb : Cb) (k : Nat)
    (hall : AllPropagate sites) (hk : k < sites.length) (hfalse : cb k = false)
    (hpre : ∀ j, j < k → cb j = true) (c : Nat) (l : Bool) :
    run (some cb) false sites 0 false ≠ .finished c l := by
  rw [cancel_at_k_cancels sites cb k hall hk hfalse hpre]; intro h; cases h

/-- **The cancel flag is sticky**: once set, the very first checkpoint ends the operation,
whatever the callback answers. -/
theorem cancel_flag_sticky (sites : List Site) (s : Site) (cb : Option Cb) (i : Nat) (logged : Bool)
    (hs : s.disp = .propagate) :
    ∃ c, run cb true (s :: sites) i logged = .cancelled c := by
  unfold run
  cases cb with
  | none => exact ⟨i, by simp [checkProgress, hs]⟩
  | some f => exact ⟨i + 1, by simp [checkProgress, hs]⟩

theorem runF_cancel_at (cb : Cb) (k : Nat) (hcb : ∀ j, cb j = true) :
    ∀ (sites : List Site) (i : Nat) (logged : Bool),
      AllPropagate sites → i ≤ k → k - i < sites.length →
      runF cb k sites i false logged = .cancelled (k + 1) := by
  intro sites
  induction sites with
  | nil => intro i logged _ _ hlen; simp at hlen
  | cons s rest ih =>
    intro i logged hall hik hlen
    unfold runF
    simp only [checkProgressF, Bool.false_or, hcb, Bool.true_and]
    by_cases hi : i = k
    · subst hi
      have hs : s.disp = .propagate := hall s (List.mem_cons_self ..)
      simp [hs]
    · have hne : (i == k) = false := by simpa using hi
      simp only [hne, Bool.not_false, if_true]
      apply ih
      · intro x hx; exact hall x (List.mem_cons_of_mem _ hx)
      · omega
      · simp at hlen; omega

/-- **Cancelling from inside a callback cancels**: if the callback of invocation k calls
`Context::cancel()` (and answers `true`), the operation ends with `OperationCancelled` at
that very checkpoint — the flag is examined after the callback returns. -/
theorem cancel_in_callback_cancels (sites : List Site) (cb : Cb) (k : Nat)
    (hall : AllPropagate sites) (hk : k < sites.length) (hcb : ∀ j, cb j = true) :
    runF cb k sites 0 false false = .cancelled (k + 1) :=
  runF_cancel_at cb k hcb sites 0 false hall (Nat.zero_le _) (by simpa using hk)

theorem runS_cancel_at (cb : Cb) (flagAt : Nat → Bool) (k : Nat)
    (hk : cb k = false ∨ flagAt k = true) :
    ∀ (sites : List Site) (i : Nat) (logged : Bool),
      AllPropagate sites → i ≤ k → k - i < sites.length →
      (∀ j, i ≤ j → j < k → cb j = true ∧ flagAt j = false) →
      runS cb flagAt sites i logged = .cancelled (k + 1) := by
  intro sites
  induction sites with
  | nil => intro i logged _ _ hlen _; simp at hlen
  | cons s rest ih =>
    intro i logged hall hik hlen hpre
    unfold runS
    simp only [checkProgressS]
    by_cases hi : i = k
    · subst hi
      have hs : s.disp = .propagate := hall s (List.mem_cons_self ..)
      have : (cb i && !flagAt i) = false := by
        rcases hk with h | h <;> simp [h]
      simp [this, hs]
    · have hlt : i < k := Nat.lt_of_le_of_ne hik hi
      obtain ⟨h1, h2⟩ := hpre i (Nat.le_refl _) hlt
      simp only [h1, h2, Bool.not_false, Bool.and_self, if_true]
      apply ih
      · intro x hx; exact hall x (List.mem_cons_of_mem _ hx)
      · omega
      · simp at hlen; omega
      · intro j hj hjk; exact hpre j (by omega) hjk

/-- **Any schedule of the cancel flag**: `flagAt i` is the flag value checkpoint i observes
(set in the callback, by another thread while the callback runs, or by another thread at any
moment since checkpoint i-1). The first checkpoint k at which the callback answers `false` *or*
the flag is observed ends the operation with `OperationCancelled` after k+1 callback calls. -/
theorem schedule_cancels (sites : List Site) (cb : Cb) (flagAt : Nat → Bool) (k : Nat)
    (hall : AllPropagate sites) (hk : k < sites.length)
    (hstop : cb k = false ∨ flagAt k = true)
    (hpre : ∀ j, j < k → cb j = true ∧ flagAt j = false) :
    runS cb flagAt sites 0 false = .cancelled (k + 1) :=
  runS_cancel_at cb flagAt k hstop sites 0 false hall (Nat.zero_le _) (by simpa using hk)
    (fun j _ hj => hpre j hj)

/-- **cancel() from another thread between checkpoints k-1 and k** (or during callback k): the
flag is observed from checkpoint k on; the operation ends there. -/
theorem cancel_between_checkpoints_cancels (sites : List Site) (cb : Cb) (k : Nat)
    (hall : AllPropagate sites) (hk : k < sites.length) (hcb : ∀ j, cb j = true) :
    runS cb (fun i => decide (k ≤ i)) sites 0 false = .cancelled (k + 1) :=
  schedule_cancels sites cb _ k hall hk (Or.inr (by simp))
    (fun j hj => ⟨hcb j, by simp; omega⟩)

/-- `runS` with a flag that is never set is `run` with a callback. -/
theorem runS_never_eq_run (cb : Cb) : ∀ (sites : List Site) (i : Nat) (l : Bool),
    runS cb (fun _ => false) sites i l = run (some cb) false sites i l := by
  intro sites
  induction sites with
  | nil => intro i l; simp [runS, run]
  | cons s rest ih =>
    intro i l
    unfold runS run
    simp only [checkProgressS, checkProgress, Bool.not_false, Bool.and_true]
    split
    · simp [ih]
    · cases s.disp <;> simp [ih]

/-- The shape of the repaired defect: one swallowing checkpoint lets a cancelled operation
finish with the cancellation logged as a validation failure (proved witness). -/
theorem swallow_breaks_cancellation :
    ∃ sites cb, run (some cb) false sites 0 false = .finished 2 true :=
  ⟨[{ tick := ⟨"VerifyingAssetHash", 1, 1⟩, disp := .swallow },
    { tick := ⟨"Reading", 1, 1⟩, disp := .propagate }],
   fun i => i != 0, by decide⟩

/-- … and one silently discarding checkpoint (the OCSP `.ok()?` shape) lets it finish as if
nothing had happened. -/
theorem discard_breaks_cancellation :
    ∃ sites cb, run (some cb) false sites 0 false = .finished 2 false :=
  ⟨[{ tick := ⟨"FetchingOCSP", 1, 1⟩, disp := .discard },
    { tick := ⟨"Signing", 1, 1⟩, disp := .propagate }],
   fun i => i != 0, by decide⟩

/-! ### Obligations on the regenerated source table (re-checked on every run) -/

/-- Checkpoints whose swallowing of the cancellation has been reviewed and recorded as a known
finding (`swallow-site:<file>`). -/
def reviewedSwallow : List (List Char) := ["crypto/ocsp/fetch.rs".toList]

/-- Reviewed rows of the caller table: (caller, callee). The only one is the OCSP checkpoint
(`fetch_ocsp_response` returns `Option`; open finding `swallow-site:crypto/ocsp/fetch.rs`). -/
def reviewedCaller (r : String × String × Nat × Disp) : Bool :=
  r.1 == "crypto/ocsp/fetch.rs::fetch_ocsp_response" && r.2.1 == "check_progress"

/-- **Every path of a cancellation to the public API propagates**: every call of a function that
can return `OperationCancelled` (transitive closure from `check_progress`, closures forwarded as
progress callbacks included) hands that error to its caller's own return value — no `match …
Err(e) => log`, `if let Err`, `.ok()`, `unwrap_or…`, `map_err`, `let _ =` in between. Fails when
either historical defect (the `verify_hash_binding` match arms, ingredient validation) is
reintroduced. -/
theorem all_cancel_paths_propagate :
    Gen.callers.all (fun r => r.2.2.2 == Disp.propagate || reviewedCaller r) = true := by
  decide +kernel

/-- The table is closed upwards: the caller of every propagating row is itself one of the
functions whose calls are rows (so the error keeps being handed on until it leaves the SDK). -/
theorem callers_closed :
    Gen.callers.all (fun r => r.2.2.2 != Disp.propagate ||
      Gen.cancelFns.contains r.1 || Gen.condFns.contains r.1) = true := by
  decide +kernel

/-- The closure is not empty and contains the three public operations of the statement. -/
theorem closure_has_operations :
    Gen.cancelFns.contains "reader.rs::Reader::with_stream" = true ∧
    Gen.cancelFns.contains "builder.rs::Builder::sign" = true ∧
    Gen.cancelFns.contains "builder.rs::Builder::add_ingredient_from_stream" = true ∧
    Gen.cancelFns.contains "builder.rs::Builder::update_hash_from_stream" = true := by
  decide +kernel

/-- Every `check_progress` call site of the current source propagates its result, except the
reviewed ones. -/
theorem all_sites_propagate_or_reviewed :
    Gen.sites.all (fun s => s.2.2 == Disp.propagate || reviewedSwallow.contains s.1.toList) = true := by
  decide +kernel

/-- Every invocation of a progress parameter / closure propagates its result. -/
theorem all_invocations_propagate :
    Gen.invocations.all (fun s => s.2.2 == Disp.propagate) = true := by decide +kernel

/-- Every `match hash_result` of `Claim::verify_hash_binding` returns a cancellation to the
caller instead of logging it as a hash mismatch. -/
theorem hash_binding_arms_guarded :
    Gen.hashResultGuards = Gen.hashResultMatches ∧ Gen.cancelIsFatal = true ∧ 0 < Gen.hashResultMatches := by
  decide

/-! ### the generic theorems instantiated on table rows -/

theorem table_row_propagates (r : String × Nat × Disp) (h : r ∈ Gen.sites)
    (hr : reviewedSwallow.contains r.1.toList = false) : r.2.2 = Disp.propagate := by
  have h1 := List.all_eq_true.1 all_sites_propagate_or_reviewed r h
  simp only [hr, Bool.or_false] at h1
  simpa using h1

theorem allPropagate_of_table (sel : List (String × Nat × Disp))
    (hs : ∀ r ∈ sel, r ∈ Gen.sites ∧ reviewedSwallow.contains r.1.toList = false) :
    AllPropagate (sel.map siteOf) := by
  intro s hs'
  obtain ⟨r, hr, rfl⟩ := List.mem_map.1 hs'
  exact table_row_propagates r (hs r hr).1 (hs r hr).2

/-- **Source checkpoints cancel**: for every sequence of checkpoints of the current source (rows of
the regenerated table outside the reviewed file) an operation may reach, a `false` answer at
invocation k ends it with `OperationCancelled` after k+1 callback calls. -/
theorem source_sites_cancel (sel : List (String × Nat × Disp))
    (hs : ∀ r ∈ sel, r ∈ Gen.sites ∧ reviewedSwallow.contains r.1.toList = false)
    (cb : Cb) (k : Nat) (hk : k < sel.length) (hf : cb k = false) (hp : ∀ j, j < k → cb j = true) :
    run (some cb) false (sel.map siteOf) 0 false = .cancelled (k + 1) :=
  cancel_at_k_cancels _ cb k (allPropagate_of_table sel hs) (by simpa using hk) hf hp

theorem source_sites_cancel_in_callback (sel : List (String × Nat × Disp))
    (hs : ∀ r ∈ sel, r ∈ Gen.sites ∧ reviewedSwallow.contains r.1.toList = false)
    (cb : Cb) (k : Nat) (hk : k < sel.length) (hcb : ∀ j, cb j = true) :
    runF cb k (sel.map siteOf) 0 false false = .cancelled (k + 1) :=
  cancel_in_callback_cancels _ cb k (allPropagate_of_table sel hs) (by simpa using hk) hcb

theorem source_sites_cancel_schedule (sel : List (String × Nat × Disp))
    (hs : ∀ r ∈ sel, r ∈ Gen.sites ∧ reviewedSwallow.contains r.1.toList = false)
    (cb : Cb) (flagAt : Nat → Bool) (k : Nat) (hk : k < sel.length)
    (hstop : cb k = false ∨ flagAt k = true)
    (hpre : ∀ j, j < k → cb j = true ∧ flagAt j = false) :
    runS cb flagAt (sel.map siteOf) 0 false = .cancelled (k + 1) :=
  schedule_cancels _ cb flagAt k (allPropagate_of_table sel hs) (by simpa using hk) hstop hpre

/-- … and never finishes, whatever the schedule. -/
theorem source_sites_never_finish (sel : List (String × Nat × Disp))
    (hs : ∀ r ∈ sel, r ∈ Gen.sites ∧ reviewedSwallow.contains r.1.toList = false)
    (cb : Cb) (flagAt : Nat → Bool) (k : Nat) (hk : k < sel.length)
    (hstop : cb k = false ∨ flagAt k = true)
    (hpre : ∀ j, j < k → cb j = true ∧ flagAt j = false) (c : Nat) (l : Bool) :
    runS cb flagAt (sel.map siteOf) 0 false ≠ .finished c l := by
  rw [source_sites_cancel_schedule sel hs cb flagAt k hk hstop hpre]; intro h; cases h

/-- The driver's lookup returns table rows only (so the skeletons it runs satisfy the
membership hypothesis above). -/
theorem lookupSite_mem (table : List (String × Nat × Disp)) (s : String) (r : String × Nat × Disp)
    (h : lookupSite table s = some r) : r ∈ table := by
  unfold lookupSite at h
  split at h
  · split at h
    · exact List.mem_of_find?_eq_some h
    · cases h
  · cases h

theorem lookupAll_mem (table : List (String × Nat × Disp)) :
    ∀ (ss : List String) (rows : List (String × Nat × Disp)),
      lookupAll table ss = .ok rows → ∀ r ∈ rows, r ∈ table := by
  intro ss
  induction ss with
  | nil => intro rows h r hr; simp [lookupAll] at h; subst h; cases hr
  | cons s rest ih =>
    intro rows h r hr
    unfold lookupAll at h
    split at h
    · cases h
    · rename_i r0 h0
      cases hrest : lookupAll table rest with
      | error e => simp [hrest, Except.map] at h
      | ok rs =>
        simp [hrest, Except.map] at h
        subst h
        rcases List.mem_cons.1 hr with rfl | hr'
        · exact lookupSite_mem table s _ h0
        · exact ih rs hrest r hr'

/-! ### progress traces -/

/-- Well-formed traces have positive steps that do not exceed a non-zero total. -/
theorem traceWf_tickOk : ∀ (ts : List Tick), traceWf ts = true → ∀ t ∈ ts, tickOk t = true := by
  intro ts
  induction ts with
  | nil => intro _ t ht; cases ht
  | cons a rest ih =>
    intro h t ht
    cases rest with
    | nil =>
      simp [traceWf] at h
      rcases List.mem_singleton.1 ht with rfl
      exact h
    | cons u rest' =>
      simp only [traceWf, Bool.and_eq_true] at h
      rcases List.mem_cons.1 ht with rfl | ht'
      · exact h.1.1
      · exact ih h.2 t ht'

/-- Strictly well-formed traces: every step is ≥ 1 and ≤ a non-zero total. -/
theorem traceWfStrict_tickOk : ∀ (ts : List Tick), traceWfStrict ts = true →
    ∀ t ∈ ts, 1 ≤ t.step ∧ (t.total = 0 ∨ t.step ≤ t.total) := by
  intro ts
  induction ts with
  | nil => intro _ t ht; cases ht
  | cons a rest ih =>
    intro h t ht
    have key : ∀ x : Tick, tickOk x = true → 1 ≤ x.step ∧ (x.total = 0 ∨ x.step ≤ x.total) := by
      intro x hx; simpa [tickOk] using hx
    cases rest with
    | nil =>
      simp [traceWfStrict] at h
      rcases List.mem_singleton.1 ht with rfl
      exact key _ h
    | cons u rest' =>
      simp only [traceWfStrict, Bool.and_eq_true] at h
      rcases List.mem_cons.1 ht with rfl | ht'
      · exact key _ h.1.1
      · exact ih h.2 t ht'

/-- … and two adjacent ticks of one phase increase strictly, unless the second starts a new
pass (step 1) directly after the first completed its own (`step = total`). -/
theorem traceWfStrict_adjacent : ∀ (ts : List Tick), traceWfStrict ts = true →
    ∀ (i : Nat) (t u : Tick), ts[i]? = some t → ts[i + 1]? = some u → t.phase = u.phase →
      t.step < u.step ∨ (u.step = 1 ∧ t.step = t.total) := by
  intro ts
  induction ts with
  | nil => intro _ i t u h; simp at h
  | cons a rest ih =>
    intro h i t u ht hu hp
    cases rest with
    | nil => simp at hu
    | cons b rest' =>
      simp only [traceWfStrict, Bool.and_eq_true] at h
      cases i with
      | zero =>
        simp at ht hu
        subst ht; subst hu
        have := h.1.2
        simp [stepOk, hp] at this
        exact this
      | succ n =>
        exact ih h.2 n t u (by simpa using ht) (by simpa using hu) hp

/-- A counter that does not advance is rejected (the escape of the lax rule is gone). -/
theorem stuck_counter_rejected (p : String) (T : Nat) (hT : 1 < T) :
    traceWfStrict [⟨p, 1, T⟩, ⟨p, 1, T⟩] = false := by
  simp [traceWfStrict, stepOk, tickOk]
  omega

/-- the counting loop `step += 1; tick(step, T)` from step `i`, `n` times -/
def countFrom (p : String) (T : Nat) : Nat → Nat → List Tick
  | _, 0 => []
  | i, n + 1 => ⟨p, i + 1, T⟩ :: countFrom p T (i + 1) n

theorem countFrom_wf (p : String) (T : Nat) : ∀ (n i : Nat), (T = 0 ∨ i + n ≤ T) →
    traceWfStrict (countFrom p T i n) = true := by
  intro n
  induction n with
  | zero => intro i _; simp [countFrom, traceWfStrict]
  | succ n ih =>
    intro i h
    cases n with
    | zero =>
      simp [countFrom, traceWfStrict, tickOk]
      omega
    | succ m =>
      have h2 := ih (i + 1) (by omega)
      simp only [countFrom] at h2 ⊢
      simp only [traceWfStrict, h2, Bool.and_true, Bool.and_eq_true]
      refine ⟨?_, ?_⟩
      · simp [tickOk]; omega
      · simp [stepOk]

theorem map_range_eq_countFrom (p : String) (T : Nat) : ∀ (n i : Nat),
    (List.range' i n).map (fun j => (⟨p, j + 1, T⟩ : Tick)) = countFrom p T i n := by
  intro n
  induction n with
  | zero => intro i; simp [countFrom]
  | succ n ih => intro i; simp [List.range', countFrom, ih]

/-- **Ingredient ticks**: `ingredient_checks` on a claim with n ingredient assertions emits
(1,n) … (n,n): strictly well-formed for every n. -/
theorem ingredientTicks_wf (n : Nat) : traceWfStrict (ingredientTicks n) = true := by
  unfold ingredientTicks
  rw [List.range_eq_range', map_range_eq_countFrom]
  exact countFrom_wf _ n n 0 (Or.inr (by omega))

/-- **Hash ticks** (C13 `ticks T n`: the callback sequence of `hash_stream_by_alg_with_progress`,
(1,T) … (n,T) with n ≤ T, n = T for a completed run): strictly well-formed. -/
theorem hashTicks_wf (phase : String) (T n : Nat) (h : n ≤ T) :
    traceWfStrict (hashTicks phase T n) = true := by
  unfold hashTicks
  rw [List.range_eq_range', map_range_eq_countFrom]
  exact countFrom_wf _ T n 0 (Or.inr (by omega))

/-- **BMFF tick counter** (`progress_tick`: `*step += 1; progress(*step, 0)`): strictly well-formed. -/
theorem zeroTicks_wf (phase : String) (n : Nat) : traceWfStrict (zeroTicks phase n) = true := by
  unfold zeroTicks
  rw [List.range_eq_range', map_range_eq_countFrom]
  exact countFrom_wf _ 0 n 0 (Or.inl rfl)

/-- **The re-counting closure** of `verify_hash_binding` (own counter, total handed on) applied to
inner ticks whose totals are 0 or at least the running count: strictly well-formed. -/
theorem recount_wf (phase : String) : ∀ (ts : List Tick) (k : Nat),
    (∀ (i : Nat) (t : Tick), ts[i]? = some t → t.total = 0 ∨ k + i + 1 ≤ t.total) →
    traceWfStrict (recount phase k ts) = true := by
  intro ts
  induction ts with
  | nil => intro k _; simp [recount, traceWfStrict]
  | cons a rest ih =>
    intro k h
    have ha := h 0 a (by simp)
    have hrest : ∀ (i : Nat) (t : Tick), rest[i]? = some t → t.total = 0 ∨ (k + 1) + i + 1 ≤ t.total := by
      intro i t ht
      have := h (i + 1) t (by simpa using ht)
      omega
    have h2 := ih (k + 1) hrest
    cases rest with
    | nil =>
      simp [recount, traceWfStrict, tickOk]
      omega
    | cons b rest' =>
      simp only [recount] at h2 ⊢
      simp only [traceWfStrict, h2, Bool.and_true, Bool.and_eq_true]
      refine ⟨?_, ?_⟩
      · simp [tickOk]; omega
      · simp [stepOk]

/-- The BMFF verification trace (one ranged hash pass of T chunks, then m per-box ticks of total 0)
through the re-counting closure. -/
theorem recount_bmff_wf (phase : String) (T m : Nat) :
    traceWfStrict (recount phase 0 (hashTicks "x" T T ++ zeroTicks "x" m)) = true := by
  apply recount_wf
  intro i t ht
  by_cases hi : i < T
  · have : t = ⟨"x", i + 1, T⟩ := by
      have h1 : (hashTicks "x" T T)[i]? = some ⟨"x", i + 1, T⟩ := by simp [hashTicks, hi]
      rw [List.getElem?_append_left (by simpa [hashTicks] using hi)] at ht
      rw [h1] at ht; exact (Option.some.inj ht).symm
    subst this
    right; simp; omega
  · left
    rw [List.getElem?_append_right (by simp [hashTicks]; omega)] at ht
    simp [zeroTicks] at ht
    obtain ⟨w, _, rfl⟩ := ht
    rfl

/-! ### ingredient trees (nested levels) -/

def headOk (a : Tick) : List Tick → Bool
  | [] => true
  | b :: _ => stepOk a b

theorem traceWfStrict_cons (a : Tick) (l : List Tick) :
    traceWfStrict (a :: l) = (tickOk a && headOk a l && traceWfStrict l) := by
  cases l with
  | nil => simp [traceWfStrict, headOk]
  | cons b rest => simp [traceWfStrict, headOk]

mutual
  theorem sigTicks_all (c : Ing) : ∀ t ∈ sigTicks c, t = sigTick := by
    cases c with
    | plain => intro t ht; simp [sigTicks] at ht
    | manifest cs =>
      intro t ht
      simp only [sigTicks, List.mem_cons] at ht
      rcases ht with rfl | h
      · rfl
      · exact sigTicksL_all cs t h
  theorem sigTicksL_all (cs : List Ing) : ∀ t ∈ sigTicksL cs, t = sigTick := by
    cases cs with
    | nil => intro t ht; simp [sigTicksL] at ht
    | cons c rest =>
      intro t ht
      simp only [sigTicksL, List.mem_append] at ht
      rcases ht with h | h
      · exact sigTicks_all c t h
      · exact sigTicksL_all rest t h
end

/-- a block of signature ticks in front of a well-formed rest that does not start with a
conflicting tick is well-formed -/
theorem sigBlock_wf : ∀ (l rest : List Tick), (∀ t ∈ l, t = sigTick) →
    traceWfStrict rest = true → headOk sigTick rest = true →
    traceWfStrict (l ++ rest) = true ∧ headOk sigTick (l ++ rest) = true := by
  intro l
  induction l with
  | nil => intro rest _ h1 h2; exact ⟨h1, h2⟩
  | cons a l ih =>
    intro rest hall h1 h2
    have ha : a = sigTick := hall a (List.mem_cons_self ..)
    subst ha
    obtain ⟨i1, i2⟩ := ih rest (fun t ht => hall t (List.mem_cons_of_mem _ ht)) h1 h2
    refine ⟨?_, ?_⟩
    · rw [List.cons_append, traceWfStrict_cons, i1, i2]
      decide
    · simp only [List.cons_append, headOk]; decide

theorem emitTop_head (n i : Nat) (cs : List Ing) :
    headOk sigTick (emitTop n i cs) = true := by
  cases cs with
  | nil => simp [emitTop, headOk]
  | cons c rest => simp [emitTop, headOk, stepOk, sigTick]

theorem emitTop_wf (n : Nat) : ∀ (cs : List Ing) (i : Nat), i + cs.length ≤ n →
    traceWfStrict (emitTop n i cs) = true := by
  intro cs
  induction cs with
  | nil => intro i _; simp [emitTop, traceWfStrict]
  | cons c rest ih =>
    intro i h
    simp only [List.length_cons] at h
    have hrest := ih (i + 1) (by omega)
    obtain ⟨b1, _⟩ := sigBlock_wf (sigTicks c) (emitTop n (i + 1) rest) (sigTicks_all c) hrest
      (emitTop_head n (i + 1) rest)
    simp only [emitTop]
    rw [traceWfStrict_cons, b1]
    have ht : tickOk ⟨"VerifyingIngredient", i + 1, n⟩ = true := by
      simp [tickOk]; omega
    have hh : headOk ⟨"VerifyingIngredient", i + 1, n⟩ (sigTicks c ++ emitTop n (i + 1) rest) = true := by
      cases hs : sigTicks c with
      | nil =>
        cases rest with
        | nil => simp [emitTop, headOk]
        | cons c' rest' => simp [emitTop, headOk, stepOk]
      | cons a l =>
        have : a = sigTick := sigTicks_all c a (by rw [hs]; exact List.mem_cons_self ..)
        subst this
        simp [headOk, stepOk, sigTick]
    rw [ht, hh]; rfl

/-- **Ingredient trees**: for every ingredient tree (any width, any nesting) the ticks
`verify_store` emits for the ingredients of the validated manifest — one VerifyingIngredient
tick per top-level ingredient, one VerifyingSignature tick per nested claim — are strictly
well-formed. (Full strength after fix C23-nested-ingredient-progress; before it, see
`nested_levels_interleaved_before_fix`.) -/
theorem emitClaim_wf (cs : List Ing) : traceWfStrict (emitClaim cs) = true :=
  emitTop_wf cs.length cs 0 (by omega)

/-- The repaired defect: when every nested `ingredient_checks` level reported its own
(step, total), the manifest with ingredients [A, plain], A having two plain ingredients,
produced VerifyingIngredient 2/2 directly followed by 2/2 (replayed on the implementation by the
harness tree `m(pp)p`; even the lax rule rejects it). -/
theorem nested_levels_interleaved_before_fix :
    traceWfStrict (emitClaimOld [.manifest [.plain, .plain], .plain]) = false ∧
    traceWf (emitClaimOld [.manifest [.plain, .plain], .plain]) = false := by
  simp [emitClaimOld, emitLevelOld, emitIngOld, traceWfStrict, traceWf, stepOk, tickOk, sigTick]

/-- flat claims: the tree emitter is the plain counter -/
theorem emitClaim_flat (n : Nat) : emitClaim (List.replicate n .plain) = ingredientTicks n := by
  have key : ∀ (m i : Nat), emitTop n i (List.replicate m .plain) = countFrom "VerifyingIngredient" n i m := by
    intro m
    induction m with
    | zero => intro i; simp [emitTop, countFrom]
    | succ m ih => intro i; simp [List.replicate_succ, emitTop, sigTicks, countFrom, ih]
  unfold emitClaim ingredientTicks
  rw [List.length_replicate, key, List.range_eq_range', map_range_eq_countFrom]

/-! ### Non-vacuity -/
example : AllPropagate (skeleton 5) := by
  intro s hs; simp [skeleton] at hs; rw [hs]
example : run (some (fun i => i != 3)) false (skeleton 5) 0 false = .cancelled 4 := by decide
example : runF (fun _ => true) 2 (skeleton 5) 0 false false = .cancelled 3 := by decide
example : runS (fun _ => true) (fun i => decide (2 ≤ i)) (skeleton 5) 0 false = .cancelled 3 := by decide
example : traceWf [⟨"Hashing", 1, 3⟩, ⟨"Hashing", 2, 3⟩, ⟨"Signing", 1, 1⟩] = true := by decide +kernel
example : traceWf [⟨"Hashing", 2, 3⟩, ⟨"Hashing", 2, 3⟩] = false := by decide +kernel
example : traceWfStrict [⟨"H", 1, 1⟩, ⟨"H", 1, 2⟩, ⟨"H", 2, 2⟩, ⟨"S", 1, 1⟩] = true := by decide +kernel
example : traceWfStrict [⟨"H", 1, 3⟩, ⟨"H", 1, 3⟩] = false := by decide +kernel
/-- a selection of real table rows meets the hypothesis of `source_sites_cancel` -/
example : ∀ r ∈ Gen.sites.filter (fun r => !reviewedSwallow.contains r.1.toList),
    r ∈ Gen.sites ∧ reviewedSwallow.contains r.1.toList = false := by
  intro r hr
  have := List.mem_filter.1 hr
  exact ⟨this.1, by simpa using this.2⟩
example : 20 < (Gen.sites.filter (fun r => !reviewedSwallow.contains r.1.toList)).length := by decide +kernel
example : 40 < Gen.cancelFns.length ∧ 100 < Gen.callers.length := by decide +kernel

end C2pa.C23
