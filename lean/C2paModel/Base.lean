/-
Shared, import-free helpers for the executable models and the line-protocol driver.
Nothing here is Mathlib-dependent so that `driver` links as a `lean_exe`.
-/
namespace C2pa

/-- Split a request line into its space-separated tokens. -/
def tokens (line : String) : List String :=
  (line.trimAscii.toString.splitOn " ").filter (· ≠ "")

/-- `key=value` lookup among tokens. -/
def field? (toks : List String) (key : String) : Option String :=
  let pre := key ++ "="
  match toks.find? (fun t => pre.isPrefixOf t) with
  | some t => some ((t.drop pre.length).toString)
  | none => none

def field (toks : List String) (key : String) : String :=
  (field? toks key).getD ""

/-- Split on a separator, with the empty string giving the empty list. -/
def splitList (s : String) (sep : String) : List String :=
  if s.isEmpty then [] else s.splitOn sep

def hexDigit (n : Nat) : Char :=
  if n < 10 then Char.ofNat (48 + n) else Char.ofNat (87 + n)

def hexByte (b : UInt8) : String :=
  String.ofList [hexDigit (b.toNat / 16), hexDigit (b.toNat % 16)]

/-- Lower-case hex of a byte list, `-` for the empty list (protocol convention). -/
def toHex (bs : List UInt8) : String :=
  if bs.isEmpty then "-" else String.join (bs.map hexByte)

def hexVal? (c : Char) : Option Nat :=
  if '0' ≤ c ∧ c ≤ '9' then some (c.toNat - 48)
  else if 'a' ≤ c ∧ c ≤ 'f' then some (c.toNat - 87)
  else if 'A' ≤ c ∧ c ≤ 'F' then some (c.toNat - 55)
  else none

def fromHexChars : List Char → Option (List UInt8)
  | [] => some []
  | [_] => none
  | a :: b :: rest => do
    let x ← hexVal? a
    let y ← hexVal? b
    let r ← fromHexChars rest
    pure (UInt8.ofNat (x * 16 + y) :: r)

def fromHex? (s : String) : Option (List UInt8) :=
  if s == "-" then some [] else fromHexChars s.toList

end C2pa

namespace C2pa

partial def driverLoop (handle : List String → String) (h out : IO.FS.Stream) : IO Unit := do
  let line ← h.getLine
  if line.isEmpty then return ()
  -- the first token is the property id; the handler sees the rest
  out.putStrLn (handle ((tokens line).drop 1))
  driverLoop handle h out

/-- Line-protocol driver: one request per line on stdin (`<property> <op> fields…`),
one reply per line on stdout. -/
def runDriver (handle : List String → String) : IO Unit := do
  driverLoop handle (← IO.getStdin) (← IO.getStdout)

end C2pa
