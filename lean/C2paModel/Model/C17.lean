import C2paModel.Model.C16
/-
C17 — model of incremental mdat hashing (BMFF placeholder workflow)

  sdk/src/utils/merkle.rs         MerkleAccumulator::add_merkle_leaf        (`addLeaf`, `fixedLoop`)
  sdk/src/builder.rs              Builder::hash_bmff_mdat_bytes             (`Acc.add`)
                                  remainder flush in update_hash_from_stream (`flush`)
  sdk/src/assertions/bmff_hash.rs MerkleMap::create_mms_from_mdat_leaves    (`createMms`)
                                  validate_merkle_maps_mdat_boxes           (`validateMaps`)
                                  (uses C16 `checkMerkleTree` / `genTree`)

The model follows the code *after* the repair /verif/fixes/C17-mdat-header-skip.patch
(per-mdat "header bytes still to skip" counter `mdat_header_skip`; a chunk that contributes no
bytes is ignored) and /verif/fixes/C17-bmff-hash-mdat-maps.patch (`create_mms_from_mdat_leaves`
no longer shrinks the stored block size to 1, which the validator rejects).

The code is parametric in the payload bytes: it only moves, counts and hashes them.  The model is
therefore generic in the element type `β`; the driver instantiates `β := Nat` and feeds each mdat
the *positions* 0,1,2,… of its payload, so a recorded leaf prints as the payload segment it
covers (`off+len`).  The harness (harness/src/bin/c17.rs) names the implementation's leaf digests
the same way, by finding the payload segment whose real SHA-256 is the digest.  Hashing is the
free constructor `LeafHash.sha` (no collisions); `hash_by_alg` on no data gives the empty
digest (`nodata`).

Modelling notes:
* the three maps of `MerkleAccumulator` keyed by `mdat_id` are one association list
  `id ↦ MdatState`; `merkle_leaves[id]` absent = `leaves = []` (the code only ever creates the
  entry together with its first leaf); `fixed_size_remainder[id]` is `rem : Option`;
  `mdat_header_skip[id]` is `skip : Option`.
* `data_left` always equals the number of unread bytes of the cursor; the model keeps only the
  unread bytes `rest` (and `dataLen` for the one place the code uses `data_len`).
* `read_exact` past the end is `Err.readExact`.
* the verifier sees each mdat box as its byte list (`box`), `box_info.size()` = its length,
  `HashRange::new(start, len)` hashed with `hash_stream_by_alg(.., inclusions)` = `sha` of that
  sub-list.

Protocol (`lean/Drv/C17.lean`):
  acc   fixed=<bytes|-> calls=<id:<L|S>:size,…|->
        -> per mdat (ascending id) `id/leaves/rem/skip` joined by `;`, leaves `off+len,…`, or `err`
  final fixed= calls=    (calls, then flush, then create_mms, then verification of the boxes
                          `header ‖ payload` of the mdats 0..max id)
        -> `<maps> <verdict>`; maps per mdat `id/count/hashes/fb/var` joined by `;`, or `none`;
           verdict ok|bad, or nomerkle when no mdat has a leaf (no MerkleMaps are stored)
-/
namespace C2pa.C17

/-- digest of a leaf: `nodata` = empty Vec (`hash_by_alg` swallowing "no data"), else SHA of data -/
inductive LeafHash (β : Type)
  | nodata
  | sha (data : List β)
  deriving DecidableEq, Repr

/-- `hash_by_alg(alg, data, None)` -/
def hashByAlg {β : Type} (d : List β) : LeafHash β :=
  if d.isEmpty then .nodata else .sha d

structure Leaf (β : Type) where
  len : Nat
  hash : LeafHash β
  deriving DecidableEq, Repr

/-- per-mdat slice of the accumulator state -/
structure MdatState (β : Type) where
  leaves : List (Leaf β) := []
  rem : Option (List β) := none
  skip : Option Nat := none
  deriving DecidableEq, Repr

inductive Err
  | readExact
  | unexpected
  | badParam
  deriving DecidableEq, Repr

section generic
variable {β : Type}

/-- the `loop` of the fixed-size branch of `add_merkle_leaf`. `rest` = unread bytes of
`data_reader`, `dataLen` = `data_len`. -/
def fixedLoop (F : Nat) (st : MdatState β) (rest : List β) (dataLen : Nat) :
    Except Err (MdatState β) :=
  match _hrem : st.rem with
  | some buf =>
    -- finish the buffered partial leaf first
    let toCopy := min (F - buf.length) dataLen
    if toCopy > rest.length then .error .readExact
    else
      let buf' := buf ++ rest.take toCopy
      if buf'.length = F then
        fixedLoop F { st with leaves := st.leaves ++ [⟨F, hashByAlg buf'⟩], rem := none }
          (rest.drop toCopy) dataLen
      else .ok { st with rem := some buf' }
  | none =>
    let toCopy := min F rest.length
    if toCopy = 0 then .ok st
    else if toCopy < F then .ok { st with rem := some (rest.take toCopy) }
    else
      let toHash := rest.take toCopy
      if toHash.length = F then
        fixedLoop F { st with leaves := st.leaves ++ [⟨F, hashByAlg toHash⟩], rem := none }
          (rest.drop toCopy) dataLen
      else .error .unexpected
termination_by 2 * rest.length + (if st.rem.isSome then 1 else 0)
decreasing_by
  · simp [_hrem]
    omega
  · have : 0 < min F rest.length := by omega
    simp [_hrem]
    omega

/-- `MerkleAccumulator::add_merkle_leaf` restricted to one mdat. -/
def addLeaf (fixed : Option Nat) (large : Bool) (st : MdatState β) (data : List β) :
    Except Err (MdatState β) :=
  let dataLen := data.length
  -- header skip bookkeeping (`mdat_header_skip.entry(id).or_insert(8)`)
  let toSkip := st.skip.getD 8
  let hashStart := if large then 0 else min toSkip dataLen
  let st := if large then st else { st with skip := some (toSkip - hashStart) }
  -- empty chunk, or everything falls into the "/mdat" exclusion
  if hashStart = dataLen then .ok st
  else
    match fixed with
    | some F => fixedLoop F st (data.drop hashStart) dataLen
    | none =>
      .ok { st with leaves := st.leaves ++ [⟨dataLen - hashStart, hashByAlg (data.drop hashStart)⟩] }

/-- feed one mdat's chunks in order -/
def runMdat (fixed : Option Nat) (large : Bool) : MdatState β → List (List β) → Except Err (MdatState β)
  | st, [] => .ok st
  | st, c :: cs =>
    match addLeaf fixed large st c with
    | .ok st' => runMdat fixed large st' cs
    | .error e => .error e

/-- remainder flush of `update_hash_from_stream` (the remainder entry itself stays) -/
def flush (st : MdatState β) : MdatState β :=
  match st.rem with
  | some b => { st with leaves := st.leaves ++ [⟨b.length, hashByAlg b⟩] }
  | none => st

/-! ### the whole accumulator (several mdats) -/

structure Acc (β : Type) where
  fixed : Option Nat := none
  mdats : List (Nat × MdatState β) := []

def lookupSt (id : Nat) : List (Nat × MdatState β) → MdatState β
  | [] => {}
  | (k, s) :: r => if k = id then s else lookupSt id r

/-- insert keeping ascending ids (`BTreeMap` iteration order) -/
def insertSt (id : Nat) (s : MdatState β) : List (Nat × MdatState β) → List (Nat × MdatState β)
  | [] => [(id, s)]
  | (k, t) :: r =>
    if k = id then (id, s) :: r
    else if id < k then (id, s) :: (k, t) :: r
    else (k, t) :: insertSt id s r

/-- `Builder::hash_bmff_mdat_bytes(mdat_id, data, large_size)` -/
def Acc.add (a : Acc β) (id : Nat) (large : Bool) (data : List β) : Except Err (Acc β) :=
  match addLeaf a.fixed large (lookupSt id a.mdats) data with
  | .ok s => .ok { a with mdats := insertSt id s a.mdats }
  | .error e => .error e

structure MMap (β : Type) where
  id : Nat
  count : Nat
  hashes : List (LeafHash β)
  fixedBlock : Option Nat
  varSizes : Option (List Nat)
  deriving DecidableEq, Repr

/-- one iteration of `create_mms_from_mdat_leaves` -/
def mkMap (fixed : Option Nat) (id : Nat) (leaves : List (Leaf β)) : Except Err (MMap β) :=
  match fixed with
  | some F =>
    if F = 0 then .error .badParam
    else
      let total := (leaves.map (·.len)).sum
      -- shrink to the data length, but never to 1 (the validator rejects block sizes ≤ 1)
      let block := if total > 1 then min total F else F
      .ok { id := id, count := leaves.length, hashes := leaves.map (·.hash),
            fixedBlock := some block, varSizes := none }
  | none =>
    .ok { id := id, count := leaves.length, hashes := leaves.map (·.hash),
          fixedBlock := none, varSizes := some (leaves.map (·.len)) }

/-- flush + `if !merkle_leaves.is_empty() { create_mms_from_mdat_leaves }`; entries exist
only for mdats with at least one leaf. -/
def createMms (fixed : Option Nat) : List (Nat × MdatState β) → Except Err (List (MMap β))
  | [] => .ok []
  | (id, s) :: r =>
    let fl := flush s
    if fl.leaves.isEmpty then createMms fixed r
    else
      match mkMap fixed id fl.leaves, createMms fixed r with
      | .ok m, .ok ms => .ok (m :: ms)
      | .error e, _ => .error e
      | _, .error e => .error e

/-! ### verifier: `validate_merkle_maps_mdat_boxes` -/

/-- interior nodes for the root-only branch -/
inductive Node (β : Type)
  | leaf (h : LeafHash β)
  | comb (a b : Node β)
  deriving DecidableEq, Repr

/-- `while bytes_left > 0 { min(bytes_left, fixed) … }` -/
def fixedRanges (fb : Nat) (region : List β) : List (List β) :=
  if _h : region.length > 0 ∧ fb > 0 then
    region.take (min region.length fb) :: fixedRanges fb (region.drop (min region.length fb))
  else []
termination_by region.length
decreasing_by
  simp only [List.length_drop]; omega

/-- `for block_size in variable_block_sizes { HashRange::new(block_start, block_size) … }` -/
def varRanges : List Nat → List β → List (List β)
  | [], _ => []
  | s :: ss, region => region.take s :: varRanges ss (region.drop s)

/-- `hash_stream_by_alg(alg, reader, Some(vec![range]), false)` -/
def hashRange (d : List β) : LeafHash β := .sha d

/-- ranges of one mdat box (`MDAT_EXCLUSION_SIZE = 16`); `none` = validation error -/
def mdatRanges (mm : MMap β) (box : List β) : Option (List (List β)) :=
  let region := box.drop 16
  match mm.fixedBlock, mm.varSizes with
  | some fb, _ =>
    if fb ≤ 1 then none else some (fixedRanges fb region)
  | none, some sizes =>
    if region.length ≠ sizes.sum then none else some (varRanges sizes region)
  | none, none => some [region]

/-- check of one MerkleMap against its ranges (no `BmffMerkleMap` boxes in the asset) -/
def checkMap [DecidableEq β] (mm : MMap β) (ranges : List (List β)) : Bool :=
  if ranges.length ≠ mm.count then false
  else if mm.hashes.length = 1 ∧ mm.count > 1 then
    -- root-only storage
    let leaves := ranges.map fun r => Node.leaf (hashRange r)
    match (C16.genTree Node.comb leaves).getLast?.bind (·.head?) with
    | some root => C16.hashCheck (mm.hashes.map Node.leaf) 0 root
    | none => false
  else
    (List.range ranges.length).all fun i =>
      match ranges[i]? with
      | some r =>
        C16.checkMerkleTree Node.comb mm.count (mm.hashes.map Node.leaf) (Node.leaf (hashRange r)) i none
      | none => false

/-- `validate_merkle_maps_mdat_boxes` for the mdat boxes of the asset in file order -/
def validateMaps [DecidableEq β] (mms : List (MMap β)) (boxes : List (List β)) : Bool :=
  if mms.any (fun mm => mm.fixedBlock.isSome && mm.varSizes.isSome) then false
  else if boxes.length ≠ mms.length then false
  else
    (List.zip boxes mms).all fun (box, mm) =>
      match mdatRanges mm box with
      | some ranges => checkMap mm ranges
      | none => false

end generic

/-! ### line protocol (β := payload positions) -/

def segStr (d : List Nat) : String :=
  match d with
  | [] => "0+0"
  | x :: _ =>
    if d == (List.range d.length).map (· + x) then toString x ++ "+" ++ toString d.length
    else "[" ++ ",".intercalate (d.map toString) ++ "]"

def hashStr : LeafHash Nat → String
  | .nodata => "e"
  | .sha d => segStr d

def leafStr (l : Leaf Nat) : String :=
  match l.hash with
  | .nodata => "e+" ++ toString l.len
  | .sha d => if d.length = l.len then segStr d else segStr d ++ "!" ++ toString l.len

def listStr (l : List String) : String := if l.isEmpty then "-" else ",".intercalate l

def optNat : Option Nat → String
  | none => "-"
  | some n => toString n

def stStr (id : Nat) (s : MdatState Nat) : String :=
  toString id ++ "/" ++ listStr (s.leaves.map leafStr) ++ "/"
    ++ (match s.rem with | none => "-" | some b => segStr b) ++ "/" ++ optNat s.skip

structure Call where
  id : Nat
  large : Bool
  size : Nat

def parseCalls (s : String) : List Call :=
  if s == "-" then []
  else (s.splitOn ",").filterMap fun c =>
    match c.splitOn ":" with
    | [i, l, n] => some { id := i.toNat!, large := l == "L", size := n.toNat! }
    | _ => none

def consumed (id : Nat) : List (Nat × Nat) → Nat
  | [] => 0
  | (k, n) :: r => if k = id then n else consumed id r

def setConsumed (id n : Nat) : List (Nat × Nat) → List (Nat × Nat)
  | [] => [(id, n)]
  | (k, m) :: r => if k = id then (id, n) :: r else (k, m) :: setConsumed id n r

/-- run the calls; each mdat receives the next positions of its own payload -/
def runCalls : Acc Nat → List (Nat × Nat) → List Call → Except Err (Acc Nat × List (Nat × Nat))
  | a, pos, [] => .ok (a, pos)
  | a, pos, c :: cs =>
    let off := consumed c.id pos
    let data := (List.range c.size).map (· + off)
    match a.add c.id c.large data with
    | .ok a' => runCalls a' (setConsumed c.id (off + c.size) pos) cs
    | .error e => .error e

def parseFixed (s : String) : Option Nat := if s == "-" then none else some s.toNat!

def mapStr (m : MMap Nat) : String :=
  toString m.id ++ "/" ++ toString m.count ++ "/" ++ listStr (m.hashes.map hashStr) ++ "/"
    ++ optNat m.fixedBlock ++ "/"
    ++ (match m.varSizes with | none => "-" | some l => listStr (l.map toString))

/-- is the mdat large? decided by the first call for it (the harness is consistent per mdat) -/
def isLarge (id : Nat) : List Call → Bool
  | [] => false
  | c :: cs => if c.id = id then c.large else isLarge id cs

/-- the mdat box as the verifier sees it: header (8 or 16 bytes, marked by positions ≥ 10^9)
followed by the payload positions -/
def boxOf (id : Nat) (calls : List Call) (pos : List (Nat × Nat)) : List Nat :=
  let hdr := if isLarge id calls then 16 else 8
  (List.range hdr).map (· + 1000000000) ++ List.range (consumed id pos)

def handle (toks : List String) : String :=
  match toks with
  | "acc" :: rest =>
    let calls := parseCalls (field rest "calls")
    match runCalls { fixed := parseFixed (field rest "fixed") } [] calls with
    | .ok (a, _) =>
      -- an mdat with no entry in any of the three maps is not part of the state
      listStr' ((a.mdats.filter fun (_, s) => !(s.leaves.isEmpty && s.rem.isNone && s.skip.isNone)).map
        fun (id, s) => stStr id s)
    | .error _ => "err"
  | "final" :: rest =>
    let calls := parseCalls (field rest "calls")
    let fixed := parseFixed (field rest "fixed")
    match runCalls { fixed := fixed } [] calls with
    | .ok (a, pos) =>
      match createMms fixed a.mdats with
      | .ok mms =>
        let nb := (calls.map (·.id)).foldl max 0 + (if calls.isEmpty then 0 else 1)
        let boxes := (List.range nb).map fun id => boxOf id calls pos
        let verdict := if mms.isEmpty then "nomerkle" else if validateMaps mms boxes then "ok" else "bad"
        (if mms.isEmpty then "none" else ";".intercalate (mms.map mapStr)) ++ " " ++ verdict
      | .error _ => "err"
    | .error _ => "err"
  | _ => "bad-op"
where
  listStr' (l : List String) : String := if l.isEmpty then "-" else ";".intercalate l

end C2pa.C17
