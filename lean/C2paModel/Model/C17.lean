import C2paModel.Model.C16
/-
C17 — model of incremental mdat hashing (BMFF placeholder workflow)

  sdk/src/utils/merkle.rs         MerkleAccumulator::add_merkle_leaf        (`addLeaf`, `fixedLoop`)
  sdk/src/builder.rs              Builder::hash_bmff_mdat_bytes             (`Acc.add`)
                                  remainder flush in update_hash_from_stream (`flush`)
  sdk/src/assertions/bmff_hash.rs MerkleMap::create_mms_from_mdat_leaves    (`createMms`)
                                  validate_merkle_maps_mdat_boxes           (`validateMaps`)
                                  (uses C16 `checkMerkleTree` / `genTree`)

The model follows the code *after* the repairs
* /verif/fixes/C17-mdat-header-skip.patch (per-mdat "header bytes still to skip" counter
  `mdat_header_skip`; a chunk that contributes no bytes is ignored),
* /verif/fixes/C17-bmff-hash-mdat-maps.patch (`create_mms_from_mdat_leaves` no longer shrinks the
  stored block size to 1, which the validator rejects),
* /verif/fixes/C17-signing-histories.patch: the remainder flush of `update_hash_from_stream`
  drains `fixed_size_remainder` (`flush`; before: `flushPre`, a second call appended the
  remainder leaf again); `create_mms_from_mdat_leaves` refuses an mdat whose leaf vector exceeds
  the validator's `MAX_MERKLE_LEAVES_SIZE` budget (`mkMap`; before: `mkMapPre`, the signer stored
  what `check_merkle_leaf_memory` rejects); `add_merkle_leaf` refuses a buffered partial leaf
  longer than a (lowered) leaf size instead of underflowing (`fixedLoop`, `checked_sub`).

The code is parametric in the payload bytes: it only moves, counts and hashes them.  The model is
therefore generic in the element type `β`; the driver instantiates `β := Nat` and feeds each mdat
the *positions* 0,1,2,… of its payload, so a recorded leaf prints as the payload segment it
covers (`off+len`).  The harness (harness/src/bin/c17.rs) names the implementation's leaf digests
the same way, by finding the payload segment whose real SHA-256 is the digest.  Hashing is the
free constructor `LeafHash.sha` (no collisions); `hash_by_alg` on no data gives the empty
digest (`nodata`).

Modelling notes:
* the three maps of `MerkleAccumulator` keyed by `mdat_id` are one association list
  `id ↦ MdatState`; `merkle_leaves[id]` absent = `leaves = []` (the code only ever creates the
  entry together with its first leaf); `fixed_size_remainder[id]` is `rem : Option`;
  `mdat_header_skip[id]` is `skip : Option`.
* `data_left` always equals the number of unread bytes of the cursor; the model keeps only the
  unread bytes `rest` (and `dataLen` for the one place the code uses `data_len`).
* `read_exact` past the end is `Err.readExact`.
* the verifier sees each mdat box as its byte list (`box`), `box_info.size()` = its length,
  `HashRange::new(start, len)` hashed with `hash_stream_by_alg(.., inclusions)` = `sha` of that
  sub-list.

Protocol (`lean/Drv/C17.lean`):
  acc   fixed=<bytes|-> calls=<id:<L|S>:size,…|->   (a call `set:<bytes>` changes the leaf size)
        -> per mdat (ascending id) `id/leaves/rem/skip` joined by `;`, leaves `off+len,…`, or `err`
  final fixed= calls= [flushes=<n>]
                         (calls, then n times {flush, create_mms}, then verification of the boxes
                          `header ‖ payload` of the mdats 0..max id against the last maps)
        -> `<maps> <verdict>`; maps per mdat `id/count/hashes/fb/var` joined by `;`, or `none`;
           verdict ok|bad, or nomerkle when no mdat has a leaf (no MerkleMaps are stored)
  caps  fixed=<bytes|-> n=<leaves> hsz=<digest bytes>     (create_mms_from_mdat_leaves on n leaves)
        -> `ok <count>` | toomany | err
  capv  fb=<bytes|-> varn=<k> vars=<size> len=<region length> hsz= count=
                         (range construction of the validator for one mdat, lengths only)
        -> toomany | rej | go
-/
namespace C2pa.C17

/-- digest of a leaf: `nodata` = empty Vec (`hash_by_alg` swallowing "no data"), else SHA of data -/
inductive LeafHash (β : Type)
  | nodata
  | sha (data : List β)
  deriving DecidableEq, Repr

/-- `hash_by_alg(alg, data, None)` -/
def hashByAlg {β : Type} (d : List β) : LeafHash β :=
  if d.isEmpty then .nodata else .sha d

structure Leaf (β : Type) where
  len : Nat
  hash : LeafHash β
  deriving DecidableEq, Repr

/-- per-mdat slice of the accumulator state -/
structure MdatState (β : Type) where
  leaves : List (Leaf β) := []
  rem : Option (List β) := none
  skip : Option Nat := none
  deriving DecidableEq, Repr

inductive Err
  | readExact
  | unexpected
  | badParam
  | tooManyLeaves
  deriving DecidableEq, Repr

section generic
variable {β : Type}

/-- the `loop` of the fixed-size branch of `add_merkle_leaf`. `rest` = unread bytes of
`data_reader`, `dataLen` = `data_len`. -/
def fixedLoop (F : Nat) (st : MdatState β) (rest : List β) (dataLen : Nat) :
    Except Err (MdatState β) :=
  match _hrem : st.rem with
  | some buf =>
    -- finish the buffered partial leaf first; `fixed_size.checked_sub(buffer.len())` fails when
    -- the leaf size was lowered below the number of buffered bytes
    if F < buf.length then .error .badParam
    else
      let toCopy := min (F - buf.length) dataLen
      if toCopy > rest.length then .error .readExact
      else
        let buf' := buf ++ rest.take toCopy
        if buf'.length = F then
          fixedLoop F { st with leaves := st.leaves ++ [⟨F, hashByAlg buf'⟩], rem := none }
            (rest.drop toCopy) dataLen
        else .ok { st with rem := some buf' }
  | none =>
    let toCopy := min F rest.length
    if toCopy = 0 then .ok st
    else if toCopy < F then .ok { st with rem := some (rest.take toCopy) }
    else
      let toHash := rest.take toCopy
      if toHash.length = F then
        fixedLoop F { st with leaves := st.leaves ++ [⟨F, hashByAlg toHash⟩], rem := none }
          (rest.drop toCopy) dataLen
      else .error .unexpected
termination_by 2 * rest.length + (if st.rem.isSome then 1 else 0)
decreasing_by
  · simp [_hrem]
    omega
  · have : 0 < min F rest.length := by omega
    simp [_hrem]
    omega

/-- `MerkleAccumulator::add_merkle_leaf` restricted to one mdat. -/
def addLeaf (fixed : Option Nat) (large : Bool) (st : MdatState β) (data : List β) :
    Except Err (MdatState β) :=
  let dataLen := data.length
  -- header skip bookkeeping (`mdat_header_skip.entry(id).or_insert(8)`)
  let toSkip := st.skip.getD 8
  let hashStart := if large then 0 else min toSkip dataLen
  let st := if large then st else { st with skip := some (toSkip - hashStart) }
  -- empty chunk, or everything falls into the "/mdat" exclusion
  if hashStart = dataLen then .ok st
  else
    match fixed with
    | some F => fixedLoop F st (data.drop hashStart) dataLen
    | none =>
      .ok { st with leaves := st.leaves ++ [⟨dataLen - hashStart, hashByAlg (data.drop hashStart)⟩] }

/-- feed one mdat's chunks in order -/
def runMdat (fixed : Option Nat) (large : Bool) : MdatState β → List (List β) → Except Err (MdatState β)
  | st, [] => .ok st
  | st, c :: cs =>
    match addLeaf fixed large st c with
    | .ok st' => runMdat fixed large st' cs
    | .error e => .error e

/-- remainder flush of `update_hash_from_stream`: the buffered partial leaf becomes the last
leaf and the remainder entry is drained (`std::mem::take`) -/
def flush (st : MdatState β) : MdatState β :=
  match st.rem with
  | some b => { st with leaves := st.leaves ++ [⟨b.length, hashByAlg b⟩], rem := none }
  | none => st

/-- the flush **before** the repair: the remainder entry stayed, so a second
`update_hash_from_stream` appended the same leaf again (Props `pre_fix_flush_twice`) -/
def flushPre (st : MdatState β) : MdatState β :=
  match st.rem with
  | some b => { st with leaves := st.leaves ++ [⟨b.length, hashByAlg b⟩] }
  | none => st

/-! ### the whole accumulator (several mdats) -/

structure Acc (β : Type) where
  fixed : Option Nat := none
  mdats : List (Nat × MdatState β) := []

def lookupSt (id : Nat) : List (Nat × MdatState β) → MdatState β
  | [] => {}
  | (k, s) :: r => if k = id then s else lookupSt id r

/-- insert keeping ascending ids (`BTreeMap` iteration order) -/
def insertSt (id : Nat) (s : MdatState β) : List (Nat × MdatState β) → List (Nat × MdatState β)
  | [] => [(id, s)]
  | (k, t) :: r =>
    if k = id then (id, s) :: r
    else if id < k then (id, s) :: (k, t) :: r
    else (k, t) :: insertSt id s r

/-- `Builder::hash_bmff_mdat_bytes(mdat_id, data, large_size)` -/
def Acc.add (a : Acc β) (id : Nat) (large : Bool) (data : List β) : Except Err (Acc β) :=
  match addLeaf a.fixed large (lookupSt id a.mdats) data with
  | .ok s => .ok { a with mdats := insertSt id s a.mdats }
  | .error e => .error e

/-- `MerkleAccumulator::set_fixed_size` / `Builder::set_bmff_hash_fixed_leaf_size` (the public
setters take KiB: `bytes = kb * 1024`; the harness also sets other byte counts through the hook).
Documented to be called before the first `hash_bmff_mdat_bytes`; nothing enforces it. -/
def Acc.setFixed (a : Acc β) (bytes : Nat) : Acc β := { a with fixed := some bytes }

/-- one step of a caller's history -/
inductive Op (β : Type)
  | add (id : Nat) (large : Bool) (data : List β)
  | setFixed (bytes : Nat)

def Acc.step (a : Acc β) : Op β → Except Err (Acc β)
  | .add id large data => a.add id large data
  | .setFixed bytes => .ok (a.setFixed bytes)

def Acc.runOps (a : Acc β) : List (Op β) → Except Err (Acc β)
  | [] => .ok a
  | op :: rest =>
    match a.step op with
    | .ok a' => Acc.runOps a' rest
    | .error e => .error e

/-- `MAX_MERKLE_LEAVES_SIZE` = 32 MiB -/
def maxMerkleLeavesSize : Nat := 33554432

/-- the budget test of `check_merkle_leaf_memory` (and, since the repair, of
`create_mms_from_mdat_leaves`): `!(num_leaves.saturating_mul(leaf_size) > MAX)`; `hsz` =
`hash_alg_size_in_bytes(alg)` (32 / 48 / 64).  The saturating u64 product exceeds MAX exactly
when the exact product does. -/
def capOk (hsz n : Nat) : Bool := decide (n * hsz ≤ maxMerkleLeavesSize)

structure MMap (β : Type) where
  id : Nat
  count : Nat
  hashes : List (LeafHash β)
  fixedBlock : Option Nat
  varSizes : Option (List Nat)
  /-- digest length of `alg` (the maps of this workflow always carry the accumulator's `alg`) -/
  hsz : Nat := 32
  deriving DecidableEq, Repr

/-- one iteration of `create_mms_from_mdat_leaves` **before** the budget check was added -/
def mkMapPre (fixed : Option Nat) (hsz : Nat) (id : Nat) (leaves : List (Leaf β)) : Except Err (MMap β) :=
  match fixed with
  | some F =>
    if F = 0 then .error .badParam
    else
      let total := (leaves.map (·.len)).sum
      -- shrink to the data length, but never to 1 (the validator rejects block sizes ≤ 1)
      let block := if total > 1 then min total F else F
      .ok { id := id, count := leaves.length, hashes := leaves.map (·.hash),
            fixedBlock := some block, varSizes := none, hsz := hsz }
  | none =>
    .ok { id := id, count := leaves.length, hashes := leaves.map (·.hash),
          fixedBlock := none, varSizes := some (leaves.map (·.len)), hsz := hsz }

/-- one iteration of `create_mms_from_mdat_leaves`: the leaf vector must fit the budget the
validator enforces, then as before -/
def mkMap (fixed : Option Nat) (hsz : Nat) (id : Nat) (leaves : List (Leaf β)) : Except Err (MMap β) :=
  if !capOk hsz leaves.length then .error .tooManyLeaves
  else mkMapPre fixed hsz id leaves

/-- flush + `if !merkle_leaves.is_empty() { create_mms_from_mdat_leaves }`; entries exist
only for mdats with at least one leaf. -/
def createMms (fixed : Option Nat) (hsz : Nat) : List (Nat × MdatState β) → Except Err (List (MMap β))
  | [] => .ok []
  | (id, s) :: r =>
    let fl := flush s
    if fl.leaves.isEmpty then createMms fixed hsz r
    else
      match mkMap fixed hsz id fl.leaves, createMms fixed hsz r with
      | .ok m, .ok ms => .ok (m :: ms)
      | .error e, _ => .error e
      | _, .error e => .error e

/-- Merkle part of `Builder::update_hash_from_stream`: the remainders are flushed into the leaf
lists (and drained), then the maps are built from all leaf lists.  (When building the maps fails
the real accumulator keeps the flushed state; the model returns only the error.) -/
def Acc.updateHash (a : Acc β) (hsz : Nat) : Except Err (Acc β × List (MMap β)) :=
  match createMms a.fixed hsz a.mdats with
  | .ok mms => .ok ({ a with mdats := a.mdats.map fun p => (p.1, flush p.2) }, mms)
  | .error e => .error e

/-! ### verifier: `validate_merkle_maps_mdat_boxes` -/

/-- interior nodes for the root-only branch -/
inductive Node (β : Type)
  | leaf (h : LeafHash β)
  | comb (a b : Node β)
  deriving DecidableEq, Repr

/-- `while bytes_left > 0 { min(bytes_left, fixed) … }` -/
def fixedRanges (fb : Nat) (region : List β) : List (List β) :=
  if _h : region.length > 0 ∧ fb > 0 then
    region.take (min region.length fb) :: fixedRanges fb (region.drop (min region.length fb))
  else []
termination_by region.length
decreasing_by
  simp only [List.length_drop]; omega

/-- `for block_size in variable_block_sizes { HashRange::new(block_start, block_size) … }` -/
def varRanges : List Nat → List β → List (List β)
  | [], _ => []
  | s :: ss, region => region.take s :: varRanges ss (region.drop s)

/-- `hash_stream_by_alg(alg, reader, Some(vec![range]), false)` -/
def hashRange (d : List β) : LeafHash β := .sha d

inductive VErr
  | blockSize
  | sizeMismatch
  | tooManyLeaves
  deriving DecidableEq, Repr

/-- `u64::div_ceil` -/
def divCeil (a b : Nat) : Nat := (a + b - 1) / b

/-- the checks in front of the range loops, on lengths only: the number of ranges of an mdat
whose region (box minus `MDAT_EXCLUSION_SIZE = 16` bytes) has `regionLen` bytes, or the error -/
def rangeCount (mm : MMap β) (regionLen : Nat) : Except VErr Nat :=
  match mm.fixedBlock, mm.varSizes with
  | some fb, _ =>
    if fb ≤ 1 then .error .blockSize
    else if !capOk mm.hsz (divCeil regionLen fb) then .error .tooManyLeaves
    else .ok (divCeil regionLen fb)
  | none, some sizes =>
    if regionLen ≠ sizes.sum then .error .sizeMismatch
    else if !capOk mm.hsz sizes.length then .error .tooManyLeaves
    else .ok sizes.length
  | none, none => .ok 1

/-- ranges of one mdat box, or the validation error -/
def mdatRanges (mm : MMap β) (box : List β) : Except VErr (List (List β)) :=
  let region := box.drop 16
  match rangeCount mm region.length with
  | .error e => .error e
  | .ok _ =>
    match mm.fixedBlock, mm.varSizes with
    | some fb, _ => .ok (fixedRanges fb region)
    | none, some sizes => .ok (varRanges sizes region)
    | none, none => .ok [region]

/-- check of one MerkleMap against its ranges (no `BmffMerkleMap` boxes in the asset) -/
def checkMap [DecidableEq β] (mm : MMap β) (ranges : List (List β)) : Bool :=
  if ranges.length ≠ mm.count then false
  else if mm.hashes.length = 1 ∧ mm.count > 1 then
    -- root-only storage
    let leaves := ranges.map fun r => Node.leaf (hashRange r)
    match (C16.genTree Node.comb leaves).getLast?.bind (·.head?) with
    | some root => C16.hashCheck (mm.hashes.map Node.leaf) 0 root
    | none => false
  else
    (List.range ranges.length).all fun i =>
      match ranges[i]? with
      | some r =>
        C16.checkMerkleTree Node.comb mm.count (mm.hashes.map Node.leaf) (Node.leaf (hashRange r)) i none
      | none => false

/-- `validate_merkle_maps_mdat_boxes` for the mdat boxes of the asset in file order -/
def validateMaps [DecidableEq β] (mms : List (MMap β)) (boxes : List (List β)) : Bool :=
  if mms.any (fun mm => mm.fixedBlock.isSome && mm.varSizes.isSome) then false
  else if boxes.length ≠ mms.length then false
  else
    (List.zip boxes mms).all fun (box, mm) =>
      match mdatRanges mm box with
      | .ok ranges => checkMap mm ranges
      | .error _ => false

end generic

/-! ### line protocol (β := payload positions) -/

def segStr (d : List Nat) : String :=
  match d with
  | [] => "0+0"
  | x :: _ =>
    if d == (List.range d.length).map (· + x) then toString x ++ "+" ++ toString d.length
    else "[" ++ ",".intercalate (d.map toString) ++ "]"

def hashStr : LeafHash Nat → String
  | .nodata => "e"
  | .sha d => segStr d

def leafStr (l : Leaf Nat) : String :=
  match l.hash with
  | .nodata => "e+" ++ toString l.len
  | .sha d => if d.length = l.len then segStr d else segStr d ++ "!" ++ toString l.len

def listStr (l : List String) : String := if l.isEmpty then "-" else ",".intercalate l

def optNat : Option Nat → String
  | none => "-"
  | some n => toString n

def stStr (id : Nat) (s : MdatState Nat) : String :=
  toString id ++ "/" ++ listStr (s.leaves.map leafStr) ++ "/"
    ++ (match s.rem with | none => "-" | some b => segStr b) ++ "/" ++ optNat s.skip

structure Call where
  id : Nat
  large : Bool
  size : Nat
  /-- `set:<bytes>`: not a chunk but a change of the leaf size -/
  set : Option Nat := none

def parseCalls (s : String) : List Call :=
  if s == "-" then []
  else (s.splitOn ",").filterMap fun c =>
    match c.splitOn ":" with
    | [i, l, n] => some { id := i.toNat!, large := l == "L", size := n.toNat! }
    | ["set", b] => some { id := 0, large := false, size := 0, set := some b.toNat! }
    | _ => none

def consumed (id : Nat) : List (Nat × Nat) → Nat
  | [] => 0
  | (k, n) :: r => if k = id then n else consumed id r

def setConsumed (id n : Nat) : List (Nat × Nat) → List (Nat × Nat)
  | [] => [(id, n)]
  | (k, m) :: r => if k = id then (id, n) :: r else (k, m) :: setConsumed id n r

/-- run the calls; each mdat receives the next positions of its own payload -/
def runCalls : Acc Nat → List (Nat × Nat) → List Call → Except Err (Acc Nat × List (Nat × Nat))
  | a, pos, [] => .ok (a, pos)
  | a, pos, c :: cs =>
    match c.set with
    | some bytes => runCalls (a.setFixed bytes) pos cs
    | none =>
      let off := consumed c.id pos
      let data := (List.range c.size).map (· + off)
      match a.step (.add c.id c.large data) with
      | .ok a' => runCalls a' (setConsumed c.id (off + c.size) pos) cs
      | .error e => .error e

/-- `update_hash_from_stream` n times; the maps of the last call -/
def updateN (hsz : Nat) : Nat → Acc Nat → List (MMap Nat) → Except Err (List (MMap Nat))
  | 0, _, last => .ok last
  | n + 1, a, _ =>
    match a.updateHash hsz with
    | .ok (a', mms) => updateN hsz n a' mms
    | .error e => .error e

def parseFixed (s : String) : Option Nat := if s == "-" then none else some s.toNat!

def mapStr (m : MMap Nat) : String :=
  toString m.id ++ "/" ++ toString m.count ++ "/" ++ listStr (m.hashes.map hashStr) ++ "/"
    ++ optNat m.fixedBlock ++ "/"
    ++ (match m.varSizes with | none => "-" | some l => listStr (l.map toString))

/-- is the mdat large? decided by the first call for it (the harness is consistent per mdat) -/
def isLarge (id : Nat) : List Call → Bool
  | [] => false
  | c :: cs => if c.set.isNone && c.id = id then c.large else isLarge id cs

/-- the mdat box as the verifier sees it: header (8 or 16 bytes, marked by positions ≥ 10^9)
followed by the payload positions -/
def boxOf (id : Nat) (calls : List Call) (pos : List (Nat × Nat)) : List Nat :=
  let hdr := if isLarge id calls then 16 else 8
  (List.range hdr).map (· + 1000000000) ++ List.range (consumed id pos)

def handle (toks : List String) : String :=
  match toks with
  | "acc" :: rest =>
    let calls := parseCalls (field rest "calls")
    match runCalls { fixed := parseFixed (field rest "fixed") } [] calls with
    | .ok (a, _) =>
      -- an mdat with no entry in any of the three maps is not part of the state
      listStr' ((a.mdats.filter fun (_, s) => !(s.leaves.isEmpty && s.rem.isNone && s.skip.isNone)).map
        fun (id, s) => stStr id s)
    | .error _ => "err"
  | "final" :: rest =>
    let calls := parseCalls (field rest "calls")
    let fixed := parseFixed (field rest "fixed")
    let flushes := if field rest "flushes" == "" then 1 else (field rest "flushes").toNat!
    match runCalls { fixed := fixed } [] calls with
    | .ok (a, pos) =>
      match updateN 32 flushes a [] with
      | .ok mms =>
        let chunks := calls.filter (·.set.isNone)
        let nb := (chunks.map (·.id)).foldl max 0 + (if chunks.isEmpty then 0 else 1)
        let boxes := (List.range nb).map fun id => boxOf id calls pos
        let verdict := if mms.isEmpty then "nomerkle" else if validateMaps mms boxes then "ok" else "bad"
        (if mms.isEmpty then "none" else ";".intercalate (mms.map mapStr)) ++ " " ++ verdict
      | .error _ => "err"
    | .error _ => "err"
  | "caps" :: rest =>
    let n := (field rest "n").toNat!
    match mkMap (parseFixed (field rest "fixed")) (field rest "hsz").toNat! 0
        (List.replicate n (⟨1, .nodata⟩ : Leaf Nat)) with
    | .ok m => "ok " ++ toString m.count
    | .error .tooManyLeaves => "toomany"
    | .error _ => "err"
  | "capv" :: rest =>
    let fb := parseFixed (field rest "fb")
    let mm : MMap Nat :=
      { id := 0, count := (field rest "count").toNat!, hashes := [],
        fixedBlock := fb,
        varSizes := if fb.isSome || field rest "varn" == "-" then none
          else some (List.replicate (field rest "varn").toNat! (field rest "vars").toNat!),
        hsz := (field rest "hsz").toNat! }
    match rangeCount mm (field rest "len").toNat! with
    | .error .tooManyLeaves => "toomany"
    | .error _ => "rej"
    | .ok n => if n ≠ mm.count then "rej" else "go"
  | _ => "bad-op"
where
  listStr' (l : List String) : String := if l.isEmpty then "-" else ";".intercalate l

end C2pa.C17
