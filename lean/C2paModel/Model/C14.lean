import C2paModel.Base
/-
C14 — model of the two size-padding routines.

* `pad_cose_sig` (sdk/src/crypto/cose/sign.rs): pad a `CoseSign1` to the reserved box size
  with a zero-filled `pad` entry (and, at CBOR header-length boundaries, an empty `pad2`
  entry) in the unprotected header.
* `DataHash::pad_to_size` (sdk/src/assertions/data_hash.rs): grow `pad` one byte at a time
  until the CBOR of the assertion has the desired size; on overshoot clear `pad`, set
  `pad2 = last_pad / 2` zero bytes and retry once.

Abstraction: the routines only look at *serialised lengths*. A structure is represented by
the number of bytes that do not depend on the padding (`rest`), the number of entries of the
map the pads are added to (`k`, COSE only) and the byte lengths of the pads. The serialised
length is then given by CBOR's head-size rule (`hdr`): a map of `n` entries has an
`hdr n`-byte head, a byte string of `n` bytes has an `hdr n`-byte head, the text labels
`"pad"`/`"pad2"` take 4/5 bytes.
-/
namespace C2pa.C14

/-- Size of a CBOR head (major type + argument) for argument `n`: 1/2/3/5/9 bytes. -/
def hdr (n : Nat) : Nat :=
  if n < 24 then 1
  else if n < 256 then 2
  else if n < 65536 then 3
  else if n < 4294967296 then 5
  else 9

/-- Map entry `label : bytes(n)` with a text label of `l < 24` characters. -/
def entry (l n : Nat) : Nat := 1 + l + hdr n + n

def optCount : Option Nat → Nat
  | none => 0
  | some _ => 1

def optEntry (l : Nat) : Option Nat → Nat
  | none => 0
  | some n => entry l n

/-! ### COSE -/

/-- A `CoseSign1` as the padding routine sees it. -/
structure Sign1 where
  /-- bytes outside the head of the unprotected-header map and outside pad entries -/
  rest : Nat
  /-- entries of the unprotected-header map (without pads) -/
  k : Nat
  deriving DecidableEq, Repr

/-- `to_tagged_vec().len()` with the given `pad` / `pad2` entries pushed. -/
def size (s : Sign1) (pad pad2 : Option Nat) : Nat :=
  s.rest + hdr (s.k + optCount pad + optCount pad2) + optEntry 3 pad + optEntry 4 pad2

inductive Res
  | ok (len : Nat) (pad pad2 : Option Nat)
  | tooSmall
  /-- `usize` subtraction underflow (debug panic / release wrap) -/
  | panic
  /-- the model's recursion fuel ran out (proved impossible) -/
  | fuelOut
  deriving DecidableEq, Repr

inductive Step
  | done (g : Nat)
  | brk
  | fuelOut
  deriving DecidableEq, Repr

/-- The inner `loop` of `pad_cose_sig`: `pad2` fixed, `pad` guess `g` stepped up by one
while the serialisation is shorter than `e`. -/
def adjust (s : Sign1) (p2 : Option Nat) (e : Nat) : Nat → Nat → Step
  | 0, _ => .fuelOut
  | fuel + 1, g =>
    let n := size s (some g) p2
    if n < e then adjust s p2 e fuel (g + 1)
    else if n = e then .done g
    else .brk

/-- `usize` subtraction as the code performs it (`None` = underflow: debug panic). -/
def csub (a b : Nat) : Option Nat := if b ≤ a then some (a - b) else none

inductive Attempt
  | done (g : Nat)
  | brk
  | tooSmall
  | panic
  | fuelOut
  deriving DecidableEq, Repr

/-- One iteration of `for second_pad in [false, true]`. -/
def attempt (s : Sign1) (p2 : Option Nat) (e : Nat) : Attempt :=
  let empty := size s (some 0) p2
  if empty > e then .tooSmall
  else
    match csub e empty with
    | none => .panic
    | some d =>
      -- `.saturating_sub(8)`; ten iterations always decide (proved), fuel = 10
      match adjust s p2 e 10 (d - 8) with
      | .done g => .done g
      | .brk => .brk
      | .fuelOut => .fuelOut

/-- `pad_cose_sig(sign1, end_size)`. -/
def padCoseSig (s : Sign1) (endSize : Option Nat) : Res :=
  let cur := size s none none
  match endSize with
  | none => .ok cur none none
  | some e =>
    if cur = e then .ok cur none none
    else
      match attempt s none e with
      | .done g => .ok (size s (some g) none) (some g) none
      | .tooSmall => .tooSmall
      | .panic => .panic
      | .fuelOut => .fuelOut
      | .brk =>
        match attempt s (some 0) e with
        | .done g => .ok (size s (some g) (some 0)) (some g) (some 0)
        | .tooSmall => .tooSmall
        | .panic => .panic
        | .fuelOut => .fuelOut
        | .brk => .tooSmall

/-! ### DataHash -/

/-- A `DataHash` as `pad_to_size` sees it. The assertion map has at most six entries, so its
own head is one byte with or without `pad2`. -/
structure DH where
  /-- bytes of the assertion CBOR outside the `pad` value and the `pad2` entry -/
  rest : Nat
  pad : Nat
  pad2 : Option Nat
  deriving DecidableEq, Repr

/-- `to_assertion()?.data().len()` -/
def dhSize (d : DH) : Nat :=
  d.rest + hdr d.pad + d.pad + optEntry 4 d.pad2

inductive Loop
  | done (pad : Nat)
  | overshoot (lastPad : Nat)
  | fuelOut
  deriving DecidableEq, Repr

/-- The `loop` of `pad_to_size`: push one zero byte while the size is below `want`. -/
def padLoop (d : DH) (want : Nat) : Nat → Nat → Nat → Loop
  | 0, _, _ => .fuelOut
  | fuel + 1, pad, last =>
    let cur := dhSize { d with pad := pad }
    if cur = want then .done pad
    else if want > cur then padLoop d want fuel (pad + 1) (last + 1)
    else .overshoot last

inductive DhRes
  | ok (d : DH)
  | err
  | fuelOut
  deriving DecidableEq, Repr

/-- `DataHash::pad_to_size(desired)`; `depth` bounds the self-recursion (two levels suffice). -/
def padToSizeF : Nat → DH → Nat → DhRes
  | 0, _, _ => .fuelOut
  | depth + 1, d, want =>
    let cur := dhSize d
    if cur > want then .err
    else
      match padLoop d want (want - cur + 2) d.pad 0 with
      | .done p => .ok { d with pad := p }
      | .fuelOut => .fuelOut
      | .overshoot last =>
        match d.pad2 with
        | some _ => .err
        | none => padToSizeF depth { d with pad := 0, pad2 := some (last / 2) } want

def padToSize (d : DH) (want : Nat) : DhRes := padToSizeF 2 d want

/-- `start_save_stream` / `save_to_bmff_fragmented`: the re-serialised JUMBF must have the
size of the placeholder written before hashing. -/
def sameSizeCheck (placeholderLen finalLen : Nat) : Bool := placeholderLen == finalLen

/-! ### `Store::save_to_stream`: placeholder pass, re-hash, sign -/

/-- `Store::sign_claim_placeholder`: a 32-byte digest resized to `max(32, reserve)` bytes — the
content of the signature box while the asset is written and hashed. -/
def sigPlaceholder (reserve : Nat) : Nat := max 32 reserve

/-- One embedding run as far as sizes go. JUMBF box headers are fixed-width, so the JUMBF length
is `fixed` + signature-box content + DataHash assertion CBOR. -/
structure Save where
  /-- JUMBF bytes outside the signature box content and the DataHash assertion CBOR -/
  fixed : Nat
  /-- `signer.reserve_size()` -/
  reserve : Nat
  /-- the COSE_Sign1 the signer produces (before padding) -/
  sig : Sign1
  /-- `signer.direct_cose_handling()`: `sign_claim` returns the signer's bytes as they are -/
  direct : Bool
  /-- the DataHash written with the placeholder (dummy ranges, ten bytes of padding) -/
  dh0 : DH
  /-- the DataHash with the final ranges and digest, before `pad_to_size` -/
  dh1 : DH
  deriving Repr

inductive SaveRes
  /-- signed: length of the JUMBF embedded for hashing, length of the final JUMBF -/
  | ok (placeholderLen finalLen : Nat)
  /-- `Error::JumbfCreationError` (from `pad_to_size` or from the equal-size check) -/
  | jumbfError
  /-- `Error::CoseSigboxTooSmall` -/
  | sigTooSmall
  | panic
  | fuelOut
  deriving DecidableEq, Repr

/-- `save_to_stream`: `start_save_stream` (placeholder JUMBF written, hashes computed,
`update_data_hash` = `pad_to_size(original_len)`, JUMBF regenerated, `jumbf_size != data.len()`
check), then `sign_claim` with the signer's reserve, then the final JUMBF. Nothing compares the
final JUMBF with the placeholder JUMBF. -/
def Save.run (v : Save) : SaveRes :=
  let ph := v.fixed + sigPlaceholder v.reserve + dhSize v.dh0
  match padToSize v.dh1 (dhSize v.dh0) with
  | .err => .jumbfError
  | .fuelOut => .fuelOut
  | .ok d' =>
    if !sameSizeCheck ph (v.fixed + sigPlaceholder v.reserve + dhSize d') then .jumbfError
    else if v.direct then .ok ph (v.fixed + size v.sig none none + dhSize d')
    else
      match padCoseSig v.sig (some v.reserve) with
      | .ok len _ _ => .ok ph (v.fixed + len + dhSize d')
      | .tooSmall => .sigTooSmall
      | .panic => .panic
      | .fuelOut => .fuelOut

/-! ### line protocol -/

def optStr : Option Nat → String
  | none => "-"
  | some n => toString n

def parseOpt (s : String) : Option Nat := if s == "-" then none else s.toNat?

def Res.str : Res → String
  | .ok len p p2 => "ok len=" ++ toString len ++ " pad=" ++ optStr p ++ " pad2=" ++ optStr p2
  | .tooSmall => "err toosmall"
  | .panic => "panic"
  | .fuelOut => "model-fuel-out"

def DhRes.str : DhRes → String
  | .ok d => "ok len=" ++ toString (dhSize d) ++ " pad=" ++ toString d.pad ++ " pad2=" ++ optStr d.pad2
  | .err => "err"
  | .fuelOut => "model-fuel-out"

def natField (toks : List String) (key : String) : Nat := ((field toks key).toNat?).getD 0

def handle (toks : List String) : String :=
  match toks with
  | "cose" :: rest | "sign" :: rest =>
    let b := natField rest "base"
    let k := natField rest "k"
    if b < hdr k then "bad-request"
    else (padCoseSig { rest := b - hdr k, k := k } (parseOpt (field rest "end"))).str
  | "dh" :: rest =>
    let a := natField rest "a"
    if a < 1 then "bad-request"
    else
      (padToSize { rest := a - 1, pad := natField rest "pad", pad2 := parseOpt (field rest "pad2") }
        (natField rest "want")).str
  | "save" :: rest =>
    -- end-to-end `Builder::sign`: sizes measured on the implementation's own output
    let b := natField rest "base"
    let k := natField rest "k"
    let t0 := natField rest "t0"
    let a1 := natField rest "a1"
    if b < hdr k || t0 < 1 || a1 < 1 then "bad-request"
    else
      let v : Save :=
        { fixed := 0, reserve := natField rest "reserve", sig := { rest := b - hdr k, k := k }
          direct := field rest "direct" == "1"
          dh0 := { rest := t0 - 1, pad := 0, pad2 := none }
          dh1 := { rest := a1 - 1, pad := 0, pad2 := none } }
      match v.run with
      | .ok ph fin =>
        if ph == fin then
          match padToSize v.dh1 (dhSize v.dh0) with
          | .ok d' =>
            "ok same sig=" ++ toString (fin - dhSize d') ++ " dhpad=" ++ toString d'.pad ++
              " dhpad2=" ++ optStr d'.pad2
          | _ => "model-inconsistent"
        else if fin < ph then "ok shorter=" ++ toString (ph - fin)
        else "ok longer=" ++ toString (fin - ph)
      | .jumbfError => "err jumbf"
      | .sigTooSmall => "err toosmall"
      | .panic => "panic"
      | .fuelOut => "model-fuel-out"
  | _ => "bad-op"

end C2pa.C14
