import C2paModel.Model.C07Base
/-
Layer B — PNG (sdk/src/asset_handlers/png_io.rs), byte-exact.

Mirrors `get_png_chunk_positions` (signature check, chunk walk up to and including the
first IEND; everything after IEND is never looked at), `get_cai_data`, `PngIO::write_cai`
(three splice branches), `remove_cai_store_from_stream`,
`get_object_locations_from_stream` (real chunk, or the 12-byte pseudo chunk after IHDR
and `file_end + 12` when there is none) and `get_box_map` (stops at IEND: bytes after
IEND are in no box).

The chunk name check is `String::from_utf8` (Rust std): `utf8Dec` below accepts exactly the
well-formed UTF-8 sequences (no overlong forms, no surrogates, nothing above U+10FFFF) and
yields the decoded characters, which are the box name of `get_box_map`.

The lexer `segs`, `fmt` (wrap / unwrap / insertion position) at the end of the file are the
*specification-side* view of a PNG file as a layer-A container; they are not compared with
the implementation but related to the byte-exact functions by the refinement theorems of
`Lemmas/C07PngOps.lean` (`Png.segs_write`, `Png.segs_remove`, `Png.read_segs`, …).
-/
namespace C2pa.C07.Png

open C2pa.C07

def sig : Bytes := [137, 80, 78, 71, 13, 10, 26, 10]
def caBX : Bytes := asc "caBX"
def IHDR : Bytes := asc "IHDR"
def IEND : Bytes := asc "IEND"
def iTXt : Bytes := asc "iTXt"

structure Chunk where
  start : Nat
  length : Nat
  name : Bytes
  deriving DecidableEq, Repr

def Chunk.fin (c : Chunk) : Nat := c.start + c.length + 12

/-- UTF-8 continuation byte. -/
def cont (x : UInt8) : Bool := 0x80 ≤ x && x ≤ 0xBF

/-- `String::from_utf8` on a byte list: the decoded characters, `none` when the bytes are not
well-formed UTF-8 (Unicode 15 table 3-7, the acceptance set of Rust's `core::str::from_utf8`). -/
def utf8Dec : Bytes → Option (List Char)
  | [] => some []
  | a :: rest =>
    if a < 0x80 then (utf8Dec rest).map (Char.ofNat a.toNat :: ·)
    else match rest with
      | [] => none
      | b :: rest2 =>
        if 0xC2 ≤ a && a ≤ 0xDF then
          if cont b then (utf8Dec rest2).map (Char.ofNat (a.toNat % 32 * 64 + b.toNat % 64) :: ·)
          else none
        else match rest2 with
          | [] => none
          | c :: rest3 =>
            if 0xE0 ≤ a && a ≤ 0xEF then
              if (if a == 0xE0 then 0xA0 ≤ b && b ≤ 0xBF
                  else if a == 0xED then 0x80 ≤ b && b ≤ 0x9F else cont b) && cont c then
                (utf8Dec rest3).map
                  (Char.ofNat (a.toNat % 16 * 4096 + b.toNat % 64 * 64 + c.toNat % 64) :: ·)
              else none
            else match rest3 with
              | [] => none
              | d :: rest4 =>
                if 0xF0 ≤ a && a ≤ 0xF4 then
                  if (if a == 0xF0 then 0x90 ≤ b && b ≤ 0xBF
                      else if a == 0xF4 then 0x80 ≤ b && b ≤ 0x8F else cont b)
                      && cont c && cont d then
                    (utf8Dec rest4).map
                      (Char.ofNat (a.toNat % 8 * 262144 + b.toNat % 64 * 4096
                        + c.toNat % 64 * 64 + d.toNat % 64) :: ·)
                  else none
                else none

/-- `String::from_utf8(name).is_ok()` -/
def nameOk (name : Bytes) : Bool := (utf8Dec name).isSome

/-- `name_str` of a chunk whose name passed `nameOk` (every chunk of a successful walk). -/
def nameStr (name : Bytes) : String := String.ofList ((utf8Dec name).getD [])

/-- The chunk loop of `get_png_chunk_positions` from position `pos`; `none` = error. -/
def walk (b : Bytes) : Nat → Nat → Option (List Chunk)
  | 0, _ => none
  | fuel + 1, pos =>
    if pos + 8 > b.length then none          -- length / name read fails
    else
      let len := rdBe32 b pos
      let name := slice b (pos + 4) 4
      if pos + 8 + len + 4 > b.length then none   -- crc read fails
      else if !nameOk name then none              -- "PNG bad chunk name"
      else
        let c : Chunk := ⟨pos, len, name⟩
        if name == IEND then some [c]
        else (walk b fuel (pos + 12 + len)).map (c :: ·)

def chunks (b : Bytes) : Option (List Chunk) :=
  if b.take 8 != sig then none else walk b (b.length + 1) 8

/-- `png_pong` encoding of an unknown chunk. -/
def mkChunk (name data : Bytes) : Bytes :=
  be32 data.length ++ name ++ data ++ be32 (crc32 (name ++ data))

def wrap (s : Bytes) : Bytes := mkChunk caBX s

def firstCai (ps : List Chunk) : Option Chunk := ps.find? (·.name == caBX)
def firstIhdr (ps : List Chunk) : Option Chunk := ps.find? (·.name == IHDR)

/-- `get_cai_data` -/
def read (b : Bytes) : Option ReadR :=
  match chunks b with
  | none => none
  | some ps =>
    if (ps.filter (·.name == caBX)).length > 1 then some .many
    else match firstCai ps with
      | none => some .none
      | some c => some (.ok (slice b (c.start + 8) c.length))

/-- `PngIO::write_cai` -/
def write (b s : Bytes) : Option Bytes :=
  match chunks b with
  | none => none
  | some ps =>
    match firstIhdr ps with
    | none => none
    | some ih =>
      let ihEnd := ih.fin
      let d := wrap s
      match firstCai ps with
      | some c =>
        if c.fin ≤ ihEnd then
          some (b.take c.start ++ slice b c.fin (ihEnd - c.fin) ++ d ++ b.drop ihEnd)
        else
          some (b.take ihEnd ++ d ++ slice b ihEnd (c.start - ihEnd) ++ b.drop c.fin)
      | none => some (b.take ihEnd ++ d ++ b.drop ihEnd)

/-- `PngIO::remove_cai_store_from_stream` -/
def remove (b : Bytes) : Option Bytes :=
  match chunks b with
  | none => none
  | some ps =>
    match firstCai ps with
    | some c => some (b.take c.start ++ b.drop c.fin)
    | none => some b

/-- `PngIO::get_object_locations_from_stream` -/
def locations (b : Bytes) : Option (List Loc) :=
  match chunks b with
  | none => none
  | some ps =>
    match firstCai ps with
    | some c => some (locA c.start (c.length + 12) b.length)
    | none =>
      match firstIhdr ps with
      | none => none
      | some ih => some (locA ih.fin 12 (b.length + 12))

/-- `PngIO::get_box_map` -/
def boxMap (b : Bytes) : Option (List Box) :=
  match chunks b with
  | none => none
  | some ps =>
    let has := ps.any (·.name == caBX)
    some (⟨"PNGh", 0, 8, false, false⟩ :: ps.flatMap fun c =>
      if c.name == caBX then [⟨"C2PA", c.start, c.length + 12, true, false⟩]
      else
        let bm : Box := ⟨nameStr c.name, c.start, c.length + 12, false, false⟩
        if !has && c.name == IHDR then [bm, ⟨"C2PA", c.fin, 0, true, true⟩] else [bm])

/-- Same-size in-place patch as done by the sign-then-patch flow (`write_cai` with a
store of the same length on the already embedded asset). PNG has no `AssetPatch`. -/
def patch (b s : Bytes) : Option Bytes := write b s

/-! ### lexer to layer A (specification side) -/

def kindOf (name : Bytes) : Kind :=
  if name == caBX then .manifest else if name == iTXt then .xmp else .media

/-- Tag of a chunk segment = the name `get_box_map` gives its box. -/
def tagOf (name : Bytes) : String := if name == caBX then "C2PA" else nameStr name

def chunkSeg (b : Bytes) (c : Chunk) : Seg :=
  ⟨kindOf c.name, tagOf c.name, slice b c.start (c.length + 12)⟩

/-- End of the last chunk (= end of IEND); 8 for an empty chunk list (never produced). -/
def finOf (ps : List Chunk) : Nat := match ps.getLast? with | some c => c.fin | none => 8

/-- Header, one segment per chunk up to IEND, and (when non-empty) the bytes after IEND. -/
def segs (b : Bytes) : Option (List Seg) :=
  match chunks b with
  | none => none
  | some ps =>
    let tail := b.drop (finOf ps)
    some (⟨.header, "PNGh", b.take 8⟩ :: ps.map (chunkSeg b)
      ++ (if tail.isEmpty then [] else [⟨.media, "trailing", tail⟩]))

/-- The store is the chunk data: everything between the 8-byte chunk head and the CRC. -/
def unwrap (w : Bytes) : Option Bytes :=
  if w.length < 12 then none else some (slice w 8 (w.length - 12))

/-- A chunk segment named IHDR (decided on the raw bytes: chunk type at offset 4). -/
def isIhdrSeg (s : Seg) : Bool := s.kind != .header && slice s.raw 4 4 == IHDR

/-- Insertion index: right after the first IHDR chunk segment of the stripped list. -/
def pos (c : List Seg) : Nat :=
  match (strip c).findIdx? isIhdrSeg with
  | some i => i + 1
  | none => 0

def fmt : Fmt := ⟨wrap, unwrap, pos⟩

end C2pa.C07.Png
