import C2paModel.Model.C07Base
/-
Layer B — PNG (sdk/src/asset_handlers/png_io.rs), byte-exact.

Mirrors `get_png_chunk_positions` (signature check, chunk walk up to and including the
first IEND; everything after IEND is never looked at), `get_cai_data`, `PngIO::write_cai`
(three splice branches), `remove_cai_store_from_stream`,
`get_object_locations_from_stream` (real chunk, or the 12-byte pseudo chunk after IHDR
and `file_end + 12` when there is none) and `get_box_map` (stops at IEND: bytes after
IEND are in no box).

Approximation: a chunk name containing a byte ≥ 0x80 is treated as "not UTF-8" (the code
uses `String::from_utf8`, which also accepts well-formed multi-byte sequences; the
generator never produces those).
-/
namespace C2pa.C07.Png

open C2pa.C07

def sig : Bytes := [137, 80, 78, 71, 13, 10, 26, 10]
def caBX : Bytes := asc "caBX"
def IHDR : Bytes := asc "IHDR"
def IEND : Bytes := asc "IEND"
def iTXt : Bytes := asc "iTXt"

structure Chunk where
  start : Nat
  length : Nat
  name : Bytes
  deriving DecidableEq, Repr

def Chunk.fin (c : Chunk) : Nat := c.start + c.length + 12

/-- The chunk loop of `get_png_chunk_positions` from position `pos`; `none` = error. -/
def walk (b : Bytes) : Nat → Nat → Option (List Chunk)
  | 0, _ => none
  | fuel + 1, pos =>
    if pos + 8 > b.length then none          -- length / name read fails
    else
      let len := rdBe32 b pos
      let name := slice b (pos + 4) 4
      if pos + 8 + len + 4 > b.length then none   -- crc read fails
      else if name.any (fun x => x ≥ 128) then none -- "PNG bad chunk name"
      else
        let c : Chunk := ⟨pos, len, name⟩
        if name == IEND then some [c]
        else (walk b fuel (pos + 12 + len)).map (c :: ·)

def chunks (b : Bytes) : Option (List Chunk) :=
  if b.take 8 != sig then none else walk b (b.length + 1) 8

/-- `png_pong` encoding of an unknown chunk. -/
def mkChunk (name data : Bytes) : Bytes :=
  be32 data.length ++ name ++ data ++ be32 (crc32 (name ++ data))

def wrap (s : Bytes) : Bytes := mkChunk caBX s

def firstCai (ps : List Chunk) : Option Chunk := ps.find? (·.name == caBX)
def firstIhdr (ps : List Chunk) : Option Chunk := ps.find? (·.name == IHDR)

/-- `get_cai_data` -/
def read (b : Bytes) : Option ReadR :=
  match chunks b with
  | none => none
  | some ps =>
    if (ps.filter (·.name == caBX)).length > 1 then some .many
    else match firstCai ps with
      | none => some .none
      | some c => some (.ok (slice b (c.start + 8) c.length))

/-- `PngIO::write_cai` -/
def write (b s : Bytes) : Option Bytes :=
  match chunks b with
  | none => none
  | some ps =>
    match firstIhdr ps with
    | none => none
    | some ih =>
      let ihEnd := ih.fin
      let d := wrap s
      match firstCai ps with
      | some c =>
        if c.fin ≤ ihEnd then
          some (b.take c.start ++ slice b c.fin (ihEnd - c.fin) ++ d ++ b.drop ihEnd)
        else
          some (b.take ihEnd ++ d ++ slice b ihEnd (c.start - ihEnd) ++ b.drop c.fin)
      | none => some (b.take ihEnd ++ d ++ b.drop ihEnd)

/-- `PngIO::remove_cai_store_from_stream` -/
def remove (b : Bytes) : Option Bytes :=
  match chunks b with
  | none => none
  | some ps =>
    match firstCai ps with
    | some c => some (b.take c.start ++ b.drop c.fin)
    | none => some b

/-- `PngIO::get_object_locations_from_stream` -/
def locations (b : Bytes) : Option (List Loc) :=
  match chunks b with
  | none => none
  | some ps =>
    match firstCai ps with
    | some c => some (locA c.start (c.length + 12) b.length)
    | none =>
      match firstIhdr ps with
      | none => none
      | some ih => some (locA ih.fin 12 (b.length + 12))

/-- `PngIO::get_box_map` -/
def boxMap (b : Bytes) : Option (List Box) :=
  match chunks b with
  | none => none
  | some ps =>
    let has := ps.any (·.name == caBX)
    some (⟨"PNGh", 0, 8, false, false⟩ :: ps.flatMap fun c =>
      if c.name == caBX then [⟨"C2PA", c.start, c.length + 12, true, false⟩]
      else
        let bm : Box := ⟨String.ofList (c.name.map fun x => Char.ofNat x.toNat), c.start, c.length + 12, false, false⟩
        if !has && c.name == IHDR then [bm, ⟨"C2PA", c.fin, 0, true, true⟩] else [bm])

/-- Same-size in-place patch as done by the sign-then-patch flow (`write_cai` with a
store of the same length on the already embedded asset). PNG has no `AssetPatch`. -/
def patch (b s : Bytes) : Option Bytes := write b s

/-! ### lexer to layer A -/

def kindOf (name : Bytes) : Kind :=
  if name == caBX then .manifest else if name == iTXt then .xmp else .media

def chunkSeg (b : Bytes) (c : Chunk) : Seg :=
  ⟨kindOf c.name, String.ofList (c.name.map fun x => Char.ofNat x.toNat), slice b c.start (c.length + 12)⟩

/-- Header, one segment per chunk up to IEND, and (when non-empty) the bytes after IEND. -/
def segs (b : Bytes) : Option (List Seg) :=
  match chunks b with
  | none => none
  | some ps =>
    let fin := match ps.getLast? with | some c => c.fin | none => 8
    let tail := b.drop fin
    some (⟨.header, "PNGh", b.take 8⟩ :: ps.map (chunkSeg b)
      ++ (if tail.isEmpty then [] else [⟨.media, "trailing", tail⟩]))

def unwrap (w : Bytes) : Option Bytes :=
  if w.length < 12 then none else some (slice w 8 (w.length - 12))

/-- Insertion index: right after the first IHDR segment of the stripped list. -/
def pos (c : List Seg) : Nat :=
  match (strip c).findIdx? (·.tag == "IHDR") with
  | some i => i + 1
  | none => 0

def fmt : Fmt := ⟨wrap, unwrap, pos⟩

end C2pa.C07.Png
