import C2paModel.Base
/-
C19 — model of the ingredient-graph walkers of sdk/src/store.rs:

* `Store::get_claim_referenced_manifests_impl`  (`gcrm`, `gLoop`)
* `Store::ingredient_checks`                     (`ic`, `iLoop`)
* `Store::get_hash_binding_manifest_impl`        (`hb`, `hbScan`)
* their composition in `Store::verify_store` / `get_store_validation_info` (`validate`)

over an abstract manifest store: a list of claims, the label of a claim is its index, an
ingredient reference is an optional label (a label `≥ length` is a dangling reference —
`store.get_claim` returns `None`).

The Rust functions are recursive; the model functions take a fuel argument that bounds
the *nesting depth of calls* (one unit per nested call, none for loop iterations), so
"fuel `n+1` suffices" literally means "the recursion is never more than `n+1` frames deep".
Ghost fields (finish order, counters) never influence control flow.
-/
namespace C2pa.C19

/-- An ingredient assertion as far as the three walkers distinguish them. -/
structure Ing where
  /-- `c2pa_manifest()` resolved to a manifest label; `none`: ingredient without provenance -/
  target : Option Nat
  /-- `relationship == ParentOf` -/
  parent : Bool
  /-- the hashed URI carries the current manifest box hash of the target -/
  hashOk : Bool
  deriving DecidableEq, Repr

structure Claim where
  ings : List Ing
  /-- `claim.update_manifest()` -/
  update : Bool
  /-- `!claim.hash_assertions().is_empty()` -/
  hasHash : Bool
  /-- the signature box parses as COSE_Sign1 (otherwise `verify_claim` returns `Err`) -/
  sigOk : Bool
  deriving DecidableEq, Repr

/-- label ↦ claim; label = index. -/
abbrev Store := List Claim

/-- Validation-log events the walkers emit (in the model: most recent first). -/
inductive Ev
  | missing (l : Nat)    -- failure `ingredient.manifestMissing`, label l
  | cyclic (u : Nat)     -- failure `assertion.ingredient.malformed` "ingredient cannot be cyclic" in claim u
  | mismatch (v : Nat)   -- failure `ingredient.manifest.mismatch` for target v
  | matched (v : Nat)    -- success `ingredient.manifest.validated` for target v
  | verify (v : Nat)     -- `Claim::verify_claim` ran on v
  | noBinding (u : Nat)  -- failure `claim.hardBindings.missing` for claim u
  deriving DecidableEq, Repr

def Ev.isFailure : Ev → Bool
  | .missing _ | .cyclic _ | .mismatch _ | .noBinding _ => true
  | _ => false

def Ev.isMissing : Ev → Bool
  | .missing _ => true
  | _ => false

inductive Out
  | ok
  | tooDeep        -- `Error::InvalidAsset("ingredient chain depth …")`
  | cyclic         -- `Error::CyclicIngredients`
  | missing        -- `Error::ClaimMissing` / `ClaimVerification` (only with StopOnFirstError)
  | verifyFailed   -- `verify_claim` returned `Err`
  | noBinding      -- `Error::ClaimMissingHardBinding`
  | noClaim        -- the root label does not name a claim
  | outOfFuel      -- model artefact; proved unreachable with enough fuel
  deriving DecidableEq, Repr

/-! ### get_claim_referenced_manifests -/

structure GSt where
  /-- `claim_label_path`, innermost first -/
  path : List Nat := []
  /-- keys of `svi.manifest_map`, most recently inserted first -/
  map : List Nat := []
  /-- `svi.ingredient_references` as (ingredient, referencing claim) -/
  refs : List (Nat × Nat) := []
  log : List Ev := []
  /-- ghost: finish order (a claim is finished when its loop completes and it is popped) -/
  fin : List Nat := []
  /-- ghost: claims expanded (inserted in the map) -/
  exp : Nat := 0
  /-- ghost: iterations of the ingredient loops (every ingredient assertion examined, whether
  or not it names a manifest; each costs one parse and at most one store look-up) -/
  insp : Nat := 0
  /-- ghost: label comparisons of `claim_label_path.contains` -/
  cmps : Nat := 0
  deriving DecidableEq, Repr

/-- state after looking an existing target `v` up and passing the cycle test (claim `u`) -/
def gPre (st : GSt) (u v : Nat) : GSt :=
  { st with insp := st.insp + 1, cmps := st.cmps + st.path.length, refs := (v, u) :: st.refs }

/-- state after the cycle test hit -/
def gCyc (st : GSt) (u : Nat) : GSt :=
  { st with insp := st.insp + 1, cmps := st.cmps + st.path.length, log := .cyclic u :: st.log }

/-- state after a missing manifest was logged -/
def gMiss (st : GSt) (v : Nat) : GSt :=
  { st with insp := st.insp + 1, log := .missing v :: st.log }

/-- state after an ingredient assertion without a manifest reference was skipped (`continue`) -/
def gSkip (st : GSt) : GSt :=
  { st with insp := st.insp + 1 }

/-- state after `claim_label_path.push` / `manifest_map.insert` -/
def gPush (st : GSt) (u : Nat) : GSt :=
  { st with path := u :: st.path, map := u :: st.map, exp := st.exp + 1 }

/-- state after `claim_label_path.pop()` -/
def gPop (st : GSt) (u : Nat) : GSt :=
  { st with path := st.path.tail, fin := u :: st.fin }

/-- The `for i in claim.ingredient_assertions()` loop of claim `u`; `rec` is the recursive call. -/
def gLoop (rec : Nat → GSt → Out × GSt) (s : Store) (stop : Bool) (u : Nat) :
    List Ing → GSt → Out × GSt
  | [], st => (.ok, st)
  | i :: is, st =>
    match i.target with
    | none => gLoop rec s stop u is (gSkip st)
    | some v =>
      if v < s.length then
        if st.path.contains v then (.cyclic, gCyc st u)
        else
          let r := rec v (gPre st u v)
          if r.1 = .ok then gLoop rec s stop u is r.2 else r
      else if stop then (.missing, gMiss st v)
      else gLoop rec s stop u is (gMiss st v)

/-- `get_claim_referenced_manifests_impl` on the claim labelled `u`. -/
def gcrm (lim : Nat) (s : Store) (stop : Bool) : Nat → Nat → GSt → Out × GSt
  | 0, _, st => (.outOfFuel, st)
  | fuel + 1, u, st =>
    if lim ≤ st.path.length then (.tooDeep, st)
    else if st.map.contains u then (.ok, st)
    else
      match s[u]? with
      | none => (.noClaim, st)
      | some c =>
        let r := gLoop (gcrm lim s stop fuel) s stop u c.ings (gPush st u)
        if r.1 = .ok then (.ok, gPop r.2 u) else r

/-! ### ingredient_checks -/

structure ISt where
  visited : List Nat := []
  log : List Ev := []
  /-- ghost: recursive expansions -/
  exp : Nat := 0
  /-- ghost: iterations of the ingredient loops (every ingredient assertion examined) -/
  insp : Nat := 0
  deriving DecidableEq, Repr

/-- state after an ingredient assertion without a manifest reference was passed over -/
def iSkip (st : ISt) : ISt :=
  { st with insp := st.insp + 1 }

/-- state after the hash comparison of ingredient `i` → `v` was logged -/
def iHash (st : ISt) (i : Ing) (v : Nat) : ISt :=
  { st with insp := st.insp + 1,
            log := (if i.hashOk then Ev.matched v else Ev.mismatch v) :: st.log }

/-- … and `verify_claim` ran -/
def iVer (st : ISt) (i : Ing) (v : Nat) : ISt :=
  { iHash st i v with log := .verify v :: (iHash st i v).log }

/-- … and `v` entered the visited set -/
def iIns (st : ISt) (i : Ing) (v : Nat) : ISt :=
  { iVer st i v with visited := v :: st.visited, exp := st.exp + 1 }

def iMiss (st : ISt) (v : Nat) : ISt :=
  { st with insp := st.insp + 1, log := .missing v :: st.log }

def iLoop (rec : Nat → ISt → Out × ISt) (s : Store) : List Ing → ISt → Out × ISt
  | [], st => (.ok, st)
  | i :: is, st =>
    match i.target with
    | none => iLoop rec s is (iSkip st)
    | some v =>
      match s[v]? with
      | some c =>
        if !c.sigOk then (.verifyFailed, iHash st i v)
        else if st.visited.contains v then iLoop rec s is (iVer st i v)
        else
          let r := rec v (iIns st i v)
          if r.1 = .ok then iLoop rec s is r.2 else r
      | none => iLoop rec s is (iMiss st v)

/-- `ingredient_checks` (ContinueWhenPossible log) on claim `u` at recursion depth `depth`. -/
def ic (lim : Nat) (s : Store) : Nat → Nat → Nat → ISt → Out × ISt
  | 0, _, _, st => (.outOfFuel, st)
  | fuel + 1, depth, u, st =>
    if lim ≤ depth then (.tooDeep, st)
    else
      match s[u]? with
      | none => (.noClaim, st)
      | some c => iLoop (ic lim s fuel (depth + 1)) s c.ings st

/-! ### get_hash_binding_manifest -/

inductive HStep
  | recurse (v : Nat) | found (v : Nat) | none
  deriving DecidableEq, Repr

/-- The `for` loop of `get_hash_binding_manifest_impl`: the first `parentOf` ingredient whose
manifest is present and is an update manifest (recurse) or carries a hash assertion (found). -/
def hbScan (s : Store) : List Ing → HStep
  | [] => .none
  | i :: is =>
    if i.parent then
      match i.target with
      | some v =>
        match s[v]? with
        | some p =>
          if p.update then .recurse v
          else if p.hasHash then .found v
          else hbScan s is
        | none => hbScan s is
      | none => hbScan s is
    else hbScan s is

inductive HOut
  | found (l : Nat) | none | outOfFuel
  deriving DecidableEq, Repr

/-- `get_hash_binding_manifest_impl`; `vis.length` is the recursion depth (each call inserts one
label and recurses at most once), bounded by the ingredient depth limit. -/
def hb (lim : Nat) (s : Store) : Nat → Nat → List Nat → HOut × List Nat
  | 0, _, vis => (.outOfFuel, vis)
  | fuel + 1, u, vis =>
    if lim ≤ vis.length then (.none, vis)
    else if vis.contains u then (.none, vis)
    else
      let vis := u :: vis
      match s[u]? with
      | none => (.none, vis)
      | some c =>
        if !c.update && c.hasHash then (.found u, vis)
        else
          match hbScan s c.ings with
          | .recurse v => hb lim s fuel v vis
          | .found v => (.found v, vis)
          | .none => (.none, vis)

/-! ### verify_store (graph part) -/

/-- Fuel that provably suffices for every walker on store `s` (see `Props.C19`). -/
def fuelFor (s : Store) : Nat := s.length + 1

structure VRes where
  out : Out
  /-- events in emission order -/
  log : List Ev
  deriving DecidableEq, Repr

/-- `verify_store` without asset data: `get_claim_referenced_manifests`, the hash-binding
search, `verify_claim` of the active claim, `ingredient_checks`. -/
def validate (lim : Nat) (s : Store) (root : Nat) : VRes :=
  match s[root]? with
  | none => { out := .noClaim, log := [] }
  | some c =>
    let g := gcrm lim s false (fuelFor s) root {}
    if g.1 = .ok then
      match (hb lim s (fuelFor s) root []).1 with
      | .found _ =>
        if c.sigOk = false then { out := .verifyFailed, log := g.2.log.reverse }
        else
          let i := ic lim s (fuelFor s) 0 root { visited := [root], log := [] }
          { out := i.1, log := g.2.log.reverse ++ [Ev.verify root] ++ i.2.log.reverse }
      | .outOfFuel => { out := .outOfFuel, log := g.2.log.reverse }
      | .none => { out := .noBinding, log := g.2.log.reverse ++ [Ev.noBinding root] }
    else { out := g.1, log := g.2.log.reverse }

/-- The events of `validate` with the scope they are logged in: `false` = while the active claim
itself is validated (nothing on the tracker's ingredient-URI stack:
`get_claim_referenced_manifests`, the hash-binding check, `verify_claim` of the active claim),
`true` = inside `ingredient_checks` after `validation_log.push_ingredient_uri`. The scope decides
whether `ValidationResults::from_store` may filter the status (see `Props.C19`). -/
def scopeLog (lim : Nat) (s : Store) (root : Nat) : List (Ev × Bool) :=
  match s[root]? with
  | none => []
  | some c =>
    let g := gcrm lim s false (fuelFor s) root {}
    let gl := g.2.log.reverse.map fun e => (e, false)
    if g.1 = .ok then
      match (hb lim s (fuelFor s) root []).1 with
      | .found _ =>
        if c.sigOk = false then gl
        else
          let i := ic lim s (fuelFor s) 0 root { visited := [root], log := [] }
          gl ++ [(Ev.verify root, false)] ++ i.2.log.reverse.map fun e => (e, true)
      | .outOfFuel => gl
      | .none => gl ++ [(Ev.noBinding root, false)]
    else gl

/-- What a caller sees: an error, or a report that is clean / carries failures. -/
def VRes.isClean (r : VRes) : Bool := r.out == .ok && r.log.all (fun e => !e.isFailure)

/-! ### line protocol -/

def parseIng (t : String) : Option Ing :=
  match t.toList with
  | k :: rest =>
    let parent := k == 'p'
    let (hashOk, body) := match rest.reverse with
      | 'h' :: r => (true, r.reverse)
      | _ => (false, rest)
    let bs := String.ofList body
    if bs == "-" then some { target := none, parent := parent, hashOk := hashOk }
    else bs.toNat?.map fun v => { target := some v, parent := parent, hashOk := hashOk }
  | [] => none

/-- node = `<u><h><s>:<ing>,<ing>…` with flags as 0/1. -/
def parseNode (t : String) : Claim :=
  match t.splitOn ":" with
  | [fl, ings] =>
    let f := fl.toList
    { update := f.getD 0 '0' == '1', hasHash := f.getD 1 '0' == '1', sigOk := f.getD 2 '0' == '1'
      ings := (splitList ings ",").filterMap parseIng }
  | _ => { update := false, hasHash := false, sigOk := false, ings := [] }

def parseStore (g : String) : Store :=
  if g == "-" then [] else (g.splitOn "/").map parseNode

def Out.str : Out → String
  | .ok => "ok" | .tooDeep => "too-deep" | .cyclic => "cyclic" | .missing => "missing"
  | .verifyFailed => "verify-failed" | .noBinding => "no-binding" | .noClaim => "no-claim"
  | .outOfFuel => "out-of-fuel"

def Ev.str : Ev → String
  | .missing l => s!"M{l}" | .cyclic u => s!"C{u}" | .mismatch v => s!"H{v}"
  | .matched v => s!"G{v}" | .verify v => s!"V{v}" | .noBinding u => s!"B{u}"

def listStr (l : List String) : String := if l.isEmpty then "-" else ",".intercalate l

def insertSorted (x : Nat) : List Nat → List Nat
  | [] => [x]
  | y :: ys => if x ≤ y then x :: y :: ys else y :: insertSorted x ys

def sortNat (l : List Nat) : List Nat := l.foldr insertSorted []

def dedupSorted : List Nat → List Nat
  | [] => []
  | [x] => [x]
  | x :: y :: r => if x == y then dedupSorted (y :: r) else x :: dedupSorted (y :: r)

def natsStr (l : List Nat) : String := listStr ((sortNat l).map toString)

/-- refs as sorted, de-duplicated `v<u` pairs (the Rust value is a map of sets). -/
def refsStr (s : Store) (l : List (Nat × Nat)) : String :=
  let w := s.length + 1
  let keys := dedupSorted (sortNat (l.map fun p => p.1 * w + p.2))
  listStr (keys.map fun k => s!"{k / w}<{k % w}")

def evsStr (l : List Ev) : String := listStr (l.map Ev.str)

def handle (toks : List String) : String :=
  match toks with
  | op :: rest =>
    let s := parseStore (field rest "g")
    let lim := (field rest "lim").toNat!
    let root := (field rest "root").toNat!
    let stop := field rest "stop" == "1"
    if op == "gcrm" then
      match s[root]? with
      | none => "no-claim"
      | some _ =>
        let (o, g) := gcrm lim s stop (fuelFor s) root {}
        let path := if o == .cyclic then listStr (g.path.reverse.map toString) else "-"
        s!"{o.str} map={natsStr g.map} refs={refsStr s g.refs} log={evsStr g.log.reverse} path={path}"
    else if op == "ic" then
      let depth := (field rest "depth").toNat!
      let (o, i) := ic lim s (fuelFor s) depth root { visited := [root], log := [] }
      s!"{o.str} visited={natsStr i.visited} log={evsStr i.log.reverse}"
    else if op == "hb" then
      match s[root]? with
      | none => "no-claim"
      | some _ =>
        match (hb lim s (fuelFor s) root []).1 with
        | .found l => s!"found={l}"
        | .none => "none"
        | .outOfFuel => "out-of-fuel"
    else if op == "validate" then
      let r := validate lim s root
      let sc := String.ofList ((scopeLog lim s root).map fun p => if p.2 then 'i' else 'a')
      s!"{r.out.str} log={evsStr r.log} scope={if sc.isEmpty then "-" else sc}"
    else if op == "e2e" then
      -- `prerec=1`: every ingredient assertion that names a missing manifest also records the
      -- status `ingredient.manifest.missing` for it; `ValidationResults::from_store` then drops
      -- the equal statuses logged in ingredient scope (and only those)
      let r := validate lim s root
      let prerec := field rest "prerec" == "1"
      let kept := (scopeLog lim s root).filter fun p => !(prerec && p.2 && p.1.isMissing)
      -- a rule of `verify_claim` (claim.rs, `manifest.multipleParents`) that is not a graph
      -- event: a non-update claim with more than one `parentOf` ingredient assertion is a
      -- failure; every claim in the memo map is verified once the walks return `Ok`
      let g := gcrm lim s false (fuelFor s) root {}
      let multiParents := g.2.map.any fun u =>
        match s[u]? with
        | some c => !c.update && (c.ings.filter (·.parent)).length > 1
        | none => false
      if r.out != .ok then s!"err:{r.out.str}"
      else if multiParents then "flagged"
      else if kept.all (fun p => !p.1.isFailure) then "clean" else "flagged"
    else "bad-op"
  | [] => "bad-op"

end C2pa.C19
