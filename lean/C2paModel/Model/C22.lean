import C2paModel.Base
/-
C22 — model of the working-store archive round trip (sdk/src/builder.rs `to_archive` →
`working_store_sign` → `to_claim`; `with_archive` → `Store::from_stream` + `Reader::with_store` +
`Reader::into_builder` in sdk/src/reader.rs; `Manifest::from_store` in sdk/src/manifest.rs;
`Ingredient::add_to_claim` / `Ingredient::from_ingredient_uri` / `IngredientStoreResolver` in
sdk/src/ingredient.rs; `Store::build_flat_ingredient_store`; docs/working-stores.md).

`to_archive` is *not* a serialisation of the builder record: it runs `to_claim` (which applies
the settings-driven action additions, the intent, the redactions, re-homes ingredient thumbnails
and merges the ingredients' manifest stores into the claim), adds an
`org.contentauth.archive.metadata` assertion and a box hash over the empty asset, and signs the
result as an ordinary manifest store. `with_archive` reads that store like any other one and
rebuilds a definition from the *report* (`Manifest::from_store`). The model therefore is

  toClaim : settings → builder state → claim        (shared by `encode` and `sign`)
  encode  = toClaim + archive metadata + box hash, read back (`wire`)
  decode  : archive → builder state                 (`from_store` + `into_builder`)
  sign    = maybe_add_parent + toClaim + data hash, read back, reported (`report`)

with every branch that drops or rewrites something kept: label prefixes routed by `from_store`
(`c2pa.ingredient*`, `c2pa.hash.bmff*`, `c2pa.thumbnail.claim*`, `*.metadata`), the archive
bookkeeping filter of `into_builder`, `hash_alg` / `intent` / `remote_url` / `no_embed` not
restored, `format` of a version-2 claim not carried, manifest label pinned to the archive's label,
`vendor` / `claim_version` re-derived from that label, ingredient thumbnails re-homed or declared
stale, ingredient manifest stores re-collected by the walk over ingredient assertions, validation
results carried only in the form the claim version stores.

Not modelled (see registry/C22.json): payload bytes and their CBOR/JSON encodings (opaque
strings; an actions assertion is its list of action names and template names), the JUMBF
encoding (C18), the archive's own signature, CAWG identity assertions, generator icons and other
named resources (checked on the implementation only), redaction of thumbnails / data boxes,
conflict resolution between ingredient stores that hold different manifests under one label, the
legacy ZIP reader (`old_from_archive`, exercised by two fixtures).
-/
namespace C2pa.C22

def startsWith (p l : String) : Bool := p.toList.isPrefixOf l.toList
def endsWith (p l : String) : Bool := p.toList.isSuffixOf l.toList

def infixOf (p : List Char) : List Char → Bool
  | [] => p.isEmpty
  | c :: cs => p.isPrefixOf (c :: cs) || infixOf p cs

/-! ### builder state -/

/-- settings read by `to_claim` (`builder.actions.actions`, `builder.actions.templates`); the
auto-created / auto-opened / auto-placed switches are off (their default) -/
structure Cfg where
  extraActions : List String := []
  templates : List String := []
  deriving DecidableEq, Repr

inductive Intent | create | edit | update
  deriving DecidableEq, Repr

inductive Err
  | badParam | redactionNotFound | invalidRedaction | versionTooNew | noProvenance
  deriving DecidableEq, Repr

/-- `AssertionDefinition`. An actions assertion is its action names and template names (`acts`,
`tmpls`); any other assertion is an opaque payload (`data`). -/
structure BAsn where
  label : String
  data : String
  acts : List String
  tmpls : List String
  json : Bool
  created : Bool
  deriving DecidableEq, Repr

/-- one manifest of an ingredient's manifest store: its label, claim version, whether it has a
claim thumbnail assertion, its assertion labels, and the manifests its ingredient assertions
refer to — `(true, l)` through `activeManifest` (a `c2pa.ingredient.v3` assertion), `(false, l)`
through `c2pa_manifest` (`c2pa.ingredient` / `.v2`) -/
structure Man where
  label : String
  v : Nat
  thumb : Bool
  asns : List String
  links : List (Bool × String)
  deriving DecidableEq, Repr

/-- the identifier of an ingredient's thumbnail as the builder holds it -/
inductive TRef
  /-- a resource of the builder's resource store (plain identifier) holding image `img` -/
  | res (img : String)
  /-- absolute JUMBF URI of the claim thumbnail of the ingredient's own active manifest, with
  (`Ingredient::from_stream`) or without (`from_ingredient_uri`) its hash -/
  | own (hash : Bool)
  /-- absolute JUMBF URI into an earlier archive's manifest (data box or
  `c2pa.thumbnail.ingredient` assertion) holding image `img` -/
  | outer (img : String)
  deriving DecidableEq, Repr

/-- where an ingredient assertion's `thumbnail` hashed URI points -/
inductive TLoc
  | ownClaim
  | databox (img : String)
  | ingThumb (img : String)
  deriving DecidableEq, Repr

/-- `Ingredient` as the builder carries it -/
structure Ing where
  title : String
  format : String
  rel : String
  iid : String
  /-- assertion label and instance, set when the ingredient was read from a claim -/
  label : Option (String × Nat)
  /-- `active_manifest` (assumed to name the provenance claim of `store`) -/
  active : Option String
  /-- `manifest_data`: the ingredient's manifest store (`[]` = none) -/
  store : List Man
  /-- `validation_results`: `some true` = not `Invalid` -/
  results : Option Bool
  /-- `validation_status` codes -/
  status : List String
  thumb : Option TRef
  deriving DecidableEq, Repr

/-- a manifest label: one generated by `Claim::new` (whose parts `manifest_label_to_parts`
recovers), or a caller-chosen text of another shape -/
inductive MLabel
  | gen (v1 : Bool) (vendor : Option String) (guid : String)
  | other (text : String)
  deriving DecidableEq, Repr

/-- a `ClaimGeneratorInfo` entry: its content and whether it carries `org.contentauth.c2pa_rs` -/
structure Gen where
  info : String
  marked : Bool
  deriving DecidableEq, Repr

/-- a redaction: (manifest label, assertion label) of the JUMBF URI -/
abbrev Red := String × String

/-- the part of `Builder` that `to_claim` / `sign` read -/
structure BState where
  title : Option String
  format : String
  /-- `claim_version` -/
  version : Option Nat
  label : Option MLabel
  vendor : Option String
  generators : List Gen
  /-- (format, image) -/
  thumbnail : Option (String × String)
  redactions : Option (List Red)
  ingredients : List Ing
  assertions : List BAsn
  hashAlg : Option String
  instanceId : String
  intent : Option Intent
  remoteUrl : Option String
  noEmbed : Bool
  deriving DecidableEq, Repr

def BState.v (s : BState) : Nat := s.version.getD 2

/-! ### ingredients: `Ingredient::add_to_claim` -/

def findMan (st : List Man) (l : String) : Option Man := st.find? (fun m => m.label == l)

/-- the provenance claim of the ingredient's store -/
def activeMan (i : Ing) : Option Man :=
  match i.active with
  | some a => findMan i.store a
  | none => none

def ownImg (l : String) : String := "own:" ++ l

/-- `validation_results().is_some_and(|v| v.validation_state() != Invalid)` -/
def isValid (i : Ing) : Bool := i.results == some true

/-- "use the parent claim thumbnail if validation passed" -/
def baseThumb (i : Ing) : Option TLoc :=
  match activeMan i with
  | some m => if isValid i && m.thumb then some .ownClaim else none
  | none => none

/-- a thumbnail without a hash is copied into the new claim: a data box in a version-1 claim,
a `c2pa.thumbnail.ingredient` assertion otherwise -/
def rehome (v : Nat) (img : String) : TLoc := if v < 2 then .databox img else .ingThumb img

/-- the `thumbnail` of the ingredient assertion. A JUMBF reference that does not name the
ingredient's own active manifest, on an ingredient that has manifest data, is "stale" and
dropped in favour of the claim thumbnail of the ingredient's manifest. -/
def thumbLoc (v : Nat) (i : Ing) : Option TLoc :=
  match i.thumb with
  | none => baseThumb i
  | some (.res img) => some (rehome v img)
  | some (.own true) => some .ownClaim
  | some (.own false) => some (rehome v (ownImg (i.active.getD "")))
  | some (.outer img) => if i.store.isEmpty then some (rehome v img) else baseThumb i

/-- an ingredient assertion as written into a claim -/
structure IngA where
  title : String
  format : String
  rel : String
  iid : String
  active : Option String
  results : Option Bool
  status : List String
  thumb : Option TLoc
  deriving DecidableEq, Repr

/-- a version-1 claim writes a `c2pa.ingredient.v2` assertion (with `validation_status`), a
version-2 claim a `.v3` one (with `validation_results`) -/
def ingAssertion (v : Nat) (i : Ing) : IngA :=
  { title := i.title, format := i.format, rel := i.rel, iid := i.iid
    active := (activeMan i).map (·.label)
    results := if v ≥ 2 then i.results else none
    status := if v ≥ 2 then [] else i.status
    thumb := thumbLoc v i }

/-- `Claim::redact_assertion` on one manifest -/
def redactMan (m : Man) (a : String) : Except Err Man :=
  if startsWith "c2pa.actions" a || startsWith "c2pa.hash." a then .error .invalidRedaction
  else if m.asns.contains a then .ok { m with asns := m.asns.erase a }
  else .error .redactionNotFound

def redactFirst (l a : String) : List Man → Except Err (List Man)
  | [] => .ok []
  | m :: ms =>
    if m.label == l then do
      let m' ← redactMan m a
      .ok (m' :: ms)
    else do
      let ms' ← redactFirst l a ms
      .ok (m :: ms')

/-- `Claim::add_ingredient_data`: every requested redaction that names a manifest of this batch
is applied to it (and recorded); the others wait for their ingredient -/
def applyReds : List Red → List Man → Except Err (List Man × List Red)
  | [], st => .ok (st, [])
  | r :: rs, st =>
    if st.any (fun m => m.label == r.1) then do
      let st' ← redactFirst r.1 r.2 st
      let (st'', ap) ← applyReds rs st'
      .ok (st'', r :: ap)
    else applyReds rs st

/-- conflict handling of `load_ingredient_to_claim` (version ≥ 2 claims), as far as modelled: an
incoming manifest whose label the claim already holds in a different form — different because
the claim's own redactions were applied to it — is not brought in again ("if redactions were
only in the claim we can skip bringing the ingredient"). Manifests that differ otherwise are
re-labelled by the code; that branch is not modelled (`WF.consistent` excludes it). -/
def dropConflicts (v : Nat) (reds : List Red) (ms incoming : List Man) : List Man :=
  if v ≥ 2 && !reds.isEmpty then
    incoming.filter (fun m => !(ms.any (fun x => x.label == m.label && x != m)))
  else incoming

/-- `Store::load_ingredient_to_claim`; `ms` are the manifests the claim already holds -/
def loadIngredient (v : Nat) (reds : List Red) (ms : List Man) (i : Ing) :
    Except Err (List Man × List Red) :=
  if i.store.isEmpty then .ok ([], [])
  else match activeMan i with
    | none => .error .noProvenance
    | some m => if v < m.v then .error .versionTooNew else applyReds reds (dropConflicts v reds ms i.store)

/-- `Claim::replace_ingredient_or_insert` -/
def upsert (ms : List Man) (m : Man) : List Man :=
  if ms.any (fun x => x.label == m.label) then ms.map (fun x => if x.label == m.label then m else x)
  else ms ++ [m]

def addIngredients (v : Nat) (reds : List Red) :
    List Ing → List Man → List Red → Except Err (List IngA × List Man × List Red)
  | [], ms, ap => .ok ([], ms, ap)
  | i :: is, ms, ap =>
    match loadIngredient v reds ms i with
    | .error e => .error e
    | .ok (st, ap') =>
      match addIngredients v reds is (st.foldl upsert ms) (ap ++ ap') with
      | .error e => .error e
      | .ok (as, ms', ap'') => .ok (ingAssertion v i :: as, ms', ap'')

/-! ### assertions: settings, intent, labels, numbering -/

def isActions (l : String) : Bool := startsWith "c2pa.actions" l

def isInception (a : String) : Bool := a == "c2pa.created" || a == "c2pa.opened"

/-- `add_actions_assertion_settings` on one actions assertion -/
def actionsSettings (cfg : Cfg) (intent : Option Intent) (hasParent allow : Bool)
    (acts tmpls : List String) : Except Err (List String × List String) :=
  let tmpls' := tmpls ++ cfg.templates
  let acts' := acts ++ cfg.extraActions
  if !allow && acts'.any isInception then .error .badParam
  else if allow && !acts'.any isInception then
    match intent with
    | some .create => if hasParent then .error .badParam else .ok ("c2pa.created" :: acts', tmpls')
    | some _ => if hasParent then .ok ("c2pa.opened" :: acts', tmpls') else .error .badParam
    | none => .ok (acts', tmpls')
  else .ok (acts', tmpls')

def rewriteAsns (cfg : Cfg) (intent : Option Intent) (hasParent : Bool) :
    List BAsn → Bool → Except Err (List BAsn)
  | [], _ => .ok []
  | a :: as, allow =>
    if isActions a.label then
      match actionsSettings cfg intent hasParent allow a.acts a.tmpls with
      | .error e => .error e
      | .ok (acts, tmpls) =>
        match rewriteAsns cfg intent hasParent as false with
        | .error e => .error e
        | .ok rest => .ok ({ a with acts := acts, tmpls := tmpls } :: rest)
    else
      match rewriteAsns cfg intent hasParent as allow with
      | .error e => .error e
      | .ok rest => .ok (a :: rest)

/-- the assertion loop of `to_claim` as far as the payloads go, including the `!found_actions`
branch that adds an actions assertion of its own -/
def prepAsns (cfg : Cfg) (intent : Option Intent) (hasParent : Bool) (as : List BAsn) :
    Except Err (List BAsn) :=
  match rewriteAsns cfg intent hasParent as true with
  | .error e => .error e
  | .ok as' =>
    if as.any (fun a => isActions a.label) then .ok as'
    else match actionsSettings cfg intent hasParent true [] [] with
      | .error e => .error e
      | .ok (acts, tmpls) =>
        if acts.isEmpty then .ok as'
        else .ok (as' ++ [⟨"c2pa.actions", "", acts, tmpls, false, acts.any isInception⟩])

/-- the typed `Actions` assertion is written under `c2pa.actions.v2` -/
def normLabel (l : String) : String := if isActions l then "c2pa.actions.v2" else l

def isHardBinding (l : String) : Bool :=
  l == "c2pa.hash.data" || l == "c2pa.hash.bmff" || l == "c2pa.hash.boxes" || startsWith "c2pa.hash.bmff" l

/-- labels `to_claim` always adds as gathered (`claim.add_assertion`), whatever the flag -/
def alwaysGathered (l : String) : Bool :=
  l == "stds.schema-org.CreativeWork" || l == "c2pa.hash.data" || l == "c2pa.hash.boxes" || l == "c2pa.hash.bmff"

/-- the typed paths re-encode the payload in their own form -/
def typedKind (l : String) (json : Bool) : Bool :=
  if isActions l then false
  else if l == "stds.schema-org.CreativeWork" || l == "stds.exif" || l == "c2pa.metadata" then true
  else json

/-- what `to_claim` makes of one assertion definition in a version-`v` claim -/
def norm (v : Nat) (a : BAsn) : BAsn :=
  { a with label := normLabel a.label
           json := typedKind a.label a.json
           created := a.created && decide (v ≥ 2) && !alwaysGathered (normLabel a.label) }

/-- `Claim::next_instance`: one more than the largest instance among stored assertions whose
label *contains* the new label -/
def instOf (store : List (String × Nat)) (label : String) : Nat :=
  match (store.filter fun x => infixOf label.toList x.1.toList).map (·.2) with
  | [] => 0
  | i :: is => (is.foldl max i) + 1

/-- what the active claim holds -/
inductive Entry
  | thumb (fmt img : String)
  | ingredient (i : IngA) (inst : Nat)
  | user (a : BAsn) (inst : Nat)
  | archiveMeta
  | boxHash
  | dataHash
  deriving DecidableEq, Repr

/-- the (already normalised) user assertions numbered in the order `to_claim` adds them -/
def numberAsns : List BAsn → List (String × Nat) → List Entry
  | [], _ => []
  | a :: as, seen =>
    let i := instOf seen a.label
    .user a i :: numberAsns as (seen ++ [(a.label, i)])

def entryCreated : Entry → Bool
  | .user a _ => a.created
  | .archiveMeta => true
  | _ => false

/-- the order in which a claim read back from its CBOR lists its assertions: a version ≥ 2 claim
has a `created_assertions` and a `gathered_assertions` list, read back in that order -/
def claimOrder (v : Nat) (es : List Entry) : List Entry :=
  if v ≥ 2 then es.filter entryCreated ++ es.filter (fun e => !entryCreated e) else es

/-! ### `to_claim` -/

/-- `claim_generator_info[0].insert("org.contentauth.c2pa_rs", version)`; an empty list gets
the default entry first -/
def markGens : List Gen → List Gen
  | [] => [⟨"default", true⟩]
  | g :: gs => { g with marked := true } :: gs

/-- the label the claim gets: the caller's label, or a fresh generated one -/
def claimLabel (s : BState) (guid : String) : MLabel :=
  match s.label with
  | some l => l
  | none => .gen (s.v == 1) s.vendor guid

structure Claim where
  label : MLabel
  version : Nat
  title : Option String
  /-- `dc:format`, only in a version-1 claim once written -/
  format : Option String
  instanceId : String
  generators : List Gen
  /-- the redactions that were applied -/
  redactions : List Red
  alg : Option String
  entries : List Entry
  /-- the ingredients' manifests -/
  manifests : List Man
  /-- in-memory only (`RemoteManifest`): not part of the serialised store -/
  remote : Option String
  embedded : Bool
  update : Bool
  deriving DecidableEq, Repr

def ingLabel (v : Nat) : String := if v ≥ 2 then "c2pa.ingredient.v3" else "c2pa.ingredient.v2"

def numberIngs : List IngA → Nat → List Entry
  | [], _ => []
  | i :: is, k => .ingredient i k :: numberIngs is (k + 1)

def hasParent (s : BState) : Bool := s.ingredients.any (fun i => i.rel == "parentOf")

/-- `Builder::to_claim` -/
def toClaim (cfg : Cfg) (s : BState) (guid : String) : Except Err Claim :=
  match addIngredients s.v (s.redactions.getD []) s.ingredients [] [] with
  | .error e => .error e
  | .ok (ings, mans, applied) =>
  if (s.redactions.getD []).any (fun r => !applied.contains r) then .error .redactionNotFound
  else match prepAsns cfg s.intent (hasParent s) s.assertions with
  | .error e => .error e
  | .ok as =>
  .ok
    { label := claimLabel s guid
      version := s.v
      title := s.title
      format := some s.format
      instanceId := s.instanceId
      generators := markGens s.generators
      redactions := applied
      alg := s.hashAlg
      entries :=
        (match s.thumbnail with
          | some (f, b) => if f == "none" then [] else [Entry.thumb f b]
          | none => []) ++
        numberIngs ings 0 ++ numberAsns (as.map (norm s.v)) []
      manifests := mans
      remote := s.remoteUrl
      embedded := !s.noEmbed
      update := s.intent == some .update }

/-- serialisation + parsing of the claim: a version ≥ 2 claim has no `dc:format`, its assertion
list is the created list followed by the gathered list; where the manifest is to live is not
part of the store -/
def wire (c : Claim) : Claim :=
  { c with format := if c.version ≥ 2 then none else c.format
           entries := claimOrder c.version c.entries }

/-! ### `to_archive` / `with_archive` -/

/-- `working_store_sign(ArchiveKind::Builder)`: `to_claim`, archive metadata (a created
assertion), box hash; the store is written and read back. `remote_url` / `no_embed` / the update
flag steer `Builder::sign` only: an archive does not record them. -/
def sealArchive (c : Claim) : Claim :=
  wire { c with entries := c.entries ++ [Entry.archiveMeta, Entry.boxHash]
                remote := none, embedded := true, update := false }

def encode (cfg : Cfg) (s : BState) (guid : String) : Except Err Claim :=
  (toClaim cfg s guid).map sealArchive

def archiveMetaLabel : String := "org.contentauth.archive.metadata"

/-- the arms of `Manifest::from_store`, in source order, on the label without instance -/
inductive Part | actions | ingredient | hidden | thumbnail | metadata | assertion
  deriving DecidableEq, Repr

def classify (l : String) : Part :=
  if startsWith "c2pa.actions" l then .actions
  else if startsWith "c2pa.ingredient" l then .ingredient
  else if isHardBinding l then .hidden
  else if startsWith "c2pa.thumbnail.claim" l then .thumbnail
  else if l == "c2pa.assertion.metadata" then .assertion
  else if endsWith ".metadata" l then .metadata
  else .assertion

/-- a user assertion comes back as an assertion of the definition (`from_store` pushes it to
`manifest.assertions`, `into_builder` does not skip it) -/
def keptLabel (l : String) : Bool :=
  (classify l == .actions || classify l == .metadata || classify l == .assertion) &&
    !startsWith archiveMetaLabel l

/-- a user assertion is listed among the reported assertions (`from_store` alone: the archive
bookkeeping filter belongs to `into_builder`) -/
def shownLabel (l : String) : Bool :=
  classify l == .actions || classify l == .metadata || classify l == .assertion

/-- the kind `from_store` reports: `*.metadata` is forced to JSON -/
def reportKind (l : String) (json : Bool) : Bool := if classify l == .metadata then true else json

/-- the user assertions as `from_store` + `into_builder` return them. (A user assertion routed
to the ingredient / thumbnail arms makes `from_store` parse it as such: the harness shows that
signing such a definition already yields an invalid manifest; here it is dropped.) -/
def decodeEntries : List Entry → List BAsn
  | [] => []
  | .user a _ :: es =>
    if keptLabel a.label then { a with json := reportKind a.label a.json } :: decodeEntries es
    else decodeEntries es
  | _ :: es => decodeEntries es

def entryThumb : List Entry → Option (String × String)
  | [] => none
  | .thumb f b :: _ => some (f, b)
  | _ :: es => entryThumb es

/-- `Store::build_flat_ingredient_store`: the walk over ingredient assertions from one manifest,
children first; `fuel` bounds the depth (the code keeps a path and a visited set) -/
def collect (st : List Man) : Nat → List String → List Man → List Man
  | 0, _, acc => acc
  | fuel + 1, ls, acc =>
    ls.foldl (fun acc l =>
      if acc.any (fun m => m.label == l) then acc
      else match findMan st l with
        | none => acc
        | some m =>
          let acc' := collect st fuel (m.links.map (·.2)) acc
          if acc'.any (fun x => x.label == l) then acc' else acc' ++ [m]) acc

def flatStore (st : List Man) (a : String) : List Man := collect st (st.length + 1) [a] []

/-- `Ingredient::from_ingredient_uri` + `set_store_resolver` -/
def decodeIng (v : Nat) (mans : List Man) (i : IngA) (inst : Nat) : Ing :=
  { title := i.title, format := i.format, rel := i.rel, iid := i.iid
    label := some (ingLabel v, inst)
    active := i.active
    store := match i.active with | some a => flatStore mans a | none => []
    results := i.results
    status := i.status
    thumb := match i.thumb with
      | none => none
      | some .ownClaim => some (.own false)
      | some (.databox img) => some (.outer img)
      | some (.ingThumb img) => some (.outer img) }

def entryIngs (v : Nat) (mans : List Man) : List Entry → List Ing
  | [] => []
  | .ingredient i k :: es => decodeIng v mans i k :: entryIngs v mans es
  | _ :: es => entryIngs v mans es

/-- `Reader::into_builder` on the archive's active manifest -/
def decode (a : Claim) : BState :=
  { title := a.title
    format := a.format.getD ""
    version := match a.label with | .gen true _ _ => some 1 | _ => none
    label := some a.label
    vendor := match a.label with | .gen _ v _ => v | .other _ => none
    generators := a.generators
    thumbnail := entryThumb a.entries
    redactions := if a.redactions.isEmpty then none else some a.redactions
    ingredients := entryIngs a.version a.manifests a.entries
    assertions := decodeEntries a.entries
    hashAlg := none
    instanceId := a.instanceId
    intent := none
    remoteUrl := none
    noEmbed := false }

/-! ### `Builder::sign` and what the `Reader` reports of the result -/

/-- `maybe_add_parent`: an Edit / Update intent without a parent ingredient (and without an
inception action of its own) takes the source asset as parent (`src`) -/
def maybeAddParent (src : Ing) (s : BState) : BState :=
  let hasInception := s.assertions.any (fun a => isActions a.label && a.acts.any isInception)
  if (s.intent == some .edit || s.intent == some .update) && !hasInception && !hasParent s then
    { s with ingredients := s.ingredients ++ [{ src with rel := "parentOf" }] }
  else s

/-- the signed claim, read back -/
def bindData (c : Claim) : Claim := wire { c with entries := c.entries ++ [Entry.dataHash] }

def sign (cfg : Cfg) (src : Ing) (s : BState) (guid : String) : Except Err Claim :=
  (toClaim cfg (maybeAddParent src s) guid).map bindData

/-- an ingredient as reported -/
structure IngR where
  title : String
  format : String
  rel : String
  iid : String
  label : String × Nat
  active : Option String
  results : Option Bool
  status : List String
  /-- the image the reported thumbnail identifier resolves to -/
  thumb : Option String
  deriving DecidableEq, Repr

def locImg (active : Option String) : TLoc → String
  | .ownClaim => ownImg (active.getD "")
  | .databox img => img
  | .ingThumb img => img

structure Report where
  title : Option String
  version : Nat
  generators : List Gen
  thumbnail : Option (String × String)
  redactions : List Red
  ingredients : List IngR
  /-- label, instance, payload, kind, created — in claim order -/
  assertions : List (BAsn × Nat)
  /-- the other manifests of the store -/
  manifests : List Man
  alg : Option String
  remote : Option String
  embedded : Bool
  update : Bool
  deriving DecidableEq, Repr

def reportIngs (v : Nat) : List Entry → List IngR
  | [] => []
  | .ingredient i k :: es =>
    { title := i.title, format := i.format, rel := i.rel, iid := i.iid, label := (ingLabel v, k)
      active := i.active, results := i.results, status := i.status
      thumb := i.thumb.map (locImg i.active) } :: reportIngs v es
  | _ :: es => reportIngs v es

def reportAsns : List Entry → List (BAsn × Nat)
  | [] => []
  | .user a k :: es =>
    if shownLabel a.label then ({ a with json := reportKind a.label a.json }, k) :: reportAsns es
    else reportAsns es
  | _ :: es => reportAsns es

/-- `Manifest::from_store` on a signed claim -/
def report (c : Claim) : Report :=
  { title := c.title, version := c.version, generators := c.generators
    thumbnail := entryThumb c.entries, redactions := c.redactions
    ingredients := reportIngs c.version c.entries
    assertions := reportAsns c.entries
    manifests := c.manifests, alg := c.alg, remote := c.remote, embedded := c.embedded
    update := c.update }

/-- save/restore chain with the given fresh guids -/
def chain (cfg : Cfg) : List String → BState → Except Err BState
  | [], s => .ok s
  | g :: gs, s =>
    match encode cfg s g with
    | .error e => .error e
    | .ok a => chain cfg gs (decode a)

/-! ### line protocol

The harness abstracts a real `Builder` (its serialised definition plus the ingredients'
materialised manifest stores) into a state line, the same way before and after the round trips:

  v= title= thumb= gens= alg= intent= noembed= remote= label= red= asn= ing= xa= xt=

* `asn` — `,`-separated `label:kind:created:acts:ntmpl` (`acts` `+`-separated or `-`)
* `ing` — `;`-separated `rel/thumb/results/nstatus/active/label/store`; `store` is `+`-separated
  manifests `name!version!thumb!links!asns` (`links` `~`-separated `a<name>` / `c<name>`)
* `red` — `,`-separated `manifest!assertion`
-/

def optList (s : String) (sep : String) : List String :=
  if s == "-" || s.isEmpty then [] else s.splitOn sep

def parseAsn (t : String) : BAsn :=
  match t.splitOn ":" with
  | [l, k, c, acts, nt] =>
    ⟨l, "", optList acts "+", List.replicate (nt.toNat?.getD 0) "t", k == "j", c == "c"⟩
  | _ => ⟨t, "", [], [], false, false⟩

def asnStr (a : BAsn) : String :=
  a.label ++ ":" ++ (if a.json then "j" else "c") ++ ":" ++ (if a.created then "c" else "g") ++ ":" ++
    (if a.acts.isEmpty then "-" else "+".intercalate a.acts) ++ ":" ++ toString a.tmpls.length

def parseLink (t : String) : Bool × String := (t.startsWith "a", (t.drop 1).toString)

def parseMan (t : String) : Man :=
  match t.splitOn "!" with
  | [n, v, th, links, asns] =>
    ⟨n, v.toNat?.getD 1, th == "1", optList asns "~", (optList links "~").map parseLink⟩
  | _ => ⟨t, 1, false, [], []⟩

def linkStr (l : Bool × String) : String := (if l.1 then "a" else "c") ++ l.2

def manStr (m : Man) : String :=
  m.label ++ "!" ++ toString m.v ++ "!" ++ (if m.thumb then "1" else "0") ++ "!" ++
    (if m.links.isEmpty then "-" else "~".intercalate (m.links.map linkStr)) ++ "!" ++
    (if m.asns.isEmpty then "-" else "~".intercalate m.asns)

def parseThumb (t : String) : Option TRef :=
  if t == "-" then none
  else if t == "ownh" then some (.own true)
  else if t == "own" then some (.own false)
  else if t.startsWith "outer" then some (.outer ((t.drop 6).toString))
  else some (.res ((t.drop 4).toString))

def thumbStr : Option TRef → String
  | none => "-"
  | some (.own true) => "ownh"
  | some (.own false) => "own"
  | some (.outer _) => "outer"
  | some (.res _) => "res"

def parseIng (k : Nat) (t : String) : Ing :=
  match t.splitOn "/" with
  | [rel, th, res, nst, act, lab, store] =>
    { title := s!"t{k}", format := "f", rel := rel, iid := s!"i{k}"
      label := if lab == "-" then none else
        match lab.splitOn "#" with
        | [l, n] => some (l, n.toNat?.getD 0)
        | _ => some (lab, 0)
      active := if act == "-" then none else some act
      store := (optList store "+").map parseMan
      results := if res == "v" then some true else if res == "i" then some false else none
      status := List.replicate (nst.toNat?.getD 0) "s"
      thumb := parseThumb th }
  | _ => ⟨t, "f", "componentOf", "i", none, none, [], none, [], none⟩

def parseIngs : List String → Nat → List Ing
  | [], _ => []
  | t :: ts, k => parseIng k t :: parseIngs ts (k + 1)

/-- manifests are printed sorted by name (the harness sorts too): insertion sort -/
def insertMan (m : Man) : List Man → List Man
  | [] => [m]
  | x :: xs => if m.label < x.label then m :: x :: xs else x :: insertMan m xs

def sortMans (ms : List Man) : List Man := ms.foldl (fun acc m => insertMan m acc) []

def ingStr (i : Ing) : String :=
  i.rel ++ "/" ++ thumbStr i.thumb ++ "/" ++
    (match i.results with | some true => "v" | some false => "i" | none => "-") ++ "/" ++
    toString i.status.length ++ "/" ++ i.active.getD "-" ++ "/" ++
    (match i.label with | some (l, n) => l ++ "#" ++ toString n | none => "-") ++ "/" ++
    (if i.store.isEmpty then "-" else "+".intercalate ((sortMans i.store).map manStr))

def parseRed (t : String) : Red :=
  match t.splitOn "!" with
  | [m, a] => (m, a)
  | _ => (t, "")

def parseIntent (t : String) : Option Intent :=
  if t == "create" then some .create else if t == "edit" then some .edit
  else if t == "update" then some .update else none

def intentStr : Option Intent → String
  | some .create => "create" | some .edit => "edit" | some .update => "update" | none => "-"

def parseState (toks : List String) : BState :=
  let v := (field toks "v").toNat?.getD 2
  let gens := match (field toks "gens").splitOn "." with
    | [n, m] => (List.range (n.toNat?.getD 0)).map fun k => (⟨s!"g{k}", k == 0 && m == "1"⟩ : Gen)
    | _ => []
  { title := if field toks "title" == "1" then some "t" else none
    format := "f"
    version := if field toks "vset" == "0" then none else some v
    label := if field toks "label" == "1" then some (.gen (v == 1) none "user") else none
    vendor := none
    generators := gens
    thumbnail := if field toks "thumb" == "-" then none else some (field toks "thumb", "claimthumb")
    redactions := if field toks "red" == "-" then none else some ((optList (field toks "red") ",").map parseRed)
    ingredients := parseIngs (optList (field toks "ing") ";") 0
    assertions := (optList (field toks "asn") ",").map parseAsn
    hashAlg := if field toks "alg" == "-" then none else some (field toks "alg")
    instanceId := "i"
    intent := parseIntent (field toks "intent")
    remoteUrl := if field toks "remote" == "1" then some "r" else none
    noEmbed := field toks "noembed" == "1" }

def stateStr (s : BState) : String :=
  let asn := s.assertions.map asnStr
  let ing := s.ingredients.map ingStr
  let red := (s.redactions.getD []).map fun r => r.1 ++ "!" ++ r.2
  s!"v={s.v} title={if s.title.isSome then 1 else 0} thumb={match s.thumbnail with | some (f, _) => f | none => "-"} " ++
  s!"gens={s.generators.length}.{if (s.generators.head?.map (·.marked)).getD false then 1 else 0} " ++
  s!"alg={s.hashAlg.getD "-"} intent={intentStr s.intent} noembed={if s.noEmbed then 1 else 0} " ++
  s!"remote={if s.remoteUrl.isSome then 1 else 0} label={if s.label.isSome then 1 else 0} " ++
  s!"red={if s.redactions.isNone then "-" else if red.isEmpty then "none" else ",".intercalate red} " ++
  s!"asn={if asn.isEmpty then "-" else ",".intercalate asn} ing={if ing.isEmpty then "-" else ";".intercalate ing}"

def Err.str : Err → String
  | .badParam => "badparam" | .redactionNotFound => "redactionnotfound"
  | .invalidRedaction => "invalidredaction" | .versionTooNew => "versiontoonew"
  | .noProvenance => "noprovenance"

def repIngStr (i : IngR) : String :=
  i.rel ++ "/" ++ i.label.1 ++ "#" ++ toString i.label.2 ++ "/" ++ i.active.getD "-" ++ "/" ++
    (match i.results with | some true => "v" | some false => "i" | none => "-") ++ "/" ++
    toString i.status.length ++ "/" ++
    (match i.thumb with
      | none => "-"
      | some img => if img == ownImg (i.active.getD "") then "own" else "img")

def reportStr (r : Report) : String :=
  let asn := r.assertions.map fun (a, k) => asnStr a ++ "#" ++ toString k
  let ing := r.ingredients.map repIngStr
  let red := r.redactions.map fun x => x.1 ++ "!" ++ x.2
  s!"v={r.version} title={if r.title.isSome then 1 else 0} thumb={match r.thumbnail with | some (f, _) => f | none => "-"} " ++
  s!"gens={r.generators.length}.{if (r.generators.head?.map (·.marked)).getD false then 1 else 0} " ++
  s!"embedded={if r.embedded then 1 else 0} remote={if r.remote.isSome then 1 else 0} " ++
  s!"red={if red.isEmpty then "-" else ",".intercalate red} " ++
  s!"asn={if asn.isEmpty then "-" else ",".intercalate asn} ing={if ing.isEmpty then "-" else ";".intercalate ing} " ++
  s!"mans={if r.manifests.isEmpty then "-" else "+".intercalate ((sortMans r.manifests).map manStr)}"

/-- the source asset taken as parent by `maybe_add_parent` (an unsigned asset) -/
def srcIng : Ing := ⟨"src", "f", "parentOf", "isrc", none, none, [], none, [], none⟩

def handle (toks : List String) : String :=
  match toks with
  | op :: rest =>
    let n := (field rest "n").toNat?.getD 1
    let cfg : Cfg :=
      { extraActions := optList (field rest "xa") "+"
        templates := List.replicate ((field rest "xt").toNat?.getD 0) "t" }
    let s := parseState rest
    match chain cfg (List.replicate n "guid") s with
    | .error e => "err:" ++ e.str
    | .ok r =>
      if op == "chain" then stateStr r
      else if op == "sign" then
        match sign cfg srcIng r "guid" with
        | .error e => "signerr:" ++ e.str
        | .ok c => reportStr (report c)
      else "bad-op"
  | _ => "bad-op"

end C2pa.C22
