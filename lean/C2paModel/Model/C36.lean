import C2paModel.Base
import C2paModel.Model.C04
/-
C36 — model of the time-stamp decision logic:

* `verify_time_stamp` (sdk/src/crypto/time_stamp/verify.rs): per-`SignerInfo` loop, order of the
  checks, status codes logged, which error is returned, which time is returned;
* `validate_cose_tst_info` / `parse_and_validate_sigtst` (sdk/src/crypto/cose/sigtst.rs): which
  header is used, which bytes the token must cover, the single-token rule;
* `verify_cose` (sdk/src/cose_validator.rs): external time-stamp (time-stamp assertion) vs header;
* the validity branch of `check_certificate_profile` (certificate_profile.rs) and
  `Verifier::verify_signature`/`verify_trust` (verifier.rs), `Claim::verify_internal` (claim.rs):
  codes logged for the signing credential and the claim signature; the state is C04's.

ASN.1/CMS/X.509 parsing, hashing and signature verification are *facts* supplied with the input
(oracles). Digests are idealised: a token's imprint is identified with the message it was computed
over (`Msg`), i.e. equal digests iff equal messages. Times are unix seconds as `Int`
(no i64 saturation).
-/
namespace C2pa.C36

open C2pa.C04 (Code Kind)

/-- Which bytes a digest was computed over. -/
inductive Data
  | payload   -- the claim bytes (COSE payload)
  | sigCbor   -- CBOR byte-string encoding of the COSE signature (sigTst2)
  | sigRaw    -- the raw COSE signature bytes (time-stamp assertion)
  | other (n : Nat)
  deriving DecidableEq, Repr

/-- `countersign = true`: wrapped by `cose_countersign_data(data, protected_header)`. -/
structure Msg where
  countersign : Bool
  data : Data
  deriving DecidableEq, Repr

/-- State of the signed `messageDigest` attribute of a `SignerInfo`. -/
inductive MdAttr
  | absent
  | multi
  | undecodable
  | value (matchesContent : Bool)
  deriving DecidableEq, Repr

/-- Facts about one CMS `SignerInfo` (and the certificate its `sid` selects). -/
structure SInfo where
  certFound : Bool        -- `sid` matches one of the embedded certificates
  tstOk : Bool            -- `tst_info_from_signed_data` yields a TSTInfo
  genTime : Int           -- TSTInfo.genTime
  signedAttrs : Bool      -- SignerInfo has signed attributes
  attrTime : Option Int   -- signed `signingTime` attribute (single, decodable, representable)
  md : MdAttr
  digestAlgKnown : Bool   -- SignerInfo.digestAlgorithm is SHA-1/256/384/512
  hasContent : Bool       -- encapContentInfo.eContent present
  encodable : Bool        -- signed attributes / OIDs / SPKI re-encode
  sigOk : Bool            -- CMS signature verifies under the selected certificate's key
  sigAlgSupported : Bool := true
                          -- `validator_for_sig_and_hash_algs(key algorithm, digestAlgorithm)` is `Some`
  notBefore : Int
  notAfter : Int
  margin : Int            -- `tst_accuracy_seconds`
  imprintAlgKnown : Bool  -- messageImprint.hashAlgorithm is SHA-1/256/384/512
  imprint : Msg           -- message the imprint digest was computed over (ideal hash)
  chainParses : Bool      -- every embedded certificate parses (`order_certificates_leaf_to_root`)
  profileOk : Bool        -- `check_end_entity_certificate_profile` (EKU = timeStamping) ok
  profileLog : List Code  -- failure codes that check logged when it failed
  trusted : Bool          -- `check_certificate_trust` at the signing time ok
  deriving DecidableEq, Repr

inductive Token
  | unparsable            -- no SignedData found
  | noCerts               -- SignedData.certificates absent
  | badCerts              -- a certificate choice that is not a plain certificate
  | parsed (signers : List SInfo)
  deriving DecidableEq, Repr

inductive Err
  | decode | invalidData | untrusted | expiredCertificate | unsupportedAlgorithm
  deriving DecidableEq, Repr

abbrev Entry := Code × Kind

def cValidated : Code := "timeStamp.validated".toList
def cTsTrusted : Code := "timeStamp.trusted".toList
def cMismatch : Code := "timeStamp.mismatch".toList
def cMalformed : Code := "timeStamp.malformed".toList
def cOutside : Code := "timeStamp.outsideValidity".toList
def cTsUntrusted : Code := "timeStamp.untrusted".toList
def cExpired : Code := "signingCredential.expired".toList
def cCredInvalid : Code := "signingCredential.invalid".toList
def cSigMismatch : Code := "claimSignature.mismatch".toList

def info (c : Code) : Entry := (c, .informational)
def succ (c : Code) : Entry := (c, .success)
def failE (c : Code) : Entry := (c, .failure)

/-- Outcome of the loop body for one `SignerInfo`. -/
inductive Step
  | fail (e : Err) (log : List Entry) -- `last_err = e; continue`
  | ok (t : Int) (log : List Entry)
  deriving DecidableEq, Repr

/-- The time checked against the TSA certificate and returned in `TstInfo.gen_time`. -/
def effTime (s : SInfo) : Int :=
  if s.signedAttrs then (match s.attrTime with | some t => t | none => s.genTime) else s.genTime

def withinValidity (s : SInfo) : Bool :=
  decide (effTime s ≥ s.notBefore - s.margin) && decide (effTime s ≤ s.notAfter + s.margin)

/-- The signed-attribute block (only entered when signed attributes are present). -/
def attrCheck (s : SInfo) : Option Step :=
  if s.signedAttrs then
    match s.md with
    | .absent => some (.fail .decode [info cMalformed])
    | .multi => some (.fail .decode [info cMalformed])
    | .undecodable => some (.fail .decode [info cMalformed])
    | .value m =>
      if !s.digestAlgKnown then some (.fail .decode [info cMalformed])
      else if !m then some (.fail .invalidData [info cMismatch])
      else none
  else none

/-- Trust part (only with `verify_trust`). `pre` is the log so far (`timeStamp.validated`). -/
def trustCheck (s : SInfo) (pre : List Entry) : Option Step :=
  if !s.chainParses then some (.fail .untrusted (pre ++ [info cTsUntrusted]))
  else if !s.profileOk then
    some (.fail .untrusted (pre ++ s.profileLog.map failE ++ [info cTsUntrusted]))
  else if !s.trusted then some (.fail .untrusted (pre ++ [info cTsUntrusted]))
  else none

/-- `validate_timestamp_sig(..).is_ok()`: a validator exists for the (key algorithm, digest
algorithm) pair **and** it accepts the signature; `Err(UnsupportedAlgorithm)` (no validator) and
`Err(InvalidData)` (signature mismatch) are both rejections. -/
def sigVerified (s : SInfo) : Bool := s.sigAlgSupported && s.sigOk

/-- One iteration of the `for signer_info in …` loop of `verify_time_stamp`. -/
def step (data : Msg) (verifyTrust : Bool) (s : SInfo) : Step :=
  if !s.certFound then .fail .untrusted [info cTsUntrusted]
  else if !s.tstOk then .fail .invalidData [info cMalformed]
  else match attrCheck s with
  | some r => r
  | none =>
    if !s.encodable then .fail .decode [info cMalformed]
    else if !s.signedAttrs && !s.hasContent then .fail .decode [info cMalformed]
    else if !sigVerified s then .fail .untrusted [info cTsUntrusted]
    else if !withinValidity s then .fail .expiredCertificate [info cOutside]
    else if !s.imprintAlgKnown then .fail .unsupportedAlgorithm [info cTsUntrusted]
    else if s.imprint != data then .fail .invalidData [info cMismatch]
    else
      let pre := [succ cValidated]
      match (if verifyTrust then trustCheck s pre else none) with
      | some r => r
      | none => .ok (effTime s) (pre ++ [succ cTsTrusted])

structure Outcome where
  result : Except Err Int
  log : List Entry

instance : DecidableEq (Except Err Int) := fun a b =>
  match a, b with
  | .ok x, .ok y => if h : x = y then isTrue (by rw [h]) else isFalse (by intro h'; cases h'; exact h rfl)
  | .error x, .error y => if h : x = y then isTrue (by rw [h]) else isFalse (by intro h'; cases h'; exact h rfl)
  | .ok _, .error _ => isFalse (by intro h; cases h)
  | .error _, .ok _ => isFalse (by intro h; cases h)

/-- The loop: `lastErr` and the per-signer log `cur` (reset at every iteration). -/
def loop (data : Msg) (vt : Bool) : List SInfo → Err → List Entry → Outcome
  | [], lastErr, cur => ⟨.error lastErr, cur⟩
  | s :: rest, _lastErr, _cur =>
    match step data vt s with
    | .fail e l => loop data vt rest e l
    | .ok t l => ⟨.ok t, l⟩

/-- `verify_time_stamp(ts, data, ctp, log, verify_trust)`: result and the entries appended to the log. -/
def verifyTimeStamp (tok : Token) (data : Msg) (vt : Bool) : Outcome :=
  match tok with
  | .unparsable => ⟨.error .decode, [info cMalformed]⟩
  | .noCerts => ⟨.error .decode, [info cTsUntrusted]⟩
  | .badCerts => ⟨.error .decode, [info cTsUntrusted]⟩
  | .parsed [] => ⟨.error .invalidData, [info cMalformed]⟩
  | .parsed ss => loop data vt ss .invalidData []

/-! ### COSE header level -/

inductive Container
  | unparsable                 -- header value is not a `tstTokens` container
  | toks (l : List Token)
  deriving DecidableEq, Repr

inductive Header
  | absent
  | present (v2 : Bool) (c : Container)   -- `sigTst2` (true) or `sigTst`
  deriving DecidableEq, Repr

/-- `get_cose_tst_info` (sigtst.rs): `find_map` over the unprotected header entries — the **first**
entry, in header order, that is labelled `sigTst2` or `sigTst` is the one that is used; `sigTst2` is
not preferred over an earlier `sigTst`. The argument lists those entries in header order. -/
def headerOf : List (Bool × Container) → Header
  | [] => .absent
  | (v2, c) :: _ => .present v2 c

/-- The bytes a header time-stamp must cover. -/
def headerMsg (v2 : Bool) : Msg := ⟨true, if v2 then .sigCbor else .payload⟩

/-- The bytes a time-stamp assertion entry must cover (`store.rs`). -/
def assertionMsg : Msg := ⟨false, .sigRaw⟩

/-- `validate_cose_tst_info(..).ok()` and the entries appended to the validation log. -/
def validateCoseTst (h : Header) (vt : Bool) : Option Int × List Entry :=
  match h with
  | .absent => (none, [])
  | .present _ .unparsable => (none, [])
  | .present v2 (.toks l) =>
    if l.length > 1 then (none, [info cMalformed])
    else match l with
      | [t] =>
        let o := verifyTimeStamp t (headerMsg v2) vt
        ((match o.result with | .ok x => some x | .error _ => none), o.log)
      | _ => (none, [])

/-! ### time-stamp assertions (store.rs `get_store_validation_info`) -/

/-- The tokens of time-stamp assertions that reference this claim, in the order the store meets
them (hash-map order), each checked with
`verify_time_stamp(token, &sign1.signature, …, rc.version() != 1)`: among the accepted tokens the
**earliest** time is kept in `svi.timestamps` (`candidate < current` replaces the entry), so the
result does not depend on the order. `vt` is `true` for every claim that is not a v1 claim —
whatever `verify_timestamp_trust` says. -/
def extTime : List Token → Bool → Option Int
  | [], _ => none
  | tok :: rest, vt =>
    match (verifyTimeStamp tok assertionMsg vt).result, extTime rest vt with
    | .ok t, some u => some (if u < t then u else t)
    | .ok t, none => some t
    | .error _, r => r

/-- What that pass appends to the validation log: the entries of every *rejected* token
(`Err(_) => validation_log.append(&tmp_log)`); an accepted token logs nothing there. -/
def extLog : List Token → Bool → List Entry
  | [], _ => []
  | tok :: rest, vt =>
    (match (verifyTimeStamp tok assertionMsg vt).result with
      | .ok _ => []
      | .error _ => (verifyTimeStamp tok assertionMsg vt).log) ++ extLog rest vt

/-! ### Claim level -/

/-- Facts about the signing certificate and the claim signature. -/
structure Signing where
  notBefore : Int
  notAfter : Int
  versionOk : Bool        -- parses and is v3
  restOk : Bool           -- the remaining profile requirements hold
  trustNoTime : Bool      -- `check_certificate_trust(.., None)` ok
  trustAtTst : Bool       -- `check_certificate_trust(.., Some(time used))` ok
  sigOk : Bool            -- COSE signature verifies
  deriving DecidableEq, Repr

structure Cfg where
  certCheck : Bool := true
  verifyTrust : Bool            -- settings.verify.verify_trust
  tsTrust : Bool                -- settings.verify.verify_timestamp_trust (false for v1 claims)
  now : Int
  deriving DecidableEq, Repr

/-- `x509_parser` `Validity::is_valid_at`. -/
def validAt (nb na t : Int) : Bool := decide (nb ≤ t) && decide (t ≤ na)

/-- Time used for validation: an external (assertion) time-stamp wins, else the header. -/
def usedTime (ext : Option Int) (h : Header) (cfg : Cfg) : Option Int × List Entry :=
  match ext with
  | some t => (some t, [])
  | none => validateCoseTst h cfg.tsTrust

/-- The time the validity branch checks: the time-stamp's if one is used, else now. -/
def checkTime (tst : Option Int) (now : Int) : Int :=
  match tst with | some t => t | none => now

/-- `check_end_entity_certificate_profile` for the signing certificate (validity branch explicit). -/
def profileLog (s : Signing) (tst : Option Int) (now : Int) : List Entry :=
  if !s.versionOk then [failE cCredInvalid]
  else if !validAt s.notBefore s.notAfter (checkTime tst now) then [failE cExpired]
  else if !s.restOk then [failE cCredInvalid]
  else []

def trustLog (s : Signing) (tst : Option Int) : List Entry :=
  let ok := match tst with | some _ => s.trustAtTst | none => s.trustNoTime
  if ok then [succ C04.cTrusted] else [failE C04.cUntrusted]

/-- Entries logged by `verify_cose` (time-stamp, profile, trust). -/
def coseLog (ext : Option Int) (h : Header) (s : Signing) (cfg : Cfg) : List Entry :=
  (usedTime ext h cfg).2
    ++ (if cfg.certCheck then profileLog s (usedTime ext h cfg).1 cfg.now else [])
    ++ (if cfg.certCheck && cfg.verifyTrust then trustLog s (usedTime ext h cfg).1 else [])

/-- Entries logged for the active manifest's signature by `verify_claim` (`verify_cose` then
`verify_internal`). -/
def claimLog (ext : Option Int) (h : Header) (s : Signing) (cfg : Cfg) : List Entry :=
  coseLog ext h s cfg
    ++ (if s.sigOk then [succ C04.cInsideValidity, succ C04.cSigValidated] else [failE cSigMismatch])

def toCodes (l : List Entry) : C04.Codes :=
  l.foldl (fun c e => c.add { code := e.1, kind := e.2, uri := none }) {}

/-- State of a manifest whose log entries are those of the signature check plus the failure codes
`extra` logged by unrelated checks (hash bindings, assertions, …). -/
def claimStateX (extra : List Code) (ext : Option Int) (h : Header) (s : Signing) (cfg : Cfg) :
    C04.State :=
  C04.state { active := some (toCodes (claimLog ext h s cfg ++ extra.map failE)), deltas := none }

/-- State of a manifest whose only log entries are those of the signature check. -/
def claimState (ext : Option Int) (h : Header) (s : Signing) (cfg : Cfg) : C04.State :=
  claimStateX [] ext h s cfg

/-- `SignatureInfo.time`: header time-stamp validated without trust. -/
def displayTime (h : Header) : Option Int := (validateCoseTst h false).1

/-! ### line protocol -/

def parseBool (c : Char) : Bool := c == '1'

def parseData (s : String) : Data :=
  if s == "P" then .payload else if s == "S" then .sigCbor else if s == "R" then .sigRaw
  else .other ((s.drop 1).toString.toNat?.getD 0)

def parseMsg (s : String) : Msg :=
  { countersign := s.startsWith "c", data := parseData (s.drop 1).toString }

def parseMd (s : String) : MdAttr :=
  if s == "a" then .absent else if s == "m" then .multi else if s == "u" then .undecodable
  else .value (s == "t")

def parseInt (s : String) : Int := s.toInt?.getD 0

def parseOptInt (s : String) : Option Int := if s == "-" then none else s.toInt?

/-- `flags/genTime/attrTime/md/nb/na/margin/imprint/plog` -/
def parseSInfo (s : String) : Option SInfo :=
  match s.splitOn "/" with
  | [fl, g, a, md, nb, na, mg, im, pl] =>
    match fl.toList.map parseBool with
    | f0 :: f1 :: f2 :: f3 :: f4 :: f5 :: f6 :: f7 :: f8 :: f9 :: f10 :: more =>
      if more.length > 1 then none else
      some { sigAlgSupported := more.head?.getD true, certFound := f0, tstOk := f1, genTime := parseInt g, signedAttrs := f2,
             attrTime := parseOptInt a, md := parseMd md, digestAlgKnown := f3, hasContent := f4,
             encodable := f5, sigOk := f6, notBefore := parseInt nb, notAfter := parseInt na,
             margin := parseInt mg, imprintAlgKnown := f7, imprint := parseMsg im,
             chainParses := f8, profileOk := f9,
             profileLog := if pl == "-" then [] else (pl.splitOn "+").map String.toList,
             trusted := f10 }
    | _ => none
  | _ => none

def parseToken (s : String) : Token :=
  if s == "U" then .unparsable else if s == "N" then .noCerts else if s == "B" then .badCerts
  else
    let body := (s.drop 2).toString
    .parsed ((splitList body "|").filterMap parseSInfo)

/-- one header entry: `<1|2>:X` | `<1|2>:T:<tok>;<tok>…` -/
def parseHeaderEntry (s : String) : Bool × Container :=
  let v2 := s.startsWith "2"
  let rest := (s.drop 2).toString
  if rest == "X" then (v2, .unparsable)
  else (v2, .toks ((splitList (rest.drop 2).toString ";").map parseToken))

/-- `-` | `<entry>` | `<entry>&<entry>…` (entries in unprotected-header order) -/
def parseHeader (s : String) : Header :=
  if s == "-" then .absent
  else headerOf ((s.splitOn "&").map parseHeaderEntry)

def kindStr : Kind → String
  | .success => "s" | .informational => "i" | .failure => "f"

def logStr (l : List Entry) : String :=
  if l.isEmpty then "-" else ",".intercalate (l.map fun e => kindStr e.2 ++ ":" ++ String.ofList e.1)

def errStr : Err → String
  | .decode => "decode" | .invalidData => "invalidData" | .untrusted => "untrusted"
  | .expiredCertificate => "expiredCertificate" | .unsupportedAlgorithm => "unsupportedAlgorithm"

def optStr : Option Int → String
  | none => "-" | some t => toString t

def insertSorted (x : String) : List String → List String
  | [] => [x]
  | y :: ys => if x ≤ y then x :: y :: ys else y :: insertSorted x ys

def sortStrs (l : List String) : List String := l.foldr insertSorted []

/-- canonical `S=..;I=..;F=..` with each class sorted -/
def classesStr (l : List Entry) : String :=
  let pick (k : Kind) := sortStrs ((l.filter (·.2 == k)).map fun e => String.ofList e.1)
  let j (xs : List String) := if xs.isEmpty then "-" else ",".intercalate xs
  "S=" ++ j (pick .success) ++ " I=" ++ j (pick .informational) ++ " F=" ++ j (pick .failure)

def handle (toks : List String) : String :=
  match toks with
  | "vts" :: rest =>
    let o := verifyTimeStamp (parseToken (field rest "tok")) (parseMsg (field rest "data"))
      (field rest "vt" == "1")
    (match o.result with
      | .ok t => "ok " ++ toString t
      | .error e => "err:" ++ errStr e) ++ " log=" ++ logStr o.log
  | op :: rest =>
    if op != "e2e" && op != "vc" && op != "ta" then "bad-op" else
    let h := parseHeader (field rest "hdr")
    let sg : Signing :=
      match (field rest "sf").toList.map parseBool with
      | [a, b, c, d, e] =>
        { notBefore := parseInt (field rest "nb"), notAfter := parseInt (field rest "na"),
          versionOk := a, restOk := b, trustNoTime := c, trustAtTst := d, sigOk := e }
      | _ => { notBefore := 0, notAfter := 0, versionOk := false, restOk := false,
               trustNoTime := false, trustAtTst := false, sigOk := false }
    let cfg : Cfg := { verifyTrust := field rest "trust" == "1", tsTrust := field rest "tt" == "1",
                       now := parseInt (field rest "now") }
    let ext := parseOptInt (field rest "ext")
    if op == "vc" then
      (if sg.sigOk then "ok used=" ++ optStr (usedTime ext h cfg).1 else "err used=-")
        ++ " " ++ classesStr (coseLog ext h sg cfg)
    else if op == "ta" then
      -- an ingredient claim validated at `now0` without a time-stamp assertion (what the ingredient
      -- assertion recorded) and at `now` with the tokens `xt` of time-stamp assertions: the entries
      -- the store pass logs, and the entries that are new with respect to the recorded ones
      let xs := field rest "xt"
      let toks := if xs == "-" || xs == "" then [] else (xs.splitOn ";").map parseToken
      let xvt := field rest "xvt" == "1"
      let l0 := claimLog none h sg { cfg with now := parseInt (field rest "now0") }
      let l1 := claimLog (extTime toks xvt) h sg cfg
      "store " ++ classesStr (extLog toks xvt) ++ " delta " ++ classesStr (l1.filter fun e => !l0.contains e)
    else
      let xf := field rest "xf"
      let extra := if xf == "-" || xf == "" then [] else (xf.splitOn ",").map String.toList
      (claimStateX extra ext h sg cfg).str ++ " shown=" ++ optStr (displayTime h) ++ " "
        ++ classesStr (claimLog ext h sg cfg)
  | [] => "bad-op"

end C2pa.C36
