import C2paModel.Base
/-
C16 — model of the C2PA Merkle tree variant

  sdk/src/utils/merkle.rs        C2PAMerkleTree::{from_leaves, generate_tree, to_layout,
                                 get_proof_by_index}
  sdk/src/assertions/bmff_hash.rs MerkleMap::{hash_check, check_merkle_tree}
                                 BmffHash::{split_bmff_merkle_map, validate_merkle_maps_mdat_boxes
                                 (UUID-box branch), verify_stream_hash (fragmented branch)}: the
                                 loops that give every chunk its leaf index

The model is generic over the node type `α` and the combining function
`comb : α → α → α` (`concat_and_hash(alg, left, Some(right))` in the code).  Nothing in the
modelled code inspects a digest other than by equality (`vec_compare`), so the code is
parametric in the digest type.  The positive theorems hold for every `comb`; the negative
ones ("nothing else verifies") assume `comb` injective, which is the collision-freeness
idealisation (free term algebra `Dig`).

Modelling notes (the only places where the shape differs from the Rust text):
* `layer[index - 1]` guarded by `index - 1 < layer.len()` is written
  `match layer[index - 1]? with | some x => … | none => …` (`some` ⇔ the guard holds).
* `hashes.get(proof_index)` followed by `proof_index += 1` is written as consuming the head
  of the remaining proof list (`proof.drop proof_index`); running out of elements is the
  `return false` branch.
* `usize` arithmetic is `Nat`; the only subtraction `index - 1` happens under `index % 2 == 1`.

Correspondence protocol (lean/Drv/C16.lean ↔ harness/src/bin/c16.rs).  The driver instantiates
`α := Dig` (free algebra).  Leaves are *identities*: leaf `i` of a request `n=<n> pat=<p>` has
identity `i` (p = 0) or `i % p` (p > 0, duplicates).  The harness gives every identity a
distinct 32-byte digest and *names* every digest of the implementation's layers by provenance,
checked with real SHA-256: a layer-0 digest is named by its identity; a digest of layer k+1 is
named `(X.Y)` when it equals SHA-256(x‖y) for two neighbouring digests x,y of the
implementation's layer k (either order) named X,Y, or `X` when it equals a digest of layer k
(promotion); otherwise `?`.  Equal names therefore mean equal digests.
  tree n= pat=                  -> layers as terms, nodes `,`-separated, layers `/`-separated
  layout n=                     -> a,b,c
  proofs n= pat= depth=         -> per leaf index `coords:bool`, `;`-separated.  A proof node is
                                   printed as the first coordinate `k.m` (layer-major scan) of
                                   an equal node in the tree; bool = check_merkle_tree of the
                                   leaf with that proof against row min(depth, layers-1)
  proof n= pat= i= depth=       -> coords | err
  check n= pat= count= row= v= loc= proof=   -> true|false
  hcheck n= pat= row= idx= v=   -> true|false    (`MerkleMap::hash_check` directly)
     values: `L<id>` leaf digest of identity id, `N<k>.<m>` node m of layer k of the tree,
             `T|P|A|B<k>.<m>` that node's bytes truncated / padded / first half / second half
             (a non-digest byte string; an atom of the free algebra);
     a trailing `via=asset` token marks a verdict obtained end to end through
     `BmffHash::verify_stream_hash` on a crafted BMFF stream (ignored by the model);
     row = `R<k>` (layer k) or a value list; proof = `none` | `-` | value list
  mdats trees=<n>,<n>.. mm=<localId>:<tree>:<count>:<row>;.. chunks=<t>.<i>,..;.. boxes=<loc>:<proof>;..
                                -> true|false   verdict of `BmffHash::verify_stream_hash` on a stream
                                   with one mdat box per `mm` entry (UUID-box branch): tree `t` has the
                                   leaf identities 1000*t+i; `chunks` gives, per mdat, the content at
                                   every chunk position (`t.i` = the honest chunk i of mdat t); `boxes`
                                   are the `merkle` uuid boxes in file order, proof = `none` | `-` |
                                   `t.k.m+t.k.m..` (node m of layer k of tree t)
  frags (same fields, one mm)   -> true|false   fragmented single-file branch
-/
namespace C2pa.C16

section generic
variable {α : Type}

/-- body of the `for i in (0..len).step_by(2)` loop of `generate_tree`: pairs are combined,
an unpaired last node is passed up unchanged. -/
def nextLayer (comb : α → α → α) : List α → List α
  | a :: b :: rest => comb a b :: nextLayer comb rest
  | [a] => [a]
  | [] => []

/-- the same loop in `to_layout`, counting only -/
def parentCnt : Nat → Nat
  | 0 => 0
  | 1 => 1
  | n + 2 => parentCnt n + 1

theorem parentCnt_eq (n : Nat) : parentCnt n = (n + 1) / 2 := by
  fun_induction parentCnt n <;> omega

theorem nextLayer_length (comb : α → α → α) (l : List α) :
    (nextLayer comb l).length = parentCnt l.length := by
  fun_induction nextLayer comb l <;> simp_all [parentCnt]

/-- `C2PAMerkleTree::generate_tree`: layer 0 is the leaf list; `while current.len() > 1` a parent
layer is appended. (For no leaves the result is the single empty layer.) -/
def genTree (comb : α → α → α) (cur : List α) : List (List α) :=
  if 1 < cur.length then cur :: genTree comb (nextLayer comb cur) else [cur]
termination_by cur.length
decreasing_by
  rw [nextLayer_length, parentCnt_eq]; omega

/-- `C2PAMerkleTree::to_layout` -/
def layout (n : Nat) : List Nat :=
  if 1 < n then n :: layout (parentCnt n) else [n]
termination_by n
decreasing_by
  rw [parentCnt_eq]; omega

/-- `C2PAMerkleTree` -/
structure Tree (α : Type) where
  leaves : List α
  layers : List (List α)

/-- `from_leaves(leaves, alg, false)` (already hashed leaves) -/
def Tree.fromLeaves (comb : α → α → α) (leaves : List α) : Tree α :=
  { leaves := leaves, layers := genTree comb leaves }

/-- the `for i in 0..self.layers.len()` loop of `get_proof_by_index`;
`left` = `proofs_left`. -/
def proofGo : List (List α) → Nat → Nat → List α
  | [], _, _ => []
  | layer :: rest, index, left =>
    if left = 0 then []
    else
      let tail := proofGo rest (index / 2) (left - 1)
      if index % 2 = 1 then
        match layer[index - 1]? with
        | some x => x :: tail
        | none => tail
      else
        match layer[index + 1]? with
        | some x => x :: tail
        | none => tail

/-- `C2PAMerkleTree::get_proof_by_index`; `none` = `Err(BadParam)`. -/
def Tree.getProof (t : Tree α) (leafIdx maxProofLen : Nat) : Option (List α) :=
  if t.leaves.isEmpty || leafIdx ≥ t.leaves.length then none
  else some (proofGo t.layers leafIdx maxProofLen)

/-- proof playback loop of `check_merkle_tree` (`Some(hashes)` arm). `rowLen` is
`self.hashes.len()`. Result `none` = `return false`; otherwise the final `(index, hash)`. -/
def playProof (comb : α → α → α) : List Nat → Nat → Nat → α → List α → Option (Nat × α)
  | [], _, index, hash, _ => some (index, hash)
  | layer :: rest, rowLen, index, hash, proof =>
    if layer = rowLen then some (index, hash)
    else if index % 2 = 1 then
      if index - 1 < layer then
        match proof with
        | p :: ps => playProof comb rest rowLen (index / 2) (comb p hash) ps
        | [] => none
      else playProof comb rest rowLen (index / 2) hash proof
    else if index + 1 < layer then
      match proof with
      | p :: ps => playProof comb rest rowLen (index / 2) (comb hash p) ps
      | [] => none
    else playProof comb rest rowLen (index / 2) hash proof

/-- "empty proof playback" loop (`None` arm), as repaired (fixes/C16-none-proof-needs-no-sibling.patch):
going up one layer is allowed only when the node has no sibling in the layer (it is carried up
unchanged); `none` = `return false`. -/
def playEmpty : List Nat → Nat → Nat → Option Nat
  | [], _, index => some index
  | layer :: rest, rowLen, index =>
    if layer = rowLen then some index
    else if index % 2 = 1 then
      if index - 1 < layer then none else playEmpty rest rowLen (index / 2)
    else if index + 1 < layer then none
    else playEmpty rest rowLen (index / 2)

/-- the `None` loop **before** the repair: `index /= 2` per layer, no sibling test -/
def playEmptyPre : List Nat → Nat → Nat → Nat
  | [], _, index => index
  | layer :: rest, rowLen, index =>
    if layer = rowLen then index else playEmptyPre rest rowLen (index / 2)

/-- `MerkleMap::hash_check` (`vec_compare` is equality) -/
def hashCheck [DecidableEq α] (hashes : List α) (indx : Nat) (h : α) : Bool :=
  match hashes[indx]? with
  | some x => decide (x = h)
  | none => false

/-- `MerkleMap::check_merkle_tree` with `self.count = count`, `self.hashes = hashes`. -/
def checkMerkleTree [DecidableEq α] (comb : α → α → α) (count : Nat) (hashes : List α)
    (hash : α) (location : Nat) (proof : Option (List α)) : Bool :=
  if location ≥ count then false
  else
    let layers := layout count
    match proof with
    | some p =>
      match playProof comb layers hashes.length location hash p with
      | some (index, h) => hashCheck hashes index h
      | none => false
    | none =>
      match playEmpty layers hashes.length location with
      | some index => hashCheck hashes index hash
      | none => false

/-- `check_merkle_tree` as it was before the repair (kept to state the defect, Props/C16
`pre_fix_none_arm_accepts_inner_node`). -/
def checkMerkleTreePre [DecidableEq α] (comb : α → α → α) (count : Nat) (hashes : List α)
    (hash : α) (location : Nat) (proof : Option (List α)) : Bool :=
  if location ≥ count then false
  else
    let layers := layout count
    match proof with
    | some p =>
      match playProof comb layers hashes.length location hash p with
      | some (index, h) => hashCheck hashes index h
      | none => false
    | none => hashCheck hashes (playEmptyPre layers hashes.length location) hash

/-! ### which leaf index a chunk is checked at

`location` and the proof `hashes` of a chunk come from its C2PA `merkle` uuid box
(`BmffMerkleMap`), which no hash covers.  The validators walk the chunk positions
(`for (range_index, range) in ranges.iter().enumerate()`, `for (index, boxes) in
moof_chunks.iter().enumerate()`), hash chunk `i` and check it with the `i`-th box of the group.
As repaired (fixes/C16-merkle-location-bound-to-chunk.patch) the box's `location` must be the
position. -/

/-- `BmffMerkleMap`, the content of one `merkle` uuid box (ids are not used by the validators) -/
structure Box (α : Type) where
  location : Nat
  hashes : Option (List α)

/-- the loop over the chunk positions; `chunks` are the `hash_stream_by_alg` digests of the ranges
in stream order, `i` the position of the head.  `bmff_mm[range_index]` out of range cannot happen
(the lengths are compared before the loop); the arm is `false`. -/
def chunksGo [DecidableEq α] (comb : α → α → α) (count : Nat) (hashes : List α) :
    Nat → List α → List (Box α) → Bool
  | _, [], _ => true
  | _, _ :: _, [] => false
  | i, c :: cs, b :: bs =>
    if b.location ≠ i then false
    else if checkMerkleTree comb count hashes c b.location b.hashes then
      chunksGo comb count hashes (i + 1) cs bs
    else false

/-- the same loop **before** the repair: the index is whatever the box says -/
def chunksGoPre [DecidableEq α] (comb : α → α → α) (count : Nat) (hashes : List α) :
    List α → List (Box α) → Bool
  | [], _ => true
  | _ :: _, [] => false
  | c :: cs, b :: bs =>
    if checkMerkleTree comb count hashes c b.location b.hashes then
      chunksGoPre comb count hashes cs bs
    else false

/-- fragmented branch of `verify_stream_hash` for one `MerkleMap`:
`moof_chunks.len() != mm.count || bmff_merkle.len() != mm.count` → HashMismatch, then the loop. -/
def validateFragments [DecidableEq α] (comb : α → α → α) (count : Nat) (hashes : List α)
    (chunks : List α) (boxes : List (Box α)) : Bool :=
  if chunks.length ≠ count || boxes.length ≠ count then false
  else chunksGo comb count hashes 0 chunks boxes

/-- one `MerkleMap` (signed) together with the chunk digests of the mdat box it is zipped with -/
structure Mdat (α : Type) where
  localId : Nat
  count : Nat
  hashes : List α
  chunks : List α

/-- `HashMap::insert` on an association list -/
def mapInsert {β : Type} (k : Nat) (v : β) (m : List (Nat × β)) : List (Nat × β) :=
  (k, v) :: m.filter fun e => e.1 != k

/-- `split_bmff_merkle_map`: the uuid boxes, in file order, are cut into runs of `count` boxes
which are stored under the `local_id` of the MerkleMap; `none` = `Err(HashMismatch)`. -/
def splitBoxes : List (Mdat α) → List (Box α) → List (Nat × List (Box α)) →
    Option (List (Nat × List (Box α)))
  | [], _, out => some out
  | m :: ms, cur, out =>
    if m.count > cur.length then none
    else splitBoxes ms (cur.drop m.count) (mapInsert m.localId (cur.take m.count) out)

/-- body of the loop over the MerkleMaps for one of them with its group of boxes -/
def validateGroup [DecidableEq α] (comb : α → α → α) (m : Mdat α) (group : List (Box α)) : Bool :=
  if m.chunks.length ≠ group.length then false
  else chunksGo comb m.count m.hashes 0 m.chunks group

def validateGroupPre [DecidableEq α] (comb : α → α → α) (m : Mdat α) (group : List (Box α)) :
    Bool :=
  if m.chunks.length ≠ group.length then false
  else chunksGoPre comb m.count m.hashes m.chunks group

/-- `validate_merkle_maps_mdat_boxes`, the branch taken when the stream has `merkle` uuid boxes
(`false` = `Err(HashMismatch)`; every failure of this branch is a HashMismatch).  As repaired the
group of a MerkleMap is the one stored under its `local_id` (before, the groups were taken in
`HashMap::values()` order, which is arbitrary). -/
def validateMdatsUuid [DecidableEq α] (comb : α → α → α) (mdats : List (Mdat α))
    (boxes : List (Box α)) : Bool :=
  match splitBoxes mdats boxes [] with
  | none => false
  | some groups =>
    if mdats.length ≠ groups.length then false
    else mdats.all fun m =>
      match groups.lookup m.localId with
      | some g => validateGroup comb m g
      | none => false

end generic

/-- Digests as a free term algebra: distinct constructions give distinct digests. -/
inductive Dig
  | leaf (id : Nat)
  | comb (a b : Dig)
  deriving DecidableEq, Repr

/-! ### line protocol -/

def Dig.str : Dig → String
  | .leaf n => toString n
  | .comb a b => "(" ++ a.str ++ "." ++ b.str ++ ")"

def leafIds (n pat : Nat) : List Nat :=
  (List.range n).map fun i => if pat = 0 then i else i % pat

def mkTree (n pat : Nat) : Tree Dig :=
  Tree.fromLeaves Dig.comb ((leafIds n pat).map Dig.leaf)

/-- first coordinate (layer-major scan) of a node equal to `d` -/
def findIdx (d : Dig) : List Dig → Nat → Option Nat
  | [], _ => none
  | x :: xs, m => if x = d then some m else findIdx d xs (m + 1)

def firstCoord (d : Dig) : List (List Dig) → Nat → String
  | [], _ => "?"
  | l :: ls, k =>
    match findIdx d l 0 with
    | some m => toString k ++ "." ++ toString m
    | none => firstCoord d ls (k + 1)

def coordsStr (layers : List (List Dig)) (p : List Dig) : String :=
  if p.isEmpty then "-" else ",".intercalate (p.map fun d => firstCoord d layers 0)

def boolStr (b : Bool) : String := if b then "true" else "false"

def natField (toks : List String) (k : String) : Nat := (field toks k).toNat!

/-- a byte string that is *not* a digest of the tree: node `k.m` truncated by one byte (`T`),
padded with one byte (`P`), its first (`A`) or second (`B`) half. In the free algebra such a
string is an atom different from every identity and every node. -/
def alienVal (tag : Nat) (t : Tree Dig) (s : String) : Option Dig :=
  match (s.drop 1).toString.splitOn "." with
  | [k, m] => do
    let k ← k.toNat?
    let m ← m.toNat?
    let l ← t.layers[k]?
    let _ ← l[m]?
    some (Dig.leaf (2000000000 + tag * 100000000 + k * 1000000 + m))
  | _ => none

def parseVal (t : Tree Dig) (s : String) : Option Dig :=
  if s.startsWith "L" then (s.drop 1).toString.toNat?.map Dig.leaf
  else if s.startsWith "N" then
    match (s.drop 1).toString.splitOn "." with
    | [k, m] => do
      let k ← k.toNat?
      let m ← m.toNat?
      let l ← t.layers[k]?
      l[m]?
    | _ => none
  else if s.startsWith "T" then alienVal 0 t s
  else if s.startsWith "P" then alienVal 1 t s
  else if s.startsWith "A" then alienVal 2 t s
  else if s.startsWith "B" then alienVal 3 t s
  else none

def parseVals (t : Tree Dig) (s : String) : Option (List Dig) :=
  if s == "-" then some [] else (s.splitOn ",").mapM (parseVal t)


/-! #### chunk placement ops -/

def placeTree (t n : Nat) : Tree Dig :=
  Tree.fromLeaves Dig.comb ((List.range n).map fun i => Dig.leaf (1000 * t + i))

/-- `t.i` -> the honest chunk `i` of mdat `t` -/
def parseChunk (s : String) : Option Dig :=
  match s.splitOn "." with
  | [t, i] => do
    let t ← t.toNat?
    let i ← i.toNat?
    some (Dig.leaf (1000 * t + i))
  | _ => none

/-- `t.k.m` -> node `m` of layer `k` of tree `t` -/
def parseNode (trees : List (Tree Dig)) (s : String) : Option Dig :=
  match s.splitOn "." with
  | [t, k, m] => do
    let t ← t.toNat?
    let k ← k.toNat?
    let m ← m.toNat?
    let tr ← trees[t]?
    let l ← tr.layers[k]?
    l[m]?
  | _ => none

def parseBox (trees : List (Tree Dig)) (s : String) : Option (Box Dig) :=
  match s.splitOn ":" with
  | [loc, pr] => do
    let loc ← loc.toNat?
    let hashes ←
      if pr == "none" then some none
      else if pr == "-" then some (some [])
      else ((pr.splitOn "+").mapM (parseNode trees)).map some
    some { location := loc, hashes := hashes }
  | _ => none

def parseMm (trees : List (Tree Dig)) (s chunks : String) : Option (Mdat Dig) :=
  match s.splitOn ":" with
  | [lid, t, count, row] => do
    let lid ← lid.toNat?
    let t ← t.toNat?
    let count ← count.toNat?
    let row ← row.toNat?
    let tr ← trees[t]?
    let hashes ← tr.layers[row]?
    let cs ← (chunks.splitOn ",").mapM parseChunk
    some { localId := lid, count := count, hashes := hashes, chunks := cs }
  | _ => none

def parsePlacement (toks : List String) : Option (List (Mdat Dig) × List (Box Dig)) := do
  let ns ← ((field toks "trees").splitOn ",").mapM String.toNat?
  let trees := (List.range ns.length).zipWith placeTree ns
  let mms := (field toks "mm").splitOn ";"
  let cgs := (field toks "chunks").splitOn ";"
  if mms.length ≠ cgs.length then none
  else
    let mdats ← (mms.zip cgs).mapM fun p => parseMm trees p.1 p.2
    let boxes ← ((field toks "boxes").splitOn ";").mapM (parseBox trees)
    some (mdats, boxes)

def handle (toks : List String) : String :=
  match toks with
  | "layout" :: rest => ",".intercalate ((layout (natField rest "n")).map toString)
  | "tree" :: rest =>
    let t := mkTree (natField rest "n") (natField rest "pat")
    "/".intercalate (t.layers.map fun l => ",".intercalate (l.map Dig.str))
  | "proofs" :: rest =>
    let n := natField rest "n"
    let t := mkTree n (natField rest "pat")
    let d := natField rest "depth"
    let row := (t.layers[min d (t.layers.length - 1)]?).getD []
    let one (i : Nat) : String :=
      match t.getProof i d, t.leaves[i]? with
      | some p, some v =>
        coordsStr t.layers p ++ ":" ++
          boolStr (checkMerkleTree Dig.comb t.leaves.length row v i (some p))
      | _, _ => "err"
    ";".intercalate ((List.range n).map one)
  | "proof" :: rest =>
    let t := mkTree (natField rest "n") (natField rest "pat")
    match t.getProof (natField rest "i") (natField rest "depth") with
    | some p => coordsStr t.layers p
    | none => "err"
  | "check" :: rest =>
    let t := mkTree (natField rest "n") (natField rest "pat")
    let rowS := field rest "row"
    let row : Option (List Dig) :=
      if rowS.startsWith "R" then t.layers[(rowS.drop 1).toString.toNat!]? else parseVals t rowS
    let pS := field rest "proof"
    let proof : Option (Option (List Dig)) :=
      if pS == "none" then some none else (parseVals t pS).map some
    match row, parseVal t (field rest "v"), proof with
    | some row, some v, some proof =>
      boolStr (checkMerkleTree Dig.comb (natField rest "count") row v (natField rest "loc") proof)
    | _, _, _ => "bad-value"
  | "hcheck" :: rest =>
    let t := mkTree (natField rest "n") (natField rest "pat")
    let rowS := field rest "row"
    let row : Option (List Dig) :=
      if rowS.startsWith "R" then t.layers[(rowS.drop 1).toString.toNat!]? else parseVals t rowS
    match row, parseVal t (field rest "v") with
    | some row, some v => boolStr (hashCheck row (natField rest "idx") v)
    | _, _ => "bad-value"
  | "mdats" :: rest =>
    match parsePlacement rest with
    | some (mdats, boxes) => boolStr (validateMdatsUuid Dig.comb mdats boxes)
    | none => "bad-value"
  | "frags" :: rest =>
    match parsePlacement rest with
    | some ([m], boxes) => boolStr (validateFragments Dig.comb m.count m.hashes m.chunks boxes)
    | _ => "bad-value"
  | _ => "bad-op"

end C2pa.C16
