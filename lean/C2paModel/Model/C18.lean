import C2paModel.Base
/-
C18 — model of the JUMBF box reader / writer

  sdk/src/jumbf/boxes.rs   BMFFBox::{box_size, write_box}, the `write_box_payload`/`box_payload_size`
                           impls of JUMBFSuperBox, JUMBFDescriptionBox, CAISaltContentBox, the content
                           boxes (json, cbor, free, jp2c, brob, bidb, uuid, bfdb) and
                           BoxReader::{read_header, read_desc_box, read_*_box, read_super_box_impl}
  sdk/src/utils/io_utils.rs ReaderUtils::read_to_vec

The reader is modelled on `Cursor<&[u8]>` exactly as `Store::from_jumbf_impl` uses it: an immutable
byte list `d` and a position `pos`.  `Cursor::read` returns `min(n, len - pos)` bytes,
`read_exact` fails at a short read, `seek(Current(-8))` fails below 0.

Modelling notes
* Every function returns `Res`: `ok`, `err e` (the `JumbfParseError` variant that leaves
  `read_super_box`), `panic` (an unchecked `-` that would underflow: `usub`; `start_pos + size` is `checked_add` since the repair) and `oof`
  (fuel exhausted; only `superBox`/`loop` take fuel).  `Props/C18` proves that `panic` and `oof`
  are unreachable from `parse`.
* Callers of the content-box readers replace any error by a fixed variant (`map_err(|_| …)`), so
  the readers' own error variants are not observable; they are still kept distinct where cheap.
* `read_desc_box`: `reader.read(&mut uuid)` returning 0 bytes gives `Ok(JUMBFDescriptionBox::new("", None))`
  whose empty label makes the caller return `UnexpectedEof`; every other error of `read_desc_box` is
  mapped to `UnexpectedEof` by the caller as well, so the model returns an error directly.  A short
  (1..15) read is at end of data, the following `read_exact` of the toggles fails.
* `CString` labels: `JUMBFDescriptionBox::from` gets the bytes before the first NUL; `label()`
  (`into_string().unwrap_or_default()`) and the writer's `to_str().unwrap_or_default().chars().count() > 0`
  are both "valid UTF-8 and non-empty" (`strNonEmpty`); `utf8Valid` is Rust's `str::from_utf8`
  (well-formed UTF-8, Unicode table 3-7) as a DFA.
* Writer sizes are `u32` in the code (`len as u32`, `8 + payload`); the model computes in `Nat` and
  encodes `mod 2^32`; `b.size < 2^32` is the hypothesis (in `Props/C18`) under which no truncation or
  `u32` overflow happens.
* Brotli: a compressed manifest is a `c2cm` super box with one `brob` leaf whose payload is opaque here.

Line protocol (lean/Drv/C18.lean ↔ harness/src/bin/c18.rs)
  parse data=<hex>   -> `err <class>` | `ok end=<pos> size=<box_size> tree=<dump> ser=<len>:<fnv64> re=<second pass>`
                        second pass (parse of the re-serialisation): `same` (identical dump and end = len),
                        `ok:<dump>` or `err:<class>`
  tree t=<tree>      -> `bytes=<len>:<fnv64> size=<box_size> ` ++ the `parse` reply for `ser t`
  dump:  super box `S<hex of serialised jumd box>[child,…]`; leaf `<fourcc>:<box_payload_size>:<written len>:<fnv64 written>`;
         bfdb `bfdb:<payload_size>:<hex payload>:<hex media_type()>:<hex file_name()|->`
  tree:  `S(<uuid>;<togs>;<label>;<id|->;<sig|~>;<salt|~>)[t,…]`, `L<fourcc-letter>(<hex>)`, `U(<uuid>;<hex>)`,
         `M(<togs>;<mt hex>;<fn hex|~>)`   (`~` = None, `-` = empty bytes)
-/
namespace C2pa.C18

abbrev Bytes := List UInt8

inductive Err
  | tooDeep | invalidBoxRange | invalidJumbfHeader | unexpectedEof | expectedJumd
  | invalidJson | invalidCbor | invalidJp2c | invalidUuid | invalidEmbedded
  | invalidUnknown | invalidBoxHeader | io | invalidJumbBox | invalidDesc
  deriving DecidableEq, Repr

inductive Res (α : Type) where
  | ok (a : α)
  | err (e : Err)
  | panic
  | oof
  deriving Repr

@[inline] def Res.bind {α β : Type} : Res α → (α → Res β) → Res β
  | .ok a, f => f a
  | .err e, _ => .err e
  | .panic, _ => .panic
  | .oof, _ => .oof

instance : Monad Res where
  pure := .ok
  bind := Res.bind

/-- `.map_err(|_| e)` -/
def Res.mapErr {α : Type} (r : Res α) (e : Err) : Res α :=
  match r with
  | .err _ => .err e
  | x => x

/-- unchecked `a - b` on unsigned integers -/
def usub (a b : Nat) : Res Nat := if a < b then .panic else .ok (a - b)

/-! ### trees -/

structure Desc where
  uuid : Bytes
  toggles : UInt8
  label : Bytes
  boxId : Option Nat
  sig : Option Bytes
  salt : Option Bytes
  deriving DecidableEq, Repr

/-- content boxes that are "header + raw bytes" -/
inductive Kind | json | cbor | free | jp2c | brob | bidb
  deriving DecidableEq, Repr

inductive Box where
  | super (d : Desc) (children : List Box)
  | leaf (k : Kind) (data : Bytes)
  | uuid (u : Bytes) (data : Bytes)
  | bfdb (togs : UInt8) (mediaType : Bytes) (fileName : Option Bytes)
  deriving Repr

def JUMB : Nat := 0x6A756D62
def JUMD : Nat := 0x6A756D64
def C2SH : Nat := 0x63327368
def UUID : Nat := 0x75756964
def BFDB : Nat := 0x62666462

def Kind.fourcc : Kind → Nat
  | .json => 0x6A736F6E
  | .cbor => 0x63626F72
  | .free => 0x66726565
  | .jp2c => 0x6A703263
  | .brob => 0x62726F62
  | .bidb => 0x62696462

/-- the error the loop of `read_super_box_impl` substitutes for the kind's reader -/
def Kind.err : Kind → Err
  | .json => .invalidJson
  | .cbor => .invalidCbor
  | .free => .invalidCbor
  | .jp2c => .invalidJp2c
  | .brob => .invalidJp2c
  | .bidb => .invalidEmbedded

def kindOf? (n : Nat) : Option Kind :=
  if n = 0x6A736F6E then some .json
  else if n = 0x63626F72 then some .cbor
  else if n = 0x66726565 then some .free
  else if n = 0x6A703263 then some .jp2c
  else if n = 0x62726F62 then some .brob
  else if n = 0x62696462 then some .bidb
  else none

/-! ### bytes -/

/-- big-endian value -/
def be (bs : Bytes) : Nat := bs.foldl (fun a b => a * 256 + b.toNat) 0

/-- `write_u32::<BigEndian>(n as u32)` -/
def be32 (n : Nat) : Bytes :=
  [UInt8.ofNat (n / 16777216), UInt8.ofNat (n / 65536), UInt8.ofNat (n / 256), UInt8.ofNat n]

def slice (d : Bytes) (pos n : Nat) : Bytes := (d.drop pos).take n

/-! ### UTF-8 (Rust `core::str::from_utf8`) -/

inductive U8 | start | c1 | c2 | c3 | e0 | ed | f0 | f4 | bad
  deriving DecidableEq, Repr

def isCont (b : UInt8) : Bool := 0x80 ≤ b && b ≤ 0xBF

def U8.step (s : U8) (b : UInt8) : U8 :=
  match s with
  | .start =>
    if b < 0x80 then .start
    else if 0xC2 ≤ b && b ≤ 0xDF then .c1
    else if b = 0xE0 then .e0
    else if b = 0xED then .ed
    else if 0xE1 ≤ b && b ≤ 0xEF then .c2
    else if b = 0xF0 then .f0
    else if b = 0xF4 then .f4
    else if 0xF1 ≤ b && b ≤ 0xF3 then .c3
    else .bad
  | .c1 => if isCont b then .start else .bad
  | .c2 => if isCont b then .c1 else .bad
  | .c3 => if isCont b then .c2 else .bad
  | .e0 => if 0xA0 ≤ b && b ≤ 0xBF then .c1 else .bad
  | .ed => if 0x80 ≤ b && b ≤ 0x9F then .c1 else .bad
  | .f0 => if 0x90 ≤ b && b ≤ 0xBF then .c2 else .bad
  | .f4 => if 0x80 ≤ b && b ≤ 0x8F then .c2 else .bad
  | .bad => .bad

def utf8Valid (bs : Bytes) : Bool := bs.foldl U8.step .start == .start

/-- "converts to a non-empty `str`": `!label().is_empty()` on read, `chars().count() > 0` on write -/
def strNonEmpty (bs : Bytes) : Bool := !bs.isEmpty && utf8Valid bs

/-- `JUMBFEmbeddedFileDescriptionBox::to_rust_str` -/
def toRustStr (bs : Bytes) : Bytes :=
  let cut := bs.takeWhile (· ≠ 0)
  if utf8Valid cut then cut else []

/-! ### writer -/

/-- `CAISaltContentBox::write_box` -/
def serSalt (s : Bytes) : Bytes := be32 (8 + s.length) ++ be32 C2SH ++ s

def optBytes : Option Bytes → Bytes
  | some b => b
  | none => []

/-- `JUMBFDescriptionBox::write_box_payload` -/
def descPayload (d : Desc) : Bytes :=
  d.uuid ++ [d.toggles]
    ++ (if strNonEmpty d.label then d.label ++ [0] else [])
    ++ (match d.boxId with | some x => be32 x | none => [])
    ++ optBytes d.sig
    ++ (match d.salt with | some s => serSalt s | none => [])

/-- `JUMBFDescriptionBox::write_box` (size by `ByteCounter`) -/
def serDesc (d : Desc) : Bytes := be32 (8 + (descPayload d).length) ++ be32 JUMD ++ descPayload d

/-- `JUMBFEmbeddedFileDescriptionBox::write_box_payload` (the file name is never written) -/
def bfdbPayload (togs : UInt8) (mt : Bytes) : Bytes :=
  togs :: (if strNonEmpty mt then mt ++ [0] else [])

/-- `JUMBFUUIDContentBox::write_box_payload`: nothing at all when `data` is empty -/
def uuidPayload (u data : Bytes) : Bytes := if data.isEmpty then [] else u ++ data

mutual
/-- `box_size()` (in `Nat`) -/
def Box.size : Box → Nat
  | .super d cs => 8 + (8 + (descPayload d).length) + sizeList cs
  | .leaf _ data => 8 + data.length
  | .uuid _ data => 8 + (16 + data.length)
  | .bfdb t m _ => 8 + (bfdbPayload t m).length
def sizeList : List Box → Nat
  | [] => 0
  | b :: bs => b.size + sizeList bs
end

mutual
/-- `write_box` -/
def Box.ser : Box → Bytes
  | .super d cs => be32 (8 + (8 + (descPayload d).length) + sizeList cs) ++ be32 JUMB ++ serDesc d ++ serList cs
  | .leaf k data => be32 (8 + data.length) ++ be32 k.fourcc ++ data
  | .uuid u data => be32 (8 + (16 + data.length)) ++ be32 UUID ++ uuidPayload u data
  | .bfdb t m _ => be32 (8 + (bfdbPayload t m).length) ++ be32 BFDB ++ bfdbPayload t m
def serList : List Box → Bytes
  | [] => []
  | b :: bs => b.ser ++ serList bs
end

/-! ### reader -/

structure Header where
  name : Nat
  size : Nat
  deriving DecidableEq, Repr

/-- `BoxReader::read_header`; `name = 0` is `BoxType::Empty` (also the result at end of data). -/
def readHeader (d : Bytes) (pos : Nat) : Res (Header × Nat) :=
  let avail := d.length - pos
  if avail = 0 then .ok (⟨0, 0⟩, pos)
  else if avail < 8 then .err .io
  else
    let size := be (slice d pos 4)
    let typ := be (slice d (pos + 4) 4)
    if size = 1 then
      if d.length - (pos + 8) < 8 then .err .io
      else .ok (⟨typ, be (slice d (pos + 8) 8)⟩, pos + 16)
    else .ok (⟨typ, size⟩, pos + 8)

/-- `unread_bytes(reader, HEADER_SIZE)` -/
def unread (pos : Nat) : Res Nat := if pos < 8 then .err .io else .ok (pos - 8)

/-- `if <header re-read differs> { unread_bytes(reader, HEADER_SIZE)?; }` ("we started w/o the header") -/
def reseek (differs : Bool) (pos : Nat) : Res Nat := if differs then unread pos else .ok pos

/-- `ReaderUtils::read_to_vec` (u64 `checked_add`, then the bound against the stream length) -/
def readToVec (d : Bytes) (pos n : Nat) : Res (Bytes × Nat) :=
  if pos + n ≥ 2 ^ 64 then .err .invalidBoxHeader
  else if pos + n > d.length then .err .invalidBoxHeader
  else .ok (slice d pos n, pos + n)

/-- `read_exact` of `n` bytes -/
def readExact (d : Bytes) (pos n : Nat) : Res (Bytes × Nat) :=
  if d.length - pos < n then .err .io else .ok (slice d pos n, pos + n)

/-- `read_exact` of one byte (the toggles) -/
def readByte (d : Bytes) (pos : Nat) : Res (UInt8 × Nat) :=
  match d.drop pos with
  | [] => .err .io
  | b :: _ => .ok (b, pos + 1)

/-- `read_json_box`, `read_cbor_box`, `read_padding_box`, `read_jp2c_box`, `read_brotli_box`,
`read_embedded_content_box` (identical bodies) -/
def readData (d : Bytes) (pos size : Nat) : Res (Bytes × Nat) := do
  let (h, p1) ← (readHeader d pos).mapErr .invalidBoxHeader
  if h.size = 0 then .ok ([], p1)
  else
    let p2 ← reseek (h.size != size) p1
    if size < 8 then .err .invalidBoxHeader
    else readToVec d p2 (size - 8)

def zeros16 : Bytes := List.replicate 16 0

/-- `read_uuid_box` -/
def readUuid (d : Bytes) (pos size : Nat) : Res ((Bytes × Bytes) × Nat) := do
  let (h, p1) ← (readHeader d pos).mapErr .invalidBoxHeader
  if h.size = 0 then .ok ((zeros16, []), p1)
  else
    let p2 ← reseek (h.size != size) p1
    let (u, p3) ← readExact d p2 16
    if size < 24 then .err .invalidBoxHeader
    else
      let (buf, p4) ← readToVec d p3 (size - 24)
      .ok ((u, buf), p4)

/-- the `match togs[0]` of `read_embedded_media_desc_box` -/
def splitMedia (togs : UInt8) (buf : Bytes) : Res (Bytes × Option Bytes) :=
  if togs = 1 then
    match buf.findIdx? (· = 0) with
    | some p => do
      let last ← usub buf.length 1
      if p ≠ last then .ok (buf, none)
      else .ok (buf.take p, some (buf.drop p))
    | none => .ok (buf, none)
  else
    if buf.getLast? = some 0 then .ok (buf.dropLast, none) else .ok (buf, none)

/-- `read_embedded_media_desc_box` -/
def readBfdb (d : Bytes) (pos size : Nat) : Res ((UInt8 × Bytes × Option Bytes) × Nat) :=
  if size < 9 then .err .invalidDesc
  else do
    let (h, p1) ← (readHeader d pos).mapErr .invalidBoxHeader
    if h.size = 0 then .ok ((0, [], none), p1)
    else
      let p2 ← reseek (h.size != size) p1
      let (togs, p3) ← readByte d p2
      let n ← (usub size 8).bind (usub · 1)
      let (buf, p4) ← readToVec d p3 n
      let (mt, fn) ← splitMedia togs buf
      .ok ((togs, mt, fn), p4)

/-- the label loop of `read_desc_box`: `rest` is the unread data, result = (label, bytes_left) -/
def readLabel : (rest : Bytes) → (bytesLeft : Nat) → Res (Bytes × Nat)
  | rest, bl =>
    if bl ≤ 8 then .err .invalidDesc
    else match rest with
      | [] => .err .io
      | b :: r => do
        let bl' ← usub bl 1
        if b = 0 then .ok ([], bl')
        else
          let (l, x) ← readLabel r bl'
          .ok (b :: l, x)

/-- the optional box id of `read_desc_box`: (id, bytes_left, pos) -/
def readBoxId (d : Bytes) (togs : UInt8) (p bl : Nat) : Res (Option Nat × Nat × Nat) :=
  if togs &&& 0x04 = 0x04 then do
    let (v, p') ← readExact d p 4
    let bl' ← usub bl 4
    .ok (some (be v), bl', p')
  else .ok (none, bl, p)

/-- the optional signature (hash) of `read_desc_box` -/
def readSig (d : Bytes) (togs : UInt8) (p bl : Nat) : Res (Option Bytes × Nat × Nat) :=
  if togs &&& 0x08 = 0x08 then do
    let (v, p') ← readExact d p 32
    if bl < 32 then .err .invalidDesc
    else .ok (some v, bl - 32, p')
  else .ok (none, bl, p)

/-- the optional private (salt) box of `read_desc_box` -/
def readSalt (d : Bytes) (togs : UInt8) (p bl : Nat) : Res (Option Bytes × Nat × Nat) :=
  if togs &&& 0x10 = 0x10 then do
    let (h, q1) ← (readHeader d p).mapErr .invalidBoxHeader
    if h.size = 0 then .err .invalidBoxHeader
    else
      let q2 ← reseek (bl < 8 || bl - 8 != h.size) q1
      if h.name ≠ C2SH then .err .invalidBoxHeader
      else if h.size < 8 then .err .invalidBoxHeader
      else
        let (buf, q3) ← readToVec d q2 (h.size - 8)
        if bl < h.size then .err .invalidBoxHeader
        else .ok (some buf, bl - h.size, q3)
  else .ok (none, bl, p)

/-- `read_desc_box(reader, size)` -/
def readDesc (d : Bytes) (pos size : Nat) : Res (Desc × Nat) :=
  if size < 26 then .err .invalidDesc
  else
    let k := min 16 (d.length - pos)
    if k = 0 then .err .unexpectedEof
    else do
      let bl ← usub size k
      let (togs, p1) ← readByte d (pos + k)
      let bl ← usub bl 1
      if togs &&& 0x03 ≠ 0x03 then .err .invalidDesc
      else
        let (label, bl) ← readLabel (d.drop p1) bl
        let (bxid, bl, p3) ← readBoxId d togs (p1 + label.length + 1) bl
        let (sig, bl, p4) ← readSig d togs p3 bl
        let (salt, bl, p5) ← readSalt d togs p4 bl
        if bl ≠ 8 then .err .invalidBoxHeader
        else .ok (⟨slice d pos 16, togs, label, bxid, sig, salt⟩, p5)

def MAX_JUMB_DEPTH : Nat := 32

/-- the `match current_pos` after a child box was added: continue? -/
def afterChild (dest p : Nat) : Res Bool :=
  if p = dest then .ok false
  else if p > dest then .err .invalidJumbBox
  else .ok true

/-- `sbox.add_data_box(next_box)` followed by the position check; `rest` is the remainder of the loop -/
def addChild (dest : Nat) (b : Box) (p3 : Nat) (rest : Unit → Res (List Box × Nat)) : Res (List Box × Nat) := do
  if ← afterChild dest p3 then
    let (cs, p4) ← rest ()
    .ok (b :: cs, p4)
  else .ok ([b], p3)

mutual
/-- `read_super_box_impl(reader, depth)` at position `pos` -/
def superBox : (fuel : Nat) → (d : Bytes) → (depth pos : Nat) → Res (Box × Nat)
  | 0, _, _, _ => .oof
  | f + 1, d, depth, pos =>
    if depth ≥ MAX_JUMB_DEPTH then .err .tooDeep
    else do
      let (jh, p1) ← (readHeader d pos).mapErr .invalidJumbfHeader
      if jh.name = 0 then .err .unexpectedEof
      else if jh.name ≠ JUMB then .err .invalidJumbfHeader
      else if pos + jh.size ≥ 2 ^ 64 then .err .invalidBoxRange
      else
        let dest := pos + jh.size
        let (dh, p2) ← (readHeader d p1).mapErr .expectedJumd
        if dh.name ≠ JUMD then .err .expectedJumd
        else
          let (desc, p3) ← (readDesc d p2 dh.size).mapErr .unexpectedEof
          if !strNonEmpty desc.label then .err .unexpectedEof
          else
            let (cs, p4) ← loop f d depth dest p3
            .ok (.super desc cs, p4)
/-- the `while found` loop; returns the children read from `pos` on and the final position -/
def loop : (fuel : Nat) → (d : Bytes) → (depth dest pos : Nat) → Res (List Box × Nat)
  | 0, _, _, _, _ => .oof
  | f + 1, d, depth, dest, pos => do
    let (bh, p1) ← (readHeader d pos).mapErr .invalidJumbfHeader
    if bh.name = 0 then
      -- found = false; the position check still runs
      if p1 > dest then .err .invalidJumbBox else .ok ([], p1)
    else
      let p2 ← unread p1
      if bh.name = JUMB then do
        let (b, p3) ← superBox f d (depth + 1) p2
        addChild dest b p3 (fun _ => loop f d depth dest p3)
      else if bh.name = UUID then do
        let ((u, buf), p3) ← (readUuid d p2 bh.size).mapErr .invalidUuid
        addChild dest (.uuid u buf) p3 (fun _ => loop f d depth dest p3)
      else if bh.name = BFDB then do
        let ((t, mt, fn), p3) ← (readBfdb d p2 bh.size).mapErr .invalidEmbedded
        addChild dest (.bfdb t mt fn) p3 (fun _ => loop f d depth dest p3)
      else match kindOf? bh.name with
        | some k => do
          let (buf, p3) ← (readData d p2 bh.size).mapErr k.err
          addChild dest (.leaf k buf) p3 (fun _ => loop f d depth dest p3)
        | none => do
          -- unknown box: skipped, and `continue` skips the position check
          let (h, q1) ← (readHeader d p2).mapErr .invalidBoxHeader
          if h.size = 0 then .err .invalidUnknown
          else
            let q2 ← reseek (h.size != bh.size) q1
            if bh.size < 8 then .err .invalidBoxHeader
            else
              let (_, q3) ← (readToVec d q2 (bh.size - 8)).mapErr .invalidBoxHeader
              loop f d depth dest q3
end

/-- `BoxReader::read_super_box` on `Cursor::new(x)`; the fuel is never exhausted
(`Props.C18.parse_total_depth_bounded`). -/
def parse (x : Bytes) : Res (Box × Nat) := superBox (x.length + 2) x 0 0

/-! ### line protocol -/

def fnv (bs : Bytes) : UInt64 :=
  bs.foldl (fun h b => (h ^^^ b.toUInt64) * 1099511628211) 14695981039346656037

def Err.str : Err → String
  | .tooDeep => "BoxNestingTooDeep"
  | .invalidBoxRange => "InvalidBoxRange"
  | .invalidJumbfHeader => "InvalidJumbfHeader"
  | .unexpectedEof => "UnexpectedEof"
  | .expectedJumd => "ExpectedJumdError"
  | .invalidJson => "InvalidJsonBox"
  | .invalidCbor => "InvalidCborBox"
  | .invalidJp2c => "InvalidJp2cBox"
  | .invalidUuid => "InvalidUuidBox"
  | .invalidEmbedded => "InvalidEmbeddedFileBox"
  | .invalidUnknown => "InvalidUnknownBox"
  | .invalidBoxHeader => "InvalidBoxHeader"
  | .io => "IoError"
  | .invalidJumbBox => "InvalidJumbBox"
  | .invalidDesc => "InvalidDescriptionBox"

def fourccStr (n : Nat) : String :=
  String.ofList ((be32 n).map fun b => Char.ofNat b.toNat)

def lenFnv (bs : Bytes) : String := toString bs.length ++ ":" ++ toString (fnv bs).toNat

def optHex : Option Bytes → String
  | some b => toHex b
  | none => "-"

mutual
def Box.dump : Box → String
  | .super d cs => "S" ++ toHex (serDesc d) ++ "[" ++ dumpList cs ++ "]"
  | .leaf k data => fourccStr k.fourcc ++ ":" ++ toString (data.length % 4294967296) ++ ":" ++ lenFnv data
  | .uuid u data => "uuid:" ++ toString ((16 + data.length) % 4294967296) ++ ":" ++ lenFnv (uuidPayload u data)
  | .bfdb t m fn => "bfdb:" ++ toString (bfdbPayload t m).length ++ ":" ++ toHex (bfdbPayload t m) ++ ":"
      ++ toHex (toRustStr m) ++ ":" ++ optHex (fn.map toRustStr)
def dumpList : List Box → String
  | [] => ""
  | [b] => b.dump
  | b :: bs => b.dump ++ "," ++ dumpList bs
end

def resStr {α : Type} (r : Res α) (f : α → String) : String :=
  match r with
  | .ok a => f a
  | .err e => "err " ++ e.str
  | .panic => "panic"
  | .oof => "oof"

def parseReply (x : Bytes) : String :=
  resStr (parse x) fun (b, e) =>
    let y := b.ser
    let dump := b.dump
    let re := match parse y with
      | .ok (b', e') =>
        let dump' := b'.dump
        if dump' = dump ∧ e' = y.length then "same" else "ok:" ++ toString e' ++ ":" ++ dump'
      | .err er => "err:" ++ er.str
      | .panic => "panic"
      | .oof => "oof"
    "ok end=" ++ toString e ++ " size=" ++ toString (b.size % 4294967296) ++ " tree=" ++ dump
      ++ " ser=" ++ lenFnv y ++ " re=" ++ re

/-! tree text → `Box` (protocol only) -/

def hexOpt (s : String) : Option Bytes := if s == "~" then none else fromHex? s

def leafKind? (c : Char) : Option Kind :=
  match c with
  | 'j' => some .json | 'c' => some .cbor | 'f' => some .free
  | 'p' => some .jp2c | 'b' => some .brob | 'd' => some .bidb
  | _ => none

/-- characters up to (not including) the first occurrence of `stop`; the rest after `stop` -/
def upTo (stop : Char) : List Char → List Char × List Char
  | [] => ([], [])
  | c :: cs => if c = stop then ([], cs) else let (a, r) := upTo stop cs; (c :: a, r)

def fieldsOf (cs : List Char) : List String := (String.ofList cs).splitOn ";"

partial def treeP : List Char → Option (Box × List Char)
  | 'S' :: '(' :: cs =>
    let (args, r) := upTo ')' cs
    match fieldsOf args, r with
    | [u, t, l, i, s, p], '[' :: r' =>
      let rec kids (r : List Char) (acc : List Box) : Option (List Box × List Char) :=
        match r with
        | ']' :: r'' => some (acc.reverse, r'')
        | ',' :: r'' => kids r'' acc
        | _ => match treeP r with
          | some (b, r'') => kids r'' (b :: acc)
          | none => none
      match kids r' [] with
      | some (cs', rest) =>
        some (.super ⟨(fromHex? u).getD [], UInt8.ofNat t.toNat!, (fromHex? l).getD [],
          (if i == "-" then none else some i.toNat!), hexOpt s, hexOpt p⟩ cs', rest)
      | none => none
    | _, _ => none
  | 'L' :: k :: '(' :: cs =>
    let (args, r) := upTo ')' cs
    match leafKind? k with
    | some kd => some (.leaf kd ((fromHex? (String.ofList args)).getD []), r)
    | none => none
  | 'U' :: '(' :: cs =>
    let (args, r) := upTo ')' cs
    match fieldsOf args with
    | [u, dt] => some (.uuid ((fromHex? u).getD []) ((fromHex? dt).getD []), r)
    | _ => none
  | 'M' :: '(' :: cs =>
    let (args, r) := upTo ')' cs
    match fieldsOf args with
    | [t, m, fn] => some (.bfdb (UInt8.ofNat t.toNat!) ((fromHex? m).getD []) (hexOpt fn), r)
    | _ => none
  | _ => none

def handle (toks : List String) : String :=
  match toks with
  | "parse" :: rest =>
    match fromHex? (field rest "data") with
    | some x => parseReply x
    | none => "bad-hex"
  | "tree" :: rest =>
    match treeP (field rest "t").toList with
    | some (b, _) =>
      let y := b.ser
      "bytes=" ++ lenFnv y ++ " size=" ++ toString (b.size % 4294967296) ++ " " ++ parseReply y
    | none => "bad-tree"
  | _ => "bad-op"

end C2pa.C18
