import C2paModel.Base
/-
C18 — model of the JUMBF box reader / writer

  sdk/src/jumbf/boxes.rs   BMFFBox::{box_size, write_box}, the `write_box_payload`/`box_payload_size`
                           impls of JUMBFSuperBox, JUMBFDescriptionBox, CAISaltContentBox, the content
                           boxes (json, cbor, free, jp2c, brob, bidb, uuid, bfdb) and
                           BoxReader::{read_header, read_desc_box, read_*_box, read_super_box_impl}
  sdk/src/utils/io_utils.rs ReaderUtils::read_to_vec

The reader is modelled on `Cursor<&[u8]>` exactly as `Store::from_jumbf_impl` uses it: an immutable
byte list `d` and a position `pos`.  `Cursor::read` returns `min(n, len - pos)` bytes,
`read_exact` fails at a short read, `seek(Current(-8))` fails below 0.

Modelling notes
* Every function returns `Res`: `ok`, `err e` (the `JumbfParseError` variant that leaves
  `read_super_box`), `panic` (an unchecked `-` that would underflow: `usub`; `start_pos + size` is `checked_add` since the repair) and `oof`
  (fuel exhausted; only `superBox`/`loop` take fuel).  `Props/C18` proves that `panic` and `oof`
  are unreachable from `parse`.
* Callers of the content-box readers replace any error by a fixed variant (`map_err(|_| …)`), so
  the readers' own error variants are not observable; they are still kept distinct where cheap.
* `read_desc_box`: `reader.read(&mut uuid)` returning 0 bytes gives `Ok(JUMBFDescriptionBox::new("", None))`
  whose empty label makes the caller return `UnexpectedEof`; every other error of `read_desc_box` is
  mapped to `UnexpectedEof` by the caller as well, so the model returns an error directly.  A short
  (1..15) read is at end of data, the following `read_exact` of the toggles fails.
* `CString` labels: `JUMBFDescriptionBox::from` gets the bytes before the first NUL; `label()`
  (`into_string().unwrap_or_default()`) and the writer's `to_str().unwrap_or_default().chars().count() > 0`
  are both "valid UTF-8 and non-empty" (`strNonEmpty`); `utf8Valid` is Rust's `str::from_utf8`
  (well-formed UTF-8, Unicode table 3-7) as a DFA.
* Writer sizes are `u32` in the code (`len as u32`, `8 + payload`); the model computes in `Nat` and
  encodes `mod 2^32`; `b.size < 2^32` is the hypothesis (in `Props/C18`) under which no truncation or
  `u32` overflow happens.
* Brotli: a compressed manifest is a `c2cm` super box with one `brob` leaf whose payload is opaque here.

Line protocol (lean/Drv/C18.lean ↔ harness/src/bin/c18.rs)
  parse data=<hex>   -> `err <class>` | `ok end=<pos> size=<box_size> tree=<dump> ser=<len>:<fnv64> re=<second pass>`
                        second pass (parse of the re-serialisation): `same` (identical dump and end = len),
                        `ok:<dump>` or `err:<class>`
  tree t=<tree>      -> `bytes=<len>:<fnv64> size=<box_size> ` ++ the `parse` reply for `ser t`
  dump:  super box `S<hex of serialised jumd box>[child,…]`; leaf `<fourcc>:<box_payload_size>:<written len>:<fnv64 written>`;
         bfdb `bfdb:<payload_size>:<hex payload>:<hex media_type()>:<hex file_name()|->`
  tree:  `S(<uuid>;<togs>;<label>;<id|->;<sig|~>;<salt|~>)[t,…]`, `L<fourcc-letter>(<hex>)`, `U(<uuid>;<hex>)`,
         `M(<togs>;<mt hex>;<fn hex|~>)`   (`~` = None, `-` = empty bytes)
         constructor forms (the SDK's own way of making boxes): `N(<uuid>;<label>;<salt|~>)[t,…]` =
         `JUMBFDescriptionBox::new(label, Some(uuid))` then `set_salt` (a refused salt leaves the box unchanged),
         `m(<mt hex>;<fn hex|~>)` = `JUMBFEmbeddedFileDescriptionBox::new(media_type, file_name)`.
         A malformed field (bad hex, non-numeric or out-of-range number, wrong arity, trailing text) gives `bad-tree`.
  mfrom data=<hex> dec=<hex|!|~> enc=<hex|~>
                     -> `err <class>` | `nosuper` | `ok c=<0|1> t=<m|u|d> tree=<dump> w=<len>:<fnv64>`:
                        `data` is read with `parse`; `CAIManifest::from` on the result, where Brotli is the table the
                        harness supplies (`dec` = decompressed payload of the first `brob` child (`-` = empty), `!` =
                        decompression fails, `~` = not asked; `enc` = compressed form of the manifest's
                        serialisation, `~` = not asked); `w` = what
                        `CAIManifest::write_box_payload` writes.
-/
namespace C2pa.C18

abbrev Bytes := List UInt8

inductive Err
  | tooDeep | invalidBoxRange | invalidJumbfHeader | unexpectedEof | expectedJumd
  | invalidJson | invalidCbor | invalidJp2c | invalidUuid | invalidEmbedded
  | invalidUnknown | invalidBoxHeader | io | invalidJumbBox | invalidDesc
  deriving DecidableEq, Repr

inductive Res (α : Type) where
  | ok (a : α)
  | err (e : Err)
  | panic
  | oof
  deriving Repr

@[inline] def Res.bind {α β : Type} : Res α → (α → Res β) → Res β
  | .ok a, f => f a
  | .err e, _ => .err e
  | .panic, _ => .panic
  | .oof, _ => .oof

instance : Monad Res where
  pure := .ok
  bind := Res.bind

/-- `.map_err(|_| e)` -/
def Res.mapErr {α : Type} (r : Res α) (e : Err) : Res α :=
  match r with
  | .err _ => .err e
  | x => x

/-- unchecked `a - b` on unsigned integers -/
def usub (a b : Nat) : Res Nat := if a < b then .panic else .ok (a - b)

/-! ### trees -/

structure Desc where
  uuid : Bytes
  toggles : UInt8
  label : Bytes
  boxId : Option Nat
  sig : Option Bytes
  salt : Option Bytes
  deriving DecidableEq, Repr

/-- content boxes that are "header + raw bytes" -/
inductive Kind | json | cbor | free | jp2c | brob | bidb
  deriving DecidableEq, Repr

inductive Box where
  | super (d : Desc) (children : List Box)
  | leaf (k : Kind) (data : Bytes)
  | uuid (u : Bytes) (data : Bytes)
  | bfdb (togs : UInt8) (mediaType : Bytes) (fileName : Option Bytes)
  deriving Repr

def JUMB : Nat := 0x6A756D62
def JUMD : Nat := 0x6A756D64
def C2SH : Nat := 0x63327368
def UUID : Nat := 0x75756964
def BFDB : Nat := 0x62666462

def Kind.fourcc : Kind → Nat
  | .json => 0x6A736F6E
  | .cbor => 0x63626F72
  | .free => 0x66726565
  | .jp2c => 0x6A703263
  | .brob => 0x62726F62
  | .bidb => 0x62696462

/-- the error the loop of `read_super_box_impl` substitutes for the kind's reader -/
def Kind.err : Kind → Err
  | .json => .invalidJson
  | .cbor => .invalidCbor
  | .free => .invalidCbor
  | .jp2c => .invalidJp2c
  | .brob => .invalidJp2c
  | .bidb => .invalidEmbedded

def kindOf? (n : Nat) : Option Kind :=
  if n = 0x6A736F6E then some .json
  else if n = 0x63626F72 then some .cbor
  else if n = 0x66726565 then some .free
  else if n = 0x6A703263 then some .jp2c
  else if n = 0x62726F62 then some .brob
  else if n = 0x62696462 then some .bidb
  else none

/-! ### bytes -/

/-- big-endian value -/
def be (bs : Bytes) : Nat := bs.foldl (fun a b => a * 256 + b.toNat) 0

/-- `write_u32::<BigEndian>(n as u32)` -/
def be32 (n : Nat) : Bytes :=
  [UInt8.ofNat (n / 16777216), UInt8.ofNat (n / 65536), UInt8.ofNat (n / 256), UInt8.ofNat n]

def slice (d : Bytes) (pos n : Nat) : Bytes := (d.drop pos).take n

/-! ### UTF-8 (Rust `core::str::from_utf8`) -/

inductive U8 | start | c1 | c2 | c3 | e0 | ed | f0 | f4 | bad
  deriving DecidableEq, Repr

def isCont (b : UInt8) : Bool := 0x80 ≤ b && b ≤ 0xBF

def U8.step (s : U8) (b : UInt8) : U8 :=
  match s with
  | .start =>
    if b < 0x80 then .start
    else if 0xC2 ≤ b && b ≤ 0xDF then .c1
    else if b = 0xE0 then .e0
    else if b = 0xED then .ed
    else if 0xE1 ≤ b && b ≤ 0xEF then .c2
    else if b = 0xF0 then .f0
    else if b = 0xF4 then .f4
    else if 0xF1 ≤ b && b ≤ 0xF3 then .c3
    else .bad
  | .c1 => if isCont b then .start else .bad
  | .c2 => if isCont b then .c1 else .bad
  | .c3 => if isCont b then .c2 else .bad
  | .e0 => if 0xA0 ≤ b && b ≤ 0xBF then .c1 else .bad
  | .ed => if 0x80 ≤ b && b ≤ 0x9F then .c1 else .bad
  | .f0 => if 0x90 ≤ b && b ≤ 0xBF then .c2 else .bad
  | .f4 => if 0x80 ≤ b && b ≤ 0x8F then .c2 else .bad
  | .bad => .bad

def utf8Valid (bs : Bytes) : Bool := bs.foldl U8.step .start == .start

/-- "converts to a non-empty `str`": `!label().is_empty()` on read, `chars().count() > 0` on write -/
def strNonEmpty (bs : Bytes) : Bool := !bs.isEmpty && utf8Valid bs

/-- `JUMBFEmbeddedFileDescriptionBox::to_rust_str` -/
def toRustStr (bs : Bytes) : Bytes :=
  let cut := bs.takeWhile (· ≠ 0)
  if utf8Valid cut then cut else []

/-! ### writer -/

/-- `CAISaltContentBox::write_box` -/
def serSalt (s : Bytes) : Bytes := be32 (8 + s.length) ++ be32 C2SH ++ s

def optBytes : Option Bytes → Bytes
  | some b => b
  | none => []

/-- `JUMBFDescriptionBox::write_box_payload` -/
def descPayload (d : Desc) : Bytes :=
  d.uuid ++ [d.toggles]
    ++ (if strNonEmpty d.label then d.label ++ [0] else [])
    ++ (match d.boxId with | some x => be32 x | none => [])
    ++ optBytes d.sig
    ++ (match d.salt with | some s => serSalt s | none => [])

/-- `JUMBFDescriptionBox::write_box` (size by `ByteCounter`) -/
def serDesc (d : Desc) : Bytes := be32 (8 + (descPayload d).length) ++ be32 JUMD ++ descPayload d

/-- `JUMBFEmbeddedFileDescriptionBox::write_box_payload` (the file name is never written) -/
def bfdbPayload (togs : UInt8) (mt : Bytes) : Bytes :=
  togs :: (if strNonEmpty mt then mt ++ [0] else [])

/-- `JUMBFUUIDContentBox::write_box_payload`: nothing at all when `data` is empty -/
def uuidPayload (u data : Bytes) : Bytes := if data.isEmpty then [] else u ++ data

mutual
/-- `box_size()` (in `Nat`) -/
def Box.size : Box → Nat
  | .super d cs => 8 + (8 + (descPayload d).length) + sizeList cs
  | .leaf _ data => 8 + data.length
  | .uuid _ data => 8 + (16 + data.length)
  | .bfdb t m _ => 8 + (bfdbPayload t m).length
def sizeList : List Box → Nat
  | [] => 0
  | b :: bs => b.size + sizeList bs
end

mutual
/-- `write_box` -/
def Box.ser : Box → Bytes
  | .super d cs => be32 (8 + (8 + (descPayload d).length) + sizeList cs) ++ be32 JUMB ++ serDesc d ++ serList cs
  | .leaf k data => be32 (8 + data.length) ++ be32 k.fourcc ++ data
  | .uuid u data => be32 (8 + (16 + data.length)) ++ be32 UUID ++ uuidPayload u data
  | .bfdb t m _ => be32 (8 + (bfdbPayload t m).length) ++ be32 BFDB ++ bfdbPayload t m
def serList : List Box → Bytes
  | [] => []
  | b :: bs => b.ser ++ serList bs
end

/-! ### the writer's own `u32` arithmetic (`box_size`, `box_payload_size`, `boxes_size!`) -/

/-- `u32` `+` (panics on overflow in a build with overflow checks, wraps otherwise) -/
def uadd (a b : Nat) : Res Nat := if a + b ≥ 4294967296 then .panic else .ok (a + b)

/-- `len as u32` -/
def asU32 (n : Nat) : Nat := n % 4294967296

mutual
/-- `box_size()` as the code computes it: `8 + box_payload_size()`, where the payload size of a super
box is `0 + desc_box.box_size() + boxes_size!(data_boxes)` and that of the other boxes a `usize`
length cast to `u32` -/
def Box.size32 : Box → Res Nat
  | .super d cs => do
    let ds ← uadd 8 (asU32 (descPayload d).length)
    let p ← uadd 0 ds
    let p ← if cs.isEmpty then .ok p else (do let k ← sizeList32 0 cs; uadd p k)
    uadd 8 p
  | .leaf _ data => uadd 8 (asU32 data.length)
  | .uuid _ data => uadd 8 (asU32 (16 + data.length))
  | .bfdb t m _ => uadd 8 (asU32 (bfdbPayload t m).length)
/-- `boxes_size!`: `size = 0; for b in boxes { size += b.box_size()? }` -/
def sizeList32 : Nat → List Box → Res Nat
  | acc, [] => .ok acc
  | acc, b :: bs => do
    let s ← b.size32
    let a ← uadd acc s
    sizeList32 a bs
end

/-! ### reader -/

structure Header where
  name : Nat
  size : Nat
  deriving DecidableEq, Repr

/-- `BoxReader::read_header`; `name = 0` is `BoxType::Empty` (also the result at end of data). -/
def readHeader (d : Bytes) (pos : Nat) : Res (Header × Nat) :=
  let avail := d.length - pos
  if avail = 0 then .ok (⟨0, 0⟩, pos)
  else if avail < 8 then .err .io
  else
    let size := be (slice d pos 4)
    let typ := be (slice d (pos + 4) 4)
    if size = 1 then
      if d.length - (pos + 8) < 8 then .err .io
      else .ok (⟨typ, be (slice d (pos + 8) 8)⟩, pos + 16)
    else .ok (⟨typ, size⟩, pos + 8)

/-- `unread_bytes(reader, HEADER_SIZE)` -/
def unread (pos : Nat) : Res Nat := if pos < 8 then .err .io else .ok (pos - 8)

/-- `if <header re-read differs> { unread_bytes(reader, HEADER_SIZE)?; }` ("we started w/o the header") -/
def reseek (differs : Bool) (pos : Nat) : Res Nat := if differs then unread pos else .ok pos

/-- `ReaderUtils::read_to_vec` (u64 `checked_add`, then the bound against the stream length) -/
def readToVec (d : Bytes) (pos n : Nat) : Res (Bytes × Nat) :=
  if pos + n ≥ 2 ^ 64 then .err .invalidBoxHeader
  else if pos + n > d.length then .err .invalidBoxHeader
  else .ok (slice d pos n, pos + n)

/-- `read_exact` of `n` bytes -/
def readExact (d : Bytes) (pos n : Nat) : Res (Bytes × Nat) :=
  if d.length - pos < n then .err .io else .ok (slice d pos n, pos + n)

/-- `read_exact` of one byte (the toggles) -/
def readByte (d : Bytes) (pos : Nat) : Res (UInt8 × Nat) :=
  match d.drop pos with
  | [] => .err .io
  | b :: _ => .ok (b, pos + 1)

/-- `read_json_box`, `read_cbor_box`, `read_padding_box`, `read_jp2c_box`, `read_brotli_box`,
`read_embedded_content_box` (identical bodies) -/
def readData (d : Bytes) (pos size : Nat) : Res (Bytes × Nat) := do
  let (h, p1) ← (readHeader d pos).mapErr .invalidBoxHeader
  if h.size = 0 then .ok ([], p1)
  else
    let p2 ← reseek (h.size != size) p1
    if size < 8 then .err .invalidBoxHeader
    else readToVec d p2 (size - 8)

def zeros16 : Bytes := List.replicate 16 0

/-- `read_uuid_box` -/
def readUuid (d : Bytes) (pos size : Nat) : Res ((Bytes × Bytes) × Nat) := do
  let (h, p1) ← (readHeader d pos).mapErr .invalidBoxHeader
  if h.size = 0 then .ok ((zeros16, []), p1)
  else
    let p2 ← reseek (h.size != size) p1
    let (u, p3) ← readExact d p2 16
    if size < 24 then .err .invalidBoxHeader
    else
      let (buf, p4) ← readToVec d p3 (size - 24)
      .ok ((u, buf), p4)

/-- the `match togs[0]` of `read_embedded_media_desc_box` -/
def splitMedia (togs : UInt8) (buf : Bytes) : Res (Bytes × Option Bytes) :=
  if togs = 1 then
    match buf.findIdx? (· = 0) with
    | some p => do
      let last ← usub buf.length 1
      if p ≠ last then .ok (buf, none)
      else .ok (buf.take p, some (buf.drop p))
    | none => .ok (buf, none)
  else
    if buf.getLast? = some 0 then .ok (buf.dropLast, none) else .ok (buf, none)

/-- `read_embedded_media_desc_box` -/
def readBfdb (d : Bytes) (pos size : Nat) : Res ((UInt8 × Bytes × Option Bytes) × Nat) :=
  if size < 9 then .err .invalidDesc
  else do
    let (h, p1) ← (readHeader d pos).mapErr .invalidBoxHeader
    if h.size = 0 then .ok ((0, [], none), p1)
    else
      let p2 ← reseek (h.size != size) p1
      let (togs, p3) ← readByte d p2
      let n ← (usub size 8).bind (usub · 1)
      let (buf, p4) ← readToVec d p3 n
      let (mt, fn) ← splitMedia togs buf
      .ok ((togs, mt, fn), p4)

/-- the label loop of `read_desc_box`: `rest` is the unread data, result = (label, bytes_left) -/
def readLabel : (rest : Bytes) → (bytesLeft : Nat) → Res (Bytes × Nat)
  | rest, bl =>
    if bl ≤ 8 then .err .invalidDesc
    else match rest with
      | [] => .err .io
      | b :: r => do
        let bl' ← usub bl 1
        if b = 0 then .ok ([], bl')
        else
          let (l, x) ← readLabel r bl'
          .ok (b :: l, x)

/-- the optional box id of `read_desc_box`: (id, bytes_left, pos) -/
def readBoxId (d : Bytes) (togs : UInt8) (p bl : Nat) : Res (Option Nat × Nat × Nat) :=
  if togs &&& 0x04 = 0x04 then do
    let (v, p') ← readExact d p 4
    let bl' ← usub bl 4
    .ok (some (be v), bl', p')
  else .ok (none, bl, p)

/-- the optional signature (hash) of `read_desc_box` -/
def readSig (d : Bytes) (togs : UInt8) (p bl : Nat) : Res (Option Bytes × Nat × Nat) :=
  if togs &&& 0x08 = 0x08 then do
    let (v, p') ← readExact d p 32
    if bl < 32 then .err .invalidDesc
    else .ok (some v, bl - 32, p')
  else .ok (none, bl, p)

/-- the optional private (salt) box of `read_desc_box` -/
def readSalt (d : Bytes) (togs : UInt8) (p bl : Nat) : Res (Option Bytes × Nat × Nat) :=
  if togs &&& 0x10 = 0x10 then do
    let (h, q1) ← (readHeader d p).mapErr .invalidBoxHeader
    if h.size = 0 then .err .invalidBoxHeader
    else
      let q2 ← reseek (bl < 8 || bl - 8 != h.size) q1
      if h.name ≠ C2SH then .err .invalidBoxHeader
      else if h.size < 8 then .err .invalidBoxHeader
      else
        let (buf, q3) ← readToVec d q2 (h.size - 8)
        if bl < h.size then .err .invalidBoxHeader
        else .ok (some buf, bl - h.size, q3)
  else .ok (none, bl, p)

/-- `read_desc_box(reader, size)` -/
def readDesc (d : Bytes) (pos size : Nat) : Res (Desc × Nat) :=
  if size < 26 then .err .invalidDesc
  else
    let k := min 16 (d.length - pos)
    if k = 0 then .err .unexpectedEof
    else do
      let bl ← usub size k
      let (togs, p1) ← readByte d (pos + k)
      let bl ← usub bl 1
      if togs &&& 0x03 ≠ 0x03 then .err .invalidDesc
      else
        let (label, bl) ← readLabel (d.drop p1) bl
        let (bxid, bl, p3) ← readBoxId d togs (p1 + label.length + 1) bl
        let (sig, bl, p4) ← readSig d togs p3 bl
        let (salt, bl, p5) ← readSalt d togs p4 bl
        if bl ≠ 8 then .err .invalidBoxHeader
        else .ok (⟨slice d pos 16, togs, label, bxid, sig, salt⟩, p5)

def MAX_JUMB_DEPTH : Nat := 32

/-- the `match current_pos` after a child box was added: continue? -/
def afterChild (dest p : Nat) : Res Bool :=
  if p = dest then .ok false
  else if p > dest then .err .invalidJumbBox
  else .ok true

/-- `sbox.add_data_box(next_box)` followed by the position check; `rest` is the remainder of the loop -/
def addChild (dest : Nat) (b : Box) (p3 : Nat) (rest : Unit → Res (List Box × Nat)) : Res (List Box × Nat) := do
  if ← afterChild dest p3 then
    let (cs, p4) ← rest ()
    .ok (b :: cs, p4)
  else .ok ([b], p3)

mutual
/-- `read_super_box_impl(reader, depth)` at position `pos` -/
def superBox : (fuel : Nat) → (d : Bytes) → (depth pos : Nat) → Res (Box × Nat)
  | 0, _, _, _ => .oof
  | f + 1, d, depth, pos =>
    if depth ≥ MAX_JUMB_DEPTH then .err .tooDeep
    else do
      let (jh, p1) ← (readHeader d pos).mapErr .invalidJumbfHeader
      if jh.name = 0 then .err .unexpectedEof
      else if jh.name ≠ JUMB then .err .invalidJumbfHeader
      else if pos + jh.size ≥ 2 ^ 64 then .err .invalidBoxRange
      else
        let dest := pos + jh.size
        let (dh, p2) ← (readHeader d p1).mapErr .expectedJumd
        if dh.name ≠ JUMD then .err .expectedJumd
        else
          let (desc, p3) ← (readDesc d p2 dh.size).mapErr .unexpectedEof
          if !strNonEmpty desc.label then .err .unexpectedEof
          else
            let (cs, p4) ← loop f d depth dest p3
            .ok (.super desc cs, p4)
/-- the `while found` loop; returns the children read from `pos` on and the final position -/
def loop : (fuel : Nat) → (d : Bytes) → (depth dest pos : Nat) → Res (List Box × Nat)
  | 0, _, _, _, _ => .oof
  | f + 1, d, depth, dest, pos => do
    let (bh, p1) ← (readHeader d pos).mapErr .invalidJumbfHeader
    if bh.name = 0 then
      -- found = false; the position check still runs
      if p1 > dest then .err .invalidJumbBox else .ok ([], p1)
    else
      let p2 ← unread p1
      if bh.name = JUMB then do
        let (b, p3) ← superBox f d (depth + 1) p2
        addChild dest b p3 (fun _ => loop f d depth dest p3)
      else if bh.name = UUID then do
        let ((u, buf), p3) ← (readUuid d p2 bh.size).mapErr .invalidUuid
        addChild dest (.uuid u buf) p3 (fun _ => loop f d depth dest p3)
      else if bh.name = BFDB then do
        let ((t, mt, fn), p3) ← (readBfdb d p2 bh.size).mapErr .invalidEmbedded
        addChild dest (.bfdb t mt fn) p3 (fun _ => loop f d depth dest p3)
      else match kindOf? bh.name with
        | some k => do
          let (buf, p3) ← (readData d p2 bh.size).mapErr k.err
          addChild dest (.leaf k buf) p3 (fun _ => loop f d depth dest p3)
        | none => do
          -- unknown box: skipped, and `continue` skips the position check
          let (h, q1) ← (readHeader d p2).mapErr .invalidBoxHeader
          if h.size = 0 then .err .invalidUnknown
          else
            let q2 ← reseek (h.size != bh.size) q1
            if bh.size < 8 then .err .invalidBoxHeader
            else
              let (_, q3) ← (readToVec d q2 (bh.size - 8)).mapErr .invalidBoxHeader
              loop f d depth dest q3
end

/-- `BoxReader::read_super_box` on `Cursor::new(x)`; the fuel is never exhausted
(`Props.C18.parse_total_depth_bounded`). -/
def parse (x : Bytes) : Res (Box × Nat) := superBox (x.length + 2) x 0 0

/-! ### constructors (`JUMBFDescriptionBox::new`, `set_salt`, `JUMBFEmbeddedFileDescriptionBox::new`) -/

/-- `CString::new(s).unwrap_or_default()`: a string with an interior NUL becomes the empty string -/
def cstringNew (s : Bytes) : Bytes := if (0 : UInt8) ∈ s then [] else s

/-- `JUMBFDescriptionBox::new(label, Some(uuid))` (the hex decoding of the UUID string is done by the
caller of the model; `unwrap_or([0; 16])` for a malformed string is the all-zero UUID) -/
def Desc.new (label uuid : Bytes) : Desc := ⟨uuid, 3, cstringNew label, none, none, none⟩

/-- `set_salt`: `Err(InvalidSalt)` below 16 bytes, otherwise the private box is set and the toggles
become 19 (whatever they were) -/
def Desc.setSalt (d : Desc) (salt : Bytes) : Option Desc :=
  if salt.length < 16 then none else some { d with salt := some salt, toggles := 19 }

/-- the harness ignores a refused salt (the box stays as it was) -/
def Desc.withSalt (d : Desc) : Option Bytes → Desc
  | none => d
  | some s => (d.setSalt s).getD d

/-- `JUMBFEmbeddedFileDescriptionBox::new(media_type, file_name)` -/
def bfdbNew (mt : Bytes) (fn : Option Bytes) : Box :=
  .bfdb (if fn.isSome then 1 else 0) (cstringNew mt) (fn.map cstringNew)

/-! ### manifest layer: `CAIManifest::{from, write_box_payload}`

`Store::from_jumbf_impl` reads the whole store with `read_super_box` and then turns every child super
box into a `CAIManifest` with `CAIManifest::from`, which *re-reads* it: from its own re-serialisation
(plain manifest) or from the Brotli-decompressed payload of its first child when that is a `brob` box
(whatever the UUID of the enclosing box is), in both cases with a fresh depth budget.  Brotli is a
parameter: `dec` (`BrotliDecompress` into the bounded writer; `none` = error or limit exceeded) and
`enc` (`BrotliCompress` with default parameters). -/

inductive MType | manifest | update | c2md
  deriving DecidableEq, Repr

structure Manifest where
  compressed : Bool
  mtype : MType
  store : Box
  deriving Repr

def hexU (s : String) : Bytes := (fromHex? s).getD []
def UUID_C2UM : Bytes := hexU "6332756d00110010800000aa00389b71"
def UUID_C2MD : Bytes := hexU "63326d6400110010800000aa00389b71"
def UUID_C2CM : Bytes := hexU "6332636d00110010800000aa00389b71"

def Box.descOf : Box → Option Desc
  | .super d _ => some d
  | _ => none

/-- the `manifest_type` computed by `CAIManifest::from`. The code compares
`store_box.desc_box.box_uuid()` with the update / c2md UUIDs, but `box_uuid()` is the `BMFFBox` trait
method of the description box — the constant `"jumd"` — not the `uuid()` getter, so neither comparison
can hold and the type is always `Manifest` (no effect on the bytes: the type only feeds
`CAIManifest::box_uuid()`; `Store::from_jumbf_impl` looks at `desc_box().uuid()` itself). -/
def mtypeOf (_ : Box) : MType := .manifest

/-- `sbox.data_box_as_brotli_box(0)` -/
def firstBrob : Box → Option Bytes
  | .super _ (.leaf .brob data :: _) => some data
  | _ => none

/-- `CAIManifest::from(sbox, max_manifest_size)` -/
def manifestFrom (dec : Bytes → Option Bytes) (sbox : Box) : Res Manifest :=
  match firstBrob sbox with
  | some data =>
    match dec data with
    | none => .err .io
    | some raw => do
      let (b, _) ← parse raw
      .ok ⟨true, mtypeOf b, b⟩
  | none => do
    let (b, _) ← parse sbox.ser
    .ok ⟨false, mtypeOf b, b⟩

/-- `desc_box().label()` (`into_string().unwrap_or_default()`) -/
def labelStr (l : Bytes) : Bytes := if utf8Valid l then l else []

/-- `CAIManifest::write_box_payload` -/
def manifestWrite (enc : Bytes → Bytes) (m : Manifest) : Bytes :=
  if m.compressed then
    match m.store.descOf with
    | some d => (Box.super (Desc.new (labelStr d.label) UUID_C2CM) [.leaf .brob (enc m.store.ser)]).ser
    | none => []
  else m.store.ser

/-- the manifest loop at the head of `Store::from_jumbf_impl`: every child of the store box must be a
super box (`data_box_as_superbox(idx).ok_or(JumbfBoxNotFound)`, reported here as `invalidJumbBox`) and
is turned into a `CAIManifest` -/
def childManifests (dec : Bytes → Option Bytes) : List Box → Res (List Manifest)
  | [] => .ok []
  | .super d cs :: rest => do
    let m ← manifestFrom dec (.super d cs)
    let ms ← childManifests dec rest
    .ok (m :: ms)
  | _ :: _ => .err .invalidJumbBox

/-- `read_super_box` on the whole buffer, then the manifest loop -/
def loadBoxes (dec : Bytes → Option Bytes) (x : Bytes) : Res (List Manifest) := do
  let (b, _) ← parse x
  match b with
  | .super _ cs => childManifests dec cs
  | _ => .err .invalidJumbBox

/-! ### line protocol -/

def fnv (bs : Bytes) : UInt64 :=
  bs.foldl (fun h b => (h ^^^ b.toUInt64) * 1099511628211) 14695981039346656037

def Err.str : Err → String
  | .tooDeep => "BoxNestingTooDeep"
  | .invalidBoxRange => "InvalidBoxRange"
  | .invalidJumbfHeader => "InvalidJumbfHeader"
  | .unexpectedEof => "UnexpectedEof"
  | .expectedJumd => "ExpectedJumdError"
  | .invalidJson => "InvalidJsonBox"
  | .invalidCbor => "InvalidCborBox"
  | .invalidJp2c => "InvalidJp2cBox"
  | .invalidUuid => "InvalidUuidBox"
  | .invalidEmbedded => "InvalidEmbeddedFileBox"
  | .invalidUnknown => "InvalidUnknownBox"
  | .invalidBoxHeader => "InvalidBoxHeader"
  | .io => "IoError"
  | .invalidJumbBox => "InvalidJumbBox"
  | .invalidDesc => "InvalidDescriptionBox"

def fourccStr (n : Nat) : String :=
  String.ofList ((be32 n).map fun b => Char.ofNat b.toNat)

def lenFnv (bs : Bytes) : String := toString bs.length ++ ":" ++ toString (fnv bs).toNat

def optHex : Option Bytes → String
  | some b => toHex b
  | none => "-"

mutual
def Box.dump : Box → String
  | .super d cs => "S" ++ toHex (serDesc d) ++ "[" ++ dumpList cs ++ "]"
  | .leaf k data => fourccStr k.fourcc ++ ":" ++ toString (data.length % 4294967296) ++ ":" ++ lenFnv data
  | .uuid u data => "uuid:" ++ toString ((16 + data.length) % 4294967296) ++ ":" ++ lenFnv (uuidPayload u data)
  | .bfdb t m fn => "bfdb:" ++ toString (bfdbPayload t m).length ++ ":" ++ toHex (bfdbPayload t m) ++ ":"
      ++ toHex (toRustStr m) ++ ":" ++ optHex (fn.map toRustStr)
def dumpList : List Box → String
  | [] => ""
  | [b] => b.dump
  | b :: bs => b.dump ++ "," ++ dumpList bs
end

def resStr {α : Type} (r : Res α) (f : α → String) : String :=
  match r with
  | .ok a => f a
  | .err e => "err " ++ e.str
  | .panic => "panic"
  | .oof => "oof"

def parseReply (x : Bytes) : String :=
  resStr (parse x) fun (b, e) =>
    let y := b.ser
    let dump := b.dump
    let re := match parse y with
      | .ok (b', e') =>
        let dump' := b'.dump
        if dump' = dump ∧ e' = y.length then "same" else "ok:" ++ toString e' ++ ":" ++ dump'
      | .err er => "err:" ++ er.str
      | .panic => "panic"
      | .oof => "oof"
    "ok end=" ++ toString e ++ " size=" ++ toString (b.size % 4294967296) ++ " tree=" ++ dump
      ++ " ser=" ++ lenFnv y ++ " re=" ++ re

/-! tree text → `Box` (protocol only) -/

def hexOpt (s : String) : Option Bytes := if s == "~" then none else fromHex? s

def leafKind? (c : Char) : Option Kind :=
  match c with
  | 'j' => some .json | 'c' => some .cbor | 'f' => some .free
  | 'p' => some .jp2c | 'b' => some .brob | 'd' => some .bidb
  | _ => none

/-- characters up to (not including) the first occurrence of `stop`; the rest after `stop` -/
def upTo (stop : Char) : List Char → List Char × List Char
  | [] => ([], [])
  | c :: cs => if c = stop then ([], cs) else let (a, r) := upTo stop cs; (c :: a, r)

def fieldsOf (cs : List Char) : List String := (String.ofList cs).splitOn ";"

def byteOf? (t : String) : Option UInt8 :=
  match t.toNat? with
  | some n => if n < 256 then some (UInt8.ofNat n) else none
  | none => none

/-- `-` = none, otherwise a decimal `u32` -/
def idOf? (i : String) : Option (Option Nat) :=
  if i == "-" then some none
  else match i.toNat? with
    | some n => if n < 4294967296 then some (some n) else none
    | none => none

/-- `~` = none, otherwise hex -/
def hexOpt? (s : String) : Option (Option Bytes) :=
  if s == "~" then some none else (fromHex? s).map some

partial def treeP : List Char → Option (Box × List Char)
  | 'S' :: '(' :: cs =>
    let (args, r) := upTo ')' cs
    match fieldsOf args, r with
    | [u, t, l, i, s, p], '[' :: r' => do
      let u ← fromHex? u
      let t ← byteOf? t
      let l ← fromHex? l
      let i ← idOf? i
      let s ← hexOpt? s
      let p ← hexOpt? p
      let (cs', rest) ← kids r' []
      some (.super ⟨u, t, l, i, s, p⟩ cs', rest)
    | _, _ => none
  | 'N' :: '(' :: cs =>
    let (args, r) := upTo ')' cs
    match fieldsOf args, r with
    | [u, l, p], '[' :: r' => do
      let u ← fromHex? u
      let l ← fromHex? l
      let p ← hexOpt? p
      let (cs', rest) ← kids r' []
      some (.super ((Desc.new l u).withSalt p) cs', rest)
    | _, _ => none
  | 'L' :: k :: '(' :: cs =>
    let (args, r) := upTo ')' cs
    match leafKind? k, fromHex? (String.ofList args) with
    | some kd, some x => some (.leaf kd x, r)
    | _, _ => none
  | 'U' :: '(' :: cs =>
    let (args, r) := upTo ')' cs
    match fieldsOf args with
    | [u, dt] => do
      let u ← fromHex? u
      let dt ← fromHex? dt
      some (.uuid u dt, r)
    | _ => none
  | 'M' :: '(' :: cs =>
    let (args, r) := upTo ')' cs
    match fieldsOf args with
    | [t, m, fn] => do
      let t ← byteOf? t
      let m ← fromHex? m
      let fn ← hexOpt? fn
      some (.bfdb t m fn, r)
    | _ => none
  | 'm' :: '(' :: cs =>
    let (args, r) := upTo ')' cs
    match fieldsOf args with
    | [m, fn] => do
      let m ← fromHex? m
      let fn ← hexOpt? fn
      some (bfdbNew m fn, r)
    | _ => none
  | _ => none
where
  kids (r : List Char) (acc : List Box) : Option (List Box × List Char) :=
    match r with
    | ']' :: r'' => some (acc.reverse, r'')
    | ',' :: r'' => kids r'' acc
    | _ => match treeP r with
      | some (b, r'') => kids r'' (b :: acc)
      | none => none

def mtypeStr : MType → String
  | .manifest => "m" | .update => "u" | .c2md => "d"

/-- the table the harness supplies for Brotli: `!` = failure, otherwise the bytes -/
def decOf (s : String) : Option (Bytes → Option Bytes) :=
  if s == "!" || s == "~" then some (fun _ => none)
  else (fromHex? s).map (fun b _ => some b)

def mfromReply (x : Bytes) (dec : Bytes → Option Bytes) (enc : Bytes → Bytes) : String :=
  resStr (parse x) fun (b, _) =>
    resStr (manifestFrom dec b) fun m =>
      "ok c=" ++ (if m.compressed then "1" else "0") ++ " t=" ++ mtypeStr m.mtype ++ " tree=" ++ m.store.dump
        ++ " w=" ++ lenFnv (manifestWrite enc m)

def handle (toks : List String) : String :=
  match toks with
  | "parse" :: rest =>
    match fromHex? (field rest "data") with
    | some x => parseReply x
    | none => "bad-hex"
  | "tree" :: rest =>
    match treeP (field rest "t").toList with
    | some (b, []) =>
      let y := b.ser
      "bytes=" ++ lenFnv y ++ " size=" ++ resStr b.size32 toString ++ " " ++ parseReply y
    | _ => "bad-tree"
  | "mfrom" :: rest =>
    match fromHex? (field rest "data"), decOf (field rest "dec"), hexOpt? (field rest "enc") with
    | some x, some dec, some enc => mfromReply x dec (fun _ => enc.getD [])
    | _, _, _ => "bad-req"
  | _ => "bad-op"

end C2pa.C18
