import C2paModel.Base
import C2paModel.Model.C18
/-
C02 — coverage structure of a manifest store.

Two layers.

**Layer A (abstract coverage).** What `Store::verify_store` / `Claim::verify_internal` /
`Store::ingredient_checks` compare (sdk/src/store.rs, sdk/src/claim.rs):
* the COSE signature is verified over the *original claim bytes* (idealisation **Sig-free**: a
  signature value is a free constructor `(key, signed bytes)`; it verifies only for exactly the
  bytes it was made over),
* every hashed URI of the claim (`created_assertions`/`gathered_assertions`/`assertions`) is
  compared with the hash of the *re-built* assertion box payload
  (`Claim::calc_assertion_box_hash`: label, content box, salt — idealisation **H-free**: a digest
  is its preimage),
* every assertion box present in the assertion store must be declared by the claim
  (`assertion.undeclared`),
* every ingredient assertion with an `activeManifest`/`c2pa_manifest` hashed URI is compared with
  the hash of the re-built manifest box payload of the referenced manifest
  (`Store::calc_manifest_box_hash`) and, when present, `claimSignature` with the re-built
  signature box (`Claim::calc_sig_box_hash`).
The CBOR decoding of the claim (which hashed URIs it declares) and of ingredient assertions
(which manifests they reference) are parameters `decl` / `refs`: functions of the covered bytes.

**Layer B (byte classes).** On the C18 JUMBF tree of the store bytes every byte position gets a
class (`Cls`). The *free* classes are the ones no signature or hash covers, because hashing runs
over re-built boxes: box length fields, description-box toggles, the label of the outermost
store box, and the `pad` entries of the unprotected COSE header of the active manifest. A change
of a byte of any other class must be detected; a change of a free byte is either detected (the
parser may reject it) or leaves the report unchanged. The correspondence run compares this
prediction with what the reader does for every byte of real stores.
-/
namespace C2pa.C02
open C2pa.C18

/-! ### layer A -/

/-- Sig-free: a signature value -/
structure Sig where
  key : Nat
  signed : Bytes
  deriving DecidableEq, Repr

structure HashedUri where
  label : String
  pre : Bytes          -- H-free: the preimage of the digest in the hashed URI
  deriving DecidableEq, Repr

structure AssertionBox where
  label : String
  body : Bytes         -- the re-built assertion box payload (`calc_assertion_box_hash` input)
  deriving DecidableEq, Repr

/-- what an ingredient assertion says about the manifest it points to -/
structure IngRef where
  target : String
  manifestPre : Bytes
  sigPre : Option Bytes
  deriving DecidableEq, Repr

structure Manifest where
  label : String
  claim : Bytes
  sig : Sig
  sigBox : Bytes       -- re-built signature box payload
  assertions : List AssertionBox
  body : Bytes         -- re-built manifest box payload (`calc_manifest_box_hash` input)
  deriving DecidableEq, Repr

inductive Failure
  | sigMismatch (m : String)
  | assertionMissing (m l : String)
  | assertionMismatch (m l : String)
  | assertionUndeclared (m l : String)
  | ingredientMissing (m t : String)
  | ingredientMismatch (m t : String)
  | ingredientSigMismatch (m t : String)
  deriving DecidableEq, Repr

/-- the decoders: functions of covered bytes -/
structure Dec where
  decl : Bytes → List HashedUri
  refs : Bytes → List IngRef

def findAssertion (l : String) : List AssertionBox → Option AssertionBox
  | [] => none
  | a :: as => if a.label = l then some a else findAssertion l as

def findManifest (l : String) : List Manifest → Option Manifest
  | [] => none
  | m :: ms => if m.label = l then some m else findManifest l ms

/-- `verify_internal`: signature over the claim bytes (the key is the one of the certificate in
the signature box; trust is C05) -/
def checkSig (m : Manifest) : List Failure :=
  if m.sig.signed = m.claim then [] else [.sigMismatch m.label]

def checkDeclared (m : Manifest) : List HashedUri → List Failure
  | [] => []
  | hu :: rest =>
    (match findAssertion hu.label m.assertions with
     | none => [.assertionMissing m.label hu.label]
     | some a => if a.body = hu.pre then [] else [.assertionMismatch m.label hu.label])
    ++ checkDeclared m rest

def checkUndeclared (m : Manifest) (decl : List HashedUri) : List AssertionBox → List Failure
  | [] => []
  | a :: rest =>
    (if decl.any (fun hu => hu.label == a.label) then [] else [.assertionUndeclared m.label a.label])
    ++ checkUndeclared m decl rest

def checkRefs (store : List Manifest) (m : Manifest) : List IngRef → List Failure
  | [] => []
  | r :: rest =>
    (match findManifest r.target store with
     | none => [.ingredientMissing m.label r.target]
     | some t =>
       (if t.body = r.manifestPre then [] else [.ingredientMismatch m.label r.target]) ++
       (match r.sigPre with
        | some s => if t.sigBox = s then [] else [.ingredientSigMismatch m.label r.target]
        | none => []))
    ++ checkRefs store m rest

def allRefs (dec : Dec) (m : Manifest) : List IngRef := m.assertions.flatMap fun a => dec.refs a.body

/-- every check on one manifest of the store -/
def verifyManifest (dec : Dec) (store : List Manifest) (m : Manifest) : List Failure :=
  checkSig m ++ checkDeclared m (dec.decl m.claim) ++ checkUndeclared m (dec.decl m.claim) m.assertions
    ++ checkRefs store m (allRefs dec m)

/-! ### layer B: byte classes on the JUMBF tree -/

inductive Cls
  | lbox        -- 4-byte length of a box (any level)
  | tbox        -- 4-byte type of a box
  | descHdr     -- length and type of a description box
  | descUuid    -- 16-byte type UUID of a description box
  | toggles     -- toggles byte of a description box
  | rootLabel   -- label of the outermost (store) box
  | label       -- label of any other box
  | claimVersion -- the characters after `c2pa.claim` in the label of a claim box (`.v2`): the
                --   reader takes the claim version from them; any suffix it accepts as the same
                --   version gives the same report
  | labelNul    -- NUL terminating a label
  | descExtra   -- box id / private signature field of a description box
  | salt        -- c2sh salt box inside a description box
  | content     -- payload of a content box (claim CBOR, assertion data, signature CBOR, …)
  | sigPad      -- `pad`/`pad2` entries (key text, CBOR head of the value, zero bytes) of the
                --   unprotected COSE header of the active manifest's signature
  deriving DecidableEq, Repr

/-- classes that no signature or hash covers -/
def Cls.free : Cls → Bool
  | .lbox | .toggles | .rootLabel | .claimVersion | .sigPad => true
  | _ => false

structure Seg where
  start : Nat
  len : Nat
  cls : Cls
  deriving DecidableEq, Repr

/-- `c2pa.claim` -/
def claimPrefix : Bytes := [99, 50, 112, 97, 46, 99, 108, 97, 105, 109]

def labelSegs (root : Bool) (off : Nat) (label : Bytes) : List Seg :=
  if strNonEmpty label then
    (if root then [⟨off, label.length, .rootLabel⟩]
     else if claimPrefix.isPrefixOf label then
       [⟨off, claimPrefix.length, .label⟩, ⟨off + claimPrefix.length, label.length - claimPrefix.length, .claimVersion⟩]
     else [⟨off, label.length, .label⟩])
      ++ [⟨off + label.length, 1, .labelNul⟩]
  else []

def labelLen (label : Bytes) : Nat := if strNonEmpty label then label.length + 1 else 0

/-- segments of a description box written at `off` (layout of `descPayload`) -/
def descSegs (root : Bool) (off : Nat) (d : Desc) : List Seg :=
  let p := off + 8
  [⟨off, 8, .descHdr⟩, ⟨p, d.uuid.length, .descUuid⟩, ⟨p + d.uuid.length, 1, .toggles⟩]
    ++ labelSegs root (p + d.uuid.length + 1) d.label
    ++ [⟨p + d.uuid.length + 1 + labelLen d.label,
          (match d.boxId with | some _ => 4 | none => 0) + (optBytes d.sig).length, .descExtra⟩,
        ⟨p + d.uuid.length + 1 + labelLen d.label
            + (match d.boxId with | some _ => 4 | none => 0) + (optBytes d.sig).length,
          (match d.salt with | some s => 8 + s.length | none => 0), .salt⟩]

mutual
/-- segments of a box serialised at `off` (layout of `Box.ser`) -/
def boxSegs (root : Bool) (off : Nat) : Box → List Seg
  | .super d cs =>
    [⟨off, 4, .lbox⟩, ⟨off + 4, 4, .tbox⟩] ++ descSegs root (off + 8) d
      ++ listSegs (off + 8 + (8 + (descPayload d).length)) cs
  | .leaf _ data => [⟨off, 4, .lbox⟩, ⟨off + 4, 4, .tbox⟩, ⟨off + 8, data.length, .content⟩]
  | .uuid _ data => [⟨off, 4, .lbox⟩, ⟨off + 4, 4, .tbox⟩, ⟨off + 8, 16 + data.length, .content⟩]
  | .bfdb t m _ => [⟨off, 4, .lbox⟩, ⟨off + 4, 4, .tbox⟩, ⟨off + 8, (bfdbPayload t m).length, .content⟩]
def listSegs (off : Nat) : List Box → List Seg
  | [] => []
  | b :: bs => boxSegs false off b ++ listSegs (off + b.size) bs
end

/-- offset and size of the last child super box of the store box (the active manifest) -/
def lastChildSpan (off : Nat) : List Box → Option (Nat × Nat)
  | [] => none
  | [b] => some (off, b.size)
  | b :: bs => lastChildSpan (off + b.size) bs

def activeSpan : Box → Option (Nat × Nat)
  | .super d cs => lastChildSpan (8 + (8 + (descPayload d).length)) cs
  | _ => none

/-- class of position `p` given the segments -/
def clsAt (segs : List Seg) (p : Nat) : Option Cls :=
  match segs.find? (fun s => s.start ≤ p && p < s.start + s.len) with
  | some s => some s.cls
  | none => none

def inRanges (rs : List (Nat × Nat)) (p : Nat) : Bool := rs.any fun r => r.1 ≤ p && p < r.1 + r.2

/-- final class: a `content` byte inside a pad range of the active manifest is `sigPad` -/
def classifyWith (segs : List Seg) (active : Option (Nat × Nat)) (pads : List (Nat × Nat)) (p : Nat) :
    Option Cls :=
  match clsAt segs p with
  | some .content =>
    let inActive := match active with
      | some (o, n) => decide (o ≤ p) && decide (p < o + n)
      | none => false
    if inActive && inRanges pads p then some .sigPad else some .content
  | other => other

def classify (t : Box) (pads : List (Nat × Nat)) (p : Nat) : Option Cls :=
  classifyWith (boxSegs true 0 t) (activeSpan t) pads p

/-- is observation `o` (`d` detected, `u` accepted with unchanged report, `-` position not
exercised in this run) allowed for the class? -/
def allowed (c : Cls) (o : Char) : Bool := o == '-' || o == 'd' || (o == 'u' && c.free)

/-! ### line protocol -/

def parseRange2 (s : String) : Option (Nat × Nat) :=
  match s.splitOn ":" with
  | [a, b] => match a.toNat?, b.toNat? with
    | some x, some y => some (x, y)
    | _, _ => none
  | _ => none

/-- `a-b:o` -/
def parseObs (s : String) : Option (Nat × Nat × Char) :=
  match s.splitOn ":" with
  | [r, o] => match r.splitOn "-", o.toList with
    | [a, b], [c] => match a.toNat?, b.toNat? with
      | some x, some y => some (x, y, c)
      | _, _ => none
    | _, _ => none
  | _ => none

def Cls.str : Cls → String
  | .lbox => "lbox" | .tbox => "tbox" | .descHdr => "descHdr" | .descUuid => "descUuid"
  | .toggles => "toggles" | .rootLabel => "rootLabel" | .label => "label" | .labelNul => "labelNul"
  | .descExtra => "descExtra" | .salt => "salt" | .content => "content" | .sigPad => "sigPad"
  | .claimVersion => "claimVersion"

/-- first violating position of one observation run -/
def checkRun (segs : List Seg) (active : Option (Nat × Nat)) (pads : List (Nat × Nat)) (a b : Nat)
    (o : Char) : Option String :=
  (List.range' a (b + 1 - a)).findSome? fun p =>
    match classifyWith segs active pads p with
    | none => some s!"{p}:unclassified:{o}"
    | some c => if allowed c o then none else some s!"{p}:{c.str}:{o}"

def coverReply (store : Bytes) (pads : List (Nat × Nat)) (obs : List (Nat × Nat × Char)) : String :=
  match parse store with
  | .ok (t, e) =>
    if e ≠ store.length then "trailing-bytes"
    else if t.ser ≠ store then "not-canonical"
    else
      let segs := (boxSegs true 0 t).filter (fun s => s.len != 0)
      let active := activeSpan t
      match obs.filterMap (fun (a, b, o) => checkRun segs active pads a b o) with
      | [] => "ok"
      | v :: vs => s!"violations={vs.length + 1} first={v}"
  | .err e => "parse-error:" ++ e.str
  | .panic => "parse-panic"
  | .oof => "parse-oof"

def failStr : Failure → String
  | .sigMismatch m => s!"sig:{m}"
  | .assertionMissing m l => s!"missing:{m}/{l}"
  | .assertionMismatch m l => s!"mismatch:{m}/{l}"
  | .assertionUndeclared m l => s!"undeclared:{m}/{l}"
  | .ingredientMissing m t => s!"ing-missing:{m}>{t}"
  | .ingredientMismatch m t => s!"ing-mismatch:{m}>{t}"
  | .ingredientSigMismatch m t => s!"ing-sig:{m}>{t}"

def handle (toks : List String) : String :=
  match toks with
  | "cover" :: rest =>
    let padsS := field rest "pads"
    let obsS := field rest "obs"
    match fromHex? (field rest "store"),
        (splitList (if padsS == "-" then "" else padsS) ",").mapM parseRange2,
        (splitList (if obsS == "-" then "" else obsS) ",").mapM parseObs with
    | some store, some pads, some obs => coverReply store pads obs
    | _, _, _ => "bad-request"
  | "oracle" :: _ => "oracle-only"
  | _ => "bad-op"

end C2pa.C02
