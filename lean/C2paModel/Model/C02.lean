import C2paModel.Base
import C2paModel.Model.C18
/-
C02 — coverage structure of a manifest store.

Two layers.

**Layer A (what the validator compares).** A branch-by-branch model of the comparisons made by
`Store::verify_store` → `Claim::verify_claim` / `Claim::verify_internal` (assertion loop,
sdk/src/claim.rs) and `Store::ingredient_checks` (sdk/src/store.rs), with the validation log in
`ErrorBehavior::ContinueWhenPossible` (what `Reader` uses): `failure(..)?` logs and continues,
only the hard `return Err(..)` / `ok_or_else(..)?` sites stop the walk.
* the COSE signature is verified over the *original claim bytes* (idealisation **Sig-free**: a
  signature value is a free constructor `(key, signed bytes)`; it verifies only for exactly the
  bytes it was made over),
* every hashed URI of the claim is split by the code into (label, instance)
  (`Claim::assertion_label_from_link`) and a target (relative / absolute with a manifest label /
  absolute and malformed); a URI outside this manifest is `assertion.outsideManifest`; one entry
  with the same (label, instance) is removed from the tracking copy of the assertion store
  (`ca_tracking_list`, `position` + `swap_remove`); the comparison is skipped exactly when a
  redaction of the store names this manifest *and* this (label, instance); otherwise the first box
  with that (label, instance) (`get_claim_assertion`) must exist (`assertion.missing`) and its
  re-built payload hash must equal the URI's hash (`assertion.hashedURI.mismatch`; idealisation
  **H-free**: a digest is its preimage),
* whatever is left in the tracking list is `assertion.undeclared`, and the function returns `Err`
  (the walk stops),
* for every ingredient assertion box (not zeroed by a redaction) with an `activeManifest` /
  `c2pa_manifest` hashed URI: the referenced manifest must be in the store
  (`ingredient.manifest.missing`); when no redaction *mentions* its label (substring test) the
  URI hash must equal the hash of the re-built manifest box, or — legacy — of the claim bytes
  (`ingredient.manifest.mismatch`); when a redaction mentions it and the referenced claim is v2+,
  `claimSignature` must be present (`ingredient.claimSignature.missing`, stops the walk) and equal
  the hash of the re-built signature box (`ingredient.claimSignature.mismatch`); when a redaction
  mentions it and the referenced claim is v1 **nothing is compared**; then the referenced claim is
  verified like the active one, and its own ingredients are walked once per store (`visited`),
  at most `MAX_INGREDIENT_DEPTH` deep.
The CBOR decoders (hashed URIs and redactions of a claim, ingredient fields of an assertion) are
the parameters `Dec`: functions of the covered bytes. The other rules of `verify_internal`
(update manifests, actions, metadata, …) belong to C19–C21 and are not repeated here.

**Layer B (byte classes).** On the C18 JUMBF tree of the store bytes every byte position gets a
class (`Cls`). The *free* classes are the ones no signature or hash covers, because hashing runs
over re-built boxes: box length fields, description-box toggles, the label of the outermost
store box, the version suffix of a claim box label, and the `pad` entries of the unprotected COSE
header inside the signature box of the active manifest. A change of a byte of any other class
must be detected; a change of a free byte is either detected (the parser may reject it) or leaves
the report unchanged. The correspondence run compares this prediction with what the reader does
for every byte of real stores.
-/
namespace C2pa.C02
open C2pa.C18

/-! ### layer A -/

/-- Sig-free: a signature value -/
structure Sig where
  key : Nat
  signed : Bytes
  /-- the payload slot of the COSE_Sign1 as found in the signature box: `none` = `nil` (detached,
  what every C2PA signer writes), `some p` = an embedded payload -/
  payload : Option Bytes := none
  deriving DecidableEq, Repr

/-- the bytes the to-be-signed structure is built over: `parse_cose_sign1` and
`Verifier::verify_signature` both overwrite the payload slot with the bytes of the claim box
(`sign1.payload = Some(data.to_vec())`) — an embedded payload is never used -/
def payloadUsed (_embedded : Option Bytes) (claim : Bytes) : Bytes := claim

/-- (label, instance) of an assertion: `Claim::assertion_label_from_link` of a URI, or
`label_raw()` / `instance()` of a box of the assertion store (`label__<n>`) -/
structure Key where
  label : String
  inst : Nat
  deriving DecidableEq, Repr

/-- where a hashed URI of the claim points -/
inductive Target
  | relative                 -- `self#jumbf=c2pa.assertions/…`
  | malformed                -- absolute, `manifest_label_from_uri` gives `None`
  | manifest (l : String)    -- absolute, `/c2pa/<l>/c2pa.assertions/…`
  deriving DecidableEq, Repr

structure HashedUri where
  target : Target
  key : Key
  pre : Bytes          -- H-free: the preimage of the digest in the hashed URI
  deriving DecidableEq, Repr

structure AssertionBox where
  key : Key
  body : Bytes         -- the re-built assertion box payload (`calc_assertion_box_hash` input)
  deriving DecidableEq, Repr

/-- a redacted-assertion URI of some claim of the store, as the code looks at it -/
structure Redaction where
  raw : String         -- the URI text (`r.contains(&label)` in `ingredient_checks`)
  manifest : String    -- `manifest_label_from_uri(r).unwrap_or_default()`
  key : Key            -- `Claim::assertion_label_from_link(r)`
  deriving DecidableEq, Repr

/-- the re-built manifest box payload (`Store::calc_manifest_box_hash` input): claim box,
signature box, assertion store and everything else inside the manifest box (databoxes, VC store,
unknown boxes) -/
structure Body where
  claim : Bytes
  sigBox : Bytes
  assertions : List AssertionBox
  extra : Bytes
  deriving DecidableEq, Repr

/-- H-free preimage of the digest in an ingredient's `activeManifest` / `c2pa_manifest` URI: a
manifest box (1.3+) or claim bytes (legacy) -/
inductive Pre
  | box (b : Body)
  | claim (c : Bytes)
  deriving DecidableEq, Repr

/-- what an ingredient assertion says about the manifest it points to -/
structure IngRef where
  zero : Bool          -- the assertion data is all zero (redacted ingredient): skipped
  target : String      -- `Store::manifest_label_from_path(c2pa_manifest.url())`
  manifestPre : Pre
  sigPre : Option Bytes  -- preimage of the `claimSignature` digest
  deriving DecidableEq, Repr

structure Manifest where
  label : String
  version : Nat        -- claim version (from the claim box label)
  claim : Bytes
  sigBox : Bytes       -- re-built signature box payload (`Claim::calc_sig_box_hash` input)
  assertions : List AssertionBox
  extra : Bytes
  deriving DecidableEq, Repr

def Manifest.body (m : Manifest) : Body := ⟨m.claim, m.sigBox, m.assertions, m.extra⟩

inductive Failure
  | sigMismatch (m : String)
  | assertionOutside (m : String) (k : Key)
  | assertionMissing (m : String) (k : Key)
  | assertionMismatch (m : String) (k : Key)
  | assertionUndeclared (m : String) (k : Key)
  | ingredientMissing (t : String)
  | ingredientMismatch (t : String)
  | ingredientSigMissing (t : String)
  | ingredientSigMismatch (t : String)
  | depthExceeded
  deriving DecidableEq, Repr

/-- the decoders: functions of covered bytes -/
structure Dec where
  sigOf : Bytes → Sig                -- the signature value inside a signature box (COSE_Sign1)
  decl : Bytes → List HashedUri      -- `claim.assertions()`
  reds : Bytes → List Redaction      -- `claim.redactions()`
  refs : Bytes → List IngRef         -- ingredient assertion with a `c2pa_manifest`: one entry

/-- `get_claim_assertion`: first box with that label and instance -/
def findBox (k : Key) : List AssertionBox → Option AssertionBox
  | [] => none
  | a :: as => if a.key = k then some a else findBox k as

/-- `ca_tracking_list.iter().position(..)` + `swap_remove`: one entry with that label and
instance leaves the tracking list (the first). `swap_remove` moves the last entry into the hole;
here the order is kept — only the order of the `assertion.undeclared` entries depends on it and
replies are compared as sorted lists. -/
def eraseKey (k : Key) : List AssertionBox → List AssertionBox
  | [] => []
  | a :: as => if a.key = k then as else a :: eraseKey k as

def findManifest (l : String) : List Manifest → Option Manifest
  | [] => none
  | m :: ms => if m.label = l then some m else findManifest l ms

/-- the redaction skip of the assertion loop: the redaction names this manifest and exactly this
label *and* instance -/
def redactedBy (reds : List Redaction) (ml : String) (k : Key) : Bool :=
  reds.any fun r => decide (r.manifest = ml) && decide (r.key = k)

/-- `verify_internal`: signature over the claim bytes (the key is the one of the certificate in
the signature box; trust is C05) -/
def checkSig (dec : Dec) (m : Manifest) : List Failure :=
  if (dec.sigOf m.sigBox).signed = payloadUsed (dec.sigOf m.sigBox).payload m.claim then []
  else [.sigMismatch m.label]

/-- one round of the assertion loop, without the tracking list -/
def uriFailures (reds : List Redaction) (m : Manifest) (hu : HashedUri) : List Failure :=
  match hu.target with
  | .malformed => [.assertionMismatch m.label hu.key]
  | t =>
    (match t with
     | .manifest l => if l = m.label then [] else [.assertionOutside m.label hu.key]
     | _ => [])
    ++ (if redactedBy reds m.label hu.key then []
        else match findBox hu.key m.assertions with
          | none => [.assertionMissing m.label hu.key]
          | some a => if a.body = hu.pre then [] else [.assertionMismatch m.label hu.key])

/-- the tracking list after the loop (a malformed URI `continue`s before the removal) -/
def track : List HashedUri → List AssertionBox → List AssertionBox
  | [], t => t
  | hu :: us, t => track us (if hu.target = .malformed then t else eraseKey hu.key t)

/-- log and "the function returned `Err` unconditionally" -/
structure Out where
  log : List Failure
  stop : Bool
  deriving DecidableEq, Repr

/-- `verify_claim` restricted to the comparisons listed in the header -/
def verifyClaim (dec : Dec) (reds : List Redaction) (m : Manifest) : Out :=
  let left := track (dec.decl m.claim) m.assertions
  ⟨checkSig dec m ++ (dec.decl m.claim).flatMap (uriFailures reds m)
      ++ left.map (fun a => .assertionUndeclared m.label a.key),
    !left.isEmpty⟩

/-- `needle` occurs in `hay` (`str::contains`) -/
def infixOf (needle : List Char) : List Char → Bool
  | [] => needle.isEmpty
  | c :: cs => needle.isPrefixOf (c :: cs) || infixOf needle cs

/-- `svi.redactions.iter().any(|r| r.contains(&label))` -/
def hasRed (reds : List Redaction) (l : String) : Bool :=
  reds.any fun r => infixOf l.toList r.raw.toList

/-- the hash comparisons of `ingredient_checks` for one reference `r` to the manifest `t` found
under `r.target` -/
def refFailures (reds : List Redaction) (r : IngRef) (t : Manifest) : Out :=
  if !hasRed reds r.target then
    ⟨if r.manifestPre = .box t.body ∨ r.manifestPre = .claim t.claim then []
       else [.ingredientMismatch r.target], false⟩
  else if t.version > 1 then
    match r.sigPre with
    | none => ⟨[.ingredientSigMissing r.target], true⟩
    | some s => ⟨if t.sigBox = s then [] else [.ingredientSigMismatch r.target], false⟩
  else ⟨[], false⟩

def allRefs (dec : Dec) (m : Manifest) : List IngRef :=
  (m.assertions.flatMap fun a => dec.refs a.body).filter fun r => !r.zero

/-- `MAX_INGREDIENT_DEPTH` (sdk/src/store.rs) -/
def maxDepth : Nat := 200

/-- state of the walk: log, stop flag, visited labels -/
structure Walk where
  log : List Failure
  stop : Bool
  visited : List String
  deriving Repr

/-- a `for` loop whose body may make the function return (`stop`) -/
def walkList (step : IngRef → Walk → Walk) : List IngRef → Walk → Walk
  | [], w => w
  | r :: rest, w => if w.stop then w else walkList step rest (step r w)

/-- one ingredient assertion of the loop of `Store::ingredient_checks`; `recurse` is the
recursive call for the ingredients of the referenced claim -/
def walkStep (dec : Dec) (store : List Manifest) (reds : List Redaction)
    (recurse : Manifest → Walk → Walk) (r : IngRef) (w : Walk) : Walk :=
  match findManifest r.target store with
  | none => { w with log := w.log ++ [.ingredientMissing r.target] }
  | some t =>
    let rf := refFailures reds r t
    if rf.stop then { w with log := w.log ++ rf.log, stop := true }
    else
      let vc := verifyClaim dec reds t
      let w1 : Walk := { w with log := w.log ++ rf.log ++ vc.log, stop := vc.stop }
      if w1.stop then w1
      else if w1.visited.contains t.label then w1
      else recurse t { w1 with visited := t.label :: w1.visited }

/-- `Store::ingredient_checks` for the ingredient references `refs` of the claim walked at
recursion depth `depth`; `fuel` only makes the recursion structural (it starts at `maxDepth + 1`;
the test `depth ≥ MAX_INGREDIENT_DEPTH` is made where the code makes it: on entry) -/
def walkRefs (dec : Dec) (store : List Manifest) (reds : List Redaction) :
    Nat → Nat → List IngRef → Walk → Walk
  | 0, _, _, w => { w with log := w.log ++ [.depthExceeded], stop := true }
  | fuel + 1, depth, refs, w =>
    if depth ≥ maxDepth then { w with log := w.log ++ [.depthExceeded], stop := true }
    else walkList (walkStep dec store reds
      (fun t w' => walkRefs dec store reds fuel (depth + 1) (allRefs dec t) w')) refs w

def reachList (step : IngRef → List String → List String) : List IngRef → List String → List String
  | [], seen => seen
  | r :: rest, seen => reachList step rest (step r seen)

/-- labels of the manifests reachable from a claim through ingredient references
(`get_claim_referenced_manifests`, first visit only), with the same depth bound -/
def reach (dec : Dec) (store : List Manifest) : Nat → List IngRef → List String → List String
  | 0, _, seen => seen
  | fuel + 1, refs, seen =>
    reachList (fun r seen' =>
      match findManifest r.target store with
      | none => seen'
      | some t =>
        if seen'.contains t.label then seen'
        else reach dec store fuel (t.assertions.flatMap fun a => dec.refs a.body) (t.label :: seen')) refs seen

/-- `svi.redactions`: the redactions of every claim reachable from the active one -/
def storeReds (dec : Dec) (store : List Manifest) (root : Manifest) : List Redaction :=
  let labels := reach dec store (maxDepth + 1) (root.assertions.flatMap fun a => dec.refs a.body) [root.label]
  labels.reverse.flatMap fun l =>
    match findManifest l store with
    | some t => dec.reds t.claim
    | none => []

/-- `Store::verify_store` without asset data: the active claim, then its ingredients -/
def verifyStoreWith (dec : Dec) (store : List Manifest) (reds : List Redaction) (root : Manifest) : Out :=
  let vc := verifyClaim dec reds root
  if vc.stop then vc
  else
    let w := walkRefs dec store reds (maxDepth + 1) 0 (allRefs dec root) ⟨vc.log, false, [root.label]⟩
    ⟨w.log, w.stop⟩

def verifyStore (dec : Dec) (store : List Manifest) (root : Manifest) : Out :=
  verifyStoreWith dec store (storeReds dec store root) root

/-! ### layer B: byte classes on the JUMBF tree -/

inductive Cls
  | lbox        -- 4-byte length of a box (any level)
  | tbox        -- 4-byte type of a box
  | descHdr     -- length and type of a description box
  | descUuid    -- 16-byte type UUID of a description box
  | toggles     -- toggles byte of a description box
  | rootLabel   -- label of the outermost (store) box
  | label       -- label of any other box
  | claimVersion -- the characters after `c2pa.claim` in the label of a claim box (`.v2`): the
                --   reader takes the claim version from them; any suffix it accepts as the same
                --   version gives the same report
  | labelNul    -- NUL terminating a label
  | descExtra   -- box id / private signature field of a description box
  | salt        -- c2sh salt box inside a description box
  | dataUuid    -- 16-byte type UUID of the description box of a child of a `c2pa.databoxes` or
                --   `c2pa.credentials` store: these children are looked up by label and their
                --   hash runs over the re-built box with the fixed UUID
  | credLabel   -- label of a child of a `c2pa.credentials` store: the re-built box is labelled with
                --   the credential's own `id`
  | dataContent -- payload of a content box of a databox (a child of a child of `c2pa.databoxes`)
  | cborStrHead -- CBOR head of a byte- or text-string item inside a databox: databoxes are hashed
                --   after being decoded and re-encoded, and the decoder takes a text string for a
                --   byte string and vice versa (major type 2 <-> 3, same length, UTF-8 content)
  | bfdbToggles -- toggles byte of an embedded-file description box (`bfdb`): re-generated
  | content     -- payload of a content box (claim CBOR, assertion data, signature CBOR, …)
  | sigPad      -- `pad`/`pad2` entries (key text, CBOR head of the value, zero bytes) of the
                --   unprotected COSE header of the active manifest's signature, and the `nil`
                --   detached-payload byte of that COSE_Sign1
  deriving DecidableEq, Repr

/-- classes that no signature or hash covers -/
def Cls.free : Cls → Bool
  | .lbox | .toggles | .rootLabel | .claimVersion | .sigPad | .dataUuid | .credLabel | .bfdbToggles
  | .cborStrHead => true
  | _ => false

structure Seg where
  start : Nat
  len : Nat
  cls : Cls
  deriving DecidableEq, Repr

/-- `c2pa.claim` -/
def claimPrefix : Bytes := [99, 50, 112, 97, 46, 99, 108, 97, 105, 109]

/-- `c2pa.signature` -/
def signatureLabel : Bytes := [99, 50, 112, 97, 46, 115, 105, 103, 110, 97, 116, 117, 114, 101]

/-- `c2pa.databoxes` -/
def databoxesLabel : Bytes := [99, 50, 112, 97, 46, 100, 97, 116, 97, 98, 111, 120, 101, 115]

/-- `c2pa.credentials` -/
def credentialsLabel : Bytes := [99, 50, 112, 97, 46, 99, 114, 101, 100, 101, 110, 116, 105, 97, 108, 115]

/-- where a box sits: the outermost store box, a direct child of a databox / credential store,
anything else -/
inductive Ctx | root | dataChild | dataInner | credChild | other
  deriving DecidableEq, Repr

/-- context of the children of a super box that sits in context `parent` and has label `label` -/
def childCtx (parent : Ctx) (label : Bytes) : Ctx :=
  if parent = .dataChild then .dataInner
  else if label = databoxesLabel then .dataChild else if label = credentialsLabel then .credChild else .other

def labelSegs (root cred : Bool) (off : Nat) (label : Bytes) : List Seg :=
  if strNonEmpty label then
    (if root then [⟨off, label.length, .rootLabel⟩]
     else if cred then [⟨off, label.length, .credLabel⟩]
     else if claimPrefix.isPrefixOf label then
       [⟨off, claimPrefix.length, .label⟩, ⟨off + claimPrefix.length, label.length - claimPrefix.length, .claimVersion⟩]
     else [⟨off, label.length, .label⟩])
      ++ [⟨off + label.length, 1, .labelNul⟩]
  else []

def labelLen (label : Bytes) : Nat := if strNonEmpty label then label.length + 1 else 0

/-- segments of a description box written at `off` (layout of `descPayload`) -/
def descSegs (ctx : Ctx) (off : Nat) (d : Desc) : List Seg :=
  let p := off + 8
  [⟨off, 8, .descHdr⟩,
    ⟨p, d.uuid.length, if ctx = .dataChild ∨ ctx = .credChild then .dataUuid else .descUuid⟩,
    ⟨p + d.uuid.length, 1, .toggles⟩]
    ++ labelSegs (decide (ctx = .root)) (decide (ctx = .credChild)) (p + d.uuid.length + 1) d.label
    ++ [⟨p + d.uuid.length + 1 + labelLen d.label,
          (match d.boxId with | some _ => 4 | none => 0) + (optBytes d.sig).length, .descExtra⟩,
        ⟨p + d.uuid.length + 1 + labelLen d.label
            + (match d.boxId with | some _ => 4 | none => 0) + (optBytes d.sig).length,
          (match d.salt with | some s => 8 + s.length | none => 0), .salt⟩]

mutual
/-- segments of a box serialised at `off` (layout of `Box.ser`) -/
def boxSegs (ctx : Ctx) (off : Nat) : Box → List Seg
  | .super d cs =>
    [⟨off, 4, .lbox⟩, ⟨off + 4, 4, .tbox⟩] ++ descSegs ctx (off + 8) d
      ++ listSegs (childCtx ctx d.label) (off + 8 + (8 + (descPayload d).length)) cs
  | .leaf _ data => [⟨off, 4, .lbox⟩, ⟨off + 4, 4, .tbox⟩,
      ⟨off + 8, data.length, if ctx = .dataInner then .dataContent else .content⟩]
  | .uuid _ data => [⟨off, 4, .lbox⟩, ⟨off + 4, 4, .tbox⟩, ⟨off + 8, 16 + data.length, .content⟩]
  | .bfdb t m _ => [⟨off, 4, .lbox⟩, ⟨off + 4, 4, .tbox⟩, ⟨off + 8, 1, .bfdbToggles⟩,
      ⟨off + 9, (bfdbPayload t m).length - 1, .content⟩]
def listSegs (ctx : Ctx) (off : Nat) : List Box → List Seg
  | [] => []
  | b :: bs => boxSegs ctx off b ++ listSegs ctx (off + b.size) bs
end

/-- offset and size of the last child super box of the store box (the active manifest) -/
def lastChildSpan (off : Nat) : List Box → Option (Nat × Nat)
  | [] => none
  | [b] => some (off, b.size)
  | b :: bs => lastChildSpan (off + b.size) bs

def lastChild : List Box → Option Box
  | [] => none
  | [b] => some b
  | _ :: bs => lastChild bs

def activeSpan : Box → Option (Nat × Nat)
  | .super d cs => lastChildSpan (8 + (8 + (descPayload d).length)) cs
  | _ => none

/-- offset and size of the first child super box labelled `l` among boxes laid out from `off` -/
def labelledSpan (l : Bytes) (off : Nat) : List Box → Option (Nat × Nat)
  | [] => none
  | .super d cs :: bs =>
    if d.label = l then some (off, (Box.super d cs).size) else labelledSpan l (off + (Box.super d cs).size) bs
  | b :: bs => labelledSpan l (off + b.size) bs

/-- offset and size of the `c2pa.signature` box of the active manifest -/
def sigSpan : Box → Option (Nat × Nat)
  | .super d cs =>
    match lastChildSpan (8 + (8 + (descPayload d).length)) cs, lastChild cs with
    | some (o, _), some (.super dm parts) => labelledSpan signatureLabel (o + 8 + (8 + (descPayload dm).length)) parts
    | _, _ => none
  | _ => none

/-- class of position `p` given the segments -/
def clsAt (segs : List Seg) (p : Nat) : Option Cls :=
  match segs.find? (fun s => s.start ≤ p && p < s.start + s.len) with
  | some s => some s.cls
  | none => none

def inRanges (rs : List (Nat × Nat)) (p : Nat) : Bool := rs.any fun r => r.1 ≤ p && p < r.1 + r.2

def inSpan (sp : Option (Nat × Nat)) (p : Nat) : Bool :=
  match sp with
  | some (o, n) => decide (o ≤ p) && decide (p < o + n)
  | none => false

/-- final class: a `content` byte inside a pad range *and* inside the span `sp` (the signature
box of the active manifest) is `sigPad` -/
def classifyWith (segs : List Seg) (sp : Option (Nat × Nat)) (pads : List (Nat × Nat))
    (heads : List Nat) (p : Nat) : Option Cls :=
  match clsAt segs p with
  | some .content => if inSpan sp p && inRanges pads p then some .sigPad else some .content
  | some .dataContent => if heads.contains p then some .cborStrHead else some .dataContent
  | other => other

/-- `heads`: positions handed in by the harness as CBOR heads of byte-string items of databoxes;
they count only inside databox content (`dataContent`) -/
def classify (t : Box) (pads : List (Nat × Nat)) (heads : List Nat) (p : Nat) : Option Cls :=
  classifyWith (boxSegs .root 0 t) (sigSpan t) pads heads p

/-- a byte that is the head of a CBOR byte or text string (major type 2 or 3) -/
def strHeadOk (store : Bytes) (p : Nat) : Bool :=
  match slice store p 1 with
  | [b] => b.toNat / 32 == 2 || b.toNat / 32 == 3
  | _ => false

/-- is observation `o` (`d` detected, `u` accepted with unchanged report, `-` position not
exercised in this run) allowed for the class? -/
def allowed (c : Cls) (o : Char) : Bool := o == '-' || o == 'd' || (o == 'u' && c.free)

/-! #### shape of the pad ranges handed in by the harness

The ranges come in pairs: the text of a map key `pad` / `pad2` (preceded by its CBOR head
`0x63` / `0x64`) and, directly after it, a byte-string value (head `0x40+n`, `0x58 n` or
`0x59 hi lo`) whose `n` bytes are all zero. Anything else is rejected (`bad-pads`). -/

def padKeyOk (store : Bytes) (r : Nat × Nat) : Bool :=
  r.1 ≥ 1 &&
  ((r.2 == 3 && slice store (r.1 - 1) 4 == [0x63, 112, 97, 100]) ||
   (r.2 == 4 && slice store (r.1 - 1) 5 == [0x64, 112, 97, 100, 50]))

def padValOk (store : Bytes) (r : Nat × Nat) : Bool :=
  match slice store r.1 r.2 with
  | b :: rest =>
    if 0x40 ≤ b.toNat ∧ b.toNat ≤ 0x57 then rest.length == b.toNat - 0x40 && rest.all (· == 0)
    else if b = 0x58 then
      match rest with
      | n :: z => z.length == n.toNat && z.all (· == 0)
      | [] => false
    else if b = 0x59 then
      match rest with
      | hi :: lo :: z => z.length == hi.toNat * 256 + lo.toNat && z.all (· == 0)
      | _ => false
    else false
  | [] => false

def padPairsOk (store : Bytes) : List (Nat × Nat) → Bool
  | [] => true
  | k :: v :: rest => padKeyOk store k && v.1 == k.1 + k.2 && padValOk store v && padPairsOk store rest
  | [_] => false

/-- the detached-payload `nil` (0xf6) of a COSE_Sign1, followed by the byte-string head of the
signature: the decoder reads `undefined` (0xf7) as `nil` too, and the payload field is not part of
what is signed. Handed in by the harness like the pad ranges and treated as one more pad byte. -/
def nilOk (store : Bytes) (p : Nat) : Bool :=
  match slice store p 2 with
  | [a, b] => a == 0xf6 && b.toNat / 32 == 2
  | _ => false

/-! ### line protocol -/

def parseRange2 (s : String) : Option (Nat × Nat) :=
  match s.splitOn ":" with
  | [a, b] => match a.toNat?, b.toNat? with
    | some x, some y => some (x, y)
    | _, _ => none
  | _ => none

/-- `a-b:o` -/
def parseObs (s : String) : Option (Nat × Nat × Char) :=
  match s.splitOn ":" with
  | [r, o] => match r.splitOn "-", o.toList with
    | [a, b], [c] => match a.toNat?, b.toNat? with
      | some x, some y => some (x, y, c)
      | _, _ => none
    | _, _ => none
  | _ => none

def Cls.str : Cls → String
  | .lbox => "lbox" | .tbox => "tbox" | .descHdr => "descHdr" | .descUuid => "descUuid"
  | .toggles => "toggles" | .rootLabel => "rootLabel" | .label => "label" | .labelNul => "labelNul"
  | .descExtra => "descExtra" | .salt => "salt" | .content => "content" | .sigPad => "sigPad"
  | .claimVersion => "claimVersion" | .dataUuid => "dataUuid" | .bfdbToggles => "bfdbToggles"
  | .credLabel => "credLabel" | .dataContent => "dataContent" | .cborStrHead => "cborStrHead"

/-- first violating position of one observation run -/
def checkRun (segs : List Seg) (sp : Option (Nat × Nat)) (pads : List (Nat × Nat)) (heads : List Nat)
    (a b : Nat) (o : Char) : Option String :=
  (List.range' a (b + 1 - a)).findSome? fun p =>
    match classifyWith segs sp pads heads p with
    | none => some s!"{p}:unclassified:{o}"
    | some c => if allowed c o then none else some s!"{p}:{c.str}:{o}"

def coverReply (store : Bytes) (pads0 : List (Nat × Nat)) (nils : List Nat) (heads : List Nat)
    (obs : List (Nat × Nat × Char)) : String :=
  let pads := pads0 ++ nils.map (fun p => (p, 1))
  match parse store with
  | .ok (t, e) =>
    if e ≠ store.length then "trailing-bytes"
    else if t.ser ≠ store then "not-canonical"
    else if !padPairsOk store pads0 then "bad-pads"
    else if !nils.all (nilOk store) then "bad-nils"
    else if !heads.all (strHeadOk store) then "bad-heads"
    else
      let segs := (boxSegs .root 0 t).filter (fun s => s.len != 0)
      let sp := sigSpan t
      match obs.filterMap (fun (a, b, o) => checkRun segs sp pads heads a b o) with
      | [] => "ok"
      | v :: vs => s!"violations={vs.length + 1} first={v}"
  | .err e => "parse-error:" ++ e.str
  | .panic => "parse-panic"
  | .oof => "parse-oof"

def Key.str (k : Key) : String := s!"{k.label}#{k.inst}"

def failStr : Failure → String
  | .sigMismatch m => s!"sig:{m}"
  | .assertionOutside m k => s!"outside:{m}/{k.str}"
  | .assertionMissing m k => s!"missing:{m}/{k.str}"
  | .assertionMismatch m k => s!"mismatch:{m}/{k.str}"
  | .assertionUndeclared _ k => s!"undeclared:{k.str}"
  | .ingredientMissing t => s!"ing-missing:{t}"
  | .ingredientMismatch t => s!"ing-mismatch:{t}"
  | .ingredientSigMissing t => s!"ing-sig-missing:{t}"
  | .ingredientSigMismatch t => s!"ing-sig:{t}"
  | .depthExceeded => "depth"

/-! #### `verify`: a real store described to layer A

`store=<manifest>|<manifest>|…` (store order, active last), one manifest
`L=<label>;V=<version>;D=<claim id>;S=<id of the claim bytes the signature value was made over>;P=<id of the payload embedded in the COSE_Sign1|->;SH=<signature box id>;BH=<manifest box id>;A=<uri>,…;T=<box>,…;R=<redaction>,…`
with `<uri>` = `<r|x|m^<label>>~<label>~<inst>~<hash id>`, `<box>` =
`<label>~<inst>~<hash id>~<-|<zero 0/1>^<target>^<manifest hash id>^<sig hash id|->>`,
`<redaction>` = `<raw uri>~<manifest>~<label>~<inst>`; ids are hex. Under H-free an id stands for
its preimage: the hash id in an ingredient reference is read as "the manifest box of the manifest
whose `BH` it equals", else as claim bytes. -/

structure PManifest where
  m : Manifest
  signed : Bytes
  embedded : Option Bytes
  bh : Bytes
  uris : List HashedUri
  reds : List Redaction
  boxRefs : List (Bytes × Bool × String × Bytes × Option Bytes)   -- per ingredient box: body id, zero, target, manifest id, sig id

def parseKey (l i : String) : Option Key := i.toNat?.map fun n => ⟨l, n⟩

def parseUri (s : String) : Option HashedUri :=
  match s.splitOn "~" with
  | [t, l, i, h] =>
    let tgt : Option Target :=
      if t == "r" then some .relative else if t == "x" then some .malformed
      else match t.splitOn "^" with
        | ["m", ml] => some (.manifest ml)
        | _ => none
    match tgt, parseKey l i, fromHex? h with
    | some tg, some k, some hb => some ⟨tg, k, hb⟩
    | _, _, _ => none
  | _ => none

def parseRed (s : String) : Option Redaction :=
  match s.splitOn "~" with
  | [raw, ml, l, i] => (parseKey l i).map fun k => ⟨raw, ml, k⟩
  | _ => none

def parseBox (s : String) : Option (AssertionBox × Option (Bool × String × Bytes × Option Bytes)) :=
  match s.splitOn "~" with
  | [l, i, h, r] =>
    match parseKey l i, fromHex? h with
    | some k, some hb =>
      if r == "-" then some (⟨k, hb⟩, none)
      else match r.splitOn "^" with
        | [z, tgt, mh, sh] =>
          match fromHex? mh, (if sh == "-" then some none else (fromHex? sh).map some) with
          | some mhb, some shb => some (⟨k, hb⟩, some (z == "1", tgt, mhb, shb))
          | _, _ => none
        | _ => none
    | _, _ => none
  | _ => none

def listField (s : String) : List String := splitList (if s == "-" then "" else s) ","

def parseManifest (s : String) : Option PManifest :=
  let fs := s.splitOn ";"
  match fromHex? (field fs "D"), fromHex? (field fs "S"), fromHex? (field fs "SH"), fromHex? (field fs "BH"),
      (field fs "V").toNat?, (listField (field fs "A")).mapM parseUri, (listField (field fs "T")).mapM parseBox,
      (listField (field fs "R")).mapM parseRed with
  | some d, some sg, some sh, some bh, some v, some uris, some boxes, some reds =>
    some {
      m := ⟨field fs "L", v, d, sh, boxes.map (·.1), bh⟩
      signed := sg
      embedded := (let e := field fs "P"; if e == "" || e == "-" then none else fromHex? e)
      bh := bh
      uris := uris
      reds := reds
      boxRefs := boxes.filterMap fun (a, r) => r.map fun (z, t, mh, sh) => (a.body, z, t, mh, sh) }
  | _, _, _, _, _, _, _, _ => none

/-- the decoders of a described store: tables keyed by the ids -/
def decOf (ps : List PManifest) : Dec where
  sigOf := fun sb => match ps.find? (fun p => p.m.sigBox == sb) with
    | some p => ⟨0, p.signed, p.embedded⟩
    | none => ⟨0, [], none⟩
  decl := fun c => match ps.find? (fun p => p.m.claim == c) with
    | some p => p.uris
    | none => []
  reds := fun c => match ps.find? (fun p => p.m.claim == c) with
    | some p => p.reds
    | none => []
  refs := fun b =>
    match (ps.flatMap (·.boxRefs)).find? (fun r => r.1 == b) with
    | some (_, z, t, mh, sh) =>
      let pre := match ps.find? (fun p => p.bh == mh) with
        | some p => Pre.box p.m.body
        | none => Pre.claim mh
      [⟨z, t, pre, sh⟩]
    | none => []

def insertSorted (s : String) : List String → List String
  | [] => [s]
  | x :: xs => if s < x then s :: x :: xs else if s = x then x :: xs else x :: insertSorted s xs

def verifyReply (storeS : String) : String :=
  match (storeS.splitOn "|").mapM parseManifest with
  | none => "bad-request"
  | some ps =>
    match lastChild' ps with
    | none => "no-active"
    | some root =>
      let o := verifyStore (decOf ps) (ps.map (·.m)) root.m
      let fs := (o.log.map failStr).foldr insertSorted []
      (if o.stop then "err " else "ok ") ++ (if fs.isEmpty then "-" else ",".intercalate fs)
where
  lastChild' : List PManifest → Option PManifest
    | [] => none
    | [p] => some p
    | _ :: ps => lastChild' ps

def handle (toks : List String) : String :=
  match toks with
  | "cover" :: rest =>
    let padsS := field rest "pads"
    let obsS := field rest "obs"
    let headsS := field rest "heads"
    let nilsS := field rest "nils"
    match fromHex? (field rest "store"),
        (splitList (if padsS == "-" then "" else padsS) ",").mapM parseRange2,
        (splitList (if headsS == "-" then "" else headsS) ",").mapM (·.toNat?),
        (splitList (if nilsS == "-" || nilsS == "" then "" else nilsS) ",").mapM (·.toNat?),
        (splitList (if obsS == "-" then "" else obsS) ",").mapM parseObs with
    | some store, some pads, some heads, some nils, some obs => coverReply store pads nils heads obs
    | _, _, _, _, _ => "bad-request"
  | "verify" :: rest => verifyReply (field rest "store")
  | "oracle" :: _ => "oracle-only"
  | _ => "bad-op"

end C2pa.C02
