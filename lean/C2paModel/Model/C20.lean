import C2paModel.Model.C34
/-
C20 / C21 — model of the redaction and update-manifest rules of the validator and of the
redaction routines of the signer:

* `Claim::verify_internal`         (`verifyInternal`): signature status, self / actions / hash
  redaction tests *by substring exactly as coded*, parent count, update-manifest rules
  (allowed actions, thumbnail count, parent count), multiple parents, the assertion loop
  (tracking list, outside-manifest test, redaction skip, hashed-URI comparison, missing),
  undeclared assertions (returns `Err`), and rule 2.d of `verify_actions` (`c2pa.redacted`
  parameter must resolve).
* `Store::ingredient_checks`       (`ingChecks`): zero skip, v3-needs-results, `has_redactions`
  by substring, manifest box hash / legacy hash, the claimSignature path, `verify_claim` on the
  ingredient, visited set, recursion.
* `Store::get_claim_referenced_manifests` (`gcrm`): redactions and the manifest map.
* `Store::get_hash_binding_manifest`      (`hbm`).
* `Store::verify_store` without asset data (`verifyStore`).
* `Claim::redact_assertion` (`redactAssertion`), `Claim::add_ingredient_data`
  (`addIngredientData`), the post-check of `Builder::to_claim` (`builderPostCheck`),
  `Store::manifest_differs_by_redaction` (`differsByRedaction`).

The status tracker is in its default mode (`ContinueWhenPossible`, what `Reader` uses):
`failure(..)?` logs and continues, `failure_as_err` / explicit `return Err` abort.
URI parsing is the C34 model of `jumbf::labels` (panic layer `P = Option`; a panic makes the
whole result `none`). Hashes are opaque strings compared for equality.
-/
namespace C2pa.C20
open C2pa.C34

inductive Kind | success | info | failure
  deriving DecidableEq, Repr

/-- one logged item: status code, kind, and whether an ingredient URI was pushed
(`validation_log.push_ingredient_uri`) when it was logged -/
structure Ev where
  code : Str
  kind : Kind
  ing : Bool
  deriving DecidableEq, Repr

def fail (c : String) (ing : Bool) : Ev := ⟨c.toList, .failure, ing⟩
def succ (c : String) (ing : Bool) : Ev := ⟨c.toList, .success, ing⟩
def info (c : String) (ing : Bool) : Ev := ⟨c.toList, .info, ing⟩

inductive Rel | parentOf | componentOf | inputTo
  deriving DecidableEq, Repr

/-- `HashedUri` -/
structure HU where
  url : Str
  hash : Str
  deriving DecidableEq, Repr

/-- what the walkers read from a parsed ingredient assertion -/
structure IngD where
  rel : Rel
  /-- `version()` (`None` is not produced by the parser of this tree; kept as a number) -/
  version : Nat
  hasResults : Bool
  /-- `c2pa_manifest()` (v3: `active_manifest`) -/
  target : Option HU
  /-- `signature()` (`claim_signature`) -/
  claimSig : Option HU
  deriving DecidableEq, Repr

/-- one action: name, and `parameters`: `none` = no parameters, `some r` = parameters whose
`redacted` member is `r` -/
structure Act where
  name : Str
  params : Option (Option Str)
  deriving DecidableEq, Repr

inductive Payload
  | other
  /-- in `action_assertions()`; parsed actions -/
  | actions (acts : List Act)
  /-- in `ingredient_assertions()`; `none` = `Ingredient::from_assertion` fails -/
  | ingredient (d : Option IngD)
  /-- in `hash_assertions()` -/
  | hash
  deriving DecidableEq, Repr

/-- `ClaimAssertion` in the assertion store -/
structure CA where
  /-- `label_raw()` -/
  label : Str
  inst : Nat
  hash : Str
  /-- `is_zero(assertion.data())` -/
  zero : Bool
  payload : Payload
  deriving DecidableEq, Repr

structure Claim where
  label : Str
  version : Nat
  update : Bool
  /-- the COSE signature verifies over the claim bytes -/
  sigOk : Bool
  /-- `claim.assertions()` -/
  assertions : List HU
  /-- `claim.claim_assertion_store()` -/
  store : List CA
  /-- `claim.redactions()` -/
  redactions : Option (List Str)
  /-- `databoxes()` as opaque (url, digest) pairs -/
  databoxes : List (Str × Str) := []
  /-- current manifest box hash, signature box hash (`get_manifest_box_hashes`), hash of the
  claim bytes (pre-1.3 ingredient hash), and the claim bytes / signature themselves as opaque
  strings (only compared by `manifest_differs_by_redaction`) -/
  boxHash : Str
  sigHash : Str
  dataHash : Str
  data : Str := []
  sig : Str := []
  deriving DecidableEq, Repr

abbrev Store := List Claim

def getClaim (s : Store) (l : Str) : Option Claim := s.find? (·.label == l)

/-! ### constants -/

def cActions : Str := "c2pa.actions".toList
def hashLabels : List Str :=
  ["c2pa.hash.data".toList, "c2pa.hash.boxes".toList, "c2pa.hash.bmff".toList,
   "c2pa.hash.collection.data".toList]
def allowedUpdateActions : List Str :=
  ["c2pa.edited.metadata".toList, "c2pa.opened".toList, "c2pa.published".toList,
   "c2pa.redacted".toList]
def cRedacted : Str := "c2pa.redacted".toList
def cIngredientLabel : Str := "c2pa.ingredient".toList
def cHashPrefix : Str := "c2pa.hash.".toList

/-! ### typed views of the assertion store -/

def CA.ing? (a : CA) : Option (Option IngD) :=
  match a.payload with | .ingredient d => some d | _ => none

def CA.acts? (a : CA) : Option (List Act) :=
  match a.payload with | .actions l => some l | _ => none

def CA.isHash (a : CA) : Bool :=
  match a.payload with | .hash => true | _ => false

/-- `ingredient_assertions()` -/
def ingAssertions (c : Claim) : List (CA × Option IngD) :=
  c.store.filterMap fun a => a.ing?.map fun d => (a, d)

/-- `action_assertions()` -/
def actionAssertions (c : Claim) : List (List Act) := c.store.filterMap CA.acts?

/-- `hash_assertions()` is non-empty -/
def hasHash (c : Claim) : Bool := c.store.any CA.isHash

/-- `labels::HASH_LABELS.iter().any(|l| claim.has_assertion_type(l))`: the label of some
assertion of the store starts with a hard-binding label (created or gathered, any suffix) -/
def hasBindingLabel (c : Claim) : Bool :=
  c.store.any fun a => hashLabels.any fun h => h.isPrefixOf a.label

/-- number of ingredient assertions that parse and are `parentOf` -/
def parentCount (c : Claim) : Nat :=
  ((ingAssertions c).filter fun p =>
    match p.2 with | some d => d.rel == .parentOf | none => false).length

/-! ### `verify_internal`, rule blocks -/

/-- self / actions / hash redactions, tested by substring as the code does -/
def redactionRulesFor (label : Str) (ing : Bool) (r : Str) : List Ev :=
  (if containsSub label r then [fail "assertion.selfRedacted" ing] else []) ++
  (if containsSub cActions r then [fail "assertion.action.redacted" ing] else []) ++
  (if hashLabels.any (fun l => containsSub l r) then [fail "assertion.dataHash.redacted" ing] else [])

def redactionRules (c : Claim) (ing : Bool) : List Ev :=
  match c.redactions with
  | none => []
  | some rs => rs.flatMap (redactionRulesFor c.label ing)

def disallowedActionEvents (c : Claim) (ing : Bool) : List Ev :=
  (actionAssertions c).flatMap fun acts =>
    acts.flatMap fun a =>
      if allowedUpdateActions.any (· == a.name) then [] else [fail "manifest.update.invalid" ing]

def thumbCount (c : Claim) : Nat := (c.store.filter fun a => containsSub cClaimThumb a.label).length

def updateParentEvents (n : Nat) (ing : Bool) : List Ev :=
  match n with
  | 0 => [fail "manifest.update.wrongParents" ing]
  | 1 => []
  | _ => [fail "manifest.update.invalid" ing]

/-- update-manifest rules / multiple parents -/
def manifestRules (c : Claim) (ing : Bool) : List Ev :=
  if c.update then
    disallowedActionEvents c ing ++
    (if thumbCount c > 1 then [fail "manifest.update.invalid" ing] else []) ++
    (if hasBindingLabel c then [fail "manifest.update.invalid" ing] else []) ++
    updateParentEvents (parentCount c) ing
  else if parentCount c > 1 then [fail "manifest.multipleParents" ing] else []

/-- `ca_tracking_list.iter().position(..)` + `swap_remove` (as a multiset: one match removed) -/
def eraseKey (l : Str) (i : Nat) : List CA → List CA
  | [] => []
  | a :: as => if a.label == l && a.inst == i then as else a :: eraseKey l i as

/-- `get_claim_assertion(label, instance)` -/
def findCA (c : Claim) (l : Str) (i : Nat) : Option CA :=
  c.store.find? fun a => a.label == l && a.inst == i

/-- a parsed redaction of `svi.redactions`: manifest label (`unwrap_or_default`) and
`assertion_label_from_link` -/
structure RedKey where
  manifest : Str
  label : Str
  inst : Nat
  deriving DecidableEq, Repr

def parseRedaction (r : Str) : P RedKey := do
  let m ← manifestLabelFromUri r
  let (l, i) ← assertionLabelFromLink r
  pure ⟨m.getD [], l, i⟩

def parseRedactions : List Str → P (List RedKey)
  | [] => some []
  | r :: rs => do
    let k ← parseRedaction r
    let ks ← parseRedactions rs
    pure (k :: ks)

/-- "we can skip if this is a redacted assertion" -/
def isRedacted (keys : List RedKey) (claimLabel l : Str) (i : Nat) : Bool :=
  keys.any fun k => k.manifest == claimLabel && k.label == l && k.inst == i

/-- a hashed URI of the claim with its parses -/
structure Ref where
  hu : HU
  label : Str
  inst : Nat
  /-- `manifest_label_from_uri(url)`; `none` = relative -/
  manifest : Option Str
  deriving DecidableEq, Repr

def parseRef (h : HU) : P Ref := do
  let (l, i) ← assertionLabelFromLink h.url
  let m ← manifestLabelFromUri h.url
  pure ⟨h, l, i, m⟩

def parseRefs : List HU → P (List Ref)
  | [] => some []
  | h :: hs => do
    let r ← parseRef h
    let rs ← parseRefs hs
    pure (r :: rs)

/-- "make sure the assertion points to this assertion store" -/
def outsideEvents (c : Claim) (ing : Bool) (r : Ref) : List Ev :=
  match r.manifest with
  | some m => if m != c.label then [fail "assertion.outsideManifest" ing] else []
  | none => []

/-- one iteration of the assertion loop: events and the new tracking list -/
def assertionStep (c : Claim) (keys : List RedKey) (ing : Bool) (track : List CA) (r : Ref) :
    List Ev × List CA :=
  let outside := outsideEvents c ing r
  let track' := eraseKey r.label r.inst track
  if isRedacted keys c.label r.label r.inst then (outside, track')
  else
    match findCA c r.label r.inst with
    | some ca =>
      if ca.hash != r.hu.hash then (outside ++ [fail "assertion.hashedURI.mismatch" ing], track')
      else (outside ++ [succ "assertion.hashedURI.match" ing], track')
    | none => (outside ++ [fail "assertion.missing" ing], track')

def assertionLoop (c : Claim) (keys : List RedKey) (ing : Bool) :
    List Ref → List CA → List Ev × List CA
  | [], track => ([], track)
  | r :: rs, track =>
    let (e, t) := assertionStep c keys ing track r
    let (es, t') := assertionLoop c keys ing rs t
    (e ++ es, t')

/-- rule 2.d of `verify_actions`: the `redacted` parameter of a `c2pa.redacted` action -/
def redactedParamTest (c : Claim) (map : List Claim) (uri : Str) : P (Option Bool) := do
  match ← manifestLabelFromUri uri with
  | none => pure none
  | some il =>
    match map.find? (·.label == il) with
    | none => pure none
    | some ic =>
      match ← assertionLabelFromUri uri with
      | none => pure (some false)
      | some rl =>
        let inAssertions := ic.assertions.any fun a => containsSub rl a.url
        let inRedacted := containsSub cDataboxes uri &&
          (match c.redactions with | some rs => rs.contains uri | none => false)
        pure (some (inAssertions || inRedacted))

def redactedActionEvents (c : Claim) (map : List Claim) (ing : Bool) (a : Act) : P (List Ev) :=
  if a.name == cRedacted then
    match a.params with
    | none => pure []
    | some p => do
      let t ← (match p with
        | some uri => redactedParamTest c map uri
        | none => pure none : P (Option Bool))
      match t with
      | none => pure [fail "assertion.action.redactionMismatch" ing]
      | some false => pure [fail "assertion.notRedacted" ing]
      | some true => pure []
  else pure []

def actsEvents (c : Claim) (map : List Claim) (ing : Bool) : List Act → P (List Ev)
  | [] => some []
  | a :: as => do
    let e ← redactedActionEvents c map ing a
    let es ← actsEvents c map ing as
    pure (e ++ es)

def actionsEvents (c : Claim) (map : List Claim) (ing : Bool) : List (List Act) → P (List Ev)
  | [] => some []
  | l :: ls => do
    let e ← actsEvents c map ing l
    let es ← actionsEvents c map ing ls
    pure (e ++ es)

/-- `verify_actions` as far as redactions go: for a version-1 claim it returns before rule 2.d
unless `verify.strict_v1_validation` is set (`Reader`'s default: not set) -/
def actionsFor (c : Claim) (map : List Claim) (ing : Bool) : P (List Ev) :=
  if c.version == 1 then some [] else actionsEvents c map ing (actionAssertions c)

/-- result of a validation step: the log (oldest first) and whether it returned `Err` -/
structure Out where
  log : List Ev
  err : Bool
  deriving DecidableEq, Repr

def sigEvents (c : Claim) (ing : Bool) : List Ev :=
  if c.sigOk then [succ "claimSignature.insideValidity" ing, succ "claimSignature.validated" ing]
  else [fail "claimSignature.mismatch" ing]

/-- `Claim::verify_claim` = signature status + `verify_internal`.
`reds` = `svi.redactions`, `map` = the claims of `svi.manifest_map`. -/
def verifyClaim (c : Claim) (reds : List Str) (map : List Claim) (ing : Bool) : P Out := do
  let keys ← parseRedactions reds
  let refs ← parseRefs c.assertions
  let head := sigEvents c ing ++ redactionRules c ing ++ manifestRules c ing
  let (loopEv, track) := assertionLoop c keys ing refs c.store
  if !track.isEmpty then
    pure ⟨head ++ loopEv ++ track.map (fun _ => fail "assertion.undeclared" ing), true⟩
  else
    let av ← actionsFor c map ing
    pure ⟨head ++ loopEv ++ av, false⟩

/-! ### `get_claim_referenced_manifests` (redactions, manifest map) -/

/-- `Store::manifest_label_from_path` -/
def labelFromPath (url : Str) : P Str := do
  match ← manifestLabelFromUri url with
  | some l => pure l
  | none => pure url

structure GSt where
  reds : List Str := []
  /-- labels of `svi.manifest_map` in insertion order -/
  map : List Str := []
  log : List Ev := []
  deriving DecidableEq, Repr

inductive GRes
  | ok (st : GSt)
  | err (st : GSt)
  | panic
  deriving DecidableEq, Repr

mutual
/-- `get_claim_referenced_manifests_impl`; `path` = `claim_label_path` -/
def gcrm (s : Store) : Nat → Claim → List Str → GSt → GRes
  | 0, _, _, st => .err st
  | fuel + 1, c, path, st =>
    if st.map.contains c.label then .ok st
    else
      let st1 : GSt := { st with reds := st.reds ++ c.redactions.getD [], map := st.map ++ [c.label] }
      gLoop s fuel c (c.label :: path) (ingAssertions c) st1

def gLoop (s : Store) : Nat → Claim → List Str → List (CA × Option IngD) → GSt → GRes
  | _, _, _, [], st => .ok st
  | fuel, c, path, (_, d) :: rest, st =>
    match d with
    | none => .err st
    | some d =>
      match d.target with
      | none => gLoop s fuel c path rest st
      | some t =>
        match labelFromPath t.url with
        | none => .panic
        | some il =>
          match getClaim s il with
          | none =>
            gLoop s fuel c path rest { st with log := st.log ++ [fail "ingredient.manifest.missing" false] }
          | some ic =>
            if path.contains ic.label then
              .err { st with log := st.log ++ [fail "assertion.ingredient.malformed" false] }
            else
              match gcrm s fuel ic path st with
              | .ok st' => gLoop s fuel c path rest st'
              | r => r
end

/-! ### `get_hash_binding_manifest` -/

mutual
def hbm (s : Store) : Nat → Claim → List Str → P (Option Str)
  | 0, _, _ => some none
  | fuel + 1, c, visited =>
    if visited.contains c.label then some none
    else if !c.update && hasHash c then some (some c.label)
    else hbScan s fuel (c.label :: visited) (ingAssertions c)

def hbScan (s : Store) : Nat → List Str → List (CA × Option IngD) → P (Option Str)
  | _, _, [] => some none
  | fuel, visited, (_, d) :: rest =>
    match d with
    | none => some none
    | some d =>
      if d.rel == .parentOf then
        match d.target with
        | none => hbScan s fuel visited rest
        | some t =>
          match manifestLabelFromUri t.url with
          | none => none
          | some none => some none
          | some (some pl) =>
            match getClaim s pl with
            | none => hbScan s fuel visited rest
            | some p =>
              if p.update then hbm s fuel p visited
              else if hasHash p then some (some p.label)
              else hbScan s fuel visited rest
      else hbScan s fuel visited rest
end

/-! ### `ingredient_checks` -/

/-- checks on one ingredient edge before `verify_claim` of the ingredient: events and `Err` -/
def edgeCheck (reds : List Str) (il : Str) (d : IngD) (t : HU) (ic : Claim) : Out :=
  let hasRed := reds.any fun r => containsSub il r
  let boxEq := t.hash == ic.boxHash
  let pre := !hasRed && !boxEq
  let mm := if !hasRed then (if !boxEq then t.hash == ic.dataHash else true) else false
  let e1 := if mm && !pre then [succ "ingredient.manifest.validated" true] else []
  let e2 := if !mm && !hasRed then [fail "ingredient.manifest.mismatch" true] else []
  if !mm && hasRed && ic.version > 1 then
    match d.claimSig with
    | none => ⟨e1 ++ e2 ++ [fail "ingredient.claimSignature.missing" true], true⟩
    | some cs =>
      if cs.hash == ic.sigHash then ⟨e1 ++ e2 ++ [info "ingredient.claimSignature.validated" true], false⟩
      else ⟨e1 ++ e2 ++ [fail "ingredient.claimSignature.mismatch" true], false⟩
  else ⟨e1 ++ e2, false⟩

structure ISt where
  visited : List Str
  log : List Ev
  deriving DecidableEq, Repr

inductive IRes
  | ok (st : ISt)
  | err (st : ISt)
  | panic
  deriving DecidableEq, Repr

mutual
def ingChecks (s : Store) (reds : List Str) (map : List Claim) : Nat → Claim → ISt → IRes
  | 0, _, st => .err st
  | fuel + 1, c, st => iLoop s reds map fuel (ingAssertions c) st

def iLoop (s : Store) (reds : List Str) (map : List Claim) :
    Nat → List (CA × Option IngD) → ISt → IRes
  | _, [], st => .ok st
  | fuel, (a, d) :: rest, st =>
    if a.zero then iLoop s reds map fuel rest st
    else
      match d with
      | none => .err { st with log := st.log ++ [fail "assertion.ingredient.malformed" false] }
      | some d =>
        match d.target with
        | none =>
          let e := if d.rel != .inputTo then [info "ingredient.unknownProvenance" true] else []
          iLoop s reds map fuel rest { st with log := st.log ++ e }
        | some t =>
          let e0 := if d.version ≥ 3 && !d.hasResults then [fail "assertion.ingredient.malformed" true] else []
          match labelFromPath t.url with
          | none => .panic
          | some il =>
            match getClaim s il with
            | none =>
              iLoop s reds map fuel rest
                { st with log := st.log ++ e0 ++ [fail "ingredient.manifest.missing" true] }
            | some ic =>
              let ec := edgeCheck reds il d t ic
              if ec.err then .err { st with log := st.log ++ e0 ++ ec.log }
              else
                match verifyClaim ic reds map true with
                | none => .panic
                | some vc =>
                  let st1 : ISt := { st with log := st.log ++ e0 ++ ec.log ++ vc.log }
                  if vc.err then .err st1
                  else if st1.visited.contains ic.label then iLoop s reds map fuel rest st1
                  else
                    match ingChecks s reds map fuel ic { st1 with visited := st1.visited ++ [ic.label] } with
                    | .ok st2 => iLoop s reds map fuel rest st2
                    | r => r
end

/-! ### `verify_store` (no asset data) -/

def fuelFor (s : Store) : Nat := s.length + 2

def verifyStore (s : Store) : P Out :=
  match s.getLast? with
  | none => some ⟨[fail "claim.missing" false], true⟩
  | some root =>
    match gcrm s (fuelFor s) root [] {} with
    | .panic => none
    | .err g => some ⟨g.log, true⟩
    | .ok g =>
      match hbm s (fuelFor s) root [] with
      | none => none
      | some none => some ⟨g.log ++ [fail "claim.hardBindings.missing" false], true⟩
      | some (some _) =>
        let map := g.map.filterMap (getClaim s)
        match verifyClaim root g.reds map false with
        | none => none
        | some vc =>
          if vc.err then some ⟨g.log ++ vc.log, true⟩
          else
            match ingChecks s g.reds map (fuelFor s) root ⟨[root.label], g.log ++ vc.log⟩ with
            | .panic => none
            | .err st => some ⟨st.log, true⟩
            | .ok st => some ⟨st.log, false⟩

/-! ### the signer's side: `redact_assertion`, `add_ingredient_data`, builder post-check -/

inductive RErr | invalidRedaction | notFound
  deriving DecidableEq, Repr

/-- first index whose `label_with_instance(label_raw, instance)` equals the target -/
def erasePos (target : Str) : List CA → P (Option (List CA))
  | [] => some none
  | a :: as => do
    let k ← labelWithInstance a.label a.inst
    if k == target then pure (some as)
    else
      match ← erasePos target as with
      | some r => pure (some (a :: r))
      | none => pure none

/-- databoxes: first whose normalized url equals the target -/
def eraseBox (target : Str) : List (Str × Str) → P (Option (List (Str × Str)))
  | [] => some none
  | b :: bs => do
    let k ← toNormalizedUri b.1
    if k == target then pure (some bs)
    else
      match ← eraseBox target bs with
      | some r => pure (some (b :: r))
      | none => pure none

/-- the data-box branch of `Claim::redact_assertion` -/
def redactDatabox (c : Claim) (uri : Str) : P (Except RErr Claim) := do
  match ← boxNameFromUri uri with
  | none => pure (.error .notFound)
  | some bn =>
    let target ← toNormalizedUri (toDataboxUri c.label bn)
    match ← eraseBox target c.databoxes with
    | some bs => pure (.ok { c with databoxes := bs })
    | none => pure (.error .notFound)

/-- `Claim::redact_assertion` -/
def redactAssertion (c : Claim) (uri : Str) : P (Except RErr Claim) := do
  let (l, i) ← assertionLabelFromLink uri
  if cActions.isPrefixOf l || cHashPrefix.isPrefixOf l then pure (.error .invalidRedaction)
  else
    let m ← manifestLabelFromUri uri
    if (match m with | some ml => ml != c.label | none => false) then pure (.error .notFound)
    else if containsSub cAssertions uri then
      let target ← labelWithInstance l i
      match ← erasePos target c.store with
      | some st => pure (.ok { c with store := st })
      | none => pure (.error .notFound)
    else if containsSub cDataboxes uri then redactDatabox c uri
    else pure (.error .notFound)

/-- replace the first claim of the batch whose label occurs in the redaction URI -/
def redactInBatch (uri : Str) : List Claim → P (Except RErr (Option (List Claim)))
  | [] => some (.ok none)
  | c :: cs =>
    if containsSub c.label uri then do
      match ← redactAssertion c uri with
      | .ok c' => pure (.ok (some (c' :: cs)))
      | .error e => pure (.error e)
    else do
      match ← redactInBatch uri cs with
      | .ok (some r) => pure (.ok (some (c :: r)))
      | .ok none => pure (.ok none)
      | .error e => pure (.error e)

/-- the redaction loop of `add_ingredient_data`: batch after the redactions, applied list -/
def applyRedactions : List Str → List Claim → P (Except RErr (List Claim × List Str))
  | [], batch => some (.ok (batch, []))
  | r :: rs, batch => do
    match ← redactInBatch r batch with
    | .error e => pure (.error e)
    | .ok none => applyRedactions rs batch
    | .ok (some batch') =>
      match ← applyRedactions rs batch' with
      | .error e => pure (.error e)
      | .ok (b, ap) => pure (.ok (b, r :: ap))

/-- `Claim::add_ingredient_data` as far as redactions go: new `redacted_assertions` of the
claim and the redacted batch -/
def addIngredientData (self : Option (List Str)) (batch : List Claim) (reqs : Option (List Str)) :
    P (Except RErr (Option (List Str) × List Claim)) := do
  match ← applyRedactions (reqs.getD []) batch with
  | .error e => pure (.error e)
  | .ok (b, ap) =>
    let self' := match self with
      | some ex => some (ex ++ ap)
      | none => if ap.isEmpty then none else some ap
    pure (.ok (self', b))

/-- "Verify all requested redactions were applied to some ingredient" (`Builder::to_claim`) -/
def builderPostCheck (applied : Option (List Str)) (reqs : Option (List Str)) : Bool :=
  match reqs with
  | none => true
  | some rs => rs.all fun r => (applied.getD []).contains r

/-- `ClaimAssertion::label()` -/
def CA.fullLabel (a : CA) : P Str := labelWithInstance a.label a.inst

def diffUris (label : Str) : List CA → P (List Str)
  | [] => some []
  | a :: as => do
    let l ← a.fullLabel
    let r ← diffUris label as
    pure (toAssertionUri label l :: r)

/-- `Store::manifest_differs_by_redaction`: the assertion-store differences as a list (the
code iterates a hash set; the result is compared as a set) -/
def differsByRedaction (c1 c2 : Claim) (reds : List Str) : P (Option (List Str)) :=
  if c1.data != c2.data then some none
  else if c1.sig != c2.sig then some none
  else if c1.databoxes != c2.databoxes then some none
  else do
    let d1 := c1.store.filter fun a => !c2.store.contains a
    let d2 := c2.store.filter fun a => !c1.store.contains a
    let uris ← diffUris c1.label (d1 ++ d2)
    if uris.all fun u => reds.contains u then pure (some uris) else pure none

def sortStrs (l : List String) : List String := l.mergeSort (fun a b => decide (a ≤ b))

/-! ### `ValidationResults::from_store`: which logged statuses reach the results

`from_store` turns every logged item into a `ValidationStatus` and drops those "already
captured in an ingredient assertion". The ingredient assertions compared against are those of
*every* claim of the store, i.e. they are written by the signers of the manifests under
validation (the active one included). The filter as coded (after the repair
`fixes/C20-from-store-active-claim-status-filter.patch`; before it the first disjunct of
`keep` was missing and a disallowed redaction or a hard-binding mismatch of an update manifest
could be suppressed by its own signer):

    if statuses.iter().any(|s| !is_active_manifest(s.url())) {
        statuses.retain(|s| s.ingredient_uri().is_none()
            || is_active_manifest(s.url())
            || !ingredient_statuses.iter().any(|i| i == s))      // == : code, url, kind
    }
-/

/-- a `ValidationStatus` made from a log item: code, `url` (the log item's label), kind, and
whether it carries an ingredient URI (`ing`) -/
structure St where
  code : Str
  url : Option Str
  kind : Kind
  ing : Bool
  deriving DecidableEq, Repr

/-- the logged event a status was made from -/
def St.toEv (s : St) : Ev := ⟨s.code, s.kind, s.ing⟩

/-- a status listed in an ingredient assertion, as `get_statuses` returns it (kind from
`log_kind(code)`, url after `make_absolute`) -/
structure Rec where
  code : Str
  url : Option Str
  kind : Kind
  deriving DecidableEq, Repr

def cSelfJumbf : Str := "self#jumbf".toList

/-- `ValidationStatus::make_absolute(manifest_label)` on the url -/
def makeAbsolute (label : Str) : Option Str → P (Option Str)
  | none => some none
  | some u =>
    if cSelfJumbf.isPrefixOf u then do
      let a ← toAbsoluteUri label u
      pure (some a)
    else some (some u)

/-- one ingredient assertion's statuses: the label of its `active_manifest`/`c2pa_manifest`
(`none` = no such URI or no manifest label in it: urls stay as they are) and the raw list -/
def recsOf (label : Option Str) (raw : List Rec) : P (List Rec) :=
  match label with
  | none => some raw
  | some l =>
    raw.foldr (fun r acc => do
      let u ← makeAbsolute l r.url
      let rest ← acc
      pure ({ r with url := u } :: rest)) (some [])

/-- `is_active_manifest(s.url())` -/
def isActiveUrl (active : Str) : Option Str → P Bool
  | none => some false
  | some u => do
    let m ← manifestLabelFromUri u
    pure (m == some active)

/-- `ingredient_statuses.iter().any(|i| i == s)` (`PartialEq`: code, url, kind) -/
def recordedIn (recs : List Rec) (s : St) : Bool :=
  recs.any fun r => r.code == s.code && r.url == s.url && r.kind == s.kind

/-- the `retain` predicate -/
def keep (active : Str) (recs : List Rec) (s : St) : P Bool := do
  let a ← isActiveUrl active s.url
  pure (!s.ing || a || !recordedIn recs s)

def filterP {α : Type} (p : α → P Bool) : List α → P (List α)
  | [] => some []
  | x :: xs => do
    let b ← p x
    let rest ← filterP p xs
    pure (if b then x :: rest else rest)

def anyP {α : Type} (p : α → P Bool) : List α → P Bool
  | [] => some false
  | x :: xs => do
    let b ← p x
    if b then pure true else anyP p xs

/-- the statuses `from_store` hands to `add_status`, in log order -/
def notActive (active : Str) (s : St) : P Bool := do
  let a ← isActiveUrl active s.url
  pure (!a)

def fromStoreFilter (active : Str) (recs : List Rec) (l : List St) : P (List St) :=
  match anyP (notActive active) l with
  | none => none
  | some gate => if gate then filterP (keep active recs) l else some l

/-! ### line protocol

Strings are plain (labels and URIs contain none of the separators space `|` `;` `,` `~` `^` `+`);
`-` = none, `[]` = empty list.

claim  := L=<label>;V=<n>;U=<0|1>;S=<0|1>;BH=<h>;SH=<h>;DH=<h>;D=<h>;G=<h>;A=<hu>,…;T=<ca>,…;R=<-|[]|uri,…>;B=<url~h>,…
hu     := <url>~<hash>
ca     := <label>~<inst>~<hash>~<zero 0|1>~<payload>
payload:= o | h | a:<act>+<act>… | i:- | i:<rel p|c|i>^<version>^<results 0|1>^<target or ->^<claimSig or ->   (these two as <url>@<hash>)
act    := <name> | <name>^- | <name>^<uri>          (no params | params without redacted | redacted uri)
  verify claims=<claim>|<claim>…                      -> ok|err <code>@<A|I>,… | panic
  redact claim=<claim> uri=<uri>                      -> ok <full labels>,… B=<urls> | err:<invalid|notfound> | panic
  addi self=<-|[]|uris> reqs=<-|[]|uris> batch=<claims> -> ok R=<…> <label>:<full labels>… | err:… | panic
  post applied=<…> reqs=<…>                            -> 0|1
  differs c1=<claim> c2=<claim> reds=<uris>            -> none | some <uris sorted by the harness>
  filter active=<label> recs=<grp>|<grp>… log=<st>,<st>…  -> <n kept> <sorted kept failures code@A|I~url> | panic
       grp := <manifest label or ->!<code~url~kind>+…      (one ingredient assertion of the store)
       st  := <code~url or -~kind s|i|f~ing 0|1>            (one logged status of the real validation log)
-/

def sOut (s : Str) : String := String.ofList s

def listIn (s : String) : List Str :=
  if s == "[]" || s == "-" || s.isEmpty then [] else (s.splitOn ",").map String.toList

def optListIn (s : String) : Option (List Str) :=
  if s == "-" then none else some (listIn s)

def huIn (s : String) : Option HU :=
  match s.splitOn "~" with
  | [u, h] => some ⟨u.toList, h.toList⟩
  | _ => none

def subField (parts : List String) (key : String) : String :=
  let pre := key ++ "="
  match parts.find? (fun t => pre.isPrefixOf t) with
  | some t => (t.drop pre.length).toString
  | none => ""

def actIn (s : String) : Act :=
  match s.splitOn "^" with
  | [n] => ⟨n.toList, none⟩
  | [n, p] => ⟨n.toList, some (if p == "-" then none else some p.toList)⟩
  | _ => ⟨s.toList, none⟩

def relIn (s : String) : Rel := if s == "p" then .parentOf else if s == "c" then .componentOf else .inputTo

def payloadIn (s : String) : Payload :=
  if s == "o" then .other
  else if s == "h" then .hash
  else if s.startsWith "a:" then
    let body := (s.drop 2).toString
    .actions (if body.isEmpty then [] else (body.splitOn "+").map actIn)
  else if s == "i:-" then .ingredient none
  else if s.startsWith "i:" then
    match ((s.drop 2).toString).splitOn "^" with
    | [r, v, res, t, cs] =>
      .ingredient (some ⟨relIn r, v.toNat!, res == "1", if t == "-" then none else huIn (t.replace "@" "~"),
        if cs == "-" then none else huIn (cs.replace "@" "~")⟩)
    | _ => .ingredient none
  else .other

def caIn (s : String) : Option CA :=
  match s.splitOn "~" with
  | [l, i, h, z, p] => some ⟨l.toList, i.toNat!, h.toList, z == "1", payloadIn p⟩
  | _ => none

def claimIn (s : String) : Claim :=
  let parts := s.splitOn ";"
  let f := subField parts
  let lst (k : String) : List String :=
    let v := f k
    if v.isEmpty || v == "[]" || v == "-" then [] else v.splitOn ","
  { label := (f "L").toList, version := (f "V").toNat!, update := f "U" == "1", sigOk := f "S" == "1",
    boxHash := (f "BH").toList, sigHash := (f "SH").toList, dataHash := (f "DH").toList,
    data := (f "D").toList, sig := (f "G").toList,
    assertions := (lst "A").filterMap huIn,
    store := (lst "T").filterMap caIn,
    redactions := optListIn (f "R"),
    databoxes := (lst "B").filterMap fun b =>
      match b.splitOn "~" with | [u, h] => some (u.toList, h.toList) | _ => none }

def claimsIn (s : String) : List Claim :=
  if s.isEmpty || s == "-" then [] else (s.splitOn "|").map claimIn

def evOut (e : Ev) : String := sOut e.code ++ "@" ++ (if e.ing then "I" else "A")

def outStr : P Out → String
  | none => "panic"
  | some o => (if o.err then "err " else "ok ") ++
      (if o.log.isEmpty then "-" else ",".intercalate (o.log.map evOut))

def rerrStr : RErr → String
  | .invalidRedaction => "err:invalid"
  | .notFound => "err:notfound"

def fullLabels (st : List CA) : String :=
  let ls := st.map fun a => match a.fullLabel with | some l => sOut l | none => "?"
  if ls.isEmpty then "-" else ",".intercalate ls

def optListOut : Option (List Str) → String
  | none => "-"
  | some [] => "[]"
  | some l => ",".intercalate (l.map sOut)

def kindIn (s : String) : Kind := if s == "s" then .success else if s == "i" then .info else .failure

def optStrIn (s : String) : Option Str := if s == "-" then none else some s.toList

def stIn (s : String) : Option St :=
  match s.splitOn "~" with
  | [c, u, k, i] => some ⟨c.toList, optStrIn u, kindIn k, i == "1"⟩
  | _ => none

def recIn (s : String) : Option Rec :=
  match s.splitOn "~" with
  | [c, u, k] => some ⟨c.toList, optStrIn u, kindIn k⟩
  | _ => none

/-- `<label or ->!<rec>+<rec>…` -/
def recGroupIn (s : String) : P (List Rec) :=
  match s.splitOn "!" with
  | [l, body] => recsOf (optStrIn l) (if body.isEmpty || body == "-" then [] else (body.splitOn "+").filterMap recIn)
  | _ => some []

def recGroupsIn (s : String) : P (List Rec) :=
  if s.isEmpty || s == "-" then some []
  else (s.splitOn "|").foldr (fun g acc => do
    let a ← recGroupIn g
    let rest ← acc
    pure (a ++ rest)) (some [])

def stOut (s : St) : String :=
  sOut s.code ++ "@" ++ (if s.ing then "I" else "A") ++ "~" ++ (match s.url with | some u => sOut u | none => "-")

def filterOut (r : P (List St)) : String :=
  match r with
  | none => "panic"
  | some kept =>
    let fs := sortStrs ((kept.filter fun s => s.kind == .failure).map stOut)
    toString kept.length ++ " " ++ (if fs.isEmpty then "-" else ",".intercalate fs)

def handle (toks : List String) : String :=
  match toks with
  | "verify" :: rest => outStr (verifyStore (claimsIn (field rest "claims")))
  | "filter" :: rest =>
    let logS := field rest "log"
    let l := if logS.isEmpty || logS == "-" then [] else (logS.splitOn ",").filterMap stIn
    match recGroupsIn (field rest "recs") with
    | none => "panic"
    | some recs => filterOut (fromStoreFilter (field rest "active").toList recs l)
  | "redact" :: rest =>
    match redactAssertion (claimIn (field rest "claim")) (field rest "uri").toList with
    | none => "panic"
    | some (.error e) => rerrStr e
    | some (.ok c) => "ok " ++ fullLabels c.store ++ " B=" ++
        (if c.databoxes.isEmpty then "-" else ",".intercalate (c.databoxes.map fun b => sOut b.1))
  | "addi" :: rest =>
    match addIngredientData (optListIn (field rest "self")) (claimsIn (field rest "batch"))
        (optListIn (field rest "reqs")) with
    | none => "panic"
    | some (.error e) => rerrStr e
    | some (.ok (r, b)) => "ok R=" ++ optListOut r ++ " " ++
        " ".intercalate (b.map fun c => sOut c.label ++ ":" ++ fullLabels c.store)
  | "post" :: rest =>
    if builderPostCheck (optListIn (field rest "applied")) (optListIn (field rest "reqs")) then "1" else "0"
  | "differs" :: rest =>
    match differsByRedaction (claimIn (field rest "c1")) (claimIn (field rest "c2")) (listIn (field rest "reds")) with
    | none => "panic"
    | some none => "none"
    | some (some l) => "some " ++ (if l.isEmpty then "-" else ",".intercalate (sortStrs (l.map sOut)))
  | _ => "bad-op"

end C2pa.C20
