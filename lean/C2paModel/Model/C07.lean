import C2paModel.Model.C07Png
/-
C07 / C08 / C09 / C12 — the line-protocol handler shared by the four properties.

  <Cxx> seq fmt=<fmt> asset=<hex> ops=<op,op,…>

ops (applied left to right to the current asset bytes; a failing op leaves them unchanged):
  w:<store>   write_cai                          -> w:<len>:<fnv64> | w:err
  r           remove_cai_store_from_stream       -> r:<len>:<fnv64> | r:err
  g           read_cai                           -> g:<len>:<fnv64> | g:none | g:many | g:err
  l           get_object_locations_from_stream   -> l:<off>+<len><c|o>/… | l:err
  b           get_box_map                        -> b:<name>@<start>+<len>[x]/… | b:err
  p:<store>   same-size replacement              -> p:<len>:<fnv64> | p:err
<store> = x<hex> | g<len>.<seed> | -
-/
namespace C2pa.C07

structure Handler where
  write : Bytes → Bytes → Option Bytes
  remove : Bytes → Option Bytes
  read : Bytes → Option ReadR
  locations : Bytes → Option (List Loc)
  boxMap : Bytes → Option (List Box)
  patch : Bytes → Bytes → Option Bytes

/-! ### `c2pa_io` (sidecar): the file *is* the store -/
namespace Sidecar

def write (_ s : Bytes) : Option Bytes := some s
/-- `remove_cai_store_from_stream` writes nothing to the output stream. -/
def remove (_ : Bytes) : Option Bytes := some []
def read (b : Bytes) : Option ReadR := some (if b.isEmpty then .none else .ok b)
def locations (_ : Bytes) : Option (List Loc) := some []
def boxMap (_ : Bytes) : Option (List Box) := some [⟨"C2PA", 0, 0, true, false⟩]

def handler : Handler := ⟨write, remove, read, locations, boxMap, write⟩

/-- Specification-side lexer to layer A: a non-empty sidecar file is one manifest segment. -/
def segs (b : Bytes) : List Seg := if b.isEmpty then [] else [⟨.manifest, "C2PA", b⟩]

/-- Layer-A format instance of the sidecar: the wrapping is the identity. -/
def fmt : Fmt := ⟨id, fun w => some w, fun _ => 0⟩

end Sidecar

def pngHandler : Handler :=
  ⟨Png.write, Png.remove, Png.read, Png.locations, Png.boxMap, Png.patch⟩

def handlerOf (fmt : String) : Option Handler :=
  if fmt == "c2pa" then some Sidecar.handler
  else if fmt == "png" then some pngHandler
  else none

def readStr : Option ReadR → String
  | none => "g:err"
  | some .none => "g:none"
  | some .many => "g:many"
  | some .bad => "g:err"
  | some (.ok s) => "g:" ++ digest s

def stepOp (h : Handler) (cur : Bytes) (op : String) : Bytes × String :=
  match op.splitOn ":" with
  | ["w", st] =>
    match parseStore st with
    | none => (cur, "w:badstore")
    | some s => match h.write cur s with
      | some o => (o, "w:" ++ digest o)
      | none => (cur, "w:err")
  | ["p", st] =>
    match parseStore st with
    | none => (cur, "p:badstore")
    | some s => match h.patch cur s with
      | some o => (o, "p:" ++ digest o)
      | none => (cur, "p:err")
  | ["r"] =>
    match h.remove cur with
    | some o => (o, "r:" ++ digest o)
    | none => (cur, "r:err")
  | ["g"] => (cur, readStr (h.read cur))
  | ["l"] =>
    match h.locations cur with
    | some l => (cur, "l:" ++ locStr l)
    | none => (cur, "l:err")
  | ["b"] =>
    match h.boxMap cur with
    | some l => (cur, "b:" ++ boxStr l)
    | none => (cur, "b:err")
  | _ => (cur, "badop")

def runOps (h : Handler) : Bytes → List String → List String
  | _, [] => []
  | cur, op :: rest =>
    let (cur', r) := stepOp h cur op
    r :: runOps h cur' rest

/-- Layer-A prediction of what is observable for the formats that are not modelled
byte-exactly: the abstract state is the embedded store, if any. -/
def absOps : Option Bytes → List String → List String
  | _, [] => []
  | st, op :: rest =>
    match op.splitOn ":" with
    | ["w", s] => match parseStore s with
      | some b => "w:ok" :: absOps (some b) rest
      | none => "w:badstore" :: absOps st rest
    | ["p", s] => match parseStore s with
      | some b => "p:ok" :: absOps (some b) rest
      | none => "p:badstore" :: absOps st rest
    | ["r"] => "r:ok" :: absOps none rest
    | ["g"] => (match st with | some b => "g:" ++ digest b | none => "g:none") :: absOps st rest
    | ["l"] => "l" :: absOps st rest
    | ["b"] => "b" :: absOps st rest
    | _ => "badop" :: absOps st rest

/-- The same for a multi-page TIFF whose pre-existing C2PA tag sits in the *first* IFD (the
legacy layout the reader still accepts), as the code handles it today: `write_cai` puts the
new tag into the last IFD (which the reader prefers) and leaves the legacy tag;
`remove_cai_store_from_stream` only acts when the last IFD has the tag (then it drops the
tag from both IFDs) and is otherwise a no-op, so the legacy store survives a removal. -/
def absOpsTiffLegacy : Option Bytes → Option Bytes → List String → List String
  | _, _, [] => []
  | leg, cur, op :: rest =>
    match op.splitOn ":" with
    | ["w", s] => match parseStore s with
      | some b => "w:ok" :: absOpsTiffLegacy leg (some b) rest
      | none => "w:badstore" :: absOpsTiffLegacy leg cur rest
    | ["p", s] => match parseStore s with
      | some b => "p:ok" :: absOpsTiffLegacy leg (some b) rest
      | none => "p:badstore" :: absOpsTiffLegacy leg cur rest
    | ["r"] =>
      (match cur with
        | some _ => "r:ok" :: absOpsTiffLegacy none none rest
        | none => "r:ok" :: absOpsTiffLegacy leg none rest)
    | ["g"] =>
      (match cur, leg with
        | some b, _ => "g:" ++ digest b
        | none, some b => "g:" ++ digest b
        | none, none => "g:none") :: absOpsTiffLegacy leg cur rest
    | ["l"] => "l" :: absOpsTiffLegacy leg cur rest
    | ["b"] => "b" :: absOpsTiffLegacy leg cur rest
    | _ => "badop" :: absOpsTiffLegacy leg cur rest

def handle (toks : List String) : String :=
  match toks with
  | "abs" :: rest =>
    let i := field rest "init"
    let st := if i == "-" then some none else (parseStore i).map some
    match st with
    | some st =>
      if field rest "quirk" == "tifflegacy" then
        " ".intercalate (absOpsTiffLegacy st none (splitList (field rest "ops") ","))
      else " ".intercalate (absOps st (splitList (field rest "ops") ","))
    | none => "bad-init"
  | "seq" :: rest =>
    match handlerOf (field rest "fmt"), fromHex? (field rest "asset") with
    | some h, some a => " ".intercalate (runOps h a (splitList (field rest "ops") ","))
    | none, _ => "bad-fmt"
    | _, none => "bad-asset"
  | _ => "bad-op"

end C2pa.C07
