import C2paModel.Model.C24
/-
C38 — history form over the C24 state model: `hist ops=… probe=… nctx=n` answers with the
probe's output after the history and its output on the initial state.
-/
namespace C2pa.C38
open C2pa.C24

def handle (toks : List String) : String :=
  match toks with
  | "hist" :: rest =>
    let ops := (splitList (if field rest "ops" == "-" then "" else field rest "ops") ",").filterMap parseOp
    match parseOp (field rest "probe"), (field rest "nctx").toNat? with
    | some probe, some nc =>
      let s0 := initSys nc 1
      let s1 := (runProg s0 ops).1
      outStr (step s1 probe).2 ++ "|" ++ outStr (step s0 probe).2
    | _, _ => "bad-req"
  | _ => "bad-op"

end C2pa.C38
