import C2paModel.Base
/-
C27 — model of the redirect follower of sdk/src/http/restricted.rs:

  `RedirectResolver::http_resolve(_async)` (loop `0..=MAX_REDIRECTS`), `redirect_target`,
  `redirect_location`, `build_redirected_request`, `host_is_non_global`, `normalize_host`,
  `looks_like_obfuscated_ip`, `ip_is_non_global`, `ipv4_is_non_global`, `ipv6_is_non_global`,
  and executable models of `core::net` `IpAddr/Ipv4Addr/Ipv6Addr::from_str` as far as the code
  depends on them (validated differentially against std by the harness).

Strings are byte lists (`List Nat`, the UTF-8 bytes; every operation of the Rust code used here is
byte-wise: `to_ascii_lowercase`, `strip_prefix/suffix`, `ends_with`, `split('.')`, `bytes().all`).
The accessors of `http::Uri` (`scheme_str`, `host`, `port`) and `url::Url::join` + re-parse
(`resolve_redirect_target`) are *inputs*: a `Uri` value carries what the real accessors returned
and `join` is an arbitrary function in every theorem (a per-hop table in the line protocol).

The resolver stack is modelled in state-passing style: the state records the requests handed to
the layer below the redirect follower (`attempts`) and the requests that reached the transport
(`trace`). `Model/C26.lean` adds the allow-list layer and the stack of
`Context::build_default_*_resolver` on top of the definitions here.
-/
namespace C2pa.C27

abbrev Bytes := List Nat

/-- ASCII constant as bytes. -/
def bytesOf (s : String) : Bytes := s.toList.map Char.toNat

/-! ### byte-string helpers (Rust `str` operations used by the code) -/

/-- `u8::to_ascii_lowercase` -/
def lowerByte (b : Nat) : Nat := if 65 ≤ b ∧ b ≤ 90 then b + 32 else b

/-- `str::to_ascii_lowercase` -/
def lower (s : Bytes) : Bytes := s.map lowerByte

def isDigit (b : Nat) : Bool := 48 ≤ b && b ≤ 57

def isHexDigit (b : Nat) : Bool :=
  (48 ≤ b && b ≤ 57) || (97 ≤ b && b ≤ 102) || (65 ≤ b && b ≤ 70)

def hexDigitVal (b : Nat) : Nat :=
  if 48 ≤ b ∧ b ≤ 57 then b - 48 else if 97 ≤ b ∧ b ≤ 102 then b - 87 else b - 55

/-- `str::strip_suffix(char)` -/
def stripSuffix1 (c : Nat) (s : Bytes) : Option Bytes :=
  if s.getLast? = some c then some s.dropLast else none

/-- `str::strip_prefix(&str)` -/
def stripPrefix (p : Bytes) (s : Bytes) : Option Bytes :=
  if p.isPrefixOf s then some (s.drop p.length) else none

/-- `str::ends_with(&str)` -/
def endsWith (s suffix : Bytes) : Bool := suffix.isSuffixOf s

/-- `str::split(char)`: always at least one piece. -/
def splitOn (c : Nat) : Bytes → List Bytes
  | [] => [[]]
  | b :: t =>
    if b = c then [] :: splitOn c t
    else match splitOn c t with
      | [] => [[b]]
      | p :: ps => (b :: p) :: ps

/-! ### `core::net::parser` -/

/-- Value of a digit run in the given radix (digits already validated). -/
def digitsVal (radix : Nat) (ds : Bytes) : Nat :=
  ds.foldl (fun acc d => acc * radix + hexDigitVal d) 0

/-- The checks of `read_number(10, Some(3), false)` into `u8` on the digit run it consumed:
non-empty, at most three digits, no leading zero unless it is the single digit `0`, value ≤ 255. -/
def dec3Val (ds : Bytes) : Option Nat :=
  if ds.length = 0 then none
  else if ds.length > 3 then none
  else if ds.head? = some 48 ∧ ds.length > 1 then none
  else if digitsVal 10 ds > 255 then none
  else some (digitsVal 10 ds)

/-- `read_number(10, Some(3), false)` into `u8`: consumes the maximal run of decimal digits. -/
def readDec3 (s : Bytes) : Option (Nat × Bytes) :=
  match dec3Val (s.takeWhile isDigit) with
  | some v => some (v, s.dropWhile isDigit)
  | none => none

/-- The checks of `read_number(16, Some(4), true)` into `u16`: one to four hex digits. -/
def hex4Val (ds : Bytes) : Option Nat :=
  if ds.length = 0 then none
  else if ds.length > 4 then none
  else some (digitsVal 16 ds)

/-- `read_number(16, Some(4), true)` into `u16`: consumes the maximal run of hex digits. -/
def readHex4 (s : Bytes) : Option (Nat × Bytes) :=
  match hex4Val (s.takeWhile isHexDigit) with
  | some v => some (v, s.dropWhile isHexDigit)
  | none => none

/-- `read_given_char` -/
def expect (c : Nat) : Bytes → Option Bytes
  | b :: t => if b = c then some t else none
  | [] => none

/-- `read_separator(sep, index, inner)`: for `index > 0` the separator must come first;
atomic (on failure nothing is consumed — the caller keeps its own input). -/
def readSep {α : Type} (sep : Nat) (index : Nat) (inner : Bytes → Option (α × Bytes))
    (s : Bytes) : Option (α × Bytes) :=
  if index > 0 then
    match expect sep s with
    | some s' => inner s'
    | none => none
  else inner s

/-- `read_ipv4_addr`: four `read_number(10, Some(3), false)` separated by `.`. -/
def readV4 (s : Bytes) : Option ((Nat × Nat × Nat × Nat) × Bytes) :=
  match readSep 46 0 readDec3 s with
  | none => none
  | some (a, s1) =>
  match readSep 46 1 readDec3 s1 with
  | none => none
  | some (b, s2) =>
  match readSep 46 2 readDec3 s2 with
  | none => none
  | some (c, s3) =>
  match readSep 46 3 readDec3 s3 with
  | none => none
  | some (d, s4) => some ((a, b, c, d), s4)

/-- `read_groups` of `read_ipv6_addr` over a slice of `limit` slots; `n` = slots still to fill,
`i` = index of the next slot. Returns the groups read, whether an embedded IPv4 address ended the
run, and the remaining input. -/
def readGroups (limit : Nat) : Nat → Nat → Bytes → (List Nat × Bool × Bytes)
  | 0, _, s => ([], false, s)
  | n + 1, i, s =>
    match (if i + 1 < limit then readSep 58 i readV4 s else none) with
    | some ((a, b, c, d), s') => ([a * 256 + b, c * 256 + d], true, s')
    | none =>
      match readSep 58 i readHex4 s with
      | some (g, s') =>
        match readGroups limit n (i + 1) s' with
        | (gs, f, r) => (g :: gs, f, r)
      | none => ([], false, s)

/-- `read_ipv6_addr` -/
def readV6 (s : Bytes) : Option (List Nat × Bytes) :=
  match readGroups 8 8 0 s with
  | (head, headV4, s1) =>
    if head.length = 8 then some (head, s1)
    else if headV4 then none
    else
      -- `p.read_given_char(':')?; p.read_given_char(':')?;`
      match expect 58 s1 with
      | none => none
      | some s1' =>
        match expect 58 s1' with
        | none => none
        | some s2 =>
          let limit := 8 - (head.length + 1)
          match readGroups limit limit 0 s2 with
          | (tail, _, s3) =>
            some (head ++ List.replicate (8 - head.length - tail.length) 0 ++ tail, s3)

/-- `Ipv4Addr::from_str` (`parse_with`: the whole input must be consumed). -/
def parseV4 (s : Bytes) : Option (Nat × Nat × Nat × Nat) :=
  match readV4 s with
  | some (v, []) => some v
  | _ => none

/-- `Ipv6Addr::from_str` -/
def parseV6 (s : Bytes) : Option (List Nat) :=
  match readV6 s with
  | some (v, []) => some v
  | _ => none

inductive Ip
  | v4 (a b c d : Nat)
  | v6 (segs : List Nat)
  deriving DecidableEq, Repr

/-- `IpAddr::from_str`: `read_ipv4_addr().or_else(read_ipv6_addr())`, then end of input. -/
def parseIp (s : Bytes) : Option Ip :=
  match readV4 s with
  | some ((a, b, c, d), rest) => if rest.isEmpty then some (.v4 a b c d) else none
  | none =>
    match readV6 s with
    | some (g, rest) => if rest.isEmpty then some (.v6 g) else none
    | none => none

/-! ### classification -/

/-- `ipv4_is_non_global` (with the `std` predicates it calls written out on the octets). -/
def ipv4IsNonGlobal (a b c d : Nat) : Bool :=
  (a == 0 && b == 0 && c == 0 && d == 0)               -- is_unspecified
    || a == 0                                           -- 0.0.0.0/8
    || a == 127                                         -- is_loopback
    || (a == 10 || (a == 172 && 16 ≤ b && b ≤ 31) || (a == 192 && b == 168))  -- is_private
    || (a == 169 && b == 254)                           -- is_link_local
    || (a == 255 && b == 255 && c == 255 && d == 255)   -- is_broadcast
    || ((a == 192 && b == 0 && c == 2) || (a == 198 && b == 51 && c == 100)
          || (a == 203 && b == 0 && c == 113))          -- is_documentation
    || (224 ≤ a && a ≤ 239)                             -- is_multicast
    || (a == 100 && (b &&& 0xc0) == 64)                 -- 100.64.0.0/10

/-- `Ipv6Addr::to_ipv4_mapped` -/
def toIpv4Mapped : List Nat → Option (Nat × Nat × Nat × Nat)
  | [0, 0, 0, 0, 0, 0xffff, ab, cd] => some (ab / 256, ab % 256, cd / 256, cd % 256)
  | _ => none

/-- `ipv6_is_non_global` -/
def ipv6IsNonGlobal (segs : List Nat) : Bool :=
  match toIpv4Mapped segs with
  | some (a, b, c, d) => ipv4IsNonGlobal a b c d
  | none =>
    let s0 := segs.headD 0
    segs == [0, 0, 0, 0, 0, 0, 0, 0]          -- is_unspecified
      || segs == [0, 0, 0, 0, 0, 0, 0, 1]     -- is_loopback
      || (s0 &&& 0xff00) == 0xff00            -- is_multicast
      || (s0 &&& 0xfe00) == 0xfc00            -- fc00::/7
      || (s0 &&& 0xffc0) == 0xfe80            -- fe80::/10

/-- `ip_is_non_global` -/
def ipIsNonGlobal : Ip → Bool
  | .v4 a b c d => ipv4IsNonGlobal a b c d
  | .v6 s => ipv6IsNonGlobal s

/-- `host.strip_prefix('[').and_then(|h| h.strip_suffix(']')).unwrap_or(host)` -/
def stripBrackets (host : Bytes) : Bytes :=
  match host with
  | 91 :: t => (stripSuffix1 93 t).getD host
  | _ => host

/-- `normalize_host`: strip `[`…`]` (only when both are present), one trailing dot, lower-case. -/
def normalizeHost (host : Bytes) : Bytes :=
  let h1 := stripBrackets host
  let h2 := (stripSuffix1 46 h1).getD h1
  lower h2

def starts0x : Bytes → Bool
  | 48 :: 120 :: _ => true
  | 48 :: 88 :: _ => true
  | _ => false

/-- `looks_like_obfuscated_ip` -/
def looksObfuscated (host : Bytes) : Bool :=
  if host.isEmpty then false
  else if host.all (fun b => isDigit b || b == 46) then true
  else (splitOn 46 host).any starts0x

def localhost : Bytes := bytesOf "localhost"
def dotLocalhost : Bytes := bytesOf ".localhost"

/-- `host_is_non_global` on the host string returned by `Uri::host()`. -/
def hostStrIsNonGlobal (h : Bytes) : Bool :=
  let host := normalizeHost h
  match parseIp host with
  | some ip => ipIsNonGlobal ip
  | none =>
    if looksObfuscated host then true
    else host == localhost || endsWith host dotLocalhost

/-! ### requests, responses, the redirect follower -/

/-- What the accessors of the real `http::Uri` return (`to_string`, `scheme_str`, `host`,
`port().as_str()`). -/
structure Uri where
  text : Bytes
  scheme : Option Bytes
  host : Option Bytes
  port : Option Bytes
  deriving DecidableEq, Repr

/-- `host_is_non_global` -/
def hostIsNonGlobal (u : Uri) : Bool :=
  match u.host with
  | none => true
  | some h => hostStrIsNonGlobal h

structure Header where
  name : Bytes   -- as `HeaderName::as_str()` (lower-case)
  value : Bytes
  deriving DecidableEq, Repr

structure Request where
  method : Bytes
  uri : Uri
  headers : List Header   -- in `HeaderMap::iter()` order
  body : Bytes
  deriving DecidableEq, Repr

/-- First `Location` header of a response: absent, present but not visible ASCII
(`HeaderValue::to_str` fails), or a string. -/
inductive Loc
  | absent
  | opaque
  | str (s : Bytes)
  deriving DecidableEq, Repr

structure Response where
  status : Nat
  location : Loc
  deriving DecidableEq, Repr

/-- `HttpResolverError`, by variant. `io` stands for whatever error the transport produced. -/
inductive Err
  | uriDisallowed
  | redirectDisallowed
  | targetDisallowed
  | tooManyRedirects
  | other
  | http
  | io
  deriving DecidableEq, Repr

/-- Outcome of `resolve_redirect_target` (the `url`/`http` crates are oracles). -/
inductive Join
  | other          -- `Url::parse(base)` or `join` failed
  | http           -- the joined URL does not parse as `http::Uri`
  | ok (u : Uri)
  deriving DecidableEq, Repr

/-- The transport: scripted by call index, may inspect the request. -/
abbrev Transport := Nat → Request → Except Err Response

/-- `join hop from location` -/
abbrev JoinFn := Nat → Uri → Bytes → Join

structure St where
  attempts : List Request := []   -- handed to the layer below the redirect follower
  trace : List Request := []      -- reached the transport
  deriving DecidableEq, Repr

/-- A resolver layer below the redirect follower. -/
abbrev Inner := Nat → Request → St → St × Except Err Response

/-- The transport directly (no allow-list configured). -/
def bare (t : Transport) : Inner := fun hop req st =>
  ({ attempts := st.attempts ++ [req], trace := st.trace ++ [req] }, t hop req)

/-- `redirect_location`: 3xx and a `Location` that is a string. -/
def redirectLocation (r : Response) : Option Bytes :=
  if 300 ≤ r.status ∧ r.status < 400 then
    match r.location with
    | .str s => some s
    | _ => none
  else none

/-- `RedirectResolver::redirect_target` -/
def redirectTarget (join : JoinFn) (allowRedirects : Bool) (hop : Nat) (fromUri : Uri)
    (resp : Response) : Except Err (Option Uri) :=
  match redirectLocation resp with
  | none => .ok none
  | some loc =>
    if !allowRedirects then .error .redirectDisallowed
    else
      match join hop fromUri loc with
      | .other => .error .other
      | .http => .error .http
      | .ok target =>
        if hostIsNonGlobal target then .error .targetDisallowed else .ok (some target)

def hHost : Bytes := bytesOf "host"
def hAuthorization : Bytes := bytesOf "authorization"
def hCookie : Bytes := bytesOf "cookie"
def hProxyAuthorization : Bytes := bytesOf "proxy-authorization"

/-- the `drop` test of `build_redirected_request` -/
def dropHeader (name : Bytes) : Bool :=
  name == hHost || name == hAuthorization || name == hCookie || name == hProxyAuthorization

/-- `build_redirected_request` -/
def buildRedirected (req : Request) (target : Uri) : Request :=
  { method := req.method
    uri := target
    headers := req.headers.filter (fun h => !dropHeader h.name)
    body := req.body }

def maxRedirects : Nat := 10

/-- The loop of `RedirectResolver::http_resolve`; `fuel` iterations remain, `hop` is the index of
the current iteration. -/
def redirectLoop (inner : Inner) (join : JoinFn) (allowRedirects : Bool) :
    Nat → Nat → Request → St → St × Except Err Response
  | 0, _, _, st => (st, .error .tooManyRedirects)
  | fuel + 1, hop, req, st =>
    match inner hop req st with
    | (st', .error e) => (st', .error e)
    | (st', .ok resp) =>
      match redirectTarget join allowRedirects hop req.uri resp with
      | .error e => (st', .error e)
      | .ok none => (st', .ok resp)
      | .ok (some target) =>
        redirectLoop inner join allowRedirects fuel (hop + 1) (buildRedirected req target) st'

/-- `RedirectResolver::new(inner, allow_redirects).http_resolve(request)` -/
def redirectResolver (inner : Inner) (join : JoinFn) (allowRedirects : Bool) (req : Request) :
    St × Except Err Response :=
  redirectLoop inner join allowRedirects (maxRedirects + 1) 0 req {}

/-! ### line protocol -/

def bytesOfHex? (s : String) : Option Bytes :=
  (fromHex? s).map (·.map UInt8.toNat)

def bytesOfHex (s : String) : Bytes := (bytesOfHex? s).getD []

def hexOf (b : Bytes) : String := toHex (b.map UInt8.ofNat)

def optOfHex (s : String) : Option Bytes :=
  if s == "~" then none else some (bytesOfHex s)

/-- `text/scheme/host/port` -/
def parseUri (s : String) : Uri :=
  match s.splitOn "/" with
  | [t, sc, h, p] => { text := bytesOfHex t, scheme := optOfHex sc, host := optOfHex h, port := optOfHex p }
  | _ => { text := [], scheme := none, host := none, port := none }

/-- `name:value,name:value` or `-` -/
def parseHeaders (s : String) : List Header :=
  if s == "-" then []
  else (s.splitOn ",").map fun e =>
    match e.splitOn ":" with
    | [n, v] => { name := bytesOfHex n, value := bytesOfHex v }
    | _ => { name := [], value := [] }

def headersStr (hs : List Header) : String :=
  if hs.isEmpty then "-" else ",".intercalate (hs.map fun h => hexOf h.name ++ ":" ++ hexOf h.value)

structure Hop where
  reply : Except Err Response
  join : Join

/-- `E` | `R:<status>:<~|!|hex>:<~|O|H|T<uri>>` -/
def parseHop (s : String) : Hop :=
  match s.splitOn ":" with
  | ["R", st, loc, j] =>
    let location : Loc := if loc == "~" then .absent else if loc == "!" then .opaque else .str (bytesOfHex loc)
    let join : Join :=
      if j == "O" then .other else if j == "H" then .http
      else if j.startsWith "T" then .ok (parseUri (j.drop 1).toString) else .other
    { reply := .ok { status := st.toNat!, location := location }, join := join }
  | _ => { reply := .error .io, join := .other }

def reqStr (r : Request) : String :=
  hexOf r.uri.text ++ ";" ++ hexOf r.method ++ ";" ++ hexOf r.body ++ ";" ++ headersStr r.headers

def traceStr (t : List Request) : String :=
  if t.isEmpty then "-" else "|".intercalate (t.map reqStr)

def Err.str : Err → String
  | .uriDisallowed => "uri-disallowed"
  | .redirectDisallowed => "redirect-disallowed"
  | .targetDisallowed => "target-disallowed"
  | .tooManyRedirects => "too-many"
  | .other => "other"
  | .http => "http"
  | .io => "io"

def resultStr : Except Err Response → String
  | .ok r => "ok:" ++ toString r.status
  | .error e => e.str

structure Chain where
  redirects : Bool
  request : Request
  hops : Array Hop

def parseChain (toks : List String) : Chain :=
  let hopsS := field toks "hops"
  { redirects := field toks "redir" == "1"
    request :=
      { method := bytesOfHex (field toks "m")
        uri := parseUri (field toks "u")
        headers := parseHeaders (field toks "hdrs")
        body := bytesOfHex (field toks "body") }
    hops := if hopsS == "-" then #[] else ((hopsS.splitOn "|").map parseHop).toArray }

def Chain.transport (c : Chain) : Transport := fun hop _ =>
  match c.hops[hop]? with
  | some h => h.reply
  | none => .error .io

def Chain.join (c : Chain) : JoinFn := fun hop _ _ =>
  match c.hops[hop]? with
  | some h => h.join
  | none => .other

def chainReply (r : St × Except Err Response) : String :=
  resultStr r.2 ++ " n=" ++ toString r.1.trace.length ++ " t=" ++ traceStr r.1.trace

def ipStr : Option Ip → String
  | none => "none"
  | some (.v4 a b c d) => s!"v4:{a}.{b}.{c}.{d}"
  | some (.v6 g) => "v6:" ++ ":".intercalate (g.map fun x => String.ofList (Nat.toDigits 16 x))

def boolStr (b : Bool) : String := if b then "1" else "0"

def handle (toks : List String) : String :=
  match toks with
  | "ip" :: rest => ipStr (parseIp (bytesOfHex (field rest "s")))
  | "v4" :: rest => ipStr ((parseV4 (bytesOfHex (field rest "s"))).map fun (a, b, c, d) => .v4 a b c d)
  | "v6" :: rest => ipStr ((parseV6 (bytesOfHex (field rest "s"))).map .v6)
  | "ng" :: rest =>
    boolStr (hostIsNonGlobal { text := [], scheme := none, host := optOfHex (field rest "host"), port := none })
  | "chain" :: rest =>
    let c := parseChain rest
    chainReply (redirectResolver (bare c.transport) c.join c.redirects c.request)
  | _ => "bad-op"

end C2pa.C27
