import C2paModel.Base
/-
C30 — model of the XMP remote-reference helpers of `sdk/src/utils/xmp_inmemory_utils.rs`
(`add_xmp_key`, `double_quotable`, `extract_xmp_key`, `add_provenance`, `extract_provenance`,
`write_xmp_padding`) and of the parts of quick-xml 0.41 they call
(`escape::escape`, `escape::unescape`, `escape::parse_number`, `BytesStart::push_attribute`,
`Writer::write_event` for Start/Empty).

Strings are `List Char`: the Rust functions take `&str` (always valid UTF-8), every delimiter
they look for is ASCII, so acting on chars equals acting on the UTF-8 bytes. Lengths are
UTF-8 byte lengths (`utf8Len`), as `str::len` is.

The XMP text is abstracted to a `Packet`:
  pre    everything before the first `<rdf:Description` start/empty tag
  desc   that tag: attribute list (key, raw i.e. still escaped value) in document order and
         whether it is an empty element (`/>`); `none` when the packet has no such tag
  post   everything after that tag up to the trailer, without the white space that
         `trim_end` removes (it does not end in white space)
  gap    the white space run between `post` and the trailer / the end of the text
  trailer  whether `rfind("<?xpacket end")` succeeds
  origLen  byte length of the whole text (`xmp.len()`)
quick-xml passes every event other than that tag through unchanged for the inputs of the
correspondence grammar (the harness states the exclusions), so `pre`/`post` are opaque.
-/
namespace C2pa.C30

abbrev Str := List Char

def utf8Len : Str → Nat
  | [] => 0
  | c :: cs => c.utf8Size + utf8Len cs

/-! ### quick_xml::escape -/

def eLt : Str := ['&', 'l', 't', ';']
def eGt : Str := ['&', 'g', 't', ';']
def eAmp : Str := ['&', 'a', 'm', 'p', ';']
def eApos : Str := ['&', 'a', 'p', 'o', 's', ';']
def eQuot : Str := ['&', 'q', 'u', 'o', 't', ';']

/-- `escape_char` restricted to the five characters `escape` selects -/
def escChar (c : Char) : Str :=
  if c = '<' then eLt
  else if c = '>' then eGt
  else if c = '&' then eAmp
  else if c = '\'' then eApos
  else if c = '"' then eQuot
  else [c]

/-- `quick_xml::escape::escape` -/
def escape : Str → Str
  | [] => []
  | c :: cs => escChar c ++ escape cs

/-- `char::to_digit(radix)` -/
def digitVal (radix : Nat) (c : Char) : Option Nat :=
  let n := c.toNat
  let d : Option Nat :=
    if 48 ≤ n ∧ n ≤ 57 then some (n - 48)
    else if 97 ≤ n ∧ n ≤ 122 then some (n - 87)
    else if 65 ≤ n ∧ n ≤ 90 then some (n - 55)
    else none
  match d with
  | some v => if v < radix then some v else none
  | none => none

/-- digit loop of `u32::from_str_radix` (checked multiply-add) -/
def parseDigits (radix : Nat) : Nat → Str → Option Nat
  | acc, [] => some acc
  | acc, c :: cs =>
    match digitVal radix c with
    | none => none
    | some d =>
      let n := acc * radix + d
      if n < 4294967296 then parseDigits radix n cs else none

/-- `escape::from_str_radix`: no sign, not empty -/
def fromStrRadix (radix : Nat) (s : Str) : Option Nat :=
  match s with
  | [] => none
  | c :: _ => if c = '+' ∨ c = '-' then none else parseDigits radix 0 s

/-- `escape::parse_number` -/
def parseCode (num : Str) : Option Nat :=
  match num with
  | 'x' :: hex => fromStrRadix 16 hex
  | _ => fromStrRadix 10 num

def parseNumber (num : Str) : Option Char :=
  match parseCode num with
  | none => none
  | some n =>
    if n = 0 then none
    else if n < 0xD800 ∨ (0xDFFF < n ∧ n < 0x110000) then some (Char.ofNat n)
    else none

/-- `resolve_xml_entity` (feature `escape-html` is off) -/
def resolveNamed (pat : Str) : Option Str :=
  if pat = ['l', 't'] then some ['<']
  else if pat = ['g', 't'] then some ['>']
  else if pat = ['a', 'm', 'p'] then some ['&']
  else if pat = ['a', 'p', 'o', 's'] then some ['\'']
  else if pat = ['q', 'u', 'o', 't'] then some ['"']
  else none

/-- what `unescape_with` does with the text between `&` and `;` -/
def resolve (pat : Str) : Option Str :=
  match pat with
  | '#' :: num => (parseNumber num).map fun c => [c]
  | _ => resolveNamed pat

/-- `unescape_with(raw, resolve_predefined_entity)` as a scanner. State `none`: outside a
reference; `some acc`: after `&`, `acc` = the reference text so far, reversed. The Rust code
walks the positions of `&` and `;` only: a `;` outside a reference is literal text, the first
special character after `&` has to be `;` (another `&` or the end is `UnterminatedEntity`). -/
def unescGo : Option Str → Str → Option Str
  | none, [] => some []
  | some _, [] => none
  | none, c :: cs =>
    if c = '&' then unescGo (some []) cs
    else (unescGo none cs).map (c :: ·)
  | some acc, c :: cs =>
    if c = ';' then
      match resolve acc.reverse with
      | none => none
      | some r => (unescGo none cs).map (r ++ ·)
    else if c = '&' then none
    else unescGo (some (c :: acc)) cs

/-- `quick_xml::escape::unescape`; `none` = `Err(EscapeError)` -/
def unescape (s : Str) : Option Str := unescGo none s

/-- `unescape(&s).map(|u| u.into_owned()).unwrap_or(s)` in `extract_xmp_key` -/
def unescapeLenient (s : Str) : Str :=
  match unescape s with
  | some u => u
  | none => s

/-! ### packets -/

structure Attr where
  key : Str
  val : Str
  deriving DecidableEq, Repr

structure Desc where
  attrs : List Attr
  empty : Bool
  deriving DecidableEq, Repr

structure Packet where
  pre : Str
  desc : Option Desc
  post : Str
  gap : Str
  trailer : Bool
  origLen : Nat
  deriving DecidableEq, Repr

inductive Res (α : Type) where
  | ok (a : α)
  | readErr
  | panic
  deriving DecidableEq, Repr

def rdfDescription : Str :=
  ['r', 'd', 'f', ':', 'D', 'e', 's', 'c', 'r', 'i', 'p', 't', 'i', 'o', 'n']

/-- `XMP_END` -/
def xmpEnd : Str :=
  ['<', '?', 'x', 'p', 'a', 'c', 'k', 'e', 't', ' ', 'e', 'n', 'd', '=', '"', 'w', '"', '?', '>']

/-- `double_quotable`: a literal `"` becomes `&quot;` -/
def requote : Str → Str
  | [] => []
  | c :: cs => (if c = '"' then eQuot else [c]) ++ requote cs

/-- `BytesStart::push_attribute`: ` key="value"` -/
def renderAttr (a : Attr) : Str :=
  ' ' :: (a.key ++ ['=', '"'] ++ a.val ++ ['"'])

def renderAttrs : List Attr → Str
  | [] => []
  | a :: as => renderAttr a ++ renderAttrs as

/-- `Writer::write_event(Event::Start | Event::Empty)` of the rebuilt element -/
def renderDesc (d : Desc) : Str :=
  '<' :: (rdfDescription ++ renderAttrs d.attrs ++ (if d.empty then ['/', '>'] else ['>']))

def renderOptDesc : Option Desc → Str
  | none => []
  | some d => renderDesc d

/-- `Attributes` with checks: a key equal to an earlier one yields `Err(Duplicated)` -/
def dupKeys : List Attr → Bool
  | [] => false
  | a :: as => as.any (fun b => b.key = a.key) || dupKeys as

/-- one step of the `for attr in e.attributes()` loop -/
def editAttr (k ev : Str) (a : Attr) : Attr :=
  if a.key = k then { key := k, val := ev } else { key := a.key, val := requote a.val }

/-- the loop plus `if !added { push_attribute }` -/
def editAttrs (k ev : Str) (as : List Attr) : List Attr :=
  if as.any (fun a => a.key = k) then as.map (editAttr k ev)
  else as.map (editAttr k ev) ++ [{ key := k, val := ev }]

/-- the `while remaining > 0` loop of `write_xmp_padding` -/
def padChunks (r : Nat) : Str :=
  if _h : r = 0 then []
  else
    let chunk := min r 99
    let r' := r - chunk
    List.replicate chunk ' ' ++ (if r' = 0 then [] else '\n' :: padChunks (r' - 1))
termination_by r
decreasing_by omega

/-- `write_xmp_padding` without the trailer -/
def padding (len : Nat) : Str :=
  if len - 1 = 0 then ['\n']
  else '\n' :: (padChunks (len - 1 - 1) ++ ['\n'])

/-- canonical text of a packet that `add_xmp_key` produced -/
def render (p : Packet) : Str :=
  p.pre ++ renderOptDesc p.desc ++ p.post ++ p.gap ++ xmpEnd

/-- the text the writer holds before the padding is added -/
def bodyWith (p : Packet) (d : Option Desc) : Str :=
  p.pre ++ renderOptDesc d ++ p.post ++ (if p.trailer then [] else p.gap)

def targetLen (p : Packet) : Nat :=
  if p.trailer then p.origLen - 19 else max p.origLen 4096

def finish (p : Packet) (d : Option Desc) : Packet :=
  let pad := padding (targetLen p - utf8Len (bodyWith p d))
  let q : Packet :=
    { pre := p.pre, desc := d, post := p.post,
      gap := (if p.trailer then [] else p.gap) ++ pad, trailer := true, origLen := 0 }
  { q with origLen := utf8Len (render q) }

/-- `add_xmp_key`, as the packet of its output text -/
def addKey (p : Packet) (k v : Str) : Res Packet :=
  if p.trailer ∧ p.origLen < 19 then .panic
  else
    match p.desc with
    | none => .ok (finish p none)
    | some d =>
      if dupKeys d.attrs then .readErr
      else .ok (finish p (some { d with attrs := editAttrs k (escape v) d.attrs }))

def Res.map {α β : Type} (f : α → β) : Res α → Res β
  | .ok a => .ok (f a)
  | .readErr => .readErr
  | .panic => .panic

def Res.bind {α β : Type} (r : Res α) (f : α → Res β) : Res β :=
  match r with
  | .ok a => f a
  | .readErr => .readErr
  | .panic => .panic

/-- output text of `add_xmp_key` -/
def addKeyText (p : Packet) (k v : Str) : Res Str := (addKey p k v).map render

def findAttr (k : Str) : List Attr → Option Attr
  | [] => none
  | a :: as => if a.key = k then some a else findAttr k as

/-- `extract_xmp_key` on the first `rdf:Description`: the first attribute with that key,
unescaped leniently. (`none` here means the real scan goes on into `post`, which the
abstraction does not describe.) -/
def extractKey (p : Packet) (k : Str) : Option Str :=
  match p.desc with
  | none => none
  | some d =>
    match findAttr k d.attrs with
    | some a => some (unescapeLenient a.val)
    | none => none

def kXmlnsDcterms : Str := "xmlns:dcterms".toList
def vDcterms : Str := "http://purl.org/dc/terms/".toList
def kProvenance : Str := "dcterms:provenance".toList

/-- `add_provenance` -/
def addProvenance (p : Packet) (url : Str) : Res Packet :=
  (addKey p kXmlnsDcterms vDcterms).bind fun p1 => addKey p1 kProvenance url

/-- `extract_provenance` -/
def extractProvenance (p : Packet) : Option Str := extractKey p kProvenance

/-! ### line protocol

  esc s=<hex>                       -> <hex>
  unesc s=<hex>                     -> ok:<hex> | err
  add <packet> k=<hex> v=<hex>      -> ok <rle text> x=<none|some:hex> i=<0|1> | read-error | panic
  prov <packet> v=<hex>             -> ok <rle text> x=<none|some:hex> | read-error | panic
  ext <packet> k=<hex>              -> none | some:<hex>
  rt <packet> v=<hex>               -> x=<none|some:hex> | read-error | panic
  <packet> = pre=<hex> d=<S|E|N> at=<-|hexk:hexv,…> post=<hex> gap=<hex> tr=<0|1> len=<n>
  <rle text>: UTF-8 bytes of the text, runs of ≥ 8 equal bytes written `bb*n`, the rest as hex,
  pieces joined with `.`
-/

def strOfHex (h : String) : Option Str :=
  match fromHex? h with
  | none => none
  | some bs => (String.fromUTF8? ⟨bs.toArray⟩).map String.toList

def bytesOfStr (s : Str) : List UInt8 := (String.ofList s).toUTF8.toList

def hexOfStr (s : Str) : String := toHex (bytesOfStr s)

def optStrOut : Option Str → String
  | none => "none"
  | some s => "some:" ++ hexOfStr s

/-- maximal runs of equal bytes, in order -/
def runsOf (bs : List UInt8) : List (UInt8 × Nat) :=
  (bs.foldl (fun (acc : List (UInt8 × Nat)) b =>
    match acc with
    | (c, n) :: rest => if c = b then (c, n + 1) :: rest else (b, 1) :: (c, n) :: rest
    | [] => [(b, 1)]) []).reverse

def rleOut (bs : List UInt8) : String :=
  let step := fun (st : List String × String) (r : UInt8 × Nat) =>
    let (out, lit) := st
    let (b, n) := r
    if n ≥ 8 then
      let out := if lit.isEmpty then out else lit :: out
      ((hexByte b ++ "*" ++ toString n) :: out, "")
    else (out, lit ++ String.join (List.replicate n (hexByte b)))
  let (out, lit) := (runsOf bs).foldl step ([], "")
  let out := if lit.isEmpty then out else lit :: out
  if out.isEmpty then "-" else ".".intercalate out.reverse

def parseAttr (s : String) : Option Attr :=
  match s.splitOn ":" with
  | [k, v] =>
    match strOfHex k, strOfHex v with
    | some k, some v => some { key := k, val := v }
    | _, _ => none
  | _ => none

def parsePacket (toks : List String) : Option Packet := do
  let pre ← strOfHex (field toks "pre")
  let post ← strOfHex (field toks "post")
  let gap ← strOfHex (field toks "gap")
  let ats := field toks "at"
  let attrs ← if ats == "-" then some [] else (ats.splitOn ",").mapM parseAttr
  let d := field toks "d"
  let desc : Option Desc :=
    if d == "S" then some { attrs := attrs, empty := false }
    else if d == "E" then some { attrs := attrs, empty := true }
    else none
  pure { pre := pre, desc := desc, post := post, gap := gap,
         trailer := field toks "tr" == "1", origLen := (field toks "len").toNat! }

def handle (toks : List String) : String :=
  match toks with
  | "esc" :: rest =>
    match strOfHex (field rest "s") with
    | some s => hexOfStr (escape s)
    | none => "bad-request"
  | "unesc" :: rest =>
    match strOfHex (field rest "s") with
    | some s =>
      match unescape s with
      | some u => "ok:" ++ hexOfStr u
      | none => "err"
    | none => "bad-request"
  | "add" :: rest =>
    match parsePacket rest, strOfHex (field rest "k"), strOfHex (field rest "v") with
    | some p, some k, some v =>
      match addKey p k v with
      | .ok q =>
        let again := addKeyText q k v
        "ok " ++ rleOut (bytesOfStr (render q)) ++ " x=" ++ optStrOut (extractKey q k)
          ++ " i=" ++ (if again = .ok (render q) then "1" else "0")
      | .readErr => "read-error"
      | .panic => "panic"
    | _, _, _ => "bad-request"
  | "prov" :: rest =>
    match parsePacket rest, strOfHex (field rest "v") with
    | some p, some v =>
      match addProvenance p v with
      | .ok q => "ok " ++ rleOut (bytesOfStr (render q)) ++ " x=" ++ optStrOut (extractProvenance q)
      | .readErr => "read-error"
      | .panic => "panic"
    | _, _ => "bad-request"
  | "rt" :: rest =>
    match parsePacket rest, strOfHex (field rest "v") with
    | some p, some v =>
      match addProvenance p v with
      | .ok q => "x=" ++ optStrOut (extractProvenance q)
      | .readErr => "read-error"
      | .panic => "panic"
    | _, _ => "bad-request"
  | "ext" :: rest =>
    match parsePacket rest, strOfHex (field rest "k") with
    | some p, some k => optStrOut (extractKey p k)
    | _, _ => "bad-request"
  | _ => "bad-op"

end C2pa.C30
