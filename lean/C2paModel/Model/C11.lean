import C2paModel.Base
/-
C11 — model of `container_from_stream`, `container_from_format`, `format_from_stream`
(sdk/src/jumbf_io.rs) and `normalize_format` (sdk/src/utils/mime.rs).

* a stream is its full byte list. `detect` is the abstract layer: the sniff buffer is the first
  `min 16 len` bytes. `detectIO` is the I/O-level layer that follows the code's read loop: a
  *read script* says what each successive `Read::read` call does (short read of at most `k` bytes,
  `Interrupted`, hard error) and `seekFail` which `seek` call fails; Props/C11 proves that
  `detectIO` refines `detect` for every script without hard errors (`detectIO_refines`), and that
  a hard error while sniffing makes the hint win;
* format strings are `List Char`, ASCII (protocol restriction): `trim` removes ASCII
  white space, `to_lowercase` maps A–Z;
* the container map is a *parameter* (`Table`), regenerated from the running code into
  `Gen/C11Table.lean` on every check run.
-/
namespace C2pa.C11

abbrev Fmt := List Char
abbrev Table := List (Fmt × Fmt)

def asciiLower (c : Char) : Char :=
  if 'A' ≤ c ∧ c ≤ 'Z' then Char.ofNat (c.toNat + 32) else c

def isWs (c : Char) : Bool :=
  c == ' ' || c == '\t' || c == '\n' || c == '\r' || c == '\x0b' || c == '\x0c'

def trim (s : Fmt) : Fmt :=
  ((s.dropWhile isWs).reverse.dropWhile isWs).reverse

/-- `normalize_format`: trim + lowercase. -/
def normalize (s : Fmt) : Fmt := (trim s).map asciiLower

/-- `container_from_format`: lookup of the normalised string. -/
def containerFromFormat (t : Table) (f : Fmt) : Option Fmt :=
  (t.find? (fun e => e.1 == normalize f)).map (·.2)

def b (s : String) : List UInt8 := s.toList.map (fun c => UInt8.ofNat c.toNat)

def sliceEq (buf : List UInt8) (off : Nat) (pat : List UInt8) : Bool :=
  ((buf.drop off).take pat.length) == pat

/-- sync-safe ID3v2 tag size from header bytes 6..9 -/
def id3Size (buf : List UInt8) : Nat :=
  ((buf.getD 6 0).toNat % 128) * 2097152 + ((buf.getD 7 0).toNat % 128) * 16384
    + ((buf.getD 8 0).toNat % 128) * 128 + ((buf.getD 9 0).toNat % 128)

def lJpg : Fmt := ['j', 'p', 'g']
def lPng : Fmt := ['p', 'n', 'g']
def lGif : Fmt := ['g', 'i', 'f']
def lTif : Fmt := ['t', 'i', 'f']
def lJxl : Fmt := ['j', 'x', 'l']
def lAvi : Fmt := ['a', 'v', 'i']
def lAvif : Fmt := ['a', 'v', 'i', 'f']
def lFlac : Fmt := ['f', 'l', 'a', 'c']
def lMp3 : Fmt := ['m', 'p', '3']
def lPdf : Fmt := ['p', 'd', 'f']

/-- first rule whose condition holds -/
def firstMatch : List (Bool × Fmt) → Option Fmt
  | [] => none
  | (c, d) :: rs => if c then some d else firstMatch rs

/-! Magic byte strings as explicit lists (so that no proof or kernel evaluation has to decode a
string literal); Props/C11 `magic_spelling` ties them to their ASCII spelling. -/
abbrev mGIF87a : List UInt8 := [0x47, 0x49, 0x46, 0x38, 0x37, 0x61]
abbrev mGIF89a : List UInt8 := [0x47, 0x49, 0x46, 0x38, 0x39, 0x61]
abbrev mRIFF : List UInt8 := [0x52, 0x49, 0x46, 0x46]
abbrev mFtyp : List UInt8 := [0x66, 0x74, 0x79, 0x70]
abbrev mFLaC : List UInt8 := [0x66, 0x4c, 0x61, 0x43]
abbrev mID3 : List UInt8 := [0x49, 0x44, 0x33]
abbrev mPDF : List UInt8 := [0x25, 0x50, 0x44, 0x46]

/-- `n >= 10 && &buf[0..3] == b"ID3"`: the only test after which the code looks beyond the
sniff buffer. -/
def isId3 (buf : List UInt8) : Bool := decide (buf.length ≥ 10) && sliceEq buf 0 mID3

/-- The magic tests of `container_from_stream`, in source order, as (condition, result), over the
sniff buffer `buf` (first ≤ 16 bytes) and the outcome `flac` of the ID3 branch's
seek-and-`read_exact` probe ("the four bytes after the tag are fLaC"). The ID3 branch
`return if is_flac { flac } else { mp3 }` is the two consecutive ID3 rules. -/
def rulesB (pdf : Bool) (buf : List UInt8) (flac : Bool) : List (Bool × Fmt) :=
  let id3 := isId3 buf
  [ (sliceEq buf 0 [0xff, 0xd8, 0xff], lJpg),
    (sliceEq buf 0 [0x89, 0x50, 0x4e, 0x47, 0x0d, 0x0a, 0x1a, 0x0a], lPng),
    (sliceEq buf 0 mGIF87a || sliceEq buf 0 mGIF89a, lGif),
    (sliceEq buf 0 [0x49, 0x49, 0x2A, 0x00] || sliceEq buf 0 [0x4D, 0x4D, 0x00, 0x2A]
      || sliceEq buf 0 [0x49, 0x49, 0x2B, 0x00] || sliceEq buf 0 [0x4D, 0x4D, 0x00, 0x2B], lTif),
    (sliceEq buf 0 [0x00, 0x00, 0x00, 0x0c, 0x4a, 0x58, 0x4c, 0x20, 0x0d, 0x0a, 0x87, 0x0a], lJxl),
    (sliceEq buf 0 mRIFF, lAvi),
    (sliceEq buf 4 mFtyp, lAvif),
    (sliceEq buf 0 mFLaC, lFlac),
    (id3 && flac, lFlac),
    (id3, lMp3),
    (buf.getD 0 0 == 0xff && (buf.getD 1 0).toNat / 32 == 7, lMp3) ]
  ++ (if pdf then [(sliceEq buf 0 mPDF, lPdf)] else [])

/-- The magic tests applied to a sniff buffer and the outcome of the ID3 probe (`n < 2 ⇒ None`,
then the first rule that holds). -/
def detectB (pdf : Bool) (buf : List UInt8) (probe : Bool) : Option Fmt :=
  if buf.length < 2 then none else firstMatch (rulesB pdf buf probe)

/-- `container_from_stream`, abstract layer (with the `pdf` feature flag as a parameter): `buf` is
the first ≤ 16 bytes of the whole stream `s`, the ID3 probe looks at the four bytes at offset
`10 + tag size` of `s`. -/
def detect (pdf : Bool) (s : List UInt8) : Option Fmt :=
  detectB pdf (s.take 16) (sliceEq s (10 + id3Size (s.take 16)) mFLaC)

/-- The `match (hinted, detected)` of `format_from_stream`. -/
def reconcile (t : Table) (hint : Fmt) (detected : Option Fmt) : Fmt :=
  match containerFromFormat t hint, detected with
  | some h, some d => if h == d then hint else d
  | none, some d => d
  | _, none => hint

/-- `format_from_stream` -/
def resolve (t : Table) (pdf : Bool) (hint : Fmt) (s : List UInt8) : Fmt :=
  reconcile t hint (detect pdf s)

/-- Every literal that `detect` can return (in rule order). -/
def detectLiterals (pdf : Bool) : List Fmt :=
  [lJpg, lPng, lGif, lTif, lJxl, lAvi, lAvif, lFlac, lFlac, lMp3, lMp3]
    ++ (if pdf then [lPdf] else [])

/-- The regenerated table is usable by `format_from_stream` exactly when every detected
literal is a container id mapping to itself. -/
def TableOk (t : Table) (pdf : Bool) : Bool :=
  (detectLiterals pdf).all (fun d => containerFromFormat t d == some d)

/-! ### I/O-level layer: the read loop of `container_from_stream` -/

/-- What one `Read::read` call does: deliver at most `k` bytes (`chunk 0` = a premature `Ok(0)`),
fail with `ErrorKind::Interrupted`, or fail with any other error. -/
inductive Ev where
  | chunk (k : Nat)
  | intr
  | fail
  deriving DecidableEq, Repr

/-- The fill loop `while n < want { match read(&mut buf[n..]) { Ok(0) => break, Ok(k) => n += k,
Interrupted => continue, Err(_) => return None } }` — also the shape of `read_exact`'s default
implementation. `avail` = bytes from the current stream position on; once the script is used up
every read delivers everything asked for (an in-memory cursor). Returns the bytes obtained
(`none` = hard error) and the unused rest of the script. -/
def fill (want : Nat) : List Ev → List UInt8 → List UInt8 → Option (List UInt8) × List Ev
  | [], avail, got => (some (got ++ avail.take (want - got.length)), [])
  | ev :: rest, avail, got =>
    if got.length ≥ want then (some got, ev :: rest) else
    match ev with
    | .fail => (none, rest)
    | .intr => fill want rest avail got
    | .chunk k =>
      let piece := avail.take (min k (want - got.length))
      if piece.isEmpty then (some got, rest)
      else fill want rest (avail.drop piece.length) (got ++ piece)

/-- `container_from_stream` on a stream whose `read` calls follow `script` and whose
`seekFail`-th `seek` call (0-based: 0 = first rewind, 1 = rewind after sniffing, 2 = seek to the
fLaC probe offset) fails. -/
def detectIO (pdf : Bool) (script : List Ev) (seekFail : Option Nat) (s : List UInt8) : Option Fmt :=
  if seekFail == some 0 then none else
  match (fill 16 script s []).1 with
  | none => none
  | some buf =>
    if seekFail == some 1 then none else
    detectB pdf buf
      (if seekFail == some 2 then false else
        -- `seek(10 + tag size)`, `read_exact(4 bytes)` with the rest of the script, `== "fLaC"`
        match (fill 4 (fill 16 script s []).2 (s.drop (10 + id3Size buf)) []).1 with
        | some m => m == mFLaC
        | none => false)

/-- `format_from_stream` over the I/O-level detection. -/
def resolveIO (t : Table) (pdf : Bool) (script : List Ev) (seekFail : Option Nat) (hint : Fmt)
    (s : List UInt8) : Fmt :=
  reconcile t hint (detectIO pdf script seekFail s)

/-- `get_cailoader_handler`: the reader map (`CAI_READERS`, a parameter like the container map:
format string ↦ identity of the handler instance stored under it) is looked up with the
*normalised* format string. -/
def readerOfKey (readers : Table) (k : Fmt) : Option Fmt :=
  (readers.find? (fun e => e.1 == k)).map (·.2)

def readerOf (readers : Table) (f : Fmt) : Option Fmt := readerOfKey readers (normalize f)

/-! ### line protocol
`detect pdf=<0|1> hint=<hex> data=<hex>` → `<detected|-> <family(hint)|-> <resolved-hex>`
`detectio pdf=<0|1> hint=<hex> data=<hex> script=<c<k>|i|f,…|-> seekfail=<n|->` → `<detected|-> <resolved-hex>`
`reader f=<hex>` → identity of the handler `get_cailoader_handler(f)` selects, or `-` -/

def str? (s : String) : Option Fmt := (fromHex? s).map (·.map (fun u => Char.ofNat u.toNat))

def hexOfFmt (f : Fmt) : String := toHex (f.map (fun c => UInt8.ofNat c.toNat))

def ev? (tok : String) : Option Ev :=
  if tok == "i" then some .intr
  else if tok == "f" then some .fail
  else match tok.toList with
    | 'c' :: ds => (String.ofList ds).toNat?.map .chunk
    | _ => none

def script? (s : String) : Option (List Ev) :=
  if s == "-" then some [] else (s.splitOn ",").mapM ev?

def handleWith (t readers : Table) (toks : List String) : String :=
  match toks with
  | "detect" :: rest =>
    let pdf := field rest "pdf" == "1"
    match str? (field rest "hint"), fromHex? (field rest "data") with
    | some hint, some data =>
      let d := match detect pdf data with | some d => String.ofList d | none => "-"
      let fam := match containerFromFormat t hint with | some d => String.ofList d | none => "-"
      d ++ " " ++ fam ++ " " ++ hexOfFmt (resolve t pdf hint data)
    | _, _ => "bad-hex"
  | "detectio" :: rest =>
    let pdf := field rest "pdf" == "1"
    let sf := (field rest "seekfail").toNat?
    match str? (field rest "hint"), fromHex? (field rest "data"), script? (field rest "script") with
    | some hint, some data, some sc =>
      let d := match detectIO pdf sc sf data with | some d => String.ofList d | none => "-"
      d ++ " " ++ hexOfFmt (resolveIO t pdf sc sf hint data)
    | _, _, _ => "bad-arg"
  | "reader" :: rest =>
    match str? (field rest "f") with
    | some f => match readerOf readers f with | some h => String.ofList h | none => "-"
    | none => "bad-hex"
  | "norm" :: rest =>
    match str? (field rest "s") with
    | some s => hexOfFmt (normalize s)
    | none => "bad-hex"
  | _ => "bad-op"

end C2pa.C11
