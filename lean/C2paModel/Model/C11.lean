import C2paModel.Base
/-
C11 — model of `container_from_stream`, `container_from_format`, `format_from_stream`
(sdk/src/jumbf_io.rs) and `normalize_format` (sdk/src/utils/mime.rs).

* a stream is its full byte list; the sniff buffer is the first `min 16 len` bytes (one
  `read` on an in-memory/regular-file stream; short reads are the subject of C35);
* format strings are `List Char`, ASCII (protocol restriction): `trim` removes ASCII
  white space, `to_lowercase` maps A–Z;
* the container map is a *parameter* (`Table`), regenerated from the running code into
  `Gen/C11Table.lean` on every check run.
-/
namespace C2pa.C11

abbrev Fmt := List Char
abbrev Table := List (Fmt × Fmt)

def asciiLower (c : Char) : Char :=
  if 'A' ≤ c ∧ c ≤ 'Z' then Char.ofNat (c.toNat + 32) else c

def isWs (c : Char) : Bool :=
  c == ' ' || c == '\t' || c == '\n' || c == '\r' || c == '\x0b' || c == '\x0c'

def trim (s : Fmt) : Fmt :=
  ((s.dropWhile isWs).reverse.dropWhile isWs).reverse

/-- `normalize_format`: trim + lowercase. -/
def normalize (s : Fmt) : Fmt := (trim s).map asciiLower

/-- `container_from_format`: lookup of the normalised string. -/
def containerFromFormat (t : Table) (f : Fmt) : Option Fmt :=
  (t.find? (fun e => e.1 == normalize f)).map (·.2)

def b (s : String) : List UInt8 := s.toList.map (fun c => UInt8.ofNat c.toNat)

def sliceEq (buf : List UInt8) (off : Nat) (pat : List UInt8) : Bool :=
  ((buf.drop off).take pat.length) == pat

/-- sync-safe ID3v2 tag size from header bytes 6..9 -/
def id3Size (buf : List UInt8) : Nat :=
  ((buf.getD 6 0).toNat % 128) * 2097152 + ((buf.getD 7 0).toNat % 128) * 16384
    + ((buf.getD 8 0).toNat % 128) * 128 + ((buf.getD 9 0).toNat % 128)

def lJpg : Fmt := ['j', 'p', 'g']
def lPng : Fmt := ['p', 'n', 'g']
def lGif : Fmt := ['g', 'i', 'f']
def lTif : Fmt := ['t', 'i', 'f']
def lJxl : Fmt := ['j', 'x', 'l']
def lAvi : Fmt := ['a', 'v', 'i']
def lAvif : Fmt := ['a', 'v', 'i', 'f']
def lFlac : Fmt := ['f', 'l', 'a', 'c']
def lMp3 : Fmt := ['m', 'p', '3']
def lPdf : Fmt := ['p', 'd', 'f']

/-- first rule whose condition holds -/
def firstMatch : List (Bool × Fmt) → Option Fmt
  | [] => none
  | (c, d) :: rs => if c then some d else firstMatch rs

/-- The magic tests of `container_from_stream`, in source order, as (condition, result).
`buf` is the sniff buffer (first ≤ 16 bytes), `s` the whole stream (the ID3 branch seeks). The
ID3 branch `return if is_flac { flac } else { mp3 }` is the two consecutive ID3 rules. -/
def rules (pdf : Bool) (s : List UInt8) : List (Bool × Fmt) :=
  let buf := s.take 16
  let id3 := decide (buf.length ≥ 10) && sliceEq buf 0 (b "ID3")
  [ (sliceEq buf 0 [0xff, 0xd8, 0xff], lJpg),
    (sliceEq buf 0 [0x89, 0x50, 0x4e, 0x47, 0x0d, 0x0a, 0x1a, 0x0a], lPng),
    (sliceEq buf 0 (b "GIF87a") || sliceEq buf 0 (b "GIF89a"), lGif),
    (sliceEq buf 0 [0x49, 0x49, 0x2A, 0x00] || sliceEq buf 0 [0x4D, 0x4D, 0x00, 0x2A]
      || sliceEq buf 0 [0x49, 0x49, 0x2B, 0x00] || sliceEq buf 0 [0x4D, 0x4D, 0x00, 0x2B], lTif),
    (sliceEq buf 0 [0x00, 0x00, 0x00, 0x0c, 0x4a, 0x58, 0x4c, 0x20, 0x0d, 0x0a, 0x87, 0x0a], lJxl),
    (sliceEq buf 0 (b "RIFF"), lAvi),
    (sliceEq buf 4 (b "ftyp"), lAvif),
    (sliceEq buf 0 (b "fLaC"), lFlac),
    (id3 && sliceEq s (10 + id3Size buf) (b "fLaC"), lFlac),
    (id3, lMp3),
    (buf.getD 0 0 == 0xff && (buf.getD 1 0).toNat / 32 == 7, lMp3) ]
  ++ (if pdf then [(sliceEq buf 0 (b "%PDF"), lPdf)] else [])

/-- `container_from_stream` (with the `pdf` feature flag as a parameter). -/
def detect (pdf : Bool) (s : List UInt8) : Option Fmt :=
  if (s.take 16).length < 2 then none else firstMatch (rules pdf s)

/-- `format_from_stream` -/
def resolve (t : Table) (pdf : Bool) (hint : Fmt) (s : List UInt8) : Fmt :=
  match containerFromFormat t hint, detect pdf s with
  | some h, some d => if h == d then hint else d
  | none, some d => d
  | _, none => hint

/-- Every literal that `detect` can return (in rule order). -/
def detectLiterals (pdf : Bool) : List Fmt :=
  [lJpg, lPng, lGif, lTif, lJxl, lAvi, lAvif, lFlac, lFlac, lMp3, lMp3]
    ++ (if pdf then [lPdf] else [])

/-- The regenerated table is usable by `format_from_stream` exactly when every detected
literal is a container id mapping to itself. -/
def TableOk (t : Table) (pdf : Bool) : Bool :=
  (detectLiterals pdf).all (fun d => containerFromFormat t d == some d)

/-! ### line protocol: `detect pdf=<0|1> hint=<hex> data=<hex>` → `<detected|-> <resolved-hex>` -/

def str? (s : String) : Option Fmt := (fromHex? s).map (·.map (fun u => Char.ofNat u.toNat))

def hexOfFmt (f : Fmt) : String := toHex (f.map (fun c => UInt8.ofNat c.toNat))

def handleWith (t : Table) (toks : List String) : String :=
  match toks with
  | "detect" :: rest =>
    let pdf := field rest "pdf" == "1"
    match str? (field rest "hint"), fromHex? (field rest "data") with
    | some hint, some data =>
      let d := match detect pdf data with | some d => String.ofList d | none => "-"
      let fam := match containerFromFormat t hint with | some d => String.ofList d | none => "-"
      d ++ " " ++ fam ++ " " ++ hexOfFmt (resolve t pdf hint data)
    | _, _ => "bad-hex"
  | "norm" :: rest =>
    match str? (field rest "s") with
    | some s => hexOfFmt (normalize s)
    | none => "bad-hex"
  | _ => "bad-op"

end C2pa.C11
