import C2paModel.Model.C13
import C2paModel.Model.C14
import C2paModel.Model.C15
/-
C03 — model of the two-pass sign/embed flow of `Store::save_to_stream` / `start_save_stream` /
`finish_save_stream` (sdk/src/store.rs) for the data-hash path (non-BMFF format with a handler,
embedded manifest, no caller-supplied hard binding, not an update manifest), of
`Store::generate_data_hashes_for_stream`, `Claim::update_data_hash` → `DataHash::pad_to_size`,
of the verifier side `DataHash::verify_stream_hash`, and — second part — of the label plumbing
of `Builder::to_claim` / `Claim::add_assertion` / `Manifest::from_store` ("report").

It is a *composition* of pieces modelled elsewhere:
* hashing with exclusions is `C13.hashModel` (Model/C13.lean),
* `pad_to_size` is `C14.padToSize`, CBOR sizes of a DataHash are `C15.dhSize`,
* the signature box padded to the signer's reserve is C14's `padCoseSig` (here: a signer
  function whose output length is a hypothesis of the theorems).

The container is abstract: an asset is its bytes together with the object locations its
handler reports for it (`object_locations_from_stream`; a function of the bytes in the real
code, carried along here), and a format handler is a function
  `embed : asset → JUMBF bytes → asset`   (`save_jumbf_to_stream`)
The theorems (Props/C03.lean) hold for every handler that obeys three laws (equal-length
payloads give the same layout and the same bytes outside the excluded regions; the reported
regions lie inside the asset; re-embedding replaces) and `splitHandler` — prefix ++ framed
manifest ++ suffix, with prefix/suffix allowed to depend on the payload *length* (TIFF writes
the byte count into an IFD entry) — is proved to obey them.

Idealisations: `usize` additions in `generate_data_hashes_for_stream` are unbounded `Nat`
additions; JUMBF serialisation (`to_jumbf_internal`) is a function parameter whose length law
(`base + size of the DataHash assertion + size of the signature`) is a theorem hypothesis.
-/
namespace C2pa.C03

/-- `HashBlockObjectType` -/
inductive Kind | cai | xmp | other | otherExcl
  deriving DecidableEq, Repr

/-- `HashObjectPositions` -/
structure Loc where
  offset : Nat
  length : Nat
  kind : Kind
  deriving DecidableEq, Repr

/-- A `DataHash` named `"jumbf manifest"`. `excl = []` is `exclusions: None`. -/
structure DHash where
  excl : List C15.Range
  algLen : Nat
  hash : List UInt8
  pad : Nat
  pad2 : Option Nat
  deriving DecidableEq, Repr

def DHash.c15 (d : DHash) : C15.DataHash :=
  { exclusions := if d.excl.isEmpty then none else some d.excl
    nameLen := some 14
    algLen := some d.algLen
    hashLen := d.hash.length
    padLen := d.pad
    pad2 := d.pad2 }

/-- `to_assertion()?.data().len()` -/
def DHash.size (d : DHash) : Nat := C15.dhSize d.c15

/-- bytes of the assertion CBOR outside the `pad` value and the `pad2` entry (C14's `rest`) -/
def DHash.rest (d : DHash) : Nat := C15.dhSize { d.c15 with padLen := 0, pad2 := none } - 1

/-- the view `pad_to_size` has of the assertion -/
def DHash.c14 (d : DHash) : C14.DH := ⟨d.rest, d.pad, d.pad2⟩

def toHR (r : C15.Range) : C13.HashRange := ⟨r.start, r.length, none⟩

/-- `self.exclusions.clone()` as handed to `hash_stream_by_alg` -/
def DHash.ranges (d : DHash) : Option (List C13.HashRange) :=
  if d.excl.isEmpty then none else some (d.excl.map toHR)

inductive Err
  | badParam | unsupported | jumbfCreation | hashFailed | panic
  deriving DecidableEq, Repr

/-- state of the `for item in block_locations` loop -/
structure Scan where
  start : Nat
  stop : Nat
  found : Bool
  others : List C15.Range
  deriving DecidableEq, Repr

def scanStep (s : Scan) (it : Loc) : Scan :=
  let s1 := if !s.found && it.kind == .cai then { s with start := it.offset, found := true } else s
  let s2 := if s1.found && it.kind == .cai then { s1 with stop := it.offset + it.length } else s1
  if it.kind == .otherExcl then { s2 with others := s2.others ++ [⟨it.offset, it.length⟩] } else s2

def scan (locs : List Loc) : Scan := locs.foldl scanStep ⟨0, 0, false, []⟩

def digestLen (alg : String) : Option Nat :=
  if alg == "sha256" then some 32 else if alg == "sha384" then some 48
  else if alg == "sha512" then some 64 else none

/-- the exclusion list `generate_data_hashes_for_stream` builds; `none` = the
"data hash exclusions out of range" error -/
def exclusionsOf (streamLen : Nat) (locs : List Loc) (calcH : Bool) : Option (List C15.Range) :=
  let s := scan (C13.stableSort Loc.offset locs)
  if s.found then
    if calcH then
      let e := if s.stop > s.start ∧ s.stop ≤ streamLen then s.others ++ [⟨s.start, s.stop - s.start⟩]
               else s.others
      if s.stop > streamLen + (s.stop - s.start) then none else some e
    else if s.stop > s.start then some (s.others ++ [⟨s.start, s.stop - s.start⟩])
    else some s.others
  else some s.others

/-- `Store::generate_data_hashes_for_stream` (its single DataHash). `H` is the digest function
of `alg`, `buf` the read-chunk size of the hasher. -/
def genDataHash (H : List UInt8 → List UInt8) (alg : String) (data : List UInt8) (locs : List Loc)
    (calcH : Bool) (buf : Nat) : Except Err DHash :=
  match exclusionsOf data.length locs calcH with
  | none => .error .badParam
  | some excl =>
    let d0 : DHash := { excl := excl, algLen := alg.length, hash := [], pad := 0, pad2 := none }
    if calcH then
      match C13.hashModel alg data d0.ranges true buf none with
      | .ok abs _ =>
        if (H abs).isEmpty then .error .badParam else .ok { d0 with hash := H abs }
      | .err _ _ => .error .hashFailed
      | .panic _ => .error .panic
    else
      match digestLen alg with
      | some n => .ok { d0 with hash := List.replicate n 0 }
      | none => .error .unsupported

/-- `Claim::update_data_hash`: `data_hash.pad_to_size(original_len)` -/
def updateDataHash (d : DHash) (originalLen : Nat) : Except Err DHash :=
  match C14.padToSize d.c14 originalLen with
  | .ok p => .ok { d with pad := p.pad, pad2 := p.pad2 }
  | _ => .error .jumbfCreation

/-- an asset as its format handler sees it -/
structure Asset where
  bytes : List UInt8
  /-- `object_locations_from_stream(format, asset)` -/
  locs : List Loc
  deriving Repr

/-- everything the flow is parametric in -/
structure Env where
  /-- `save_jumbf_to_stream(format, asset, out, jumbf)` -/
  embed : Asset → List UInt8 → Asset
  /-- `to_jumbf_internal` of the store holding this DataHash and this signature box content -/
  jumbf : DHash → List UInt8 → List UInt8
  /-- digest function of the claim's `alg` -/
  H : List UInt8 → List UInt8
  /-- `sign_claim`: COSE signature over the claim that holds this DataHash, padded to the
  signer's reserve -/
  sign : DHash → List UInt8
  /-- `sign_claim_placeholder(reserve)` -/
  sigPlaceholder : List UInt8

structure Started where
  /-- the output stream after the first pass (placeholder JUMBF embedded) -/
  out0 : Asset
  dh : DHash
  jumbfSize : Nat
  deriving Repr

/-- `start_save_stream`, data-hash branch. -/
def startSave (E : Env) (alg : String) (src : Asset) (buf : Nat) : Except Err Started :=
  match genDataHash E.H alg src.bytes src.locs false buf with
  | .error e => .error e
  | .ok h0 =>
    -- `hash.add_padding(vec![0; 10])`
    let dh0 := { h0 with pad := 10 }
    let data0 := E.jumbf dh0 E.sigPlaceholder
    let out0 := E.embed src data0
    match genDataHash E.H alg out0.bytes out0.locs true buf with
    | .error e => .error e
    | .ok h1 =>
      match updateDataHash h1 dh0.size with
      | .error e => .error e
      | .ok dh1 =>
        let data1 := E.jumbf dh1 E.sigPlaceholder
        if data1.length ≠ data0.length then .error .jumbfCreation
        else .ok ⟨out0, dh1, data0.length⟩

inductive Res
  | ok (asset : Asset) (manifest : List UInt8) (dh : DHash)
  | err (e : Err)
  deriving Repr

/-- `save_to_stream`: first pass, sign, `finish_save_stream` (embeds the final JUMBF into the
intermediate stream, i.e. over the placeholder). -/
def saveToStream (E : Env) (alg : String) (src : Asset) (buf : Nat) : Res :=
  match startSave E alg src buf with
  | .error e => .err e
  | .ok st =>
    let final := E.jumbf st.dh (E.sign st.dh)
    .ok (E.embed st.out0 final) final st.dh

/-- `DataHash::verify_stream_hash` on the asset the verifier reads. -/
def verifyBinding (H : List UInt8 → List UInt8) (alg : String) (asset : List UInt8) (dh : DHash)
    (buf : Nat) : Bool :=
  match C13.hashModel alg asset dh.ranges true buf none with
  | .ok abs _ => H abs == dh.hash
  | _ => false

/-! ### the prefix ++ framed manifest ++ suffix container -/

/-- A source asset as its handler sees it. `pre`/`suf` may depend on the payload length only;
`wrap` is the framing (segment/chunk headers, CRCs). -/
structure Split where
  pre : Nat → List UInt8
  suf : Nat → List UInt8
  wrap : List UInt8 → List UInt8

/-- `save_jumbf_to_stream` for the split container (replaces whatever the asset held) -/
def Split.embed (s : Split) (_asset : Asset) (jumbf : List UInt8) : Asset :=
  { bytes := s.pre jumbf.length ++ s.wrap jumbf ++ s.suf jumbf.length
    locs := [⟨(s.pre jumbf.length).length, (s.wrap jumbf).length, .cai⟩] }

/-- the source: its bytes and the C2PA region the handler reports for it (an existing manifest,
or the placeholder the handler inserts to find the location) at `at_` of length `probe` -/
def Split.source (bytes : List UInt8) (at_ probe : Nat) : Asset :=
  { bytes := bytes, locs := [⟨at_, probe, .cai⟩] }

/-! ### report: `Builder::to_claim` label plumbing and `Manifest::from_store` -/

def infixOf (p : List Char) : List Char → Bool
  | [] => p.isEmpty
  | c :: cs => p.isPrefixOf (c :: cs) || infixOf p cs

/-- an assertion of the definition / of the report: label, payload (opaque), JSON kind -/
structure Asn where
  label : String
  data : String
  json : Bool
  deriving DecidableEq, Repr

/-- `ClaimAssertion`: assertion + instance number -/
structure CAsn where
  asn : Asn
  inst : Nat
  deriving DecidableEq, Repr

/-- `Claim::next_instance`: one more than the largest instance among stored assertions whose
label *contains* the new label (substring test, as coded) -/
def nextInstance (store : List CAsn) (label : String) : Nat :=
  match (store.filter fun x => infixOf label.toList x.asn.label.toList).map (·.inst) with
  | [] => 0
  | i :: is => (is.foldl max i) + 1

def addAssertion (store : List CAsn) (a : Asn) : List CAsn :=
  store ++ [⟨a, nextInstance store a.label⟩]

/-- the typed-assertion paths of `to_claim` re-label: `c2pa.actions` is written as
`c2pa.actions.v2`; every other label generated here is kept -/
def normLabel (l : String) : String := if l == "c2pa.actions" then "c2pa.actions.v2" else l

structure Definition where
  title : Option String
  format : String
  version : Nat
  assertions : List Asn
  deriving DecidableEq, Repr

structure Claim where
  title : Option String
  format : Option String
  version : Nat
  store : List CAsn
  deriving DecidableEq, Repr

/-- `to_claim` followed by the hard binding added by `start_save_stream` -/
def toClaim (d : Definition) : Claim :=
  let store := d.assertions.foldl (fun st a => addAssertion st { a with label := normLabel a.label }) []
  { title := d.title, format := some d.format, version := d.version
    store := addAssertion store ⟨"c2pa.hash.data", "", false⟩ }

/-- CBOR serialisation + parsing of the claim: a version ≥ 2 claim has no `dc:format` -/
def wire (c : Claim) : Claim := { c with format := if c.version ≥ 2 then none else c.format }

def isHardBinding (l : String) : Bool :=
  l == "c2pa.hash.data" || l == "c2pa.hash.bmff" || l == "c2pa.hash.boxes"

structure Report where
  title : Option String
  format : Option String
  assertions : List CAsn
  deriving DecidableEq, Repr

/-- `Manifest::from_store`, restricted to what C03 compares -/
def report (c : Claim) : Report :=
  { title := c.title, format := c.format
    assertions := c.store.filter fun x => !isHardBinding x.asn.label }

/-! ### line protocol -/

def parseKind (s : String) : Kind :=
  if s == "0" then .cai else if s == "1" then .xmp else if s == "3" then .otherExcl else .other

def parseLocs (s : String) : List Loc :=
  if s == "-" then []
  else (s.splitOn ",").filterMap fun t =>
    match t.splitOn ":" with
    | [a, b, k] => some ⟨a.toNat?.getD 0, b.toNat?.getD 0, parseKind k⟩
    | _ => none

def exclStr (l : List C15.Range) : String :=
  if l.isEmpty then "-" else ",".intercalate (l.map fun r => s!"{r.start}:{r.length}")

def Err.str : Err → String
  | .badParam => "badparam" | .unsupported => "unsupported" | .jumbfCreation => "jumbfcreation"
  | .hashFailed => "hashfailed" | .panic => "panic"

def handle (toks : List String) : String :=
  match toks with
  | "flow" :: rest =>
    let alg := field rest "alg"
    let srcLen := (field rest "src").toNat?.getD 0
    let outLen := (field rest "out").toNat?.getD 0
    let locs0 := parseLocs (field rest "locs0")
    let locs1 := parseLocs (field rest "locs1")
    let dl := (digestLen alg).getD 0
    let E : Env :=
      { embed := fun _ _ => ⟨List.replicate outLen 0, locs1⟩
        jumbf := fun d s => List.replicate (d.size + s.length) 0
        H := fun _ => List.replicate dl 170
        sign := fun _ => []
        sigPlaceholder := [] }
    match startSave E alg ⟨List.replicate srcLen 0, locs0⟩ (outLen + srcLen + 1) with
    | .error e => "err " ++ e.str
    | .ok st =>
      s!"ok excl={exclStr st.dh.excl} size={st.dh.size} pad={st.dh.pad} pad2={C14.optStr st.dh.pad2}"
  | "report" :: rest =>
    let v := (field rest "v").toNat?.getD 2
    let labels := splitList (if field rest "labels" == "-" then "" else field rest "labels") ","
    let d : Definition :=
      { title := none, format := "f", version := v
        assertions := labels.map fun l => ⟨l, "", false⟩ }
    let r := report (wire (toClaim d))
    let out := r.assertions.map fun x => s!"{x.asn.label}#{x.inst}"
    (if r.format.isSome then "fmt " else "nofmt ") ++ (if out.isEmpty then "-" else ",".intercalate out)
  | _ => "bad-op"

end C2pa.C03
