import C2paModel.Model.C13
import C2paModel.Model.C14
import C2paModel.Model.C15
import C2paModel.Model.C01
import C2paModel.Model.C06
/-
C03 — model of the two-pass sign/embed flow of `Store::save_to_stream` / `start_save_stream` /
`finish_save_stream` (sdk/src/store.rs) for the data-hash path (non-BMFF format with a handler,
embedded manifest, no caller-supplied hard binding, not an update manifest), of
`Store::generate_data_hashes_for_stream`, `Claim::update_data_hash` → `DataHash::pad_to_size`,
of the verifier side `DataHash::verify_stream_hash`, and — second part — of the label plumbing
of `Builder::to_claim` / `Claim::add_assertion` / `Manifest::from_store` ("report").

It is a *composition* of pieces modelled elsewhere:
* hashing with exclusions is `C13.hashModel` (Model/C13.lean),
* `pad_to_size` is `C14.padToSize`, CBOR sizes of a DataHash are `C15.dhSize`,
* the signature box padded to the signer's reserve is C14's `padCoseSig` (here: a signer
  function whose output length is a hypothesis of the theorems).

The container is abstract: an asset is its bytes together with the object locations its
handler reports for it (`object_locations_from_stream`; a function of the bytes in the real
code, carried along here), and a format handler is a function
  `embed : asset → JUMBF bytes → asset`   (`save_jumbf_to_stream`)
The theorems (Props/C03.lean) hold for every handler that obeys three laws (equal-length
payloads give the same layout and the same bytes outside the excluded regions; the reported
regions lie inside the asset; re-embedding replaces) and `splitHandler` — prefix ++ framed
manifest ++ suffix, with prefix/suffix allowed to depend on the payload *length* (TIFF writes
the byte count into an IFD entry) — is proved to obey them.

Further parts: the `remove_manifests` branch for sidecar / remote manifests
(`startSaveNoEmbed`, `zeroLocs`), a second container handler that really reads the asset it is
given (`Splice`), the validation codes of reading the signed store back (`readBack`: C06's
signature codes, one hashed-URI check per stored assertion, the data-hash verdict of C01's
`bindData`; the state is C04's `state`), and the claim store `to_claim` builds (thumbnail,
ingredients, supplied assertions, hard binding — with `next_instance`'s substring test) and its
partition by `Manifest::from_store`.

Idealisations: `next_instance` is modelled for labels without `/` and `__` (its
`assertion_label_from_link` then returns the label unchanged); `usize` additions in `generate_data_hashes_for_stream` are unbounded `Nat`
additions; JUMBF serialisation (`to_jumbf_internal`) is a function parameter whose length law
(`base + size of the DataHash assertion + size of the signature`) is a theorem hypothesis.
-/
namespace C2pa.C03

/-- `HashBlockObjectType` -/
inductive Kind | cai | xmp | other | otherExcl
  deriving DecidableEq, Repr

/-- `HashObjectPositions` -/
structure Loc where
  offset : Nat
  length : Nat
  kind : Kind
  deriving DecidableEq, Repr

/-- A `DataHash` named `"jumbf manifest"`. `excl = []` is `exclusions: None`. -/
structure DHash where
  excl : List C15.Range
  algLen : Nat
  hash : List UInt8
  pad : Nat
  pad2 : Option Nat
  deriving DecidableEq, Repr

def DHash.c15 (d : DHash) : C15.DataHash :=
  { exclusions := if d.excl.isEmpty then none else some d.excl
    nameLen := some 14
    algLen := some d.algLen
    hashLen := d.hash.length
    padLen := d.pad
    pad2 := d.pad2 }

/-- `to_assertion()?.data().len()` -/
def DHash.size (d : DHash) : Nat := C15.dhSize d.c15

/-- bytes of the assertion CBOR outside the `pad` value and the `pad2` entry (C14's `rest`) -/
def DHash.rest (d : DHash) : Nat := C15.dhSize { d.c15 with padLen := 0, pad2 := none } - 1

/-- the view `pad_to_size` has of the assertion -/
def DHash.c14 (d : DHash) : C14.DH := ⟨d.rest, d.pad, d.pad2⟩

def toHR (r : C15.Range) : C13.HashRange := ⟨r.start, r.length, none⟩

/-- `self.exclusions.clone()` as handed to `hash_stream_by_alg` -/
def DHash.ranges (d : DHash) : Option (List C13.HashRange) :=
  if d.excl.isEmpty then none else some (d.excl.map toHR)

inductive Err
  | badParam | unsupported | jumbfCreation | hashFailed | panic
  deriving DecidableEq, Repr

/-- state of the `for item in block_locations` loop -/
structure Scan where
  start : Nat
  stop : Nat
  found : Bool
  others : List C15.Range
  deriving DecidableEq, Repr

def scanStep (s : Scan) (it : Loc) : Scan :=
  let s1 := if !s.found && it.kind == .cai then { s with start := it.offset, found := true } else s
  let s2 := if s1.found && it.kind == .cai then { s1 with stop := it.offset + it.length } else s1
  if it.kind == .otherExcl then { s2 with others := s2.others ++ [⟨it.offset, it.length⟩] } else s2

def scan (locs : List Loc) : Scan := locs.foldl scanStep ⟨0, 0, false, []⟩

def digestLen (alg : String) : Option Nat :=
  if alg == "sha256" then some 32 else if alg == "sha384" then some 48
  else if alg == "sha512" then some 64 else none

/-- the exclusion list `generate_data_hashes_for_stream` builds; `none` = the
"data hash exclusions out of range" error -/
def exclusionsOf (streamLen : Nat) (locs : List Loc) (calcH : Bool) : Option (List C15.Range) :=
  let s := scan (C13.stableSort Loc.offset locs)
  if s.found then
    if calcH then
      let e := if s.stop > s.start ∧ s.stop ≤ streamLen then s.others ++ [⟨s.start, s.stop - s.start⟩]
               else s.others
      if s.stop > streamLen + (s.stop - s.start) then none else some e
    else if s.stop > s.start then some (s.others ++ [⟨s.start, s.stop - s.start⟩])
    else some s.others
  else some s.others

/-- `Store::generate_data_hashes_for_stream` (its single DataHash). `H` is the digest function
of `alg`, `buf` the read-chunk size of the hasher. -/
def genDataHash (H : List UInt8 → List UInt8) (alg : String) (data : List UInt8) (locs : List Loc)
    (calcH : Bool) (buf : Nat) : Except Err DHash :=
  match exclusionsOf data.length locs calcH with
  | none => .error .badParam
  | some excl =>
    let d0 : DHash := { excl := excl, algLen := alg.length, hash := [], pad := 0, pad2 := none }
    if calcH then
      match C13.hashModel alg data d0.ranges true buf none with
      | .ok abs _ =>
        if (H abs).isEmpty then .error .badParam else .ok { d0 with hash := H abs }
      | .err _ _ => .error .hashFailed
      | .panic _ => .error .panic
    else
      match digestLen alg with
      | some n => .ok { d0 with hash := List.replicate n 0 }
      | none => .error .unsupported

/-- `Claim::update_data_hash`: `data_hash.pad_to_size(original_len)` -/
def updateDataHash (d : DHash) (originalLen : Nat) : Except Err DHash :=
  match C14.padToSize d.c14 originalLen with
  | .ok p => .ok { d with pad := p.pad, pad2 := p.pad2 }
  | _ => .error .jumbfCreation

/-- an asset as its format handler sees it -/
structure Asset where
  bytes : List UInt8
  /-- `object_locations_from_stream(format, asset)` -/
  locs : List Loc
  deriving Repr

/-- everything the flow is parametric in -/
structure Env where
  /-- `save_jumbf_to_stream(format, asset, out, jumbf)` -/
  embed : Asset → List UInt8 → Asset
  /-- `to_jumbf_internal` of the store holding this DataHash and this signature box content -/
  jumbf : DHash → List UInt8 → List UInt8
  /-- digest function of the claim's `alg` -/
  H : List UInt8 → List UInt8
  /-- `sign_claim`: COSE signature over the claim that holds this DataHash, padded to the
  signer's reserve -/
  sign : DHash → List UInt8
  /-- `sign_claim_placeholder(reserve)` -/
  sigPlaceholder : List UInt8

structure Started where
  /-- the output stream after the first pass (placeholder JUMBF embedded) -/
  out0 : Asset
  dh : DHash
  jumbfSize : Nat
  deriving Repr

/-- `start_save_stream`, data-hash branch. -/
def startSave (E : Env) (alg : String) (src : Asset) (buf : Nat) : Except Err Started :=
  match genDataHash E.H alg src.bytes src.locs false buf with
  | .error e => .error e
  | .ok h0 =>
    -- `hash.add_padding(vec![0; 10])`
    let dh0 := { h0 with pad := 10 }
    let data0 := E.jumbf dh0 E.sigPlaceholder
    let out0 := E.embed src data0
    match genDataHash E.H alg out0.bytes out0.locs true buf with
    | .error e => .error e
    | .ok h1 =>
      match updateDataHash h1 dh0.size with
      | .error e => .error e
      | .ok dh1 =>
        let data1 := E.jumbf dh1 E.sigPlaceholder
        if data1.length ≠ data0.length then .error .jumbfCreation
        else .ok ⟨out0, dh1, data0.length⟩

inductive Res
  | ok (asset : Asset) (manifest : List UInt8) (dh : DHash)
  | err (e : Err)
  deriving Repr

/-- `save_to_stream`: first pass, sign, `finish_save_stream` (embeds the final JUMBF into the
intermediate stream, i.e. over the placeholder). -/
def saveToStream (E : Env) (alg : String) (src : Asset) (buf : Nat) : Res :=
  match startSave E alg src buf with
  | .error e => .err e
  | .ok st =>
    let final := E.jumbf st.dh (E.sign st.dh)
    .ok (E.embed st.out0 final) final st.dh

/-! ### sidecar / remote manifests (`remove_manifests` branch) -/

/-- the fix-up of `start_save_stream` when the manifest is not embedded: every `Cai` and
`OtherExclusion` location of the output is set to offset 0, length 0 -/
def zeroLocs (locs : List Loc) : List Loc :=
  locs.map fun l => if l.kind == .cai || l.kind == .otherExcl then { l with offset := 0, length := 0 } else l

/-- `start_save_stream` for `RemoteManifest::SideCar` / `Remote(url)`: `inter` is the
intermediate stream (the source with any manifest store removed and, for `Remote`, the XMP
reference written) together with the object locations its handler reports; the output of the
first pass is a verbatim copy of it and the second pass hashes it with the zeroed locations. -/
def startSaveNoEmbed (E : Env) (alg : String) (inter : Asset) (buf : Nat) : Except Err Started :=
  match genDataHash E.H alg inter.bytes inter.locs false buf with
  | .error e => .error e
  | .ok h0 =>
    let dh0 := { h0 with pad := 10 }
    let data0 := E.jumbf dh0 E.sigPlaceholder
    match genDataHash E.H alg inter.bytes (zeroLocs inter.locs) true buf with
    | .error e => .error e
    | .ok h1 =>
      match updateDataHash h1 dh0.size with
      | .error e => .error e
      | .ok dh1 =>
        let data1 := E.jumbf dh1 E.sigPlaceholder
        if data1.length ≠ data0.length then .error .jumbfCreation
        else .ok ⟨inter, dh1, data0.length⟩

/-- `save_to_stream` for a sidecar / remote manifest: `finish_save_stream` copies the
intermediate stream; the store is returned, not embedded. -/
def saveNoEmbed (E : Env) (alg : String) (inter : Asset) (buf : Nat) : Res :=
  match startSaveNoEmbed E alg inter buf with
  | .error e => .err e
  | .ok st =>
    let final := E.jumbf st.dh (E.sign st.dh)
    .ok st.out0 final st.dh

/-- `DataHash::verify_stream_hash` on the asset the verifier reads. -/
def verifyBinding (H : List UInt8 → List UInt8) (alg : String) (asset : List UInt8) (dh : DHash)
    (buf : Nat) : Bool :=
  match C13.hashModel alg asset dh.ranges true buf none with
  | .ok abs _ => H abs == dh.hash
  | _ => false

/-! ### reading the signed output back: validation codes and state -/

def cUriMatch : C04.Code := "assertion.hashedURI.match".toList
def cUriMismatch : C04.Code := "assertion.hashedURI.mismatch".toList
def cDataMatch : C04.Code := "assertion.dataHash.match".toList
def cDataMismatch : C04.Code := "assertion.dataHash.mismatch".toList
def cDataExtra : C04.Code := "assertion.dataHash.additionalExclusionsPresent".toList

/-- the statuses the data-hash arm of `verify_hash_binding` logs for a verdict of C01's
`bindData`; `none` = the read fails with an error instead of a report -/
def bindingStatuses : C01.Verdict → Option (List C04.Status)
  | .matched extra =>
    some ((if extra then [⟨cDataExtra, .informational, none⟩] else []) ++ [⟨cDataMatch, .success, none⟩])
  | .mismatched extra =>
    some ((if extra then [⟨cDataExtra, .informational, none⟩] else []) ++ [⟨cDataMismatch, .failure, none⟩])
  | _ => none      -- fatal / panic / malformed-assertion verdicts: no binding status of this kind

/-- The active-manifest validation results of a single-manifest store, in log order
(`Store::verify_store` → `Claim::verify_claim`): the signature step (C06 `signatureCodes`,
trust-policy verifier, conforming certificate), one hashed-URI check per assertion of the claim
(`uris`: did the stored hash match the assertion box), then the hard binding. -/
def readBack (trust : C06.Trust) (sigOk : Bool) (uris : List Bool) (v : C01.Verdict) :
    Option C04.Results :=
  match bindingStatuses v with
  | none => none
  | some bs =>
    let us : List C04.Status := uris.map fun ok =>
      if ok then ⟨cUriMatch, .success, none⟩ else ⟨cUriMismatch, .failure, none⟩
    some ((us ++ bs).foldl C04.addStatus (C06.resultsOf (C06.signatureCodes .trustPolicy .ok trust sigOk)))

/-! ### the prefix ++ framed manifest ++ suffix container -/

/-- A source asset as its handler sees it. `pre`/`suf` may depend on the payload length only;
`wrap` is the framing (segment/chunk headers, CRCs). -/
structure Split where
  pre : Nat → List UInt8
  suf : Nat → List UInt8
  wrap : List UInt8 → List UInt8

/-- `save_jumbf_to_stream` for the split container (replaces whatever the asset held) -/
def Split.embed (s : Split) (_asset : Asset) (jumbf : List UInt8) : Asset :=
  { bytes := s.pre jumbf.length ++ s.wrap jumbf ++ s.suf jumbf.length
    locs := [⟨(s.pre jumbf.length).length, (s.wrap jumbf).length, .cai⟩] }

/-- the source: its bytes and the C2PA region the handler reports for it (an existing manifest,
or the placeholder the handler inserts to find the location) at `at_` of length `probe` -/
def Split.source (bytes : List UInt8) (at_ probe : Nat) : Asset :=
  { bytes := bytes, locs := [⟨at_, probe, .cai⟩] }

/-! ### a container handler that reads the asset it is given -/

/-- A handler that removes the C2PA region the asset reports (or inserts at `ins` when the
asset reports none) and writes the framed payload in its place — the shape of the JPEG / PNG /
GIF / SVG / RIFF writers. -/
structure Splice where
  wrap : List UInt8 → List UInt8
  ins : Nat

/-- where the asset holds its manifest store: the first `Cai` location, else `(ins, 0)` -/
def Splice.region (s : Splice) (a : Asset) : Nat × Nat :=
  match a.locs.find? (fun l => l.kind == .cai) with
  | some l => (l.offset, l.length)
  | none => (s.ins, 0)

/-- `save_jumbf_to_stream` of the splice handler -/
def Splice.embed (s : Splice) (a : Asset) (jumbf : List UInt8) : Asset :=
  { bytes := a.bytes.take (s.region a).1 ++ s.wrap jumbf ++ a.bytes.drop ((s.region a).1 + (s.region a).2)
    locs := [⟨(s.region a).1, (s.wrap jumbf).length, .cai⟩] }

/-! ### report: `Builder::to_claim` label plumbing and `Manifest::from_store` -/

def infixOf (p : List Char) : List Char → Bool
  | [] => p.isEmpty
  | c :: cs => p.isPrefixOf (c :: cs) || infixOf p cs

/-- an assertion of the definition / of the report: label, payload (opaque), JSON kind -/
structure Asn where
  label : String
  data : String
  json : Bool
  deriving DecidableEq, Repr

/-- `ClaimAssertion`: assertion + instance number -/
structure CAsn where
  asn : Asn
  inst : Nat
  deriving DecidableEq, Repr

/-- `Claim::next_instance`: one more than the largest instance among stored assertions whose
label *contains* the new label (substring test, as coded) -/
def nextInstance (store : List CAsn) (label : String) : Nat :=
  match (store.filter fun x => infixOf label.toList x.asn.label.toList).map (·.inst) with
  | [] => 0
  | i :: is => (is.foldl max i) + 1

def addAssertion (store : List CAsn) (a : Asn) : List CAsn :=
  store ++ [⟨a, nextInstance store a.label⟩]

def startsWith (p l : String) : Bool := p.toList.isPrefixOf l.toList

/-- `to_claim` matches `parse_label(label).0.starts_with("c2pa.actions")` (stripping a `__n`
instance and a `.vN` version suffix cannot change whether the label starts with
`c2pa.actions`) and writes the typed `Actions` assertion, whose label is `c2pa.actions.v2`;
every other label generated here is kept (the other typed paths keep the supplied label) -/
def normLabel (l : String) : String := if startsWith "c2pa.actions" l then "c2pa.actions.v2" else l

structure Definition where
  title : Option String
  format : String
  version : Nat
  assertions : List Asn
  /-- a claim thumbnail resource is supplied -/
  thumbnail : Bool := false
  /-- number of ingredients supplied -/
  ingredients : Nat := 0
  deriving DecidableEq, Repr

structure Claim where
  title : Option String
  format : Option String
  version : Nat
  store : List CAsn
  deriving DecidableEq, Repr

/-- label of the claim thumbnail assertion (`EmbeddedData` for a version ≥ 2 claim, else
`Thumbnail` with the image type appended; the harness supplies JPEG) -/
def thumbLabel (version : Nat) : String :=
  if version ≥ 2 then "c2pa.thumbnail.claim" else "c2pa.thumbnail.claim.jpeg"

/-- label of an ingredient assertion (`Ingredient::add_to_claim`) -/
def ingredientLabel (version : Nat) : String :=
  if version ≥ 2 then "c2pa.ingredient.v3" else "c2pa.ingredient.v2"

/-- labels `to_claim` stores before the definition's assertions: thumbnail, then ingredients -/
def preLabels (d : Definition) : List String :=
  (if d.thumbnail then [thumbLabel d.version] else []) ++ List.replicate d.ingredients (ingredientLabel d.version)

/-- labels of everything the claim stores, in order: pre-labels, the (re-labelled) supplied
assertions, then the hard binding added by `start_save_stream` -/
def allLabels (d : Definition) : List String :=
  preLabels d ++ d.assertions.map (fun a => normLabel a.label) ++ ["c2pa.hash.data"]

/-- `to_claim` followed by the hard binding added by `start_save_stream` -/
def toClaim (d : Definition) : Claim :=
  let pre := (preLabels d).foldl (fun st l => addAssertion st ⟨l, "", false⟩) []
  let store := d.assertions.foldl (fun st a => addAssertion st { a with label := normLabel a.label }) pre
  { title := d.title, format := some d.format, version := d.version
    store := addAssertion store ⟨"c2pa.hash.data", "", false⟩ }

/-- CBOR serialisation + parsing of the claim: a version ≥ 2 claim has no `dc:format` -/
def wire (c : Claim) : Claim := { c with format := if c.version ≥ 2 then none else c.format }

def isHardBinding (l : String) : Bool :=
  l == "c2pa.hash.data" || l == "c2pa.hash.bmff" || l == "c2pa.hash.boxes" || startsWith "c2pa.hash.bmff" l

/-- which part of the report an assertion of the claim goes to (`Manifest::from_store`, arms
in source order) -/
inductive Part | assertion | ingredient | hidden | thumbnail
  deriving DecidableEq, Repr

def classify (l : String) : Part :=
  if startsWith "c2pa.actions" l then .assertion
  else if startsWith "c2pa.ingredient" l then .ingredient
  else if isHardBinding l then .hidden
  else if startsWith "c2pa.thumbnail.claim" l then .thumbnail
  else .assertion

structure Report where
  title : Option String
  format : Option String
  assertions : List CAsn
  ingredients : List CAsn
  thumbnail : Option CAsn
  deriving DecidableEq, Repr

/-- `Manifest::from_store`, restricted to what C03 compares -/
def report (c : Claim) : Report :=
  { title := c.title, format := c.format
    assertions := c.store.filter fun x => classify x.asn.label == .assertion
    ingredients := c.store.filter fun x => classify x.asn.label == .ingredient
    thumbnail := (c.store.filter fun x => classify x.asn.label == .thumbnail).getLast? }

/-! ### line protocol -/

def parseKind (s : String) : Kind :=
  if s == "0" then .cai else if s == "1" then .xmp else if s == "3" then .otherExcl else .other

def parseLocs (s : String) : List Loc :=
  if s == "-" then []
  else (s.splitOn ",").filterMap fun t =>
    match t.splitOn ":" with
    | [a, b, k] => some ⟨a.toNat?.getD 0, b.toNat?.getD 0, parseKind k⟩
    | _ => none

def exclStr (l : List C15.Range) : String :=
  if l.isEmpty then "-" else ",".intercalate (l.map fun r => s!"{r.start}:{r.length}")

def Err.str : Err → String
  | .badParam => "badparam" | .unsupported => "unsupported" | .jumbfCreation => "jumbfcreation"
  | .hashFailed => "hashfailed" | .panic => "panic"

def handle (toks : List String) : String :=
  match toks with
  | "flow" :: rest =>
    let alg := field rest "alg"
    let srcLen := (field rest "src").toNat?.getD 0
    let outLen := (field rest "out").toNat?.getD 0
    let locs0 := parseLocs (field rest "locs0")
    let locs1 := parseLocs (field rest "locs1")
    let dl := (digestLen alg).getD 0
    let E : Env :=
      { embed := fun _ _ => ⟨List.replicate outLen 0, locs1⟩
        jumbf := fun d s => List.replicate (d.size + s.length) 0
        H := fun _ => List.replicate dl 170
        sign := fun _ => []
        sigPlaceholder := [] }
    match startSave E alg ⟨List.replicate srcLen 0, locs0⟩ (outLen + srcLen + 1) with
    | .error e => "err " ++ e.str
    | .ok st =>
      s!"ok excl={exclStr st.dh.excl} size={st.dh.size} pad={st.dh.pad} pad2={C14.optStr st.dh.pad2}"
  | "report" :: rest =>
    let v := (field rest "v").toNat?.getD 2
    let labels := splitList (if field rest "labels" == "-" then "" else field rest "labels") ","
    let d : Definition :=
      { title := none, format := "f", version := v
        assertions := labels.map fun l => ⟨l, "", false⟩
        thumbnail := field rest "thumb" == "1"
        ingredients := (field rest "ing").toNat?.getD 0 }
    let r := report (wire (toClaim d))
    let out := r.assertions.map fun x => s!"{x.asn.label}#{x.inst}"
    let ing := r.ingredients.map fun x => s!"{x.asn.label}#{x.inst}"
    (if r.format.isSome then "fmt " else "nofmt ") ++ (if out.isEmpty then "-" else ",".intercalate out)
      ++ " ing=" ++ (if ing.isEmpty then "-" else ",".intercalate ing)
      ++ " thumb=" ++ (match r.thumbnail with | some t => s!"{t.asn.label}#{t.inst}" | none => "-")
  | "noembed" :: rest =>
    let alg := field rest "alg"
    let len := (field rest "len").toNat?.getD 0
    let locs := parseLocs (field rest "locs")
    let dl := (digestLen alg).getD 0
    let E : Env :=
      { embed := fun a _ => a
        jumbf := fun d s => List.replicate (d.size + s.length) 0
        H := fun _ => List.replicate dl 170
        sign := fun _ => []
        sigPlaceholder := [] }
    match startSaveNoEmbed E alg ⟨List.replicate len 0, locs⟩ (len + 1) with
    | .error e => "err " ++ e.str
    | .ok st =>
      s!"ok excl={exclStr st.dh.excl} size={st.dh.size} pad={st.dh.pad} pad2={C14.optStr st.dh.pad2}"
  | "readback" :: rest =>
    let trust := if field rest "trust" == "1" then C06.Trust.trusted else .untrusted
    let n := (field rest "uris").toNat?.getD 0
    let bad := (field rest "baduri").toNat?          -- index of a tampered assertion box, if any
    let uris := (List.range n).map fun i => bad != some i
    let extra := field rest "extra" == "1"
    let v : C01.Verdict := if field rest "bind" == "match" then .matched extra else .mismatched extra
    match readBack trust (field rest "sig" == "1") uris v with
    | none => "error"
    | some r => (C04.state r).str ++ " " ++ C04.resultsStr r
  | _ => "bad-op"

end C2pa.C03
