import C2paModel.Base
/-
C32 — model of the output handling of c2patool (`cli/src/main.rs`, `fn main` and
`fn sign_fragmented`) together with the file-system effects of the SDK calls it makes
(`Builder::sign_file` / `set_asset_from_dest` in sdk/src/builder.rs,
`Store::save_to_bmff_fragmented` in sdk/src/store.rs,
`BmffHash::add_merkle_for_fragmented` in sdk/src/assertions/bmff_hash.rs,
`save_jumbf_to_file` in sdk/src/jumbf_io.rs).

* A file system is a total function `Loc → Node`; a `Loc` is the list of path components
  below the directory the tool runs in (`[]` is that directory).
* The run is a sequence of `Action`s (create / overwrite / remove / mkdir / rmtree); every
  std::fs call of the code is one guarded primitive that either emits actions or fails
  without changing anything, exactly like the system call.
* What the code cannot decide by itself (is the asset parseable, does signing succeed, can
  the remote manifest be fetched…) are Boolean *facts* in the configuration; theorems
  quantify over them.
* Path *strings* are component lists (`RawPath`); the `std::path` string functions
  (`file_name`, `extension`, `with_extension`, `PathBuf ==`) work on them lexically, exactly
  like Rust. Which *location* the operating system reaches through a path string is the
  function `Cfg.rho` — a fact about the world like the others. Its default is `resolve`
  (drop `.` components); the line protocol can override it per path string, which is how
  aliases are expressed: `./a.jpg`, `sub/../a.jpg`, `/abs/dir/a.jpg`, `dirlink/a.jpg` all are
  different strings (`PathBuf !=`) for the location `[a.jpg]`. The theorems quantify over
  every `rho`, i.e. over every possible aliasing between PATH, `-o` and the sidecar path.
  (Fidelity limits: a directory reached through `rho` has its children and its parent at the
  list level, so an override must name a path whose parent directory exists; final-component
  symlinks are entries of their own — `exists` follows them, `remove_file` does not.)
-/
namespace C2pa.C32

abbrev Loc := List String
abbrev RawPath := List String

inductive Content
  | pre        -- whatever was there before the run
  | embedded   -- asset with an embedded manifest store
  | copy       -- asset bytes identical to the source (sidecar mode)
  | xmp        -- asset without embedded store but with a remote reference in XMP
  | junk       -- truncated / unfinished output of a failed signing attempt
  | c2pa       -- binary manifest store (sidecar file)
  | report     -- JSON report written by main.rs
  | res        -- resources written by the SDK into a report folder
  | frag       -- fragment with Merkle box
  | init       -- init segment with manifest store
  deriving DecidableEq, Repr

inductive Node
  | absent
  | file (c : Content)
  | dir
  deriving DecidableEq, Repr

abbrev FS := Loc → Node

inductive Action
  | create (p : Loc) (c : Content)     -- a file that did not exist is created
  | overwrite (p : Loc) (c : Content)  -- an existing file is truncated / replaced
  | remove (p : Loc)                   -- an existing file is unlinked
  | mkdir (p : Loc)                    -- a directory is created
  | rmtree (p : Loc)                   -- a directory and everything below it is removed
  deriving DecidableEq, Repr

/-- The locations an action changes. -/
def Action.touches : Action → Loc → Bool
  | .create p _, q => p == q
  | .overwrite p _, q => p == q
  | .remove p, q => p == q
  | .mkdir p, q => p == q
  | .rmtree p, q => p.isPrefixOf q

/-- Actions that replace or delete something (as opposed to adding a new entry). -/
def Action.destructive : Action → Bool
  | .create _ _ => false
  | .mkdir _ => false
  | _ => true

def apply (a : Action) (fs : FS) : FS := fun q =>
  match a with
  | .create p c => if p == q then .file c else fs q
  | .overwrite p c => if p == q then .file c else fs q
  | .remove p => if p == q then .absent else fs q
  | .mkdir p => if p == q then .dir else fs q
  | .rmtree p => if p.isPrefixOf q then .absent else fs q

def applyAll (as : List Action) (fs : FS) : FS := as.foldl (fun f a => apply a f) fs

structure St where
  fs : FS
  acts : List Action

def emit (a : Action) (st : St) : St := { fs := apply a st.fs, acts := st.acts ++ [a] }

/-! ### std::fs primitives (a failing call changes nothing: `none`) -/

def isDir (st : St) (p : Loc) : Bool := st.fs p == .dir

def isFile (st : St) (p : Loc) : Bool :=
  match st.fs p with
  | .file _ => true
  | _ => false

def locExists (st : St) (p : Loc) : Bool := st.fs p != .absent

/-- the directory that must exist for an entry to be created at `p` -/
def parentOk (st : St) (p : Loc) : Bool :=
  match p with
  | [] => false
  | _ => isDir st p.dropLast

/-- `fs::remove_file` -/
def removeFile (p : Loc) (st : St) : Option St :=
  if isFile st p then some (emit (.remove p) st) else none

/-- `File::create`, `OpenOptions::create(true).truncate(true)`, `fs::copy` destination,
`NamedTempFile::persist` (rename, then copy fallback): replace a file or create one. -/
def writeFile (p : Loc) (c : Content) (st : St) : Option St :=
  match st.fs p with
  | .dir => none
  | .file _ => some (emit (.overwrite p c) st)
  | .absent => if parentOk st p then some (emit (.create p c) st) else none

/-- `OpenOptions::create_new(true)` -/
def createNew (p : Loc) (c : Content) (st : St) : Option St :=
  match st.fs p with
  | .absent => if parentOk st p then some (emit (.create p c) st) else none
  | _ => none

/-- non-empty prefixes of a location, shortest first -/
def prefixes : Loc → List Loc
  | [] => []
  | x :: xs => [x] :: (prefixes xs).map (x :: ·)

def mkdirEach : List Loc → St → St
  | [], st => st
  | q :: qs, st => mkdirEach qs (if st.fs q == .absent then emit (.mkdir q) st else st)

/-- `fs::create_dir_all`: fails when a component is a file, else creates what is missing. -/
def mkdirAll (p : Loc) (st : St) : Option St :=
  if (prefixes p).any (isFile st) then none else some (mkdirEach (prefixes p) st)

/-- `fs::remove_dir_all` -/
def rmTree (p : Loc) (st : St) : Option St :=
  if isDir st p then some (emit (.rmtree p) st) else none

/-! ### `std::path` string functions used by main.rs -/

def asciiLower (c : Char) : Char :=
  if 'A' ≤ c ∧ c ≤ 'Z' then Char.ofNat (c.toNat + 32) else c

/-- drop `.` components (all of them: resolution) -/
def resolve (p : RawPath) : Loc := p.filter (· != ".")

/-- `Path::components()` as far as `PathBuf ==` sees them: a leading `.` is kept. -/
def normComps (p : RawPath) : List String :=
  match p with
  | "." :: rest => "." :: resolve rest
  | _ => resolve p

def pathEq (a b : RawPath) : Bool := normComps a == normComps b

/-- `Path::file_name` -/
def fileName (p : RawPath) : Option String :=
  match (resolve p).getLast? with
  | none => none
  | some n => if n == ".." then none else some n

/-- `rsplit_file_at_dot`: (stem, extension) -/
def splitAtDot (name : List Char) : List Char × Option (List Char) :=
  match name.reverse.span (· != '.') with
  | (revAfter, '.' :: revBefore) =>
    if revBefore.isEmpty then (name, none) else (revBefore.reverse, some revAfter.reverse)
  | _ => (name, none)

/-- `Path::extension` -/
def extension (p : RawPath) : Option (List Char) :=
  match fileName p with
  | none => none
  | some n => (splitAtDot n.toList).2

/-- `ext_normal` of main.rs -/
def extNormal (p : RawPath) : List Char :=
  let e := ((extension p).getD []).map asciiLower
  if e == "jpeg".toList then "jpg".toList
  else if e == "tiff".toList then "tif".toList
  else e

/-- `Path::with_extension(ext)` for a non-empty `ext` -/
def withExtension (p : RawPath) (ext : String) : RawPath :=
  match fileName p with
  | none => p
  | some n => (resolve p).dropLast ++ [String.ofList (splitAtDot n.toList).1 ++ "." ++ ext]


/-! ### configuration -/

/-- one init segment matched by the PATH glob in `fragment` mode -/
structure Rend where
  dir : Option String   -- `init.parent().file_name()`
  init : String         -- `init.file_name()`
  frags : List String   -- names matched by `--fragments_glob` in that folder
  deriving DecidableEq, Repr

inductive Cmd
  | none
  | trust                                   -- `trust …` sub-command: same tree as none
  | fragment (glob : Bool) (rends : List Rend)
  deriving DecidableEq, Repr

inductive MSrc
  | none
  | file     -- `-m`
  | inline   -- `-c`
  deriving DecidableEq, Repr

structure Cfg where
  path : Option RawPath
  output : Option RawPath
  msrc : MSrc
  parent : Bool := false
  sidecar : Bool := false
  remote : Bool := false
  force : Bool := false
  ingredient : Bool := false
  detailed : Bool := false
  /-- `--info`, `--certs` or `--tree` -/
  early : Bool := false
  cmd : Cmd := .none
  /-- facts -/
  fmtOk : Bool := true        -- `format_from_path(PATH)` is a supported type
  signOk : Bool := true       -- `Builder::sign` succeeds on the source
  setupOk : Bool := true      -- manifest JSON, ingredients, intent and signer can be set up
  hasManifest : Bool := true  -- `Reader::with_file(PATH)` finds a manifest store
  reportOk : Bool := true     -- the closing `Reader::with_file(output)` succeeds
  fragOk : Bool := true       -- every fragment is one moof + one mdat without Merkle box
  /-- the location a path string leads to (default: drop `.` components) -/
  rho : RawPath → Loc := resolve

/-- `Path::exists` -/
def pExists (cfg : Cfg) (st : St) (p : RawPath) : Bool := locExists st (cfg.rho p)

inductive Outcome
  | ok | readonly | usage | needPath | exists | typeMismatch | noFilename | noExtension
  | needManifest | needOutput | notFolder | fragFile | fragGlob | fail
  deriving DecidableEq, Repr

structure Res where
  outcome : Outcome
  st : St

/-! ### the decision tree -/

/-- `Builder::sign_file(source, dest)` incl. `set_asset_from_dest` -/
def signFile (cfg : Cfg) (src out : Loc) (c : Content) (st : St) : Outcome × St :=
  if locExists st out then (.fail, st) else
  match mkdirAll out.dropLast st with
  | none => (.fail, st)
  | some st1 =>
    if !cfg.fmtOk then (.fail, st1) else
    if !isFile st1 src then (.fail, st1) else
    match writeFile out (if cfg.signOk then c else .junk) st1 with
    | none => (.fail, st1)
    | some st2 => if cfg.signOk then (.ok, st2) else (.fail, st2)

/-- the `*path == output` arm: sign into a temp file (outside the tree), then persist -/
def signInPlace (cfg : Cfg) (src out : Loc) (c : Content) (st : St) : Outcome × St :=
  if !cfg.fmtOk then (.fail, st) else
  if !isFile st src then (.fail, st) else
  if !cfg.signOk then (.fail, st) else
  match (if locExists st out then some st else mkdirAll out.dropLast st) with
  | none => (.fail, st)
  | some st1 =>
    match writeFile out c st1 with
    | none => (.fail, st1)
    | some st2 => (.ok, st2)

/-- `if output.exists() { if force && output != path { remove_file } else if !force { bail } }`:
`none` = bail "exists", `some none` = remove_file failed, `some (some st)` = go on -/
def outputCheck (cfg : Cfg) (path output : RawPath) (st : St) : Option (Option St) :=
  if pExists cfg st output then
    if cfg.force && !pathEq output path then
      (match removeFile (cfg.rho output) st with
       | some s => some (some s)
       | none => some none)
    else if !cfg.force then none
    else some (some st)
  else some (some st)

def signContent (cfg : Cfg) : Content :=
  if cfg.sidecar then (if cfg.remote then .xmp else .copy) else .embedded

/-- `if *path != output { sign_file } else { sign to temp file, persist }` -/
def signStep (cfg : Cfg) (path output : RawPath) (st : St) : Outcome × St :=
  if !pathEq path output then signFile cfg (cfg.rho path) (cfg.rho output) (signContent cfg) st
  else signInPlace cfg (cfg.rho path) (cfg.rho output) (signContent cfg) st

/-- sidecar write and closing report -/
def signTail (cfg : Cfg) (sc : Loc) (r : Outcome × St) : Res :=
  if r.1 != .ok then ⟨r.1, r.2⟩ else
  match (if cfg.sidecar then writeFile sc .c2pa r.2 else some r.2) with
  | none => ⟨.fail, r.2⟩
  | some st3 => if cfg.reportOk then ⟨.ok, st3⟩ else ⟨.fail, st3⟩

/-- non-fragment arm of `if let Some(output) = args.output` under a manifest definition -/
def signBranch (cfg : Cfg) (path output : RawPath) (st : St) : Res :=
  let sc := cfg.rho (withExtension output "c2pa")
  if extNormal output != extNormal path then ⟨.typeMismatch, st⟩ else
  match outputCheck cfg path output st with
  | none => ⟨.exists, st⟩
  | some none => ⟨.fail, st⟩
  | some (some st1) =>
    -- (fix C32-sidecar-clobber) the sidecar path is protected like the output
    if cfg.sidecar && !cfg.force && locExists st1 sc then ⟨.exists, st1⟩ else
    if (fileName output).isNone then ⟨.noFilename, st1⟩ else
    if (extension output).isNone then ⟨.noExtension, st1⟩ else
    signTail cfg sc (signStep cfg path output st1)

/-- destination of a signed init segment: `<output>/<init folder name>/<init file name>` -/
def initDest (out : Loc) (r : Rend) : Option Loc :=
  match r.dir with
  | none => none
  | some d => some (out ++ [d, r.init])

/-- `add_merkle_for_fragmented`: copy the fragments of one rendition (create_new); a
failing fragment leaves the earlier ones behind -/
def writeFrags (cfg : Cfg) (d : Loc) : List String → St → Bool × St
  | [], st => (true, st)
  | f :: fs, st =>
    if !cfg.fragOk then (false, st) else
    match createNew (d ++ [f]) .frag st with
    | none => (false, st)
    | some st1 => writeFrags cfg d fs st1

/-- first loop of `save_to_bmff_fragmented` (state is kept on failure) -/
def fragLoop (cfg : Cfg) (out : Loc) : List Rend → St → Bool × St
  | [], st => (true, st)
  | r :: rs, st =>
    if !cfg.fmtOk then (false, st) else
    match r.dir with
    | none => (false, st)
    | some dn =>
      let d := out ++ [dn]
      if r.frags.isEmpty then (false, st) else
      let st1? := if !locExists st d then mkdirAll d st else (if isDir st d then some st else none)
      match st1? with
      | none => (false, st)
      | some st1 =>
        match writeFrags cfg d r.frags st1 with
        | (false, st2) => (false, st2)
        | (true, st2) => fragLoop cfg out rs st2

/-- second loop: `save_jumbf_to_file(placeholder, init, Some(output_file))` = fs::copy -/
def initLoop (out : Loc) : List Rend → St → Bool × St
  | [], st => (true, st)
  | r :: rs, st =>
    match initDest out r with
    | none => (false, st)
    | some d =>
      match writeFile d .init st with
      | none => (false, st)
      | some st1 => initLoop out rs st1

/-- `fragment` arm incl. `sign_fragmented` (with the existence check of fix C32-fragment-init) -/
def fragBranch (cfg : Cfg) (output : RawPath) (glob : Bool) (rends : List Rend) (st : St) : Res :=
  let out := cfg.rho output
  if pExists cfg st output && !isDir st out then ⟨.fragFile, st⟩ else
  if !glob then ⟨.fragGlob, st⟩ else
  if !cfg.force && rends.any (fun r => match initDest out r with
      | some d => locExists st d | none => false) then ⟨.exists, st⟩ else
  if rends.isEmpty then ⟨.ok, st⟩ else
  if isFile st out then ⟨.fail, st⟩ else
  match (if !locExists st out then mkdirAll out st else some st) with
  | none => ⟨.fail, st⟩
  | some st1 =>
    match fragLoop cfg out rends st1 with
    | (false, st2) => ⟨.fail, st2⟩
    | (true, st2) =>
      match initLoop out rends st2 with
      | (false, st3) => ⟨.fail, st3⟩
      | (true, st3) => if cfg.signOk then ⟨.ok, st3⟩ else ⟨.fail, st3⟩

/-- `else if let Some(output) = args.output` (report / ingredient folder) -/
def folderBranch (cfg : Cfg) (path output : RawPath) (st : St) : Res :=
  let out := cfg.rho output
  -- folder_mode_output_path_ok
  if pExists cfg st output && !isDir st out then ⟨.notFolder, st⟩ else
  let chk : Option (Option St) :=
    if pExists cfg st output then
      if cfg.force then (match rmTree out st with | some s => some (some s) | none => some none)
      else none
    else some (some st)
  match chk with
  | none => ⟨.exists, st⟩
  | some none => ⟨.fail, st⟩
  | some (some st1) =>
    match mkdirAll out st1 with
    | none => ⟨.fail, st1⟩
    | some st2 =>
      if cfg.ingredient then
        if !cfg.fmtOk then ⟨.fail, st2⟩ else
        if !isFile st2 (cfg.rho path) then ⟨.fail, st2⟩ else
        if !cfg.signOk then ⟨.fail, st2⟩ else
        match writeFile (out ++ ["*"]) .res st2 with
        | none => ⟨.fail, st2⟩
        | some st3 =>
          match writeFile (out ++ ["ingredient.json"]) .report st3 with
          | none => ⟨.fail, st3⟩
          | some st4 => ⟨.ok, st4⟩
      else
        if !isFile st2 (cfg.rho path) then ⟨.fail, st2⟩ else
        if !cfg.hasManifest then ⟨.fail, st2⟩ else
        match writeFile (out ++ ["*"]) .res st2 with
        | none => ⟨.fail, st2⟩
        | some st3 =>
          let st4? := if cfg.detailed then writeFile (out ++ ["detailed.json"]) .report st3 else some st3
          match st4? with
          | none => ⟨.fail, st3⟩
          | some st4 =>
            match writeFile (out ++ ["manifest_store.json"]) .report st4 with
            | none => ⟨.fail, st4⟩
            | some st5 => ⟨.ok, st5⟩

/-- `fn main` from `CliArgs::parse()` on -/
def runSt (cfg : Cfg) (st : St) : Res :=
  -- clap: `manifest` requires `output`
  if cfg.msrc == .file && cfg.output.isNone then ⟨.usage, st⟩ else
  match cfg.path with
  | none => ⟨.needPath, st⟩
  | some path =>
    if cfg.early then ⟨.readonly, st⟩ else
    if cfg.msrc != .none then
      if !cfg.setupOk then ⟨.fail, st⟩ else
      match cfg.output with
      | none => ⟨.needOutput, st⟩
      | some output =>
        match cfg.cmd with
        | .fragment glob rends => fragBranch cfg output glob rends st
        | _ => signBranch cfg path output st
    else if cfg.parent || cfg.sidecar || cfg.remote then ⟨.needManifest, st⟩
    else
      match cfg.output with
      | some output => folderBranch cfg path output st
      | none => ⟨.readonly, st⟩

def run (cfg : Cfg) (fs : FS) : Res := runSt cfg { fs := fs, acts := [] }

/-! ### declared outputs -/

def outLoc (cfg : Cfg) : Loc := cfg.rho (cfg.output.getD [])
def sidecarLoc (cfg : Cfg) : Loc := cfg.rho (withExtension (cfg.output.getD []) "c2pa")

/-! ### line protocol

`C32 run path=<p|-> out=<p|-> msrc=<n|f|c> flags=<letters|-> cmd=<-|trust|frag:<0|1>:<rend;…>>
     facts=<letters|-> [alias=<path>><loc>;…] fs=<path:f|path:d,…>`
paths are `/`-separated; rend = `<dir|->|<init>|<frag+frag…>`; `alias` lists the path strings
whose location is not the lexical one (key compared after dropping `.` components).
Reply: `<outcome> <path:change,…|->` with the net change of every location (sorted). -/

def parsePath (s : String) : RawPath := (s.splitOn "/").filter (· != "")

def parseRend (s : String) : Rend :=
  match s.splitOn "|" with
  | [d, i, f] => { dir := if d == "-" then none else some d, init := i,
                   frags := if f == "" || f == "-" then [] else f.splitOn "+" }
  | _ => { dir := none, init := "", frags := [] }

def parseCmd (s : String) : Cmd :=
  if s == "trust" then .trust
  else match s.splitOn ":" with
    | ["frag", g, r] => .fragment (g == "1") (if r == "" || r == "-" then [] else (r.splitOn ";").map parseRend)
    | _ => .none

def has (s : String) (c : Char) : Bool := s.toList.contains c

def parseAlias (s : String) : List (RawPath × Loc) :=
  if s == "-" || s == "" then [] else
  (s.splitOn ";").filterMap fun e =>
    match e.splitOn ">" with
    | [k, v] => some (resolve (parsePath k), resolve (parsePath v))
    | _ => none

def rhoOf (al : List (RawPath × Loc)) (p : RawPath) : Loc :=
  match al.find? (fun e => e.1 == resolve p) with
  | some e => e.2
  | none => resolve p

def parseCfg (toks : List String) : Cfg :=
  let p := field toks "path"
  let o := field toks "out"
  let m := field toks "msrc"
  let fl := field toks "flags"
  let fa := field toks "facts"
  { path := if p == "-" then none else some (parsePath p)
    output := if o == "-" then none else some (parsePath o)
    msrc := if m == "f" then .file else if m == "c" then .inline else .none
    parent := has fl 'p', sidecar := has fl 's', remote := has fl 'r', force := has fl 'f'
    ingredient := has fl 'i', detailed := has fl 'd', early := has fl 'e'
    cmd := parseCmd (field toks "cmd")
    fmtOk := has fa 'F', signOk := has fa 'S', setupOk := has fa 'U'
    hasManifest := has fa 'M', reportOk := has fa 'R', fragOk := has fa 'G'
    rho := rhoOf (parseAlias (field toks "alias")) }

def parseFs (s : String) : List (Loc × Node) :=
  if s == "-" || s == "" then [] else
  (s.splitOn ",").filterMap fun e =>
    match e.splitOn ":" with
    | [p, k] => some (resolve (parsePath p), if k == "d" then Node.dir else Node.file .pre)
    | _ => none

def fsOf (l : List (Loc × Node)) : FS := fun q =>
  match l.find? (fun e => e.1 == q) with
  | some e => e.2
  | none => .absent

def Outcome.str : Outcome → String
  | .ok => "ok" | .readonly => "readonly" | .usage => "usage" | .needPath => "need-path"
  | .exists => "exists" | .typeMismatch => "type-mismatch" | .noFilename => "no-filename"
  | .noExtension => "no-extension" | .needManifest => "need-manifest" | .needOutput => "need-output"
  | .notFolder => "not-folder" | .fragFile => "frag-file" | .fragGlob => "frag-glob" | .fail => "fail"

def Content.str : Content → String
  | .pre => "pre" | .embedded => "embedded" | .copy => "copy" | .xmp => "xmp" | .junk => "junk"
  | .c2pa => "c2pa" | .report => "report" | .res => "res" | .frag => "frag" | .init => "init"

def changeStr (a b : Node) : Option String :=
  match a, b with
  | .absent, .absent => none
  | .absent, .file c => some ("+f:" ++ c.str)
  | .absent, .dir => some "+d"
  | .file _, .absent => some "-f"
  | .dir, .absent => some "-d"
  | .file .pre, .file .pre => none
  | .file _, .file c => some ("~f:" ++ c.str)
  | .dir, .dir => none
  | .file _, .dir => some "f>d"
  | .dir, .file c => some ("d>f:" ++ c.str)

def locStr (p : Loc) : String := if p.isEmpty then "." else "/".intercalate p

def Action.loc : Action → Loc
  | .create p _ => p | .overwrite p _ => p | .remove p => p | .mkdir p => p | .rmtree p => p

def insertSorted (s : String) : List String → List String
  | [] => [s]
  | x :: xs => if s < x then s :: x :: xs else if s == x then x :: xs else x :: insertSorted s xs

def handle (toks : List String) : String :=
  match toks with
  | "run" :: rest =>
    let cfg := parseCfg rest
    let ents := ([], Node.dir) :: parseFs (field rest "fs")
    let fs0 := fsOf ents
    let r := run cfg fs0
    let univ := ents.map (·.1) ++ r.st.acts.map Action.loc
    let lines := univ.foldl (fun acc p =>
      if p.getLast? == some "*" then acc else
      -- the source replaced by a byte-identical copy of itself is not observable
      if some p == cfg.path.map cfg.rho && r.st.fs p == .file .copy && isFile ⟨fs0, []⟩ p then acc else
      match changeStr (fs0 p) (r.st.fs p) with
      | some c => insertSorted (locStr p ++ ":" ++ c) acc
      | none => acc) []
    r.outcome.str ++ " " ++ (if lines.isEmpty then "-" else ",".intercalate lines)
  | _ => "bad-op"

end C2pa.C32
