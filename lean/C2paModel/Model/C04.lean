import C2paModel.Base
/-
C04 — model of `ValidationResults::validation_state`, `is_tolerated_manifest_failure_code`,
`StatusCodes::add_status`, `ValidationResults::add_status` (sdk/src/validation_results.rs)
and the legacy fallback of `Reader::validation_state` (sdk/src/reader.rs).

Codes are `List Char` (the Rust code compares and prefix-tests `&str` byte-wise; all
codes are ASCII in the protocol, so chars = bytes).
-/
namespace C2pa.C04

abbrev Code := List Char

inductive Kind | success | informational | failure
  deriving DecidableEq, Repr

inductive State | invalid | valid | trusted
  deriving DecidableEq, Repr

def State.rank : State → Nat
  | .invalid => 0 | .valid => 1 | .trusted => 2

structure Codes where
  success : List Code := []
  informational : List Code := []
  failure : List Code := []
  deriving DecidableEq, Repr

structure Delta where
  uri : List Char
  codes : Codes
  deriving DecidableEq, Repr

structure Results where
  active : Option Codes := none
  deltas : Option (List Delta) := none
  deriving DecidableEq, Repr

structure Status where
  code : Code
  kind : Kind
  uri : Option (List Char)
  deriving DecidableEq, Repr

def cSigValidated : Code := "claimSignature.validated".toList
def cInsideValidity : Code := "claimSignature.insideValidity".toList
def cTrusted : Code := "signingCredential.trusted".toList
def cUntrusted : Code := "signingCredential.untrusted".toList
def cawgX509Prefix : Code := "cawg.x509.".toList

/-- `is_tolerated_manifest_failure_code` -/
def tolerated (c : Code) : Bool :=
  c == cUntrusted || cawgX509Prefix.isPrefixOf c

/-- `failure().is_empty() || failure().iter().all(tolerated)` -/
def failuresTolerated (c : Codes) : Bool :=
  c.failure.isEmpty || c.failure.all tolerated

def deltasOf (r : Results) : List Delta := r.deltas.getD []

def isValid (a : Codes) (r : Results) : Bool :=
  a.success.any (· == cSigValidated)
    && a.success.any (· == cInsideValidity)
    && failuresTolerated a
    && (deltasOf r).all (fun d => failuresTolerated d.codes)

def isTrusted (a : Codes) (r : Results) : Bool :=
  a.success.any (· == cTrusted)
    && a.failure.isEmpty
    && (deltasOf r).all (fun d => d.codes.failure.isEmpty)
    && isValid a r

/-- `ValidationResults::validation_state` -/
def state (r : Results) : State :=
  match r.active with
  | some a =>
    if isTrusted a r then .trusted
    else if isValid a r then .valid
    else .invalid
  | none => .invalid

/-- `StatusCodes::add_status` -/
def Codes.add (c : Codes) (s : Status) : Codes :=
  match s.kind with
  | .success => { c with success := c.success ++ [s.code] }
  | .informational => { c with informational := c.informational ++ [s.code] }
  | .failure => { c with failure := c.failure ++ [s.code] }

/-- `iter_mut().find(uri ==)` then add; `none` when no delta has that uri. -/
def addToFirst (uri : List Char) (s : Status) : List Delta → Option (List Delta)
  | [] => none
  | d :: ds =>
    if d.uri == uri then some ({ d with codes := d.codes.add s } :: ds)
    else (addToFirst uri s ds).map (d :: ·)

/-- `ValidationResults::add_status` -/
def addStatus (r : Results) (s : Status) : Results :=
  match s.uri with
  | none => { r with active := some ((r.active.getD {}).add s) }
  | some u =>
    let ds := deltasOf r
    match addToFirst u s ds with
    | some ds' => { r with deltas := some ds' }
    | none => { r with deltas := some (ds ++ [{ uri := u, codes := ({} : Codes).add s }]) }

/-- Legacy fallback of `Reader::validation_state` (no results object). The listed statuses are
the failures of the old report. (Follows the repaired code, fixes/C04-legacy-untrusted-not-trusted.patch:
`else if verify_trust && status.is_empty()`; before the repair a list holding only
`signingCredential.untrusted` gave Trusted when trust was verified.) -/
def legacyState (verifyTrust : Bool) (status : Option (List Code)) : State :=
  match status with
  | some st =>
    if st.any (· != cUntrusted) then .invalid
    else if verifyTrust && st.isEmpty then .trusted else .valid
  | none => if verifyTrust then .trusted else .valid

/-! ### line protocol -/

def State.str : State → String
  | .invalid => "invalid" | .valid => "valid" | .trusted => "trusted"

def parseCodes (s : String) : List Code := (splitList s ",").map String.toList

def parseSC (s : String) : Codes :=
  match s.splitOn ";" with
  | [a, b, c] => { success := parseCodes a, informational := parseCodes b, failure := parseCodes c }
  | _ => {}

def parseResults (toks : List String) : Results :=
  let a := field toks "A"
  let d := field toks "D"
  { active := if a == "-" then none else some (parseSC a)
    deltas :=
      if d == "-" then none
      else if d == "[]" then some []
      else some ((d.splitOn "/").map fun e =>
        match e.splitOn "~" with
        | [u, sc] => { uri := u.toList, codes := parseSC sc }
        | _ => { uri := [], codes := {} }) }

def codesStr (l : List Code) : String := ",".intercalate (l.map String.ofList)

def scStr (c : Codes) : String :=
  codesStr c.success ++ ";" ++ codesStr c.informational ++ ";" ++ codesStr c.failure

def resultsStr (r : Results) : String :=
  let a := match r.active with | none => "-" | some c => scStr c
  let d := match r.deltas with
    | none => "-"
    | some [] => "[]"
    | some ds => "/".intercalate (ds.map fun d => String.ofList d.uri ++ "~" ++ scStr d.codes)
  "A=" ++ a ++ " D=" ++ d

def parseOp (s : String) : Option Status :=
  match s.splitOn ":" with
  | [k, u, c] =>
    let kind := if k == "s" then Kind.success else if k == "i" then Kind.informational else Kind.failure
    some { code := c.toList, kind := kind, uri := if u == "-" then none else some u.toList }
  | _ => none

def handle (toks : List String) : String :=
  match toks with
  | "ops" :: rest =>
    let base := parseResults rest
    let opsS := field rest "ops"
    let ops := if opsS == "-" then [] else (opsS.splitOn ";").filterMap parseOp
    let r := ops.foldl addStatus base
    (state r).str ++ " " ++ resultsStr r
  | "reader" :: rest =>
    -- `Reader::validation_state` with a results object present: the state is derived from
    -- the results; a serialized/cached `validation_state` field (`stale=`) has no influence
    (state (parseResults rest)).str
  | "legacy" :: rest =>
    let trust := field rest "trust" == "1"
    let s := field rest "status"
    let st := if s == "-" then none else if s == "[]" then some [] else some (parseCodes s)
    (legacyState trust st).str
  | _ => "bad-op"

end C2pa.C04
