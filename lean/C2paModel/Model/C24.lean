import C2paModel.Base
/-
C24 / C38 — model of the SDK's mutable state and of operations as step programs over it.

State that operations can touch (everything else is immutable or per-call):
* per **context**: the cancel flag (`AtomicBool`), the lazily initialised signer / resolver
  cells (`OnceLock`: write-once), the settings value (immutable once the context is built);
* per **thread**: the legacy thread-local settings value (`settings/mod.rs SETTINGS`);
* process-wide lazily initialised *constants* (handler registry, regexes, HTTP clients): their
  value does not depend on who initialises them, so they are not state.
Which globals exist is regenerated from the source into `Gen/C24SharedState.lean`.

A step names the cell it touches; its output is what the operation observes.
-/
namespace C2pa.C24

structure Ctx where
  cancel : Bool := false
  signer : Option Nat := none      -- OnceLock: `none` = not yet initialised
  resolver : Option Nat := none
  settings : Nat := 0              -- immutable after construction
  deriving DecidableEq, Repr

structure Sys where
  ctxs : List Ctx                  -- indexed by context id
  tls : List Nat                   -- legacy thread-local settings, indexed by thread id
  deriving DecidableEq, Repr

inductive Op
  | checkProgress (c : Nat)              -- reads the cancel flag of context c
  | cancel (c : Nat)                     -- `Context::cancel`
  | getSigner (c : Nat) (init : Nat)     -- `OnceLock::get_or_init`: first caller's value wins
  | getResolver (c : Nat) (init : Nat)
  | readSettings (c : Nat)               -- reads the context's own settings
  | buildSettings (t : Nat) (v : Nat)    -- `Settings::new().with_json(..)` etc. on thread t: pure
  | readTls (t : Nat)                    -- legacy API reading the thread-local settings
  | setTls (t : Nat) (v : Nat)           -- legacy `load_settings_from_str` on thread t
  deriving DecidableEq, Repr

inductive Out
  | unit
  | flag (b : Bool)
  | val (v : Nat)
  | missing
  deriving DecidableEq, Repr

/-- Apply `f` to context `c` (if it exists): new context value and what the caller observes. -/
def onCtx (s : Sys) (c : Nat) (f : Ctx → Ctx × Out) : Sys × Out :=
  match s.ctxs[c]? with
  | some x => ({ s with ctxs := s.ctxs.set c (f x).1 }, (f x).2)
  | none => (s, .missing)

/-- Apply `f` to the legacy thread-local settings of thread `t`. -/
def onTls (s : Sys) (t : Nat) (f : Nat → Nat × Out) : Sys × Out :=
  match s.tls[t]? with
  | some v => ({ s with tls := s.tls.set t (f v).1 }, (f v).2)
  | none => (s, .missing)

def getOrInit (cell : Option Nat) (init : Nat) : Nat := cell.getD init

def step (s : Sys) : Op → Sys × Out
  | .checkProgress c => onCtx s c (fun x => (x, .flag x.cancel))
  | .cancel c => onCtx s c (fun x => ({ x with cancel := true }, .unit))
  | .getSigner c init =>
    onCtx s c (fun x => ({ x with signer := some (getOrInit x.signer init) }, .val (getOrInit x.signer init)))
  | .getResolver c init =>
    onCtx s c (fun x => ({ x with resolver := some (getOrInit x.resolver init) }, .val (getOrInit x.resolver init)))
  | .readSettings c => onCtx s c (fun x => (x, .val x.settings))
  | .buildSettings _ v => (s, .val v)
  | .readTls t => onTls s t (fun v => (v, .val v))
  | .setTls t v => onTls s t (fun _ => (v, .unit))

/-- The cell an operation touches: a context id or a thread id (or nothing). -/
inductive Cell | ctx (c : Nat) | thread (t : Nat) | none
  deriving DecidableEq, Repr

def Op.cell : Op → Cell
  | .checkProgress c | .cancel c | .getSigner c _ | .getResolver c _ | .readSettings c => .ctx c
  | .buildSettings _ _ => .none
  | .readTls t | .setTls t _ => .thread t

/-- Two operations are independent when they touch different cells (or one touches none). -/
def indep (a b : Op) : Bool :=
  match a.cell, b.cell with
  | .none, _ => true
  | _, .none => true
  | .ctx x, .ctx y => x != y
  | .thread x, .thread y => x != y
  | _, _ => true

/-- Run a program (list of ops), collecting outputs. -/
def runProg : Sys → List Op → Sys × List Out
  | s, [] => (s, [])
  | s, o :: os =>
    let (s', out) := step s o
    let (s'', outs) := runProg s' os
    (s'', out :: outs)

/-- A schedule of two programs: `true` = next step of the first program. Outputs are
collected per program. -/
def runSched : Sys → List Op → List Op → List Bool → Sys × List Out × List Out
  | s, [], q, _ => let (s', o) := runProg s q; (s', [], o)
  | s, p, [], _ => let (s', o) := runProg s p; (s', o, [])
  | s, p, q, [] => let (s1, o1) := runProg s p; let (s2, o2) := runProg s1 q; (s2, o1, o2)
  | s, a :: p, b :: q, true :: sch =>
    let (s', o) := step s a
    let (s'', o1, o2) := runSched s' p (b :: q) sch
    (s'', o :: o1, o2)
  | s, a :: p, b :: q, false :: sch =>
    let (s', o) := step s b
    let (s'', o1, o2) := runSched s' (a :: p) q sch
    (s'', o1, o :: o2)

/-! ### shared-state inventory kinds (rows of Gen/C24SharedState.lean) -/
inductive Kind
  | const            -- immutable static data
  | lazyConst        -- lazily initialised value that does not depend on the initialiser
  | threadLocal      -- thread_local! cell
  | perContextCell   -- OnceLock / atomic field of Context
  | mutableGlobal    -- anything else that is process-wide and mutable
  deriving DecidableEq, Repr

/-! ### line protocol
`sched p=<ops> q=<ops> s=<0/1 string> nctx=<n> nthr=<n>` → outputs of p | outputs of q
op syntax: cp:c ca:c gs:c:v gr:c:v rs:c bs:t:v rt:t st:t:v, separated by `,` -/

def parseOp (s : String) : Option Op :=
  match s.splitOn ":" with
  | ["cp", c] => c.toNat?.map .checkProgress
  | ["ca", c] => c.toNat?.map .cancel
  | ["gs", c, v] => do pure (.getSigner (← c.toNat?) (← v.toNat?))
  | ["gr", c, v] => do pure (.getResolver (← c.toNat?) (← v.toNat?))
  | ["rs", c] => c.toNat?.map .readSettings
  | ["bs", t, v] => do pure (.buildSettings (← t.toNat?) (← v.toNat?))
  | ["rt", t] => t.toNat?.map .readTls
  | ["st", t, v] => do pure (.setTls (← t.toNat?) (← v.toNat?))
  | _ => none

def outStr : Out → String
  | .unit => "u" | .flag b => if b then "T" else "F" | .val v => toString v | .missing => "x"

def initSys (nctx nthr : Nat) : Sys :=
  { ctxs := (List.range nctx).map (fun i => { settings := 100 + i }),
    tls := (List.range nthr).map (fun i => 200 + i) }

def handle (toks : List String) : String :=
  match toks with
  | "sched" :: rest =>
    let p := (splitList (field rest "p") ",").filterMap parseOp
    let q := (splitList (field rest "q") ",").filterMap parseOp
    let sch := (field rest "s").toList.map (· == '1')
    match (field rest "nctx").toNat?, (field rest "nthr").toNat? with
    | some nc, some nt =>
      let (_, o1, o2) := runSched (initSys nc nt) p q sch
      ",".intercalate (o1.map outStr) ++ "|" ++ ",".intercalate (o2.map outStr)
    | _, _ => "bad-req"
  | _ => "bad-op"

end C2pa.C24
