import C2paModel.Base
/-
C24 / C38 — model of the SDK's mutable state and of operations as step programs over it.

State that operations can touch (everything else is immutable or per-call):
* per **context**: the cancel flag (`AtomicBool`), the lazily initialised signer / resolver
  cells (`OnceLock`: write-once), the settings value (immutable once the context is built);
* per **thread**: the legacy thread-local settings value (`settings/mod.rs SETTINGS`);
* process-wide lazily initialised *constants* (handler registry, regexes, HTTP clients): their
  value does not depend on who initialises them, so they are not state.
Which globals exist is regenerated from the source into `Gen/C24SharedState.lean`.

A step names the cell it touches; its output is what the operation observes.
-/
namespace C2pa.C24

structure Ctx where
  cancel : Bool := false
  signer : Option Nat := none      -- OnceLock: `none` = not yet initialised
  resolver : Option Nat := none
  settings : Nat := 0              -- immutable after construction
  deriving DecidableEq, Repr

structure Sys where
  ctxs : List Ctx                  -- indexed by context id
  tls : List Nat                   -- legacy thread-local settings, indexed by thread id
  deriving DecidableEq, Repr

inductive Op
  | checkProgress (c : Nat)              -- reads the cancel flag of context c
  | cancel (c : Nat)                     -- `Context::cancel`
  | getSigner (c : Nat) (init : Nat)     -- `OnceLock::get_or_init`: first caller's value wins
  | getResolver (c : Nat) (init : Nat)
  | getSignerS (c : Nat)                 -- `Context::signer()`: `get_or_init(|| … self.settings.signer …)`
  | getResolverS (c : Nat)               -- `Context::resolver()`: `get_or_init(|| self.build_default_sync_resolver())`
  | readSettings (c : Nat)               -- reads the context's own settings
  | buildSettings (t : Nat) (v : Nat)    -- `Settings::new().with_json(..)` etc. on thread t: pure
  | readTls (t : Nat)                    -- legacy API reading the thread-local settings
  | setTls (t : Nat) (v : Nat)           -- legacy `Settings::from_string` / `from_toml` / `from_file` on thread t
  | leakyRead (t : Nat)                  -- context-based read of a BMFF asset with an update manifest on thread t:
                                         -- `BmffIO::read_cai` → `Store::from_jumbf` takes its decompression cap from
                                         -- the THREAD-LOCAL settings, not from the context (defect, see Props/C24)
  deriving DecidableEq, Repr

inductive Out
  | unit
  | flag (b : Bool)
  | val (v : Nat)
  | missing
  deriving DecidableEq, Repr

/-- Apply `f` to context `c` (if it exists): new context value and what the caller observes. -/
def onCtx (s : Sys) (c : Nat) (f : Ctx → Ctx × Out) : Sys × Out :=
  match s.ctxs[c]? with
  | some x => ({ s with ctxs := s.ctxs.set c (f x).1 }, (f x).2)
  | none => (s, .missing)

/-- Apply `f` to the legacy thread-local settings of thread `t`. -/
def onTls (s : Sys) (t : Nat) (f : Nat → Nat × Out) : Sys × Out :=
  match s.tls[t]? with
  | some v => ({ s with tls := s.tls.set t (f v).1 }, (f v).2)
  | none => (s, .missing)

def getOrInit (cell : Option Nat) (init : Nat) : Nat := cell.getD init

/-- What the code's own initialiser closures compute: a function of the context's settings only
(`Context::signer`: `self.settings.signer` / `cawg_x509_signer`; `Context::resolver`:
`self.settings.core.allowed_network_hosts` / `allow_redirects`). Settings are abstract numbers, so
the identity stands for "the signer / resolver configured by these settings". -/
def initOf (settings : Nat) : Nat := settings

/-- The thread-local decompression cap lets the stores of the probe asset through iff it is not 0;
the harness encodes the cap in the parity of the thread-local value (even ↦ cap 0). -/
def capAllows (v : Nat) : Bool := v % 2 == 1

def step (s : Sys) : Op → Sys × Out
  | .checkProgress c => onCtx s c (fun x => (x, .flag x.cancel))
  | .cancel c => onCtx s c (fun x => ({ x with cancel := true }, .unit))
  | .getSigner c init =>
    onCtx s c (fun x => ({ x with signer := some (getOrInit x.signer init) }, .val (getOrInit x.signer init)))
  | .getResolver c init =>
    onCtx s c (fun x => ({ x with resolver := some (getOrInit x.resolver init) }, .val (getOrInit x.resolver init)))
  | .getSignerS c =>
    onCtx s c (fun x => ({ x with signer := some (getOrInit x.signer (initOf x.settings)) },
      .val (getOrInit x.signer (initOf x.settings))))
  | .getResolverS c =>
    onCtx s c (fun x => ({ x with resolver := some (getOrInit x.resolver (initOf x.settings)) },
      .val (getOrInit x.resolver (initOf x.settings))))
  | .readSettings c => onCtx s c (fun x => (x, .val x.settings))
  | .buildSettings _ v => (s, .val v)
  | .readTls t => onTls s t (fun v => (v, .val v))
  | .setTls t v => onTls s t (fun _ => (v, .unit))
  | .leakyRead t => onTls s t (fun v => (v, .flag (capAllows v)))

/-- The cell an operation touches: a context id or a thread id (or nothing). -/
inductive Cell | ctx (c : Nat) | thread (t : Nat) | none
  deriving DecidableEq, Repr

def Op.cell : Op → Cell
  | .checkProgress c | .cancel c | .getSigner c _ | .getResolver c _ | .readSettings c
  | .getSignerS c | .getResolverS c => .ctx c
  | .buildSettings _ _ => .none
  | .readTls t | .setTls t _ | .leakyRead t => .thread t

/-- Two operations are independent when they touch different cells (or one touches none). -/
def indep (a b : Op) : Bool :=
  match a.cell, b.cell with
  | .none, _ => true
  | _, .none => true
  | .ctx x, .ctx y => x != y
  | .thread x, .thread y => x != y
  | _, _ => true

/-- Operations that may run on a *shared* cell from several threads without any ordering: reads,
checkpoints and the lazily initialised cells whose initialiser is the code's own (a function of the
context's settings). `cancel`, the legacy thread-local setter and cells initialised with a
caller-chosen value are not. -/
def sharedSafe : Op → Bool
  | .checkProgress _ | .readSettings _ | .getSignerS _ | .getResolverS _ | .buildSettings _ _
  | .readTls _ | .leakyRead _ => true
  | _ => false

/-- Two operations may be reordered: different cells, or both safe on a shared cell. -/
def compat (a b : Op) : Bool := indep a b || (sharedSafe a && sharedSafe b)

/-- Run a program (list of ops), collecting outputs. -/
def runProg : Sys → List Op → Sys × List Out
  | s, [] => (s, [])
  | s, o :: os =>
    let (s', out) := step s o
    let (s'', outs) := runProg s' os
    (s'', out :: outs)

/-- A schedule of two programs: `true` = next step of the first program. Outputs are
collected per program. -/
def runSched : Sys → List Op → List Op → List Bool → Sys × List Out × List Out
  | s, [], q, _ => let (s', o) := runProg s q; (s', [], o)
  | s, p, [], _ => let (s', o) := runProg s p; (s', o, [])
  | s, p, q, [] => let (s1, o1) := runProg s p; let (s2, o2) := runProg s1 q; (s2, o1, o2)
  | s, a :: p, b :: q, true :: sch =>
    let (s', o) := step s a
    let (s'', o1, o2) := runSched s' p (b :: q) sch
    (s'', o :: o1, o2)
  | s, a :: p, b :: q, false :: sch =>
    let (s', o) := step s b
    let (s'', o1, o2) := runSched s' (a :: p) q sch
    (s'', o1, o :: o2)

/-! ### n threads -/

/-- Sequential reference: program 0 to completion, then program 1, … -/
def runSeq : Sys → List (List Op) → Sys × List (List Out)
  | s, [] => (s, [])
  | s, p :: ps =>
    let r := runProg s p
    let r' := runSeq r.1 ps
    (r'.1, r.2 :: r'.2)

/-- Remove the next operation of program `i` (if that program exists and is not finished). -/
def popAt : List (List Op) → Nat → Option (Op × List (List Op))
  | [], _ => none
  | [] :: _, 0 => none
  | (o :: p) :: ps, 0 => some (o, p :: ps)
  | p :: ps, i + 1 =>
    match popAt ps i with
    | some (o, ps') => some (o, p :: ps')
    | none => none

/-- Prepend an output to the output list of program `i`. -/
def consAt : List (List Out) → Nat → Out → List (List Out)
  | [], _, _ => []
  | l :: ls, 0, o => (o :: l) :: ls
  | l :: ls, i + 1, o => l :: consAt ls i o

/-- A schedule of n programs (threads): each entry names the thread that takes its next step
(entries naming a finished / non-existent thread are skipped); when the schedule is exhausted
the remaining operations run program by program. Outputs are collected per program. -/
def runSchedN : Sys → List (List Op) → List Nat → Sys × List (List Out)
  | s, ps, [] => runSeq s ps
  | s, ps, i :: sch =>
    match popAt ps i with
    | none => runSchedN s ps sch
    | some (o, ps') =>
      let r := step s o
      let r' := runSchedN r.1 ps' sch
      (r'.1, consAt r'.2 i r.2)

/-! ### shared-state inventory kinds (rows of Gen/C24SharedState.lean) -/
inductive Kind
  | const            -- immutable static data
  | lazyConst        -- lazily initialised value that does not depend on the initialiser
  | threadLocal      -- thread_local! cell
  | perContextCell   -- OnceLock / atomic field of Context
  | mutableGlobal    -- anything else that is process-wide and mutable
  deriving DecidableEq, Repr

/-! ### line protocol
`sched p=<ops> q=<ops> s=<0/1 string> nctx=<n> nthr=<n>` → outputs of p | outputs of q
`schedn ps=<ops>/<ops>/… s=<i.i.i…> nctx=<n> nthr=<n>` → outputs of program 0 | program 1 | …
op syntax: cp:c ca:c gs:c:v gr:c:v gss:c grs:c rs:c bs:t:v rt:t st:t:v lr:t, separated by `,` -/

def parseOp (s : String) : Option Op :=
  match s.splitOn ":" with
  | ["cp", c] => c.toNat?.map .checkProgress
  | ["ca", c] => c.toNat?.map .cancel
  | ["gs", c, v] => do pure (.getSigner (← c.toNat?) (← v.toNat?))
  | ["gr", c, v] => do pure (.getResolver (← c.toNat?) (← v.toNat?))
  | ["gss", c] => c.toNat?.map .getSignerS
  | ["grs", c] => c.toNat?.map .getResolverS
  | ["lr", t] => t.toNat?.map .leakyRead
  | ["rs", c] => c.toNat?.map .readSettings
  | ["bs", t, v] => do pure (.buildSettings (← t.toNat?) (← v.toNat?))
  | ["rt", t] => t.toNat?.map .readTls
  | ["st", t, v] => do pure (.setTls (← t.toNat?) (← v.toNat?))
  | _ => none

def outStr : Out → String
  | .unit => "u" | .flag b => if b then "T" else "F" | .val v => toString v | .missing => "x"

def initSys (nctx nthr : Nat) : Sys :=
  { ctxs := (List.range nctx).map (fun i => { settings := 100 + i }),
    tls := (List.range nthr).map (fun i => 200 + i) }

def handle (toks : List String) : String :=
  match toks with
  | "sched" :: rest =>
    let p := (splitList (field rest "p") ",").filterMap parseOp
    let q := (splitList (field rest "q") ",").filterMap parseOp
    let sch := (field rest "s").toList.map (· == '1')
    match (field rest "nctx").toNat?, (field rest "nthr").toNat? with
    | some nc, some nt =>
      let (_, o1, o2) := runSched (initSys nc nt) p q sch
      ",".intercalate (o1.map outStr) ++ "|" ++ ",".intercalate (o2.map outStr)
    | _, _ => "bad-req"
  | "schedn" :: rest =>
    let ps := (splitList (field rest "ps") "/").map (fun p => (splitList (if p == "-" then "" else p) ",").filterMap parseOp)
    let sch := (splitList (if field rest "s" == "-" then "" else field rest "s") ".").filterMap String.toNat?
    match (field rest "nctx").toNat?, (field rest "nthr").toNat? with
    | some nc, some nt =>
      let (_, outs) := runSchedN (initSys nc nt) ps sch
      "|".intercalate (outs.map (fun o => ",".intercalate (o.map outStr)))
    | _, _ => "bad-req"
  | _ => "bad-op"

end C2pa.C24
