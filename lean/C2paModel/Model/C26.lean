import C2paModel.Model.C27
/-
C26 — model of the host allow-list of sdk/src/http/restricted.rs and of the default resolver
stack of sdk/src/context.rs:

  `HostPattern::new`, `HostPattern::matches`, `is_uri_allowed`,
  `RestrictedResolver::{is_uri_allowed, http_resolve(_async)}`,
  `Context::build_default_sync_resolver` / `build_default_async_resolver`
  (`RedirectResolver` over `RestrictedResolver` over the client when an allow-list is configured,
  `RedirectResolver` over the client otherwise).

The redirect follower, requests/responses and the byte-string helpers are the ones of
`Model/C27.lean` (one model of the stack for both properties).
-/
namespace C2pa.C26

open C2pa.C27

/-- `HostPattern` -/
structure Pattern where
  pattern : Bytes
  scheme : Option Bytes
  host : Option Bytes
  port : Option Bytes
  deriving DecidableEq, Repr

def pHttps : Bytes := bytesOf "https://"
def pHttp : Bytes := bytesOf "http://"
def sHttps : Bytes := bytesOf "https"
def sHttp : Bytes := bytesOf "http"
/-- `*.` -/
def wildcard : Bytes := [42, 46]

/-- `str::rsplit_once(c)`: split at the last occurrence of `c`. -/
def rsplitOnce (c : Nat) (s : Bytes) : Option (Bytes × Bytes) :=
  let r := s.reverse
  let after := r.takeWhile (· != c)
  match r.dropWhile (· != c) with
  | _ :: before => some (before.reverse, after.reverse)
  | [] => none

/-- the `strip_prefix("https://")` / `strip_prefix("http://")` cascade of `HostPattern::new`:
`(scheme, rest)` -/
def splitScheme (pattern : Bytes) : Option Bytes × Bytes :=
  match stripPrefix pHttps pattern with
  | some host => (some sHttps, host)
  | none =>
    match stripPrefix pHttp pattern with
    | some host => (some sHttp, host)
    | none => (none, pattern)

/-- the `rsplit_once(':')` of `HostPattern::new`: `(host, port)` -/
def splitPort (rest : Bytes) : Bytes × Option Bytes :=
  match rsplitOnce 58 rest with
  | some (host, port) => (host, some port)
  | none => (rest, none)

/-- `HostPattern::new` -/
def Pattern.new (raw : Bytes) : Pattern :=
  let pattern := lower raw
  let schemeRest := splitScheme pattern
  let hostPort := splitPort schemeRest.2
  { host := if hostPort.1.isEmpty then none else some hostPort.1
    pattern := pattern
    scheme := schemeRest.1
    port := hostPort.2 }

/-- `str::eq_ignore_ascii_case` -/
def eqIgnoreCase (a b : Bytes) : Bool := lower a == lower b

/-- the wildcard arm of `HostPattern::matches`: `host` is the URI host, `suffix` the pattern
after `*.` -/
def wildcardMatch (suffix host : Bytes) : Bool :=
  let host := lower host
  if host.length ≤ suffix.length || !endsWith host suffix then false
  else host[host.length - suffix.length - 1]? == some 46

/-- `is_host_allowed` of `HostPattern::matches`: with a `*.` prefix a suffix match, otherwise an
exact match. -/
def hostAllowed (allowedHost host : Bytes) : Bool :=
  match stripPrefix wildcard allowedHost with
  | some suffix => wildcardMatch suffix host
  | none => eqIgnoreCase allowedHost host

/-- `if let Some(scheme) = uri.scheme() { return scheme.as_str() == allowed_scheme; }` and the
fall-through to `false`. -/
def schemeEquals (allowedScheme : Bytes) (uriScheme : Option Bytes) : Bool :=
  match uriScheme with
  | some scheme => scheme == allowedScheme
  | none => false

/-- `HostPattern::matches` -/
def Pattern.matches (p : Pattern) (u : Uri) : Bool :=
  match p.host with
  | some allowedHost =>
    match u.host with
    | some host =>
      let isHostAllowed := hostAllowed allowedHost host
      let isPortAllowed := p.port == u.port
      if isHostAllowed && isPortAllowed then
        match p.scheme with
        | some allowedScheme => schemeEquals allowedScheme u.scheme
        | none => true
      else false
    | none => false
  | none =>
    match p.scheme with
    | some allowedScheme => schemeEquals allowedScheme u.scheme
    | none => false

/-- `restricted::is_uri_allowed` -/
def isUriAllowed (patterns : List Pattern) (u : Uri) : Bool :=
  patterns.any (·.matches u)

/-- `RestrictedResolver::is_uri_allowed`: `None` means allow all. -/
def resolverAllows (allowed : Option (List Pattern)) (u : Uri) : Bool :=
  match allowed with
  | some hosts => isUriAllowed hosts u
  | none => true

/-- `RestrictedResolver::http_resolve` over the transport. -/
def restricted (allowed : Option (List Pattern)) (t : Transport) : Inner := fun hop req st =>
  if !resolverAllows allowed req.uri then
    ({ st with attempts := st.attempts ++ [req] }, .error .uriDisallowed)
  else
    ({ attempts := st.attempts ++ [req], trace := st.trace ++ [req] }, t hop req)

/-- `Context::build_default_sync_resolver` / `build_default_async_resolver` followed by
`http_resolve(request)`, with the transport in place of the HTTP client. -/
def stack (t : Transport) (join : JoinFn) (allowedNetworkHosts : Option (List Pattern))
    (allowRedirects : Bool) (req : Request) : St × Except Err Response :=
  match allowedNetworkHosts with
  | some allowedHosts => redirectResolver (restricted (some allowedHosts) t) join allowRedirects req
  | none => redirectResolver (bare t) join allowRedirects req

/-- The two default resolver stacks a `Context` builds from its settings. -/
inductive Flavour
  | sync    -- `Context::resolver()`       ← `build_default_sync_resolver`
  | async   -- `Context::resolver_async()` ← `build_default_async_resolver`
  deriving DecidableEq, Repr

/-- The Context's stack constructor as a function of `core.allowed_network_hosts`, per flavour:
`None` ⇒ `RedirectResolver` directly over the client; `Some l` ⇒ `RedirectResolver` over
`RestrictedResolver(l)` over the client — for *every* `l`, the empty list included (the code tests
`if let Some(allowed_hosts) = …`, not the list's length). Both builders are the same text over the
sync / async client, so both flavours are this one function. -/
def contextStack (f : Flavour) (t : Transport) (join : JoinFn)
    (allowedNetworkHosts : Option (List Pattern)) (allowRedirects : Bool) (req : Request) :
    St × Except Err Response :=
  match f with
  | .sync =>
    match allowedNetworkHosts with
    | some allowedHosts => redirectResolver (restricted (some allowedHosts) t) join allowRedirects req
    | none => redirectResolver (bare t) join allowRedirects req
  | .async =>
    match allowedNetworkHosts with
    | some allowedHosts => redirectResolver (restricted (some allowedHosts) t) join allowRedirects req
    | none => redirectResolver (bare t) join allowRedirects req

def parseFlavour (s : String) : Flavour := if s == "a" then .async else .sync

/-! ### the request sites of sdk/src

Not every HTTP request of the SDK goes through `Context::resolver()`. The sites (inventoried from
the source by `translators/c28_http_sites.py`, see `Props/C26.lean`, `request_sites_pinned`):

* `contextResolver` — `context.resolver()` / `resolver_async()` of the caller's Context (remote
  manifests, OCSP, did:web, time-stamp requests issued with the caller's Context): the stack above.
* `signerTimestamp` — the default `Signer::send_timestamp_request` /
  `TimeStampProvider::send_time_stamp_request` (sync and async): `let context = Context::new();`
  — a Context with *default* settings (`allowed_network_hosts = None`, `allow_redirects = true`),
  whatever the caller configured.
* `remoteSigner` — `RemoteSigner::sign` (settings/signer.rs):
  `SyncGenericResolver::with_redirects()`, the bare HTTP client following redirects by itself.
-/

inductive Site
  | contextResolver
  | signerTimestamp
  | remoteSigner
  deriving DecidableEq, Repr

/-- An HTTP client that follows redirects natively (`ureq::agent()` / reqwest's default policy):
no allow-list, no target classification, no header policy of the SDK. Only what the properties
need is modelled: it re-issues the request to whatever `Location` resolves to, at most
`fuel - 1` times (the clients' own limits are not the SDK's). -/
def nativeLoop (t : Transport) (join : JoinFn) : Nat → Nat → Request → St → St × Except Err Response
  | 0, _, _, st => (st, .error .tooManyRedirects)
  | fuel + 1, hop, req, st =>
    let st' : St := { attempts := st.attempts ++ [req], trace := st.trace ++ [req] }
    match t hop req with
    | .error e => (st', .error e)
    | .ok resp =>
      match redirectLocation resp with
      | none => (st', .ok resp)
      | some loc =>
        match join hop req.uri loc with
        | .ok target => nativeLoop t join fuel (hop + 1) { req with uri := target } st'
        | _ => (st', .error .other)

def nativeClient (t : Transport) (join : JoinFn) (req : Request) : St × Except Err Response :=
  nativeLoop t join (maxRedirects + 1) 0 req {}

/-- What a request issued at `site` goes through, given the *caller's* configuration. -/
def siteStack (site : Site) (t : Transport) (join : JoinFn)
    (allowedNetworkHosts : Option (List Pattern)) (allowRedirects : Bool) (req : Request) :
    St × Except Err Response :=
  match site with
  | .contextResolver => stack t join allowedNetworkHosts allowRedirects req
  | .signerTimestamp => stack t join none true req
  | .remoteSigner => nativeClient t join req

def parseSite (s : String) : Site :=
  if s == "tsa" then .signerTimestamp else if s == "remote" then .remoteSigner else .contextResolver

/-! ### line protocol -/

/-- `~` = no allow-list, `-` = empty list, else comma-separated hex patterns -/
def parseAllow (s : String) : Option (List Pattern) :=
  if s == "~" then none
  else if s == "-" then some []
  else some ((s.splitOn ",").map fun h => Pattern.new (bytesOfHex h))

def uriOfFields (toks : List String) : Uri :=
  { text := []
    scheme := optOfHex (field toks "scheme")
    host := optOfHex (field toks "host")
    port := optOfHex (field toks "port") }

def optStr : Option Bytes → String
  | none => "~"
  | some b => hexOf b

def handle (toks : List String) : String :=
  match toks with
  | "match" :: rest =>
    let p := Pattern.new (bytesOfHex (field rest "pat"))
    boolStr (p.matches (uriOfFields rest)) ++ " lc=" ++ hexOf p.pattern
  | "allowed" :: rest =>
    boolStr (resolverAllows (parseAllow (field rest "allow")) (uriOfFields rest))
  | "restrict" :: rest =>
    let u := parseUri (field rest "u")
    let req : Request := { method := bytesOf "GET", uri := u, headers := [], body := [] }
    let t : Transport := fun _ _ => .ok { status := 200, location := .absent }
    let r := restricted (parseAllow (field rest "allow")) t 0 req {}
    resultStr r.2 ++ " n=" ++ toString r.1.trace.length
  | "chain" :: rest =>
    let c := parseChain rest
    chainReply (stack c.transport c.join (parseAllow (field rest "allow")) c.redirects c.request)
  | "ctx" :: rest =>
    let c := parseChain rest
    let r := contextStack (parseFlavour (field rest "mode")) c.transport c.join
      (parseAllow (field rest "allow")) c.redirects c.request
    resultStr r.2 ++ " n=" ++ toString r.1.trace.length
  | "site" :: rest =>
    -- a request issued at a request site under the caller's configuration; the reply names only
    -- what the harness can observe at every site: ok / refusal class / other failure, and the
    -- number of requests that reached the transport
    let c := parseChain rest
    let r := siteStack (parseSite (field rest "kind")) c.transport c.join (parseAllow (field rest "allow"))
      c.redirects c.request
    let cls := match r.2 with
      | .ok _ => "ok"
      | .error .uriDisallowed => "uri-disallowed"
      | .error .redirectDisallowed => "redirect-disallowed"
      | .error .targetDisallowed => "target-disallowed"
      | .error _ => "err"
    cls ++ " n=" ++ toString r.1.trace.length
  | _ => "bad-op"

/-- driver entry for C27: its own ops, plus `site` (the request sites are defined here, on top of
the allow-list stack) -/
def handle27 (toks : List String) : String :=
  match toks with
  | "site" :: _ => handle toks
  | _ => C2pa.C27.handle toks

end C2pa.C26
