import C2paModel.Base
import C2paModel.Model.C04
/-
C06 — model of `check_certificate_profile` / `check_end_entity_certificate_profile`
(sdk/src/crypto/cose/certificate_profile.rs) as a decision function over the *facts* of a
certificate, and of the part of `Verifier::verify_signature` (sdk/src/crypto/cose/verifier.rs)
plus `Claim::verify_internal` (sdk/src/claim.rs) that turns the profile / trust / signature
outcomes into validation codes.

What is a fact and what is modelled: ASN.1 decoding (x509-parser) is an oracle — the model starts
from the decoded values (`CertFacts`); every decision the Rust code takes on those values is
mirrored branch by branch, in the order of the code, together with the error value, the logged
status code and which log statement fired (`Rule`).
-/
namespace C2pa.C06

/-- Outer `signatureAlgorithm` OID, as classified by the accepted list. -/
inductive SigAlg | rsa256 | rsa384 | rsa512 | es256 | es384 | es512 | pss | ed25519 | other
  deriving DecidableEq, Repr

inductive Hash | sha256 | sha384 | sha512 | other
  deriving DecidableEq, Repr

/-- RSASSA-PSS `parameters`: absent, present but not decodable the way the code decodes them
(`[0] hash, [1] mgf` with an OID inside the MGF parameters), or decoded. `sameMgf` is the
comparison `ha_alg.to_id_string() == mgf_params_alg.to_id_string()`. -/
inductive Pss
  | absent
  | malformed
  | params (hash : Hash) (sameMgf : Bool)
  deriving DecidableEq, Repr

/-- SubjectPublicKeyInfo algorithm (Ed25519 and everything else the code does not inspect: `other`). -/
inductive SpkiAlg | rsa | rsapss | ec | other
  deriving DecidableEq, Repr

/-- EC `parameters`: absent, not an OID, or a named curve. -/
inductive EcParams | absent | notOid | p256 | p384 | p521 | other
  deriving DecidableEq, Repr

/-- x509-parser's `ExtendedKeyUsage` value. -/
structure Eku where
  any : Bool := false
  serverAuth : Bool := false
  clientAuth : Bool := false
  codeSigning : Bool := false
  emailProtection : Bool := false
  timeStamping : Bool := false
  ocspSigning : Bool := false
  other : List String := []
  deriving DecidableEq, Repr

/-- `tbscert.extended_key_usage()`: `Ok(None)`, `Err(_)` (duplicate / undecodable), `Ok(Some(_))`. -/
inductive EkuExt
  | none
  | err
  | some (e : Eku)
  deriving DecidableEq, Repr

/-- The arms of the `match e.parsed_extension()` in the extension loop. `handled` are the
extensions listed with `=> ()`; `other` is `Unparsed` or the `_` arm. -/
inductive ExtKind
  | aki
  | ski
  | keyUsage (digitalSignature keyCertSign nonRepudiation : Bool)
  | handled
  | other
  deriving DecidableEq, Repr

structure Ext where
  kind : ExtKind
  critical : Bool
  deriving DecidableEq, Repr

structure CertFacts where
  /-- `X509Certificate::from_der` succeeded -/
  parses : Bool := true
  /-- raw value of the version field (`X509Version::V3` is 2) -/
  version : Nat := 2
  notBefore : Int := 0
  notAfter : Int := 0
  sigAlg : SigAlg := .es256
  pss : Pss := .absent
  spkiAlg : SpkiAlg := .ec
  ecParams : EcParams := .p256
  /-- RSA `subjectPublicKey` decodes as a SEQUENCE of ≥ 2 elements starting with an INTEGER -/
  rsaKeyOk : Bool := true
  rsaBits : Nat := 0
  /-- `tbscert.is_ca()` -/
  isCa : Bool := false
  /-- `tbscert.extensions_map()` fails: some extension OID occurs more than once -/
  dupExt : Bool := false
  issuerEqSubject : Bool := false
  issuerUid : Bool := false
  subjectUid : Bool := false
  eku : EkuExt := .none
  exts : List Ext := []
  deriving DecidableEq, Repr

/-- What the check is run against. -/
structure Env where
  /-- `gen_time` (Unix seconds) of a validated time stamp, if any -/
  tst : Option Int := none
  /-- the validator's clock -/
  now : Int := 0
  /-- `CertificateTrustPolicy::additional_ekus` -/
  allowedEkus : List String := []
  deriving DecidableEq, Repr

inductive ErrKind
  | invalidCertificate | invalidCertificateVersion | certificateNotValidAtTime
  | unsupportedAlgorithm | selfSignedCertificate
  deriving DecidableEq, Repr

/-- `signingCredential.invalid` / `signingCredential.expired` -/
inductive Code | invalid | expired
  deriving DecidableEq, Repr

/-- Which `log_item!` fired (one per log statement of the file, in file order). -/
inductive Rule
  | parse | version | expired | algorithm | pssMismatch | pssHash | pssParamsMissing
  | curve | rsaBits | duplicateExt | selfSigned | uniqueId | ekuAny | ekuMissing | ekuSet | kuCertSign
  | params | endEntityIsCa
  /-- the catch-all of the public wrapper for rejections that returned without logging -/
  | unlogged
  deriving DecidableEq, Repr

/-- An `Err(kind)` of `check_certificate_profile_inner` together with the log item written on
the way (`none` for the early returns that do not log). -/
structure Rej where
  kind : ErrKind
  logged : Option (Code × Rule)
  deriving DecidableEq, Repr

/-- rejection with a `log_item!` -/
def rej (k : ErrKind) (c : Code) (r : Rule) : Rej := ⟨k, some (c, r)⟩
/-- rejection by `map_err(..)?` / bare `return Err(..)`: nothing logged -/
def silent (k : ErrKind) : Rej := ⟨k, none⟩

/-- Result of the public functions: every rejection carries exactly one logged failure. -/
inductive Res
  | ok
  | err (kind : ErrKind) (code : Code) (rule : Rule)
  deriving DecidableEq, Repr

/-- `Validity::is_valid_at` -/
def validAt (f : CertFacts) (t : Int) : Bool := decide (f.notBefore ≤ t) && decide (t ≤ f.notAfter)

/-- The time the validity window is compared with: the time stamp's, else now. -/
def signingTime (env : Env) : Int :=
  match env.tst with
  | some t => t
  | none => env.now

def sigAlgAccepted : SigAlg → Bool
  | .other => false
  | _ => true

def hashMandatory : Hash → Bool
  | .other => false
  | _ => true

def curveAccepted : EcParams → Bool
  | .p256 | .p384 | .p521 => true
  | _ => false

/-- `CertificateTrustPolicy::has_allowed_eku(..).is_some()` -/
def hasAllowedEku (allowed : List String) (e : Eku) : Bool :=
  e.emailProtection || e.timeStamping || e.ocspSigning || e.other.any (fun o => allowed.contains o)

/-- "one or the other || either of these two, and no others" -/
def badEkuSet (e : Eku) : Bool :=
  (e.ocspSigning && e.timeStamping)
    || ((e.ocspSigning != e.timeStamping)
        && (e.clientAuth || e.codeSigning || e.emailProtection || e.serverAuth || !e.other.isEmpty))

/-- The four flags the extension loop maintains (`ski_good` before the CA adjustment). -/
structure Flags where
  aki : Bool := false
  ski : Bool := false
  keyUsage : Bool := false
  handledAllCritical : Bool := true
  deriving DecidableEq, Repr

/-- One iteration of `for e in signcert.extensions()`; `none` = the early `return Err`. -/
def extStep (isCa : Bool) (fl : Flags) (e : Ext) : Option Flags :=
  match e.kind with
  | .aki => some { fl with aki := true }
  | .ski => some { fl with ski := true }
  | .keyUsage ds kcs nr =>
    if kcs && !isCa then none
    else
      let fl := if ds then { fl with keyUsage := true } else fl
      some (if kcs || nr then { fl with keyUsage := true } else fl)
  | .handled => some fl
  | .other => some (if e.critical then { fl with handledAllCritical := false } else fl)

def extLoop (isCa : Bool) : List Ext → Flags → Option Flags
  | [], fl => some fl
  | e :: es, fl =>
    match extStep isCa fl e with
    | none => none
    | some fl' => extLoop isCa es fl'

/-- The EKU block: `Err` outcomes, or the value of `extended_key_usage_good`. -/
def ekuGood (env : Env) (f : CertFacts) : Except Rej Bool :=
  match f.eku with
  | .err => .error (silent .invalidCertificate)
  | .some e =>
    if e.any then .error (rej .invalidCertificate .invalid .ekuAny)
    else if !hasAllowedEku env.allowedEkus e then .error (rej .invalidCertificate .invalid .ekuMissing)
    else if badEkuSet e then .error (rej .invalidCertificate .invalid .ekuSet)
    else .ok true
  | .none => .ok f.isCa

/-- Parsing, version, validity window, outer signature algorithm (`none` = all passed). -/
def headCheck (env : Env) (f : CertFacts) : Option Rej :=
  if !f.parses then some (rej .invalidCertificate .invalid .parse)
  else if f.version ≠ 2 then some (rej .invalidCertificateVersion .invalid .version)
  else if !validAt f (signingTime env) then some (rej .certificateNotValidAtTime .expired .expired)
  else if !sigAlgAccepted f.sigAlg then some (rej .unsupportedAlgorithm .invalid .algorithm)
  else none

/-- The RSASSA-PSS parameter block. -/
def pssCheck (f : CertFacts) : Option Rej :=
  if f.sigAlg = .pss then
    match f.pss with
    | .params h same =>
      if !same then some (rej .invalidCertificate .invalid .pssMismatch)
      else if !hashMandatory h then some (rej .invalidCertificate .invalid .pssHash)
      else none
    | .malformed => some (silent .invalidCertificate)
    | .absent => some (rej .invalidCertificate .invalid .pssParamsMissing)
  else none

/-- The EC named-curve block. -/
def curveCheck (f : CertFacts) : Option Rej :=
  if f.spkiAlg = .ec then
    match f.ecParams with
    | .absent => some (silent .invalidCertificate)
    | .notOid => some (silent .invalidCertificate)
    | c => if curveAccepted c then none else some (rej .invalidCertificate .invalid .curve)
  else none

/-- The RSA modulus block. -/
def rsaCheck (f : CertFacts) : Option Rej :=
  if f.spkiAlg = .rsa || f.spkiAlg = .rsapss then
    if !f.rsaKeyOk then some (silent .invalidCertificate)
    else if f.rsaBits < 2048 then some (rej .invalidCertificate .invalid .rsaBits)
    else none
  else none

/-- Duplicate extensions, self-signed, unique identifiers. -/
def idCheck (f : CertFacts) : Option Rej :=
  if f.dupExt then some (rej .invalidCertificate .invalid .duplicateExt)
  else if f.issuerEqSubject then some (rej .selfSignedCertificate .invalid .selfSigned)
  else if f.issuerUid || f.subjectUid then some (rej .invalidCertificate .invalid .uniqueId)
  else none

/-- "Check all flags." -/
def finalFlags (f : CertFacts) (ekuOk : Bool) (fl : Flags) : Option Rej :=
  let ski := if f.isCa then fl.ski else true
  if fl.aki && ski && fl.keyUsage && ekuOk && fl.handledAllCritical then none
  else some (rej .invalidCertificate .invalid .params)

/-- Extension loop and final flag test, given `extended_key_usage_good`. -/
def extPart (f : CertFacts) (ekuOk : Bool) : Option Rej :=
  match extLoop f.isCa f.exts {} with
  | none => some (rej .invalidCertificate .invalid .kuCertSign)
  | some fl => finalFlags f ekuOk fl

/-- EKU block, extension loop, final flag test. -/
def tailCheck (env : Env) (f : CertFacts) : Option Rej :=
  match ekuGood env f with
  | .error e => some e
  | .ok ekuOk => extPart f ekuOk

/-- `check_certificate_profile_inner`: the blocks in the order of the code, the first rejection
wins (`none` = `Ok(())`). -/
def checkInner (env : Env) (f : CertFacts) : Option Rej :=
  (headCheck env f).or <| (pssCheck f).or <| (curveCheck f).or <| (rsaCheck f).or <|
    (idCheck f).or <| tailCheck env f

/-- `check_certificate_profile`: the wrapper logs a generic failure when the inner function
rejected without logging. -/
def checkProfile (env : Env) (f : CertFacts) : Res :=
  match checkInner env f with
  | none => .ok
  | some ⟨k, some (c, r)⟩ => .err k c r
  | some ⟨k, none⟩ => .err k .invalid .unlogged

/-- `check_end_entity_certificate_profile` -/
def checkEndEntity (env : Env) (f : CertFacts) : Res :=
  match checkProfile env f with
  | .err k c r => .err k c r
  | .ok =>
    if !f.parses then .err .invalidCertificate .invalid .parse
    else if f.isCa then .err .invalidCertificate .invalid .endEntityIsCa
    else .ok

def Res.rejected : Res → Bool
  | .ok => false
  | .err .. => true

/-! ### From the profile outcome to validation codes (`Verifier::verify_signature`,
`Claim::verify_internal`) -/

/-- Which `Verifier` variant `verify_cose` selects. -/
inductive Mode | trustPolicy | profileOnly | ignore
  deriving DecidableEq, Repr

/-- Outcome of `verify_trust` as far as this property needs it (C05 models how it is decided). -/
inductive Trust | trusted | untrusted
  deriving DecidableEq, Repr

abbrev Codes := C04.Codes

def Code.str : Code → String
  | .invalid => "signingCredential.invalid"
  | .expired => "signingCredential.expired"

def Code.code (c : Code) : C04.Code := c.str.toList

def cMismatch : C04.Code := "claimSignature.mismatch".toList

/-- `verify_profile(..).ok()`: the profile failure the log keeps (nothing in `ignore` mode). -/
def profileFailure (mode : Mode) (prof : Res) : List C04.Code :=
  match prof with
  | .ok => []
  | .err _ code _ => if mode = .ignore then [] else [code.code]

/-- `verify_trust(..).ok()`: (success, failure) codes; a verdict only in `trustPolicy` mode. -/
def trustCodes (mode : Mode) (trust : Trust) : List C04.Code × List C04.Code :=
  if mode = .trustPolicy then
    match trust with
    | .trusted => ([C04.cTrusted], [])
    | .untrusted => ([], [C04.cUntrusted])
  else ([], [])

/-- The codes the signature step contributes to the active manifest, in log order: profile
failure (if any), then the trust verdict, then the claim-signature outcome of `verify_internal`. -/
def signatureCodes (mode : Mode) (prof : Res) (trust : Trust) (sigOk : Bool) : Codes :=
  { success := (trustCodes mode trust).1 ++ (if sigOk then [C04.cInsideValidity, C04.cSigValidated] else [])
    informational := []
    failure := profileFailure mode prof ++ (trustCodes mode trust).2 ++ (if sigOk then [] else [cMismatch]) }

/-- The results value holding just these active-manifest codes; its state is C04's. -/
def resultsOf (c : Codes) : C04.Results := { active := some c, deltas := none }

/-! ### line protocol -/

def parseSigAlg : String → SigAlg
  | "rsa256" => .rsa256 | "rsa384" => .rsa384 | "rsa512" => .rsa512
  | "es256" => .es256 | "es384" => .es384 | "es512" => .es512
  | "pss" => .pss | "ed25519" => .ed25519 | _ => .other

def parseHash : String → Hash
  | "sha256" => .sha256 | "sha384" => .sha384 | "sha512" => .sha512 | _ => .other

def parsePss (s : String) : Pss :=
  if s == "none" then .absent
  else if s == "bad" then .malformed
  else match s.splitOn "/" with
    | [h, m] => .params (parseHash h) (h == m)
    | _ => .malformed

def parseSpki : String → SpkiAlg
  | "rsa" => .rsa | "rsapss" => .rsapss | "ec" => .ec | _ => .other

def parseEcp : String → EcParams
  | "none" => .absent | "notoid" => .notOid | "p256" => .p256 | "p384" => .p384 | "p521" => .p521
  | _ => .other

/-- `eku=none | err | <flags>:<oid,oid|->`, flags ⊆ `a s c d e t o` (any, serverAuth,
clientAuth, coDesigning, emailProtection, timeStamping, ocspSigning), `-` for none. -/
def parseEku (s : String) : EkuExt :=
  if s == "none" then .none
  else if s == "err" then .err
  else match s.splitOn ":" with
    | [fl, oids] =>
      let has (c : Char) := fl.toList.contains c
      .some { any := has 'a', serverAuth := has 's', clientAuth := has 'c', codeSigning := has 'd',
              emailProtection := has 'e', timeStamping := has 't', ocspSigning := has 'o',
              other := if oids == "-" then [] else oids.splitOn "," }
    | _ => .err

/-- `exts=-` or comma list of `A|S|H|O|K<ds><kcs><nr>` each optionally followed by `!` (critical). -/
def parseExt (s : String) : Ext :=
  let crit := s.endsWith "!"
  let body := if crit then (s.dropEnd 1).toString else s
  let kind : ExtKind :=
    match body.toList with
    | ['A'] => .aki
    | ['S'] => .ski
    | ['H'] => .handled
    | ['K', a, b, c] => .keyUsage (a == '1') (b == '1') (c == '1')
    | _ => .other
  { kind, critical := crit }

def parseInt (s : String) : Int := s.toInt?.getD 0

def parseFacts (toks : List String) : CertFacts :=
  let exts := field toks "exts"
  { parses := field toks "parse" == "1"
    version := (field toks "ver").toNat?.getD 0
    notBefore := parseInt (field toks "nb")
    notAfter := parseInt (field toks "na")
    sigAlg := parseSigAlg (field toks "sig")
    pss := parsePss (field toks "pss")
    spkiAlg := parseSpki (field toks "spki")
    ecParams := parseEcp (field toks "ecp")
    rsaKeyOk := field toks "rsaok" == "1"
    rsaBits := (field toks "bits").toNat?.getD 0
    isCa := field toks "ca" == "1"
    dupExt := field toks "dup" == "1"
    issuerEqSubject := field toks "self" == "1"
    issuerUid := field toks "iuid" == "1"
    subjectUid := field toks "suid" == "1"
    eku := parseEku (field toks "eku")
    exts := if exts == "-" then [] else (exts.splitOn ",").map parseExt }

def parseEnv (toks : List String) : Env :=
  let t := field toks "t"
  let cfg := field toks "cfg"
  { tst := if t == "-" then none else some (parseInt t)
    now := parseInt (field toks "now")
    allowedEkus := if cfg == "-" then [] else cfg.splitOn "," }

def ErrKind.str : ErrKind → String
  | .invalidCertificate => "InvalidCertificate"
  | .invalidCertificateVersion => "InvalidCertificateVersion"
  | .certificateNotValidAtTime => "CertificateNotValidAtTime"
  | .unsupportedAlgorithm => "UnsupportedAlgorithm"
  | .selfSignedCertificate => "SelfSignedCertificate"

def Rule.str : Rule → String
  | .parse => "parse" | .version => "version" | .expired => "expired" | .algorithm => "algorithm"
  | .pssMismatch => "pss-mismatch" | .pssHash => "pss-hash" | .pssParamsMissing => "pss-params-missing"
  | .curve => "curve" | .rsaBits => "rsa-bits" | .duplicateExt => "duplicate-ext" | .selfSigned => "self-signed" | .uniqueId => "unique-id"
  | .ekuAny => "eku-any" | .ekuMissing => "eku-missing" | .ekuSet => "eku-set"
  | .kuCertSign => "ku-certsign" | .params => "params" | .endEntityIsCa => "ee-is-ca"
  | .unlogged => "unlogged"

def Res.str : Res → String
  | .ok => "ok"
  | .err k c r => "err:" ++ k.str ++ ":" ++ c.str ++ ":" ++ r.str

def parseMode : String → Mode
  | "trust" => .trustPolicy | "profile" => .profileOnly | _ => .ignore

def codesStr (c : Codes) : String :=
  let j (l : List C04.Code) := if l.isEmpty then "-" else ",".intercalate (l.map String.ofList)
  "S=" ++ j c.success ++ " F=" ++ j c.failure

def handle (toks : List String) : String :=
  match toks with
  | "prof" :: rest => (checkEndEntity (parseEnv rest) (parseFacts rest)).str
  | "e2e" :: rest =>
    let prof := checkEndEntity (parseEnv rest) (parseFacts rest)
    let trust := if field rest "trust" == "t" then Trust.trusted else Trust.untrusted
    let c := signatureCodes (parseMode (field rest "mode")) prof trust (field rest "sigok" == "1")
    (C04.state (resultsOf c)).str ++ " " ++ codesStr c
  | _ => "bad-op"

end C2pa.C06
