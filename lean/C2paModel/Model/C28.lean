import C2paModel.Base
/-
C28 — model of the decisions that lead to an HTTP request while reading, importing an
ingredient and signing.

Mirrors (sdk/src):
* `Store::load_jumbf_from_stream` / `Store::handle_remote_manifest` / `Store::fetch_remote_manifest`
  (store.rs): embedded manifest first; only on `JumbfNotFound` the XMP `dcterms:provenance`
  reference is consulted; `is_valid_remote_url`; `verify.remote_manifest_fetch`;
  `Error::RemoteManifestUrl(url)` / `Error::RemoteManifestFetch`.
* `claim::check_ocsp_status` → `crypto::cose::check_ocsp_status` → `fetch_and_check_ocsp_response`
  → `crypto::ocsp::fetch_ocsp_response` (`verify.ocsp_fetch`, usable stapled OCSP, override by
  certificate-status assertions, one request per AIA responder until a 200 / a transport error).
* `Store::get_manifest_labels_for_ocsp` / `Store::get_ocsp_response_ders` as used by
  `Ingredient::add_stream_internal` (`builder.certificate_status_fetch`,
  `builder.certificate_status_should_override`).
* `Ingredient::update_validation_status` (which load errors are absorbed into the ingredient).
* `Builder::sign`: `maybe_add_parent`, `to_claim`, `maybe_add_timestamp`
  (`builder.auto_timestamp_assertion.*`, `Builder::add_timestamp`), `Store::save_to_stream`
  (`Store::sign_claim` → `Signer::send_timestamp_request`, `verify.verify_after_sign` →
  `Store::verify_store`).

A manifest store is abstracted to the list of its claims in the order `Store::verify_store`
visits them (head = active claim), each claim to the facts the gating code looks at.
Manifests are assumed valid (no validation failure aborts `verify_store`).

`Store::is_valid_remote_url` (`url::Url::parse` + scheme test) is modelled on the bytes of the
reference (`classify`): trimming of C0 controls / space, removal of tab / LF / CR, the scheme,
the slashes of a special scheme, userinfo, host and port, incl. the forbidden host code points
and the IPv4 number forms. Hosts that need the IPv6, percent-decoding or IDNA code of the `url`
crate are classified `exoticHost`; for those (only) the verdict is the input `Asset.refUrlCrate`,
which the harness computes with the `url` crate. Whether `http::Request::get(reference)` can be
built (`fetch_remote_manifest` fails with `Error::HttpError` before any request otherwise) is the
input `Asset.refUriOk`, computed by the harness with the `http` crate.
-/
namespace C2pa.C28

/-- `builder.certificate_status_fetch : Option<OcspFetchScope>` -/
inductive Scope | none | active | all
  deriving DecidableEq, Repr

/-- `builder.auto_timestamp_assertion.fetch_scope` -/
inductive TsScope | parent | all
  deriving DecidableEq, Repr

structure Settings where
  /-- `verify.remote_manifest_fetch` -/
  remoteFetch : Bool
  /-- `verify.ocsp_fetch` -/
  ocspFetch : Bool
  /-- `builder.certificate_status_fetch` -/
  statusFetch : Scope
  /-- `builder.certificate_status_should_override` -/
  statusOverride : Option Bool
  /-- `builder.auto_timestamp_assertion.enabled` -/
  autoTs : Bool
  /-- `builder.auto_timestamp_assertion.skip_existing` -/
  tsSkipExisting : Bool
  /-- `builder.auto_timestamp_assertion.fetch_scope` -/
  tsScope : TsScope
  /-- `verify.verify_after_sign` -/
  verifyAfterSign : Bool
  /-- `core.decode_identity_assertions`: the Reader validates CAWG identity assertions -/
  decodeIdentity : Bool
  deriving DecidableEq, Repr

/-- What the transport answers: HTTP 200, another status, or `Err(HttpResolverError)`. -/
inductive Reply | ok | notFound | transportErr
  deriving DecidableEq, Repr

/-- The transport's behaviour per request class. `manifest = ok` serves the asset's remote
manifest store; `ocsp = ok` is a 200 whose body is not a usable OCSP response; `tsa = ok` is a
valid RFC 3161 response. -/
structure Env where
  manifest : Reply
  ocsp : Reply
  tsa : Reply
  deriving DecidableEq, Repr

structure Claim where
  /-- number of OCSP requests `process_ocsp_responders` builds for the signing chain
  (AIA OCSP URIs of the end-entity certificate; 0 when the chain has fewer than 2 certificates) -/
  responders : Nat
  /-- `get_ocsp_der(sign1).is_some()`: the COSE header carries an OCSP response -/
  stapled : Bool := false
  /-- `check_stapled_ocsp_response` accepts it and reports the certificate revoked or not revoked
  (an unusable stapled value is treated as if it did not exist) -/
  stapledUsable : Bool := false
  /-- identity (serial number) of the signing certificate -/
  cert : Nat := 0
  /-- the claim has certificate-status assertions (`Claim::has_ocsp_vals` is then false) -/
  statusAssert : Bool := false
  /-- one of them holds a response that `OcspResponse::from_der_checked` accepts for the claim's
  own signing chain (`get_store_validation_info` then files it under the certificate serial) -/
  statusFor : Bool := false
  /-- the claim signature carries a time-stamp, or a time-stamp assertion of an ingredient claim
  covers it (`maybe_add_timestamp`, `skip_existing`) -/
  timestamped : Bool := false
  /-- number of did:web resolutions that validating the claim's CAWG identity assertions
  performs (`cawg.identity_claims_aggregation` assertions with a did:web issuer that pass the
  checks preceding `IcaSignatureVerifier::check_issuer_signature`) -/
  didWeb : Nat := 0
  deriving DecidableEq, Repr

abbrev Store := List Claim

/-- URLs are character lists (compared and prefix-tested character-wise). -/
abbrev Url := List Char

/-- Result of `jumbf_io::load_jumbf_from_stream` on the asset itself. -/
inductive Embedded
  | absent                    -- `Err(JumbfNotFound)`
  | store (st : Store)        -- `Ok(bytes)`
  | broken                    -- any other `Err(e)`
  deriving DecidableEq, Repr

structure Asset where
  embedded : Embedded
  /-- `XmpInfo::from_source(..).provenance` -/
  xmp : Option Url
  /-- the manifest store the referenced URL serves -/
  remote : Store
  /-- oracle input: the `url` crate parses the reference as an http(s) URL. Consulted only when
  the byte-level `classify` answers `exoticHost`. -/
  refUrlCrate : Bool := true
  /-- oracle input: `http::Request::get(reference).body(..)` succeeds (`http::Uri` accepts it) -/
  refUriOk : Bool := true
  deriving DecidableEq, Repr

/-- HTTP requests the SDK can issue, by issuing code path. -/
inductive Req
  | manifest (url : Url)      -- Store::fetch_remote_manifest
  | ocspVerify                -- check_ocsp_status → fetch_and_check_ocsp_response
  | ocspStatus                -- Store::get_ocsp_response_ders → fetch_and_check_ocsp_response
  | tsaAssertion              -- Builder::maybe_add_timestamp → TimeStamp::refresh_timestamp
  | tsaSigner                 -- Signer::send_timestamp_request (default implementation)
  | didWeb                    -- Manifest::from_store → IdentityAssertion::validate_partial_claim → did_web::resolve
  deriving DecidableEq, Repr

inductive ReqKind | manifest | ocspVerify | ocspStatus | tsaAssertion | tsaSigner | didWeb
  deriving DecidableEq, Repr

def Req.kind : Req → ReqKind
  | .manifest _ => .manifest
  | .ocspVerify => .ocspVerify
  | .ocspStatus => .ocspStatus
  | .tsaAssertion => .tsaAssertion
  | .tsaSigner => .tsaSigner
  | .didWeb => .didWeb

/-- Which transport carries the request: the resolver of the caller's `Context`, or the default
resolver of a fresh `Context::new()` (`Signer::send_timestamp_request`). -/
inductive Channel | context | fresh
  deriving DecidableEq, Repr

def Req.channel : Req → Channel
  | .tsaSigner => .fresh
  | _ => .context

/-- What the configuration, the signer and the builder calls ask for. -/
structure Cfg where
  s : Settings
  /-- `signer.time_authority_url().is_some()` -/
  tsa : Bool
  /-- `Builder::add_timestamp` was called (`timestamp_manifest_labels` non-empty) -/
  explicitTs : Bool
  deriving DecidableEq, Repr

/-- The setting (or signer / builder request) that enables each kind of request. -/
def enabled (c : Cfg) : Req → Bool
  | .manifest _ => c.s.remoteFetch
  | .ocspVerify => c.s.ocspFetch
  | .ocspStatus => c.s.statusFetch != .none && c.s.statusOverride.isSome
  | .tsaAssertion => c.tsa && (c.s.autoTs || c.explicitTs)
  | .tsaSigner => c.tsa
  | .didWeb => c.s.decodeIdentity

inductive Err
  | jumbfNotFound
  | embeddedBroken
  | remoteManifestUrl (url : Url)
  | remoteManifestFetch
  | httpRequest               -- `Error::HttpError`: `http::Request::get(url)` refused the reference
  | assertionEncoding
  | timestampAssertion
  | timestampSigner
  deriving DecidableEq, Repr

/-- outcome class of an operation -/
inductive Res
  | ok
  | error (e : Err)
  deriving DecidableEq, Repr

/-! ### remote manifest -/

def lower (s : Url) : Url := s.map Char.toLower

def httpS : Url := ['h', 't', 't', 'p']
def httpsS : Url := ['h', 't', 't', 'p', 's']

/-- Byte-level reading of `url::Url::parse(reference)` followed by the scheme test. -/
inductive UrlClass
  | valid
  | invalid
  /-- scheme http/https and a non-empty authority, but the host needs the IPv6 parser, percent
  decoding or IDNA processing: not decided here -/
  | exoticHost
  deriving DecidableEq, Repr

def isC0Space (c : Char) : Bool := c.toNat ≤ 0x20
def isTabNl (c : Char) : Bool := c == '\t' || c == '\n' || c == '\r'

/-- `Input::new_trim_c0_control_and_space` (both ends) and the `Input` iterator, which skips
tab, LF and CR wherever they occur -/
def cleaned (u : Url) : Url :=
  (((u.dropWhile isC0Space).reverse.dropWhile isC0Space).reverse).filter (fun c => !isTabNl c)

def isSchemeChar (c : Char) : Bool := c.isAlphanum || c == '+' || c == '-' || c == '.'

/-- `Parser::parse_scheme`: lower-cased scheme and the input after the colon; `none` = no scheme
(`RelativeUrlWithoutBase`) -/
def splitScheme (l : Url) : Option (Url × Url) :=
  match l with
  | [] => none
  | c :: _ =>
    if !c.isAlpha then none
    else
      match l.dropWhile isSchemeChar with
      | ':' :: rest => some (lower (l.takeWhile isSchemeChar), rest)
      | _ => none

/-- special scheme: any run of `/` and `\` after the colon is skipped -/
def isSlash (c : Char) : Bool := c == '/' || c == '\\'
/-- end of the authority of a special scheme -/
def isAuthEnd (c : Char) : Bool := c == '/' || c == '\\' || c == '?' || c == '#'

/-- `parse_userinfo`: host and port start after the last `@` of the authority -/
def afterLastAt (l : Url) : Url := (l.reverse.takeWhile (· != '@')).reverse

/-- WHATWG forbidden domain code points (`idna::AsciiDenyList::URL`) -/
def forbiddenHostChar (c : Char) : Bool :=
  c.toNat ≤ 0x20 || c.toNat == 0x7f ||
    ['%', '#', '/', ':', '<', '>', '?', '@', '[', '\\', ']', '^', '|'].contains c

/-- split at every `.` (`str::split('.')`: n dots give n+1 parts) -/
def splitDot : Url → List Url
  | [] => [[]]
  | c :: cs =>
    match splitDot cs with
    | [] => [[]]
    | p :: ps => if c == '.' then [] :: p :: ps else (c :: p) :: ps

def digitVal (c : Char) : Nat := (hexVal? c).getD 0
def parseRadix (r : Nat) (l : Url) : Nat := l.foldl (fun acc c => acc * r + digitVal c) 0

/-- `parse_ipv4number`: `none` = not a number; the value is unbounded here (the caller checks
the `u32` overflow) -/
def ipv4Number (l : Url) : Option Nat :=
  if l.isEmpty then none
  else
    let rb : Nat × Url :=
      match l with
      | '0' :: 'x' :: t => (16, t)
      | '0' :: 'X' :: t => (16, t)
      | '0' :: c :: t => (8, c :: t)
      | _ => (10, l)
    if rb.2.isEmpty then some 0
    else
      let ok :=
        if rb.1 == 8 then rb.2.all (fun c => '0' ≤ c && c ≤ '7')
        else if rb.1 == 10 then rb.2.all Char.isDigit
        else rb.2.all (fun c => (hexVal? c).isSome)
      if ok then some (parseRadix rb.1 rb.2) else none

/-- the last label, ignoring one trailing dot (`ends_in_a_number`) -/
def lastLabel (h : Url) : Option Url :=
  match (splitDot h).reverse with
  | [] => none
  | p :: rest => if p.isEmpty then rest.head? else some p

def endsInNumber (h : Url) : Bool :=
  match lastLabel h with
  | none => false
  | some l => (!l.isEmpty && l.all Char.isDigit) || (ipv4Number l).isSome

/-- `parse_ipv4addr` succeeds -/
def ipv4Ok (h : Url) : Bool :=
  let parts0 := splitDot h
  let parts := if parts0.getLast? == some [] then parts0.dropLast else parts0
  if parts.length > 4 then false
  else
    match parts.mapM ipv4Number with
    | none => false
    | some nums =>
      if nums.any (fun n => n ≥ 4294967296) then false
      else
        match nums.reverse with
        | [] => false
        | n :: others => n < 256 ^ (4 - others.length) && others.all (fun x => x ≤ 255)

/-- hosts whose acceptance depends on code that is not modelled: non-ASCII bytes or a label with
`--` in positions 3–4 (IDNA / Punycode), `%` (percent decoding), `[` (IPv6 literal) -/
def exoticHost (h : Url) : Bool :=
  h.any (fun c => c.toNat ≥ 0x80 || c == '%' || c == '[')
    || (splitDot h).any (fun l => (l.drop 2).take 2 == ['-', '-'])

/-- `Host::parse` for a plain ASCII host: not empty, no forbidden code point, and if it ends in
a number it is an IPv4 address in one of the WHATWG notations -/
def hostOk (h : Url) : Bool :=
  !h.isEmpty && !h.any forbiddenHostChar && (!endsInNumber (lower h) || ipv4Ok (lower h))

/-- `parse_port`: digits only up to the end of the authority, value at most 65535 (may be empty) -/
def portOk (p : Url) : Bool := p.all Char.isDigit && parseRadix 10 p ≤ 65535

/-- host-and-port part of the authority (after slashes and userinfo) of a cleaned input whose
scheme has been split off -/
def hostPort (rest : Url) : Url :=
  afterLastAt ((rest.dropWhile isSlash).takeWhile (fun c => !isAuthEnd c))

def classify (u : Url) : UrlClass :=
  match splitScheme (cleaned u) with
  | none => .invalid
  | some (s, rest) =>
    if s != httpS && s != httpsS then .invalid
    else
      let hp := hostPort rest
      if hp.contains '[' then .exoticHost
      else
        let h := hp.takeWhile (· != ':')
        let p := (hp.dropWhile (· != ':')).drop 1
        if h.isEmpty then .invalid
        else if exoticHost h then .exoticHost
        else if hostOk h && portOk p then .valid
        else .invalid

/-- `Store::is_valid_remote_url(reference)` for the reference `u` of asset `a` -/
def validRef (a : Asset) (u : Url) : Bool :=
  match classify u with
  | .valid => true
  | .invalid => false
  | .exoticHost => a.refUrlCrate

/-- `Store::load_jumbf_from_stream` with `handle_remote_manifest` and `fetch_remote_manifest`. -/
def loadJumbf (s : Settings) (env : Env) (a : Asset) : Except Err Store × List Req :=
  match a.embedded with
  | .store st => (.ok st, [])
  | .broken => (.error .embeddedBroken, [])
  | .absent =>
    match a.xmp with
    | none => (.error .jumbfNotFound, [])
    | some u =>
      if validRef a u then
        if s.remoteFetch then
          -- `fetch_remote_manifest`: `http::Request::get(url).body(..)?` precedes the request
          if a.refUriOk then
            match env.manifest with
            | .ok => (.ok a.remote, [.manifest u])
            | _ => (.error .remoteManifestFetch, [.manifest u])
          else (.error .httpRequest, [])
        else (.error (.remoteManifestUrl u), [])
      else (.error .jumbfNotFound, [])

/-! ### OCSP -/

/-- `fetch_ocsp_response`: one GET per responder; a 200 or a transport error ends the loop. -/
def fetchOcsp (env : Env) (k : Req) (c : Claim) : List Req :=
  match env.ocsp with
  | .notFound => List.replicate c.responders k
  | _ => if c.responders = 0 then [] else [k]

/-- `svi.certificate_statuses.get(serial)` is a non-empty list: some claim of the store carries a
usable certificate-status response for this claim's signing certificate. -/
def statusResp (st : Store) (c : Claim) : Bool :=
  st.any (fun d => d.statusFor && d.cert == c.cert)

/-- `crypto::cose::check_ocsp_status` with the policy of `claim::check_ocsp_status`. -/
def checkOcsp (s : Settings) (env : Env) (st : Store) (c : Claim) : List Req :=
  if s.statusOverride.getD false && statusResp st c then []
  else if c.stapled && c.stapledUsable then []
  else if s.ocspFetch then fetchOcsp env .ocspVerify c
  else []

/-- `Store::verify_store`: `verify_claim` of the active claim, then of every ingredient claim. -/
def verifyStore (s : Settings) (env : Env) (st : Store) : List Req :=
  st.flatMap (checkOcsp s env st)

/-- `Claim::has_ocsp_vals` -/
def hasOcspVals (c : Claim) : Bool := !c.statusAssert && c.stapled

/-- `Store::get_manifest_labels_for_ocsp` -/
def statusLabels (s : Settings) (st : Store) : Store :=
  let labels := match s.statusFetch with
    | .none => []
    | .all => st
    | .active => st.take 1
  match s.statusOverride with
  | some false => labels.filter (fun c => !hasOcspVals c)
  | some true => labels
  | none => []

/-- `Store::get_ocsp_response_ders` -/
def statusDers (s : Settings) (env : Env) (st : Store) : List Req :=
  (statusLabels s st).flatMap (fetchOcsp env .ocspStatus)

/-! ### reading -/

structure ReadOutcome where
  result : Res
  trace : List Req
  deriving DecidableEq, Repr

/-- `Reader::with_store` → `Manifest::from_store` for every claim: with
`core.decode_identity_assertions` the CAWG identity assertions are validated, which resolves the
did:web issuer of an identity-claims-aggregation credential. -/
def identityReqs (s : Settings) (st : Store) : List Req :=
  if s.decodeIdentity then st.flatMap (fun c => List.replicate c.didWeb .didWeb) else []

/-- `Reader::with_stream` → `Store::from_stream`, then `Reader::with_store`. -/
def read (s : Settings) (env : Env) (a : Asset) : ReadOutcome :=
  match loadJumbf s env a with
  | (.error e, t) => ⟨.error e, t⟩
  | (.ok st, t) => ⟨.ok, t ++ verifyStore s env st ++ identityReqs s st⟩

/-! ### ingredient import -/

inductive IngState
  | valid (st : Store)
  | noManifest
  | inaccessible (url : Option Url)   -- `manifest.inaccessible`, url of the status
  | failed                                -- any other load error turned into validation statuses
  deriving DecidableEq, Repr

structure Ing where
  state : IngState
  /-- `relationship == parentOf` -/
  parent : Bool
  /-- the ingredient's active manifest label was given to `Builder::add_timestamp` -/
  explicitTs : Bool
  deriving DecidableEq, Repr

/-- `Ingredient::add_stream_internal` + `update_validation_status`. -/
def importIng (s : Settings) (env : Env) (a : Asset) (parent explicitTs : Bool) : Ing × List Req :=
  match loadJumbf s env a with
  | (.ok st, t) =>
    (⟨.valid st, parent, explicitTs⟩, t ++ verifyStore s env st ++ statusDers s env st)
  | (.error .jumbfNotFound, t) => (⟨.noManifest, parent, explicitTs⟩, t)
  | (.error (.remoteManifestUrl u), t) => (⟨.inaccessible (some u), parent, explicitTs⟩, t)
  | (.error .remoteManifestFetch, t) => (⟨.inaccessible none, parent, explicitTs⟩, t)
  | (.error _, t) => (⟨.failed, parent, explicitTs⟩, t)

/-! ### signing -/

structure Signer where
  /-- `time_authority_url().is_some()` -/
  tsa : Bool
  /-- OCSP responders named by the signing certificate -/
  responders : Nat
  /-- `ocsp_val().is_some()` -/
  stapled : Bool
  /-- the stapled value is a usable response for the signing certificate -/
  stapledUsable : Bool
  /-- identity of the signing certificate -/
  cert : Nat
  /-- the signer comes from the settings and `cawg_x509_signer.local.tsa_url` is set.
  `CawgX509IdentitySigner::from_settings` discards that URL (`let _ = tsa_url`) and the identity
  signature is produced by `RawSignerCoseSigner`, whose `TimeStampProvider` names no service:
  no decision function looks at this field. -/
  cawgTsa : Bool := false
  deriving DecidableEq, Repr

def Ing.claims (i : Ing) : Store :=
  match i.state with
  | .valid st => st
  | _ => []

/-- Claims of one ingredient that `maybe_add_timestamp` selects, before the per-claim request. -/
def tsSelected (s : Settings) (parentSeen : Bool) (i : Ing) : Store :=
  let st := i.claims
  let byScope : List (Claim × Bool) := match s.tsScope with
    | .all => st.map (fun c => (c, true))
    | .parent =>
      -- `parent_claim_uri`: the active manifest of the first `parentOf` ingredient
      match st with
      | [] => []
      | c :: cs => (c, i.parent && !parentSeen) :: cs.map (fun c => (c, false))
  let afterSkip := byScope.map (fun (c, sel) => (c, sel && !(s.tsSkipExisting && c.timestamped)))
  -- explicit labels are added after `skip_existing`
  let withExplicit := match afterSkip with
    | [] => []
    | (c, sel) :: cs => (c, sel || i.explicitTs) :: cs
  (withExplicit.filter (·.2)).map (·.1)

/-- all claims `maybe_add_timestamp` requests a time-stamp for, ingredient by ingredient -/
def tsClaims (s : Settings) : Bool → List Ing → Store
  | _, [] => []
  | seen, i :: is => tsSelected s seen i ++ tsClaims s (seen || i.parent) is

/-- `Builder::maybe_add_timestamp` (called only when the signer has a TSA URL). -/
def timestampReqs (s : Settings) (ings : List Ing) : List Req :=
  if !s.autoTs && !(ings.any (·.explicitTs)) then []
  else (tsClaims s false ings).map (fun _ => Req.tsaAssertion)

structure SignOutcome where
  result : Res
  trace : List Req
  deriving DecidableEq, Repr

def Signer.claim (sg : Signer) : Claim :=
  { responders := sg.responders, stapled := sg.stapled, stapledUsable := sg.stapledUsable, cert := sg.cert }

/-- requests of `maybe_add_timestamp`, which `Builder::sign` calls only when the signer has a TSA URL -/
def tsPhase (s : Settings) (sg : Signer) (ings : List Ing) : List Req :=
  if sg.tsa then timestampReqs s ings else []

/-- `Store::sign_claim` → `Signer::send_timestamp_request` -/
def signerTs (sg : Signer) : List Req := if sg.tsa then [.tsaSigner] else []

/-- `verify.verify_after_sign`: `Store::verify_store` over the new claim and the ingredient claims -/
def afterSign (s : Settings) (env : Env) (sg : Signer) (ings : List Ing) : List Req :=
  if s.verifyAfterSign then verifyStore s env (sg.claim :: ings.flatMap Ing.claims) else []

/-- `to_claim` cannot encode an ingredient that has validation results but no active manifest
(`manifest.inaccessible`, or any other load error turned into validation statuses) -/
def anyUnencodable (ings : List Ing) : Bool :=
  ings.any (fun i => match i.state with | .inaccessible _ => true | .failed => true | _ => false)

/-- `Builder::sign` after the ingredients are in place: `to_claim`, `maybe_add_timestamp`,
`Store::save_to_stream`. -/
def signFlow (s : Settings) (env : Env) (sg : Signer) (ings : List Ing) : SignOutcome :=
  if anyUnencodable ings then ⟨.error .assertionEncoding, []⟩
  else if !(tsPhase s sg ings).isEmpty && env.tsa != .ok then
    -- the first `refresh_timestamp` fails and is propagated
    ⟨.error .timestampAssertion, (tsPhase s sg ings).take 1⟩
  else if sg.tsa && env.tsa != .ok then
    ⟨.error .timestampSigner, tsPhase s sg ings ++ [.tsaSigner]⟩
  else
    ⟨.ok, tsPhase s sg ings ++ signerTs sg ++ afterSign s env sg ings⟩

/-- import every asset, in order (`Builder::add_ingredient_from_stream`) -/
def importAll (s : Settings) (env : Env) : List (Asset × Bool × Bool) → List Ing × List Req
  | [] => ([], [])
  | (a, parent, ex) :: rest =>
    let (i, t) := importIng s env a parent ex
    let (is, ts) := importAll s env rest
    (i :: is, t ++ ts)

/-- `add_ingredient_from_stream` for each asset, then `Builder::sign`. -/
def importAndSign (s : Settings) (env : Env) (sg : Signer) (as : List (Asset × Bool × Bool)) :
    List Ing × SignOutcome :=
  let (ings, t) := importAll s env as
  let o := signFlow s env sg ings
  (ings, ⟨o.result, t ++ o.trace⟩)

/-! ### reviewed request sites

The places of sdk/src (outside sdk/src/http and the tests) that reach an HTTP transport, the
call paths from them up to the function that holds the guard, and the guard expressions.
`translators/c28_http_sites.py` regenerates the actual inventory from the source on every run
(`C2paModel/Gen/C28HttpSites.lean`); `C2pa.C28.call_site_inventory_closed` compares. -/

inductive SiteKind
  | remoteManifest    -- guarded by verify.remote_manifest_fetch (and the embedded-first lookup)
  | ocsp              -- guarded by verify.ocsp_fetch / builder.certificate_status_fetch
  | timeStamp         -- guarded by the signer's TSA URL (+ auto_timestamp_assertion / add_timestamp)
  | didWeb            -- CAWG identity validation: core.decode_identity_assertions in the Reader, or the caller runs the identity validator
  | remoteSigner      -- `SignerSettings::Remote`: the configured signer *is* an HTTP service
  | defaultTransport  -- construction of the Context's default resolver stack
  deriving DecidableEq, Repr

def reviewedSinks : List (String × String × SiteKind) := [
  ("store.rs", "fetch_remote_manifest", .remoteManifest),
  ("crypto/ocsp/fetch.rs", "fetch_ocsp_response", .ocsp),
  ("crypto/time_stamp/http_request.rs", "time_stamp_request_http", .timeStamp),
  ("identity/claim_aggregation/w3c_vc/did_web.rs", "get_did_doc", .didWeb),
  ("settings/signer.rs", "sign", .remoteSigner),
  ("context.rs", "build_default_sync_resolver", .defaultTransport),
  ("context.rs", "build_default_async_resolver", .defaultTransport)
]

/-- (callee, file, enclosing fn) -/
def reviewedCallers : List (String × String × String) := [
  ("fetch_remote_manifest", "store.rs", "handle_remote_manifest"),
  ("handle_remote_manifest", "store.rs", "load_jumbf_from_stream"),
  ("fetch_ocsp_response", "crypto/cose/ocsp.rs", "fetch_and_check_ocsp_response"),
  ("fetch_and_check_ocsp_response", "crypto/cose/ocsp.rs", "check_ocsp_status"),
  ("fetch_and_check_ocsp_response", "store.rs", "get_ocsp_response_ders"),
  ("get_ocsp_response_ders", "ingredient.rs", "add_stream_internal"),
  ("time_stamp_request_http", "crypto/time_stamp/http_request.rs", "default_rfc3161_request"),
  ("default_rfc3161_request", "signer.rs", "send_timestamp_request"),
  ("default_rfc3161_request", "crypto/time_stamp/provider.rs", "send_time_stamp_request"),
  ("default_rfc3161_request", "assertions/timestamp.rs", "send_timestamp_token_request"),
  ("send_timestamp_token_request", "assertions/timestamp.rs", "refresh_timestamp"),
  ("refresh_timestamp", "builder.rs", "maybe_add_timestamp"),
  ("maybe_add_timestamp", "builder.rs", "sign"),
  ("get_did_doc", "identity/claim_aggregation/w3c_vc/did_web.rs", "resolve"),
  ("did_web::resolve", "identity/claim_aggregation/ica_signature_verifier.rs", "check_issuer_signature"),
  ("check_issuer_signature", "identity/claim_aggregation/ica_signature_verifier.rs", "check_signature"),
  ("IcaSignatureVerifier::new", "identity/identity_assertion/assertion.rs", "validate_partial_claim"),
  ("validate_partial_claim", "manifest.rs", "from_store"),
  ("validate_partial_claim", "identity/validator.rs", "validate")
]

/-- guard expressions the decision functions above rely on -/
def requiredGuards : List String := [
  "handle_remote_manifest:fetch-inside-remote_manifest_fetch",
  "handle_remote_manifest:disabled-branch-returns-RemoteManifestUrl",
  "load_jumbf_from_stream:remote-only-after-JumbfNotFound",
  "claim::check_ocsp_status:policy-from-ocsp_fetch",
  "cose::check_ocsp_status:fetch-inside-FetchAllowed",
  "cose::check_ocsp_status:usable-stapled-returns-before-fetch",
  "get_manifest_labels_for_ocsp:none-gives-no-labels",
  "add_stream_internal:ders-for-labels-of-get_manifest_labels_for_ocsp",
  "signer.rs::send_timestamp_request:request-inside-if-let-Some-url",
  "crypto/time_stamp/provider.rs::send_time_stamp_request:request-inside-if-let-Some-url",
  "Builder::sign:maybe_add_timestamp-inside-if-let-Some-tsa_url",
  "maybe_add_timestamp:early-return-when-disabled-and-no-labels",
  "Manifest::from_store:identity-validation-inside-decode_identity_assertions",
  "store.rs:check_ocsp_status-is-the-claim-level-wrapper"
]

/-- (what, file, enclosing fn): the reviewed places that decide the OCSP fetch policy or hand a
time-stamp request to the signer.
* `OcspFetchPolicy::FetchAllowed` is named only where `claim::check_ocsp_status` derives the
  policy from `verify.ocsp_fetch` (guard `claim::check_ocsp_status:policy-from-ocsp_fetch`) and in
  the `match fetch_policy` of `cose::check_ocsp_status`.
* `check_ocsp_status` is called by the claim-level wrapper itself (the `cose` function), by
  `Claim::verify_claim` and by `Store::get_ocsp_status` (both the claim-level wrapper: guard
  `store.rs:check_ocsp_status-is-the-claim-level-wrapper`; in claim.rs the unqualified name is the
  wrapper defined in that file).
* `send_time_stamp_request` (the `TimeStampProvider` method) is called only by
  `add_sigtst_header`; `send_timestamp_request` (the `Signer` method) only by the
  `TimeStampProvider` impl of the signer wrappers in cose_sign.rs and by the two forwarding
  signers (Box<dyn Signer> in signer.rs, `CawgX509IdentitySigner` in settings/signer.rs). -/
def reviewedPolicySites : List (String × String × String) := [
  ("OcspFetchPolicy::FetchAllowed", "claim.rs", "check_ocsp_status"),
  ("OcspFetchPolicy::FetchAllowed", "crypto/cose/ocsp.rs", "check_ocsp_status"),
  ("check_ocsp_status", "claim.rs", "check_ocsp_status"),
  ("check_ocsp_status", "claim.rs", "verify_claim"),
  ("check_ocsp_status", "store.rs", "get_ocsp_status"),
  ("send_time_stamp_request", "crypto/cose/sigtst.rs", "add_sigtst_header"),
  ("send_timestamp_request", "cose_sign.rs", "send_time_stamp_request"),
  ("send_timestamp_request", "settings/signer.rs", "send_timestamp_request"),
  ("send_timestamp_request", "signer.rs", "send_timestamp_request")
]

/-- (file, implementing type, overridden methods): the reviewed `impl TimeStampProvider` /
`impl AsyncTimeStampProvider` blocks. The default `send_time_stamp_request` of the trait
(crypto/time_stamp/provider.rs, a request on a fresh `Context::new()`) only does something for an
implementor that names a service URL; the only implementors that do (the signer wrappers of
cose_sign.rs) replace `send_time_stamp_request` by `Signer::send_timestamp_request`, i.e. the
modelled `tsaSigner` request. `RawSignerCoseSigner` (CAWG X.509 identity signature) overrides
nothing: it names no service. -/
def reviewedTsProviders : List (String × String × List String) := [
  ("cose_sign.rs", "AsyncSignerWrapper", ["send_time_stamp_request", "time_stamp_request_body", "time_stamp_request_headers", "time_stamp_service_url"]),
  ("cose_sign.rs", "SignerWrapper", ["send_time_stamp_request", "time_stamp_request_body", "time_stamp_request_headers", "time_stamp_service_url"]),
  ("crypto/cose/cose_signer.rs", "RawSignerCoseSigner", [])
]

/-- the sink that issues each kind of request of the model -/
def SiteKind.of : ReqKind → SiteKind
  | .manifest => .remoteManifest
  | .ocspVerify => .ocsp
  | .ocspStatus => .ocsp
  | .tsaAssertion => .timeStamp
  | .tsaSigner => .timeStamp
  | .didWeb => .didWeb

def allReqKinds : List ReqKind := [.manifest, .ocspVerify, .ocspStatus, .tsaAssertion, .tsaSigner, .didWeb]

/-- site kinds that no modelled operation reaches: the remote signer *is* an HTTP service the
configuration names; the default transports are constructions, not requests -/
def unmodelledKinds : List SiteKind := [.remoteSigner, .defaultTransport]

/-- the reviewed kind of an inventoried (file, fn), if any -/
def siteKind? (file fn : String) : Option SiteKind :=
  (reviewedSinks.find? (fun r => r.1 == file && r.2.1 == fn)).map (·.2.2)

/-! ### line protocol -/

def parseBool (s : String) : Bool := s == "1"

def parseReply (s : String) : Reply :=
  if s == "ok" then .ok else if s == "err" then .transportErr else .notFound

def parseClaim (s : String) : Claim :=
  -- r<k>s<0|1|2>c<id>[a][p][t][d…]   (s: 0 nothing stapled, 1 stapled but unusable, 2 stapled and usable)
  let cs := s.toList
  let digits := (cs.drop 1).takeWhile Char.isDigit
  let rest := (cs.drop 1).dropWhile Char.isDigit
  let certDigits := (rest.drop 3).takeWhile Char.isDigit
  let flags := (rest.drop 3).dropWhile Char.isDigit
  { responders := (String.ofList digits).toNat!
    stapled := rest.take 2 == ['s', '1'] || rest.take 2 == ['s', '2']
    stapledUsable := rest.take 2 == ['s', '2']
    cert := (String.ofList certDigits).toNat!
    statusAssert := flags.contains 'a'
    statusFor := flags.contains 'p'
    timestamped := flags.contains 't'
    didWeb := flags.count 'd' }

def parseStore (s : String) : Store :=
  if s == "-" then [] else (s.splitOn ",").map parseClaim

def hexUrl (s : String) : Url :=
  match fromHex? s with
  | some bs => bs.map (fun b => Char.ofNat b.toNat)
  | none => []

def strHex (s : Url) : String := toHex (s.map (fun c => UInt8.ofNat c.toNat))

/-- `<embedded>|<xmp>|<remote>|<parent><explicit>[<urlCrate><uriOk>]`; embedded = `-` absent, `!` broken, else claims -/
def parseAsset (s : String) : Asset × Bool × Bool :=
  match s.splitOn "|" with
  | [e, x, r, f] =>
    ({ embedded := if e == "-" then .absent else if e == "!" then .broken else .store (parseStore e)
       xmp := if x == "-" then none else some (hexUrl x)
       remote := parseStore r
       -- flags 3 and 4 (optional, default 1): url-crate verdict, http-crate verdict
       refUrlCrate := (f.toList.drop 2).take 1 != ['0']
       refUriOk := (f.toList.drop 3).take 1 != ['0'] },
     f.toList.take 1 == ['1'], (f.toList.drop 1).take 1 == ['1'])
  | _ => ({ embedded := .absent, xmp := none, remote := [] }, false, false)

def parseSettings (toks : List String) : Settings :=
  { remoteFetch := parseBool (field toks "rf")
    ocspFetch := parseBool (field toks "of")
    statusFetch := match field toks "sf" with | "a" => .active | "l" => .all | _ => .none
    statusOverride := match field toks "so" with | "0" => some false | "1" => some true | _ => none
    autoTs := parseBool (field toks "at")
    tsSkipExisting := parseBool (field toks "sk")
    tsScope := if field toks "sc" == "p" then .parent else .all
    verifyAfterSign := parseBool (field toks "va")
    decodeIdentity := parseBool (field toks "di") }

def parseEnv (toks : List String) : Env :=
  { manifest := parseReply (field toks "mr")
    ocsp := parseReply (field toks "or")
    tsa := parseReply (field toks "tr") }

def parseSigner (toks : List String) : Signer :=
  { tsa := parseBool (field toks "tsa")
    responders := (field toks "sr").toNat!
    stapled := field toks "ss" != "0"
    stapledUsable := field toks "ss" == "2"
    cert := (field toks "sc2").toNat!
    cawgTsa := field toks "ctsa" == "1" }

def Req.str : Req → String
  | .manifest u => "m:" ++ strHex (lower u)
  | .ocspVerify => "o"
  | .ocspStatus => "o"
  | .tsaAssertion => "t"
  | .tsaSigner => "T"
  | .didWeb => "d"

def traceStr (t : List Req) : String :=
  if t.isEmpty then "-" else ",".intercalate (t.map Req.str)

def Err.str : Err → String
  | .jumbfNotFound => "err:JumbfNotFound"
  | .embeddedBroken => "err:Embedded"
  | .remoteManifestUrl u => "err:RemoteManifestUrl:" ++ strHex u
  | .remoteManifestFetch => "err:RemoteManifestFetch"
  | .httpRequest => "err:HttpError"
  | .assertionEncoding => "err:AssertionEncoding"
  | .timestampAssertion => "err:TimestampAssertion"
  | .timestampSigner => "err:TimestampSigner"

def resStr : Res → String
  | .ok => "ok"
  | .error e => e.str

def IngState.str : IngState → String
  | .valid _ => "valid"
  | .noManifest => "none"
  | .inaccessible (some u) => "inaccessible:" ++ strHex u
  | .inaccessible none => "inaccessible:?"
  | .failed => "failed"

def handle (toks : List String) : String :=
  match toks with
  | "read" :: rest =>
    let s := parseSettings rest
    let env := parseEnv rest
    match (splitList (field rest "a") ";").map parseAsset with
    | [(a, _, _)] =>
      let o := read s env a
      "res=" ++ resStr o.result ++ " trace=" ++ traceStr o.trace
    | _ => "bad-asset"
  | "sign" :: rest =>
    let s := parseSettings rest
    let env := parseEnv rest
    let sg := parseSigner rest
    let as := (splitList (field rest "a") ";").map parseAsset
    let (ings, o) := importAndSign s env sg as
    let ingS := if ings.isEmpty then "-" else ",".intercalate (ings.map (·.state.str))
    "res=" ++ resStr o.result ++ " ing=" ++ ingS ++ " trace=" ++ traceStr o.trace
  | "identity" :: rest =>
    -- a fixture whose store is described only by the number of did:web resolutions its identity
    -- assertions cause; embedded manifest, fetch settings off
    let s := parseSettings rest
    let k := (field rest "k").toNat!
    let o := read s (parseEnv rest) { embedded := .store [{ responders := 0, didWeb := k }], xmp := none, remote := [] }
    "trace=" ++ traceStr o.trace
  | "quiet" :: _ =>
    -- arbitrary asset, everything disabled, no TSA: the trace is empty whatever the asset is
    -- (`C2pa.C28.no_request_when_nothing_enabled`)
    "trace=-"
  | _ => "bad-op"

end C2pa.C28
