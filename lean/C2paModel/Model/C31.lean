import C2paModel.Gen.C31FfiGuards
/-
C31 — executable model of the C API handle layer = generic interpreter
(`Model/C31Core.lean`) + the `FfiGuards` table regenerated from c_api.rs on every run
(`Gen/C31FfiGuards.lean`).  This file only adds the line protocol.

Request:  `C31 seq ops=<op>|<op>|…`
  op     = `<fn>;<arg>,<arg>,…;<inner 0|1>;<alloc>,<alloc>,…`   (`-` for an empty list)
  arg    = address id (`0` = NULL), one per declared parameter, suffix `z` = accompanying length 0
  alloc  = address id the allocator answered for each allocation of the call
Reply:    one token per op, space separated:
  `<ind>:<lasterr>:<new>:<freed>`  |  `UB`  |  `ALLOCBAD`  |  `NOFN`
  ind = 0 ok / 1 error value returned / ? not observable for this return type
-/
namespace C2pa.C31

def findRow (name : String) : Option FnRow := Gen.ffiGuards.find? (fun r => r.name == name)

def parseArg (s : String) : Arg :=
  if s.endsWith "z" then { a := (s.dropEnd 1).toString.toNat!, len0 := true } else { a := s.toNat! }

def parseNats (s : String) : List Nat :=
  if s == "-" || s.isEmpty then [] else (s.splitOn ",").map String.toNat!

def parseCall (s : String) : Option Call :=
  match s.splitOn ";" with
  | [f, as, i, al] =>
    match findRow f with
    | some row =>
      some { row := row
             args := if as == "-" || as.isEmpty then [] else (as.splitOn ",").map parseArg
             inner := i == "1"
             allocs := parseNats al }
    | none => none
  | _ => none

def natsStr (l : List Nat) : String := if l.isEmpty then "-" else ",".intercalate (l.map toString)

def indObservable (r : RKind) : Bool :=
  match r with
  | .unit | .bool | .cstringOpt => false
  | _ => true

def outcomeStr (row : FnRow) (o : Outcome) : String :=
  if o.ub then "UB"
  else if o.allocBad then "ALLOCBAD"
  else
    let ind := if indObservable row.ret then (if o.fail then "1" else "0") else "?"
    let nw := if o.newH.isEmpty then "-" else ",".intercalate (o.newH.map fun (a, t) => toString a ++ "." ++ t.str)
    ind ++ ":" ++ o.err.str ++ ":" ++ nw ++ ":" ++ natsStr o.freed

def runStr : World → List String → List String
  | _, [] => []
  | w, s :: rest =>
    match parseCall s with
    | none => "NOFN" :: runStr w rest
    | some c =>
      let (w1, o) := step w c
      outcomeStr c.row o :: runStr w1 rest

def handle (toks : List String) : String :=
  match toks with
  | "seq" :: rest =>
    let ops := field rest "ops"
    " ".intercalate (runStr {} (if ops == "-" then [] else ops.splitOn "|"))
  | _ => "bad-op"

end C2pa.C31
