import C2paModel.Base
/-
C40 — model of the `#[async_generic]` expansion (crate async-generic 1.1, used all over
sdk/src: store.rs, builder.rs, reader.rs, claim.rs, cose_sign.rs, crypto/cose/*).

The attribute expands ONE function body into a synchronous function `f` and an asynchronous
function `f_async`. `DesugarIfAsync::visit_expr_mut` rewrites every `if _sync {A} else {B}`:
the sync expansion keeps block `A`, the async expansion keeps `B` (inner sites first — the
visitor recurses before it rewrites). Everything else in the body is shared text.

Two levels are modelled.

* **Token level** (`normAsync`, `related`): what "the async arm is the sync arm written for
  the other flavour" means on the token lists of the two arms that translators/c40_sites.py
  extracts from the source: erase `.await`, the `async` keyword, `Box::pin( … )` wrappers and
  the `_async` suffix of identifiers; trailing commas are ignored on both sides. A few weaker
  relations describe the reviewed exceptions (see `Kind`).
* **Program level** (`Prog`, `evalF`): a function body is a program over a shared step
  alphabet with `site a b` nodes; `evalF … .sync` / `.async` are the two expansions, run to
  completion (a future driven by a single `block_on` is a function of the state).
-/
namespace C2pa.C40

/-! ## Token level -/

/-- A source token. Identifiers carrying a flavour affix are stored *decomposed* (the kernel
evaluates constructor matches and string equality quickly, `String.endsWith` slowly):
`sfx "foo"` is the token `foo_async`, `pfA "Signer"` is `AsyncSigner`, `pfa "signer"` is
`async_signer`, `pfS "HttpResolver"` is `SyncHttpResolver`; everything else is `t text`.
An affixed identifier that the translator failed to decompose stays `t …`, is not erased by the
normaliser and makes its site a non-twin (fail-closed). -/
inductive Tok
  | t (text : String)
  | sfx (stem : String)
  | pfA (rest : String)
  | pfa (rest : String)
  | pfS (rest : String)
  deriving DecidableEq, Repr

def Tok.text : Tok → String
  | .t s => s
  | .sfx s => s ++ "_async"
  | .pfA s => "Async" ++ s
  | .pfa s => "async_" ++ s
  | .pfS s => "Sync" ++ s

/-- Decompose a token text (used by the driver; the table is emitted already decomposed). -/
def classify (s : String) : Tok :=
  if s.endsWith "_async" && s.length > 6 then .sfx (s.dropEnd 6).toString
  else if s.startsWith "Async" && s.length > 5 then .pfA (s.drop 5).toString
  else if s.startsWith "async_" && s.length > 6 then .pfa (s.drop 6).toString
  else if s.startsWith "Sync" && s.length > 4 then .pfS (s.drop 4).toString
  else .t s

/-- One `if _sync {A} else {B}` site of the source. -/
structure Site where
  file : String
  line : Nat
  fn : String
  /-- ordinal of the site inside its function (stable under line shifts) -/
  idx : Nat
  /-- number of enclosing `if _sync` sites -/
  depth : Nat := 0
  test : Bool
  syncArm : List Tok
  asyncArm : List Tok
  deriving Repr

/-- One `#[async_generic(async_signature(..))]`: both parameter lists. -/
structure Sig where
  file : String
  line : Nat
  fn : String
  test : Bool
  syncSig : List Tok
  asyncSig : List Tok
  deriving Repr

/-- `foo_async` ↦ `foo` (the macro's own naming rule for the async expansion). -/
def stripAsyncSuffix : Tok → Tok
  | .sfx s => .t s
  | x => x

/-- `AsyncSigner` ↦ `Signer`, `async_signer` ↦ `signer` (flavoured type / accessor names). -/
def stripAsyncPrefix : Tok → Tok
  | .pfA s => .t s
  | .pfa s => .t s
  | x => x

/-- `SyncHttpResolver` ↦ `HttpResolver` (only used on the synchronous side of signatures). -/
def stripSyncPrefix : Tok → Tok
  | .pfS s => .t s
  | x => x

/-- Remove `Box::pin(` … `)` wrappers, keeping what is inside. `stack` remembers for every open
parenthesis whether it belongs to such a wrapper. -/
def unboxPin : List Bool → List Tok → List Tok
  | st, .t "Box" :: .t ":" :: .t ":" :: .t "pin" :: .t "(" :: r => unboxPin (true :: st) r
  | st, .t "(" :: r => .t "(" :: unboxPin (false :: st) r
  | true :: st, .t ")" :: r => unboxPin st r
  | _ :: st, .t ")" :: r => .t ")" :: unboxPin st r
  | st, x :: r => x :: unboxPin st r
  | _, [] => []

/-- Erase `.await`, `async`, and the `_async` suffix. -/
def eraseAwait : List Tok → List Tok
  | .t "." :: .t "await" :: r => eraseAwait r
  | .t "async" :: r => eraseAwait r
  | x :: r => stripAsyncSuffix x :: eraseAwait r
  | [] => []

/-- Drop a comma that directly precedes a closing delimiter (formatting artefact). -/
def dropTrailingCommas : List Tok → List Tok
  | .t "," :: .t ")" :: r => .t ")" :: dropTrailingCommas r
  | .t "," :: .t "]" :: r => .t "]" :: dropTrailingCommas r
  | .t "," :: .t "}" :: r => .t "}" :: dropTrailingCommas r
  | x :: r => x :: dropTrailingCommas r
  | [] => []

/-- The normal form of an async arm. -/
def normAsync (ts : List Tok) : List Tok :=
  dropTrailingCommas (eraseAwait (unboxPin [] ts))

/-- The normal form of a sync arm (formatting only). -/
def normSync (ts : List Tok) : List Tok := dropTrailingCommas ts

/-- Erase `&` and `.clone()`: the argument-passing mode. -/
def eraseArgMode : List Tok → List Tok
  | .t "&" :: r => eraseArgMode r
  | .t "." :: .t "clone" :: .t "(" :: .t ")" :: r => eraseArgMode r
  | x :: r => x :: eraseArgMode r
  | [] => []

def rename (a b : String) (ts : List Tok) : List Tok := ts.map (fun x => if x == .t a then .t b else x)

/-- Relations between the two arms of a site, strongest first. -/
inductive Kind
  /-- equal after `normAsync` -/
  | twin
  /-- equal up to one trailing `;` (the statement has unit value in both flavours) -/
  | unitSemi
  /-- equal after also erasing the `Async`/`async_` prefix of flavoured type and accessor names
      (`AsyncSignerWrapper`, `Context::async_signer`) -/
  | flavouredName
  /-- equal after erasing `&` and `.clone()`: the async trait method takes the same value by
      move (`AsyncRawSigner::sign(Vec<u8>)`) that the sync one takes by reference -/
  | argMode
  /-- `argMode`, and the sync arm passes `adjusted_settings` where the async arm passes
      `settings` (side condition: the callee reads no field in which the two differ) -/
  | settingsProj
  deriving DecidableEq, Repr

def related : Kind → List Tok → List Tok → Bool
  | .twin, a, b => normAsync b == normSync a
  | .unitSemi, a, b => normAsync b ++ [.t ";"] == normSync a || normAsync b == normSync a ++ [.t ";"]
  | .flavouredName, a, b => (normAsync b).map stripAsyncPrefix == normSync a
  | .argMode, a, b => eraseArgMode (normAsync b) == eraseArgMode (normSync a)
  | .settingsProj, a, b =>
    eraseArgMode (normAsync b) == rename "adjusted_settings" "settings" (eraseArgMode (normSync a))

def Site.isTwin (s : Site) : Bool := related .twin s.syncArm s.asyncArm

/-- Reviewed exception entry: (file, function, ordinal) ↦ kind. -/
structure Reviewed where
  file : String
  fn : String
  idx : Nat
  kind : Kind

def Site.coveredBy (s : Site) (rs : List Reviewed) : Bool :=
  s.isTwin || rs.any (fun r => r.file == s.file && r.fn == s.fn && r.idx == s.idx && related r.kind s.syncArm s.asyncArm)

/-- Signature twin: the async parameter list is the sync one with flavoured type names. -/
def Sig.isTwin (g : Sig) : Bool :=
  g.asyncSig.map stripAsyncPrefix == g.syncSig.map stripSyncPrefix

/-- The flavoured parameter types of a signature (what the caller must supply in two forms). -/
def Sig.flavoured (g : Sig) : List Tok :=
  g.asyncSig.filter (fun x => stripAsyncPrefix x != x)

/-! ### Awaited futures
`normAsync` erases `.await`, `async` and `Box::pin(` independently, so an async arm that only
*creates* a future (`log_async(x);` without `.await`, `let _ = async { check(x) };`,
`Box::pin(f_async(x));`) normalises to the sync arm although the call never runs.
`awaitBalanced` closes that hole: in an async arm, after removing `Box::pin( … )` wrappers,
every call of an `_async` function is immediately followed by `.await`; every call `.m( … )` of
a method that the flavoured traits declare `async` under the *same* name (`flavouredMethods`)
is immediately followed by `.await`; and there is no `async` block or closure at all. The only
`_async` names that are not awaited are the reviewed synchronous accessors of the
asynchronous slot (`Context::resolver_async()`), which are not `async fn`s
(`hand_pairs_reviewed`, kind `syncNamed`). -/

/-- the rest of the token list after the `)` that closes the group opened just before -/
def skipParen : Nat → List Tok → Option (List Tok)
  | _, [] => none
  | d, .t "(" :: r => skipParen (d + 1) r
  | 0, .t ")" :: r => some r
  | d + 1, .t ")" :: r => skipParen d r
  | d, _ :: r => skipParen d r

def awaitedAt : List Tok → Bool
  | .t "." :: .t "await" :: _ => true
  | _ => false

/-- `_async`-named functions that are ordinary (non-`async`) functions: accessors / setters of
the asynchronous resolver slot of `Context`. -/
def syncNamedAccessors : List String := ["resolver", "with_resolver", "set_resolver"]

/-- methods that `AsyncSigner` / `AsyncRawSigner` / `AsyncTimeStampProvider` /
`AsyncPostValidator` / `AsyncDynamicAssertion` declare `async` under the same name as their
synchronous counterparts. -/
def flavouredMethods : List String :=
  ["sign", "ocsp_response", "send_time_stamp_request", "validate", "content"]

/-- a call group `( … )` starts here and is followed by `.await` -/
def callAwaited : List Tok → Bool
  | .t "(" :: r => match skipParen 0 r with
    | some after => awaitedAt after
    | none => false
  | _ => false

def callsAwaited : List Tok → Bool
  | [] => true
  | .sfx s :: r => (syncNamedAccessors.contains s || callAwaited r) && callsAwaited r
  | .t "async" :: _ => false
  | .t "." :: .t m :: r =>
    (if flavouredMethods.contains m then callAwaited r else true) && callsAwaited (.t m :: r)
  | _ :: r => callsAwaited r

/-- Every future the async arm creates is awaited on the spot. -/
def awaitBalanced (ts : List Tok) : Bool := callsAwaited (unboxPin [] ts)

/-! ### Hand-written pairs
A `fn X_async` that appears in the source is *not* a macro expansion (the macro generates its
`_async` functions at compile time). The translator lists every one that has a sibling `fn X`
in the same scope, with both bodies. -/

structure HandPair where
  file : String
  /-- name of the synchronous sibling -/
  fn : String
  idx : Nat
  test : Bool
  /-- the `_async` function is an `async fn` -/
  asyncKw : Bool
  /-- both are trait method declarations without a body -/
  declOnly : Bool
  hasBody : Bool
  syncBody : List Tok
  asyncBody : List Tok
  deriving Repr

inductive HandKind
  /-- the two bodies are token twins (`related .twin`) and the async body is await-balanced -/
  | twinBody
  /-- twins after replacing the one string literal `b` (a log label naming the function) by `a` -/
  | twinBodyLabel (a b : String)
  /-- trait method declarations, no bodies: the implementations are the other rows -/
  | declOnly
  /-- not an `async fn`: a synchronous accessor / setter of the asynchronous slot -/
  | syncNamed
  /-- different bodies; the pair is compared on the implementation by the harness operation `op` -/
  | differential (op : String)
  deriving DecidableEq, Repr

def HandPair.ok (p : HandPair) : HandKind → Bool
  | .twinBody => p.hasBody && p.asyncKw && related .twin p.syncBody p.asyncBody && awaitBalanced p.asyncBody
  | .twinBodyLabel a b =>
    p.hasBody && p.asyncKw && rename b a (normAsync p.asyncBody) == normSync p.syncBody && awaitBalanced p.asyncBody
  | .declOnly => p.declOnly
  | .syncNamed => !p.asyncKw && p.hasBody && syncNamedAccessors.contains p.fn
  | .differential _ => p.hasBody && p.asyncKw

structure ReviewedHand where
  file : String
  fn : String
  idx : Nat
  kind : HandKind

/-- The reviewed hand-written pairs of non-test code. Any other hand-written pair, and any edit
that breaks the relation of its kind, fails `hand_pairs_reviewed`. -/
def reviewedHand : List ReviewedHand := [
  -- accessors / setters of the async resolver slot (plain `fn`s)
  { file := "context.rs", fn := "resolver", idx := 0, kind := .syncNamed },
  { file := "context.rs", fn := "set_resolver", idx := 0, kind := .syncNamed },
  { file := "context.rs", fn := "with_resolver", idx := 0, kind := .syncNamed },
  -- two long hand-written bodies; they differ in `.await`/`_async` and in one log label
  { file := "identity/claim_aggregation/ica_signature_verifier.rs", fn := "check_signature", idx := 0,
    kind := .twinBodyLabel "\"IcaSignatureVerifier::check_signature\"" "\"IcaSignatureVerifier::check_signature_async\"" },
  { file := "identity/claim_aggregation/w3c_vc/did_web.rs", fn := "resolve", idx := 0, kind := .twinBody },
  { file := "identity/identity_assertion/built_in_signature_verifier.rs", fn := "check_signature", idx := 0, kind := .twinBody },
  { file := "identity/identity_assertion/signature_verifier.rs", fn := "check_signature", idx := 0, kind := .declOnly },
  { file := "identity/x509/x509_signature_verifier.rs", fn := "check_signature", idx := 0, kind := .twinBody },
  -- `Ingredient::from_stream` goes through the generic `add_stream_internal`,
  -- `from_stream_async` through the hand-written `from_stream_async_with_settings`
  { file := "ingredient.rs", fn := "from_stream", idx := 0, kind := .differential "ingredient-from-stream" }
]

def HandPair.reviewedAs (p : HandPair) (rs : List ReviewedHand) : Option HandKind :=
  (rs.find? (fun r => r.file == p.file && r.fn == p.fn && r.idx == p.idx)).map (·.kind)

def HandPair.covered (p : HandPair) (rs : List ReviewedHand) : Bool :=
  p.test || rs.any (fun r => r.file == p.file && r.fn == p.fn && r.idx == p.idx && p.ok r.kind)

/-- `fn X_async` / `fn X` in different scopes of one file: the two members of a sync/async trait
pair (`SyncHttpResolver::http_resolve` / `AsyncHttpResolver::http_resolve_async`) — callee pairs
the caller supplies (`LeafAgree`). (file, X) -/
def reviewedCross : List (String × String) := [
  ("http/mod.rs", "http_resolve"), ("http/reqwest.rs", "http_resolve"),
  ("http/restricted.rs", "http_resolve"), ("http/wasi.rs", "http_resolve")
]

/-- `fn X_async` without a synchronous `fn X` (deprecated thread-local-settings constructors of
`Ingredient`): (file, X, harness operation that compares it with the synchronous operation of the
same meaning, or `-` when the SDK offers no synchronous form at all — such an operation is not
"offered in both forms" and is outside the statement). `from_memory_async` is compared with
`from_stream` on a cursor over the same bytes. -/
def reviewedOrphans : List (String × String × String) := [
  ("ingredient.rs", "from_memory", "ingredient-from-memory"),
  ("ingredient.rs", "from_manifest_and_asset_bytes", "-"),
  ("ingredient.rs", "from_manifest_and_asset_stream", "-")
]

/-! ### Adapter pairs: `impl T for X` / `impl AsyncT for AsyncX`
The wrappers that carry a caller's `Signer` / `AsyncSigner` into the COSE layer (`SignerWrapper` /
`AsyncSignerWrapper`), the `Box<T>` forwarders, `CallbackSigner`, the resolver stacks and the
identity assertion builders are written twice by hand, one `impl` block per flavour. A trait
method with a default body that one block overrides (forwards) and the other leaves to the
default is a divergence the compiler cannot see. -/

structure MethodPair where
  name : String
  syncBody : List Tok
  asyncBody : List Tok
  deriving Repr

structure ImplPair where
  file : String
  /-- trait and implementing type with the `Async`/`Sync` prefixes of their identifiers erased -/
  traitName : String
  ty : String
  test : Bool
  /-- sorted names of the methods each block defines (`_async` suffix erased) -/
  syncMethods : List String
  asyncMethods : List String
  methods : List MethodPair
  deriving Repr

/-- weaker relations for reviewed method pairs -/
inductive MethodKind
  /-- by-reference vs by-value argument (`related .argMode`) -/
  | argMode
  /-- equal after erasing `Async` on the async side and `Sync` on the sync side -/
  | flavouredBoth
  /-- the async body has an additional opt-in step that is off by default; the sync body is a
      prefix-equal forwarder (reviewed by hand) -/
  | asyncOptIn
  /-- the async body wraps its final expression `e` as `Ok(e?)`: the same value with an identity
      error conversion -/
  | okWrap
  deriving DecidableEq, Repr

/-- remove the first `Ok (` -/
def dropFirstOk : List Tok → List Tok
  | .t "Ok" :: .t "(" :: r => r
  | x :: r => x :: dropFirstOk r
  | [] => []

def MethodPair.ok (m : MethodPair) : Option MethodKind → Bool
  | none => related .twin m.syncBody m.asyncBody && awaitBalanced m.asyncBody
  | some .argMode => related .argMode m.syncBody m.asyncBody && awaitBalanced m.asyncBody
  | some .flavouredBoth =>
    (normAsync m.asyncBody).map stripAsyncPrefix == (normSync m.syncBody).map stripSyncPrefix
  | some .asyncOptIn => awaitBalanced m.asyncBody
  | some .okWrap =>
    dropFirstOk (normAsync m.asyncBody) == normSync m.syncBody ++ [.t "?", .t ")"] && awaitBalanced m.asyncBody

/-- (trait, type, method) ↦ kind -/
def reviewedMethods : List (String × String × String × MethodKind) := [
  -- `(self.callback)(self.context, data)` vs `(self.callback)(self.context, &data)`
  ("Signer", "CallbackSigner", "sign", .argMode),
  -- `Err(SyncHttpResolverNotImplemented)` vs `Err(AsyncHttpResolverNotImplemented)`
  ("HttpResolver", "NoopResolver", "http_resolve", .flavouredBoth),
  -- `AsyncGenericResolver` has the opt-in `max_response_body_size` guard (default: none)
  ("HttpResolver", "GenericResolver", "http_resolve", .asyncOptIn),
  -- `sign(..).map_err(..)` vs `Ok(sign(..).map_err(..)?)` (raw signing is synchronous in both)
  ("CredentialHolder", "X509CredentialHolder", "sign", .okWrap)
]

def ImplPair.methodsOk (p : ImplPair) : Bool :=
  p.methods.all (fun m =>
    m.ok none || reviewedMethods.any (fun r =>
      r.1 == p.traitName && r.2.1 == p.ty && r.2.2.1 == m.name && m.ok (some r.2.2.2)))

/-- `impl AsyncT for X` of non-test code without a synchronous `impl T for …` of the same
type name: (trait, type). Asynchronous-only implementors (no sync twin to diverge from). -/
def reviewedAsyncOnly : List (String × String) := [
  ("HttpResolver", "reqwest : : Client"), ("HttpResolver", "wstd : : http : : Client"),
  ("Signer", "IdentityAssertionSigner"), ("Send", "IdentityAssertionBuilder"),
  ("PostValidator", "CawgValidator < '_ >")
]

/-- Operations the property statement names; each must be a macro-generated pair:
(file, function). De-macroing one of them (two hand-written bodies) fails
`required_pairs_generic`. -/
def requiredPairs : List (String × String) := [
  ("builder.rs", "sign"), ("builder.rs", "save_to_stream"),
  ("builder.rs", "add_ingredient_from_stream"), ("builder.rs", "add_ingredient_from_archive"),
  ("builder.rs", "sign_data_hashed_embeddable"), ("builder.rs", "sign_box_hashed_embeddable"),
  ("reader.rs", "with_stream"), ("reader.rs", "with_manifest_data_and_stream"),
  ("reader.rs", "with_fragment"), ("reader.rs", "with_store"), ("reader.rs", "post_validate"),
  ("ingredient.rs", "with_stream"), ("ingredient.rs", "add_stream_internal"),
  ("store.rs", "sign_claim"), ("store.rs", "save_to_stream"), ("store.rs", "verify_store"),
  ("store.rs", "from_stream"), ("store.rs", "from_manifest_data_and_stream"),
  ("store.rs", "load_jumbf_from_stream"), ("store.rs", "load_fragment_from_stream"), ("store.rs", "ingredient_checks"),
  ("store.rs", "get_data_hashed_embeddable_manifest"), ("store.rs", "get_box_hashed_embeddable_manifest"),
  ("claim.rs", "verify_claim"), ("cose_validator.rs", "verify_cose"), ("cose_sign.rs", "cose_sign"),
  ("crypto/cose/sign.rs", "sign"), ("crypto/cose/verifier.rs", "verify_signature"),
  ("crypto/cose/sigtst.rs", "validate_cose_tst_info"),
  ("identity/identity_assertion/assertion.rs", "validate_partial_claim"),
  ("identity/x509/x509_signature_verifier.rs", "check_x509_cose_signature"),
  ("identity/claim_aggregation/ica_signature_verifier.rs", "check_issuer_signature"),
  ("identity/claim_aggregation/w3c_vc/did_web.rs", "get_did_doc")
]

def isGeneric (fns : List (String × String × Bool)) (p : String × String) : Bool :=
  fns.any (fun f => f.1 == p.1 && f.2.1 == p.2 && !f.2.2)

/-- the `_async` callees of an async arm -/
def asyncCallees : List Tok → List String
  | .sfx s :: r => s :: asyncCallees r
  | _ :: r => asyncCallees r
  | [] => []

/-- Inventory summary answered by the driver (compared with an independent scan of sdk/src by
the harness): attributed functions, hand-written pairs (non-test / test), cross-scope rows,
orphans (non-test). -/
structure Inventory where
  functions : List (String × String × Bool)
  hand : List HandPair
  cross : List (String × String × Bool)
  orphans : List (String × String × Bool)

/-! ### Settings projection (the `settingsProj` side condition)
Settings are a map from field path to value. `Store::sign_claim` clones the settings and
overwrites the fields `W`; a callee that reads only the fields `R` cannot tell the difference
when `R` and `W` are disjoint. -/

abbrev Settings := String → Nat

def adjust (W : List String) (v : Settings) (s : Settings) : Settings :=
  fun k => if W.contains k then v k else s k

def ReadsOnly {α : Type} (R : List String) (f : Settings → α) : Prop :=
  ∀ s t : Settings, (∀ k, k ∈ R → s k = t k) → f s = f t

/-! ## Program level -/

inductive Flavour
  | sync
  | async
  deriving DecidableEq, Repr

/-- Function bodies. `prim`/`cond` are ordinary (flavour-independent) code, `leaf n` is a call
of the synchronous member of callee pair `n` (`n(..)`), `leafA n` a call of its asynchronous
member (`n_async(..).await`), `site a b` is `if _sync {a} else {b}`. -/
inductive Prog
  | skip
  | prim (n : Nat)
  | leaf (n : Nat)
  | leafA (n : Nat)
  | ret
  | seq (p q : Prog)
  | ite (c : Nat) (p q : Prog)
  | loop (c : Nat) (p : Prog)
  | site (a b : Prog)
  deriving DecidableEq, Repr

/-- Outcome of running a piece of a body: fall through, early `return Ok`, or `Err`. -/
inductive Out (σ ε : Type)
  | next (s : σ)
  | ret (s : σ)
  | err (e : ε)
  deriving DecidableEq, Repr

/-- Meaning of the primitive steps, and of callee pairs that are not themselves modelled
bodies (trait methods of the signer / resolver / validator, supplied by the caller). -/
structure Interp (σ ε : Type) where
  prim : Nat → σ → Except ε σ
  cond : Nat → σ → Bool
  sync : Nat → σ → Except ε σ
  async : Nat → σ → Except ε σ

def ofExcept {σ ε : Type} : Except ε σ → Out σ ε
  | .ok s => .next s
  | .error e => .err e

/-- A callee's `ret`/`next` both continue the caller. -/
def afterCall {σ ε : Type} : Option (Out σ ε) → Option (Out σ ε)
  | some (.ret s) => some (.next s)
  | r => r

/-- The two expansions. `env n = some body`: callee pair `n` is itself an `async_generic`
function with that body. `none` (first component of the result) = out of fuel. -/
def evalF {σ ε : Type} (env : Nat → Option Prog) (I : Interp σ ε) :
    Nat → Flavour → Prog → σ → Option (Out σ ε)
  | _, _, .skip, s => some (.next s)
  | _, _, .prim n, s => some (ofExcept (I.prim n s))
  | _, _, .ret, s => some (.ret s)
  | fuel, _, .leaf n, s =>
    match env n with
    | none => some (ofExcept (I.sync n s))
    | some body =>
      match fuel with
      | 0 => none
      | fuel' + 1 => afterCall (evalF env I fuel' .sync body s)
  | fuel, _, .leafA n, s =>
    match env n with
    | none => some (ofExcept (I.async n s))
    | some body =>
      match fuel with
      | 0 => none
      | fuel' + 1 => afterCall (evalF env I fuel' .async body s)
  | fuel, fl, .seq p q, s =>
    match evalF env I fuel fl p s with
    | some (.next s') => evalF env I fuel fl q s'
    | r => r
  | fuel, fl, .ite c p q, s =>
    if I.cond c s then evalF env I fuel fl p s else evalF env I fuel fl q s
  | fuel, fl, .loop c p, s =>
    if I.cond c s then
      match fuel with
      | 0 => none
      | fuel' + 1 =>
        match evalF env I (fuel' + 1) fl p s with
        | some (.next s') => evalF env I fuel' fl (.loop c p) s'
        | r => r
    else some (.next s)
  | fuel, .sync, .site a _, s => evalF env I fuel .sync a s
  | fuel, .async, .site _ b, s => evalF env I fuel .async b s
termination_by fuel _ p => (fuel, sizeOf p)

/-- `leafA n ↦ leaf n`: the program-level counterpart of `normAsync`. -/
def erase : Prog → Prog
  | .leafA n => .leaf n
  | .seq p q => .seq (erase p) (erase q)
  | .ite c p q => .ite c (erase p) (erase q)
  | .loop c p => .loop c (erase p)
  | .site a b => .site (erase a) (erase b)
  | p => p

def noSite : Prog → Bool
  | .seq p q => noSite p && noSite q
  | .ite _ p q => noSite p && noSite q
  | .loop _ p => noSite p
  | .site _ _ => false
  | _ => true

/-- What the macro does to a body for one flavour (inner sites first). -/
def expand : Flavour → Prog → Prog
  | fl, .seq p q => .seq (expand fl p) (expand fl q)
  | fl, .ite c p q => .ite c (expand fl p) (expand fl q)
  | fl, .loop c p => .loop c (expand fl p)
  | .sync, .site a _ => expand .sync a
  | .async, .site _ b => expand .async b
  | _, p => p

/-- Every site of the program is a twin site: the async arm, with nested sites reduced the way
the macro reduces them, erases to the sync arm. -/
def twins : Prog → Bool
  | .seq p q => twins p && twins q
  | .ite _ p q => twins p && twins q
  | .loop _ p => twins p
  | .site a b => erase (expand .async b) == expand .sync a
  | _ => true

/-! ### One SDK function at program level: `verify_cose` (cose_validator.rs)
```
let verifier = …;                                   -- prim 0
let sign1 = parse_cose_sign1(..)?;                  -- prim 1 (may fail)
let tst_info = match tst_info {                     -- cond 0: caller supplied a time stamp
    Some(t) => Some(t.clone()),                     -- prim 2
    None => if _sync { validate_cose_tst_info(..).ok() }            -- site 0: callee pair 1
            else { validate_cose_tst_info_async(..).await.ok() } };
if _sync { Ok(verifier.verify_signature(..)?) }                      -- site 1: callee pair 2
else { Ok(verifier.verify_signature_async(..).await?) }
```
The correspondence with the regenerated token table (`progMatchesTable`) checks that the
function has exactly these sites, at this nesting depth, and that each arm calls exactly the
named callee in the flavour of the arm. -/

def verifyCoseCallee : Nat → String
  | 1 => "validate_cose_tst_info"
  | 2 => "verify_signature"
  | _ => "?"

open Prog in
def verifyCoseProg : Prog :=
  seq (prim 0) (seq (prim 1) (seq (ite 0 (prim 2) (site (leaf 1) (leafA 1))) (site (leaf 2) (leafA 2))))

/-- calls of synchronous / asynchronous members of callee pairs, in order -/
def leavesS : Prog → List Nat
  | .leaf n => [n]
  | .seq p q => leavesS p ++ leavesS q
  | .ite _ p q => leavesS p ++ leavesS q
  | .loop _ p => leavesS p
  | .site a b => leavesS a ++ leavesS b
  | _ => []

def leavesA : Prog → List Nat
  | .leafA n => [n]
  | .seq p q => leavesA p ++ leavesA q
  | .ite _ p q => leavesA p ++ leavesA q
  | .loop _ p => leavesA p
  | .site a b => leavesA a ++ leavesA b
  | _ => []

/-- The sites of a program in source order (outer site, then the sites nested in its sync arm,
then those nested in its async arm — the order of the token table): nesting depth, the callee
pairs the sync arm calls after the macro reduced nested sites, the pairs the async arm awaits,
and whether the "wrong" flavour occurs in an arm. -/
def progSites : Nat → Prog → List (Nat × List Nat × List Nat × Bool)
  | d, .seq p q => progSites d p ++ progSites d q
  | d, .ite _ p q => progSites d p ++ progSites d q
  | d, .loop _ p => progSites d p
  | d, .site a b =>
    (d, leavesS (expand .sync a), leavesA (expand .async b),
      (leavesA (expand .sync a)).isEmpty && (leavesS (expand .async b)).isEmpty)
      :: (progSites (d + 1) a ++ progSites (d + 1) b)
  | _, _ => []

/-- identifiers of `names` that a sync arm mentions -/
def syncCallees (names : List String) : List Tok → List String
  | .t s :: r => if names.contains s then s :: syncCallees names r else syncCallees names r
  | _ :: r => syncCallees names r
  | [] => []

def siteMatches (name : Nat → String) (names : List String) (row : Site)
    (x : Nat × List Nat × List Nat × Bool) : Bool :=
  row.depth == x.1 && x.2.2.2 &&
  asyncCallees row.asyncArm == x.2.2.1.map name &&
  syncCallees names row.syncArm == x.2.1.map name &&
  (asyncCallees row.syncArm).isEmpty && (syncCallees names row.asyncArm).isEmpty

/-- The program has the same number of sites as the table rows of the function, in the same
order and nesting, and every arm calls exactly the callee pairs the program says, in the flavour
of the arm. -/
def progMatchesTable (name : Nat → String) (names : List String) (p : Prog) (rows : List Site) : Bool :=
  (progSites 0 p).length == rows.length &&
    ((progSites 0 p).zip rows).all (fun xr => siteMatches name names xr.2 xr.1)

/-! ## Line protocol (correspondence with the *real macro*)
The harness contains a handful of `#[async_generic]` functions over a tracing state, expanded
by the real crate at compile time; the same bodies are the `testProg`s below.

  `run fn=<k> fl=sync|async conds=<bitmask> ctr=<n> fail=<step|->`  →  `<trace>;ok|ret|err<e>`
  `cmp op=… sync=<digest> async=<digest>` → `same` (the prediction of `twins_equal`)
  `site a=<tok,tok,…> b=<…>` → `twin|other` (tokens hex-encoded) -/

structure TState where
  trace : List String
  conds : Nat
  ctr : Nat
  failAt : Option Nat
  deriving DecidableEq, Repr

/-- step ids: prim n ↦ n, sync leaf n ↦ 100+n, async leaf n ↦ 200+n -/
def tstep (tag : String) (id n : Nat) (s : TState) : Except Nat TState :=
  if s.failAt == some id then .error id
  else .ok { s with trace := s.trace ++ [tag ++ toString n], ctr := if id == 8 then s.ctr - 1 else s.ctr }

def tInterp : Interp TState Nat where
  prim n s := tstep "p" n n s
  cond c s := if c == 1 then s.ctr > 0 else s.conds.testBit c
  sync n s := tstep "L" (100 + n) n s
  async n s := tstep "A" (200 + n) n s

open Prog in
def testProg : Nat → Option Prog
  | 0 => some (seq (prim 0) (seq (site (leaf 1) (leafA 1)) (prim 2)))
  | 1 => some (seq (prim 0) (seq (ite 0
            (site (seq (leaf 1) (site (leaf 2) (leafA 3))) (seq (leafA 1) (site (leaf 4) (leafA 2))))
            (prim 5)) (prim 6)))
  | 2 => some (seq (loop 1 (seq (site (leaf 7) (leafA 7)) (prim 8))) (prim 3))
  | 3 => some (seq (prim 4) (seq (site (leaf 10) (leafA 10)) (seq (site (leaf 12) (leafA 12)) (prim 5))))
  | 4 => some (seq (prim 0) (seq (site skip (prim 9)) (prim 2)))
  | 5 => some (seq (site (ite 2 (seq (leaf 11) ret) skip) (ite 2 (seq (leafA 11) ret) skip)) (prim 12))
  | _ => none

/-- callee pairs that are themselves generic test functions: 10 ↦ body 0, 12 ↦ body 5 -/
def testEnv : Nat → Option Prog
  | 10 => testProg 0
  | 12 => testProg 5
  | _ => none

/-! ### The context's signer accessors (the `flavouredName` site of `Builder::save_to_stream`)
`Context::signer()` builds the signer from `settings.signer` on first use; `Context::async_signer()`
has no such construction (TODO in the source) and fails unless `with_async_signer` was called. -/

inductive SignerSlot
  /-- set with `with_signer` / `with_async_signer` -/
  | custom
  /-- to be created from the settings; `configured` = `settings.signer` is present -/
  | fromSettings (configured : Bool)
  deriving DecidableEq, Repr

inductive AccErr
  | missingSignerSettings
  | badParam
  deriving DecidableEq, Repr

def ctxSigner : SignerSlot → Except AccErr Unit
  | .custom => .ok ()
  | .fromSettings true => .ok ()
  | .fromSettings false => .error .missingSignerSettings

def ctxAsyncSigner : SignerSlot → Except AccErr Unit
  | .custom => .ok ()
  | .fromSettings _ => .error .badParam

def accStr : Except AccErr Unit → String
  | .ok _ => "ok"
  | .error .missingSignerSettings => "err:MissingSignerSettings"
  | .error .badParam => "err:BadParam"

def outStr : Option (Out TState Nat) → String
  | none => "fuel"
  | some (.next s) => String.intercalate "," s.trace ++ ";ok"
  | some (.ret s) => String.intercalate "," s.trace ++ ";ok"
  | some (.err e) => "err" ++ toString e

def decodeToks (s : String) : List Tok :=
  (splitList (if s == "-" then "" else s) ",").filterMap (fun h => (fromHex? h).map (fun bs => classify (String.ofList (bs.map (fun b => Char.ofNat b.toNat)))))

def insertSorted (x : String) : List String → List String
  | [] => [x]
  | y :: r => if x < y then x :: y :: r else if x == y then y :: r else y :: insertSorted x r

def sortDedup (xs : List String) : List String := xs.foldr insertSorted []

def Inventory.pairNames (inv : Inventory) : List String :=
  sortDedup (inv.hand.map (fun p => p.file ++ ":" ++ p.fn) ++ inv.cross.map (fun c => c.1 ++ ":" ++ c.2.1))

def Inventory.orphanNames (inv : Inventory) : List String :=
  sortDedup (inv.orphans.map (fun c => c.1 ++ ":" ++ c.2.1))

/-- harness operations named by the reviewed hand-written pairs -/
def handOps : List String :=
  sortDedup (reviewedHand.filterMap (fun r => match r.kind with | .differential op => some op | _ => none)
    ++ reviewedOrphans.filterMap (fun r => if r.2.2 == "-" then none else some r.2.2))

def kindStr : HandKind → String
  | .twinBody => "twinBody"
  | .twinBodyLabel _ _ => "twinBodyLabel"
  | .declOnly => "declOnly"
  | .syncNamed => "syncNamed"
  | .differential op => "differential:" ++ op

def setDiff (a b : List String) : List String := a.filter (fun x => !b.contains x)

def cmpSets (what : String) (mine theirs : List String) : List String :=
  (setDiff mine theirs).map (fun x => what ++ "-only-in-table=" ++ x) ++
  (setDiff theirs mine).map (fun x => what ++ "-only-in-scan=" ++ x)

def handleWith (inv : Inventory) (toks : List String) : String :=
  match toks with
  | "inv" :: rest =>
    -- the harness scanned sdk/src on its own (line based, no lexer); the table must agree
    let attrs := (field rest "attrs").toNat?
    let pairs := sortDedup (splitList (if field rest "pairs" == "-" then "" else field rest "pairs") ",")
    let orph := sortDedup (splitList (if field rest "orphans" == "-" then "" else field rest "orphans") ",")
    let d := (if attrs == some inv.functions.length then [] else ["attrs-table=" ++ toString inv.functions.length]) ++
      cmpSets "pair" inv.pairNames pairs ++ cmpSets "orphan" inv.orphanNames orph
    if d.isEmpty then "ok" else String.intercalate ";" d
  | ["handops"] => String.intercalate "," handOps
  | "hand" :: rest =>
    -- how a hand-written pair of non-test code is accounted for
    match inv.hand.find? (fun p => p.file == field rest "file" && p.fn == field rest "fn" && !p.test) with
    | none => "no-such-pair"
    | some p =>
      match p.reviewedAs reviewedHand with
      | none => "unreviewed"
      | some k => if p.ok k then kindStr k else "broken:" ++ kindStr k
  | "awaitbal" :: rest =>
    if awaitBalanced (decodeToks (field rest "b")) then "balanced" else "unbalanced"
  | "run" :: rest =>
    match (field rest "fn").toNat?, (field rest "conds").toNat?, (field rest "ctr").toNat? with
    | some k, some conds, some ctr =>
      match testProg k with
      | some p =>
        let fl := if field rest "fl" == "async" then Flavour.async else Flavour.sync
        let s0 : TState := { trace := [], conds := conds, ctr := ctr, failAt := (field rest "fail").toNat? }
        outStr (evalF testEnv tInterp (ctr + 8) fl p s0)
      | none => "bad-fn"
    | _, _, _ => "bad-req"
  | "cmp" :: rest =>
    -- every pair is predicted equal (`twins_equal`) except where the accessor pair differs
    if field rest "op" == "settings-signer" then
      (if accStr (ctxSigner (.fromSettings true)) == accStr (ctxAsyncSigner (.fromSettings true)) then "same" else "differ")
    else "same"
  | "site" :: rest =>
    if related .twin (decodeToks (field rest "a")) (decodeToks (field rest "b")) then "twin" else "other"
  | _ => "bad-op"

end C2pa.C40
