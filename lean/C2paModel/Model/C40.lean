import C2paModel.Base
/-
C40 — model of the `#[async_generic]` expansion (crate async-generic 1.1, used all over
sdk/src: store.rs, builder.rs, reader.rs, claim.rs, cose_sign.rs, crypto/cose/*).

The attribute expands ONE function body into a synchronous function `f` and an asynchronous
function `f_async`. `DesugarIfAsync::visit_expr_mut` rewrites every `if _sync {A} else {B}`:
the sync expansion keeps block `A`, the async expansion keeps `B` (inner sites first — the
visitor recurses before it rewrites). Everything else in the body is shared text.

Two levels are modelled.

* **Token level** (`normAsync`, `related`): what "the async arm is the sync arm written for
  the other flavour" means on the token lists of the two arms that translators/c40_sites.py
  extracts from the source: erase `.await`, the `async` keyword, `Box::pin( … )` wrappers and
  the `_async` suffix of identifiers; trailing commas are ignored on both sides. A few weaker
  relations describe the reviewed exceptions (see `Kind`).
* **Program level** (`Prog`, `evalF`): a function body is a program over a shared step
  alphabet with `site a b` nodes; `evalF … .sync` / `.async` are the two expansions, run to
  completion (a future driven by a single `block_on` is a function of the state).
-/
namespace C2pa.C40

/-! ## Token level -/

/-- A source token. Identifiers carrying a flavour affix are stored *decomposed* (the kernel
evaluates constructor matches and string equality quickly, `String.endsWith` slowly):
`sfx "foo"` is the token `foo_async`, `pfA "Signer"` is `AsyncSigner`, `pfa "signer"` is
`async_signer`, `pfS "HttpResolver"` is `SyncHttpResolver`; everything else is `t text`.
An affixed identifier that the translator failed to decompose stays `t …`, is not erased by the
normaliser and makes its site a non-twin (fail-closed). -/
inductive Tok
  | t (text : String)
  | sfx (stem : String)
  | pfA (rest : String)
  | pfa (rest : String)
  | pfS (rest : String)
  deriving DecidableEq, Repr

def Tok.text : Tok → String
  | .t s => s
  | .sfx s => s ++ "_async"
  | .pfA s => "Async" ++ s
  | .pfa s => "async_" ++ s
  | .pfS s => "Sync" ++ s

/-- Decompose a token text (used by the driver; the table is emitted already decomposed). -/
def classify (s : String) : Tok :=
  if s.endsWith "_async" && s.length > 6 then .sfx (s.dropEnd 6).toString
  else if s.startsWith "Async" && s.length > 5 then .pfA (s.drop 5).toString
  else if s.startsWith "async_" && s.length > 6 then .pfa (s.drop 6).toString
  else if s.startsWith "Sync" && s.length > 4 then .pfS (s.drop 4).toString
  else .t s

/-- One `if _sync {A} else {B}` site of the source. -/
structure Site where
  file : String
  line : Nat
  fn : String
  /-- ordinal of the site inside its function (stable under line shifts) -/
  idx : Nat
  test : Bool
  syncArm : List Tok
  asyncArm : List Tok
  deriving Repr

/-- One `#[async_generic(async_signature(..))]`: both parameter lists. -/
structure Sig where
  file : String
  line : Nat
  fn : String
  test : Bool
  syncSig : List Tok
  asyncSig : List Tok
  deriving Repr

/-- `foo_async` ↦ `foo` (the macro's own naming rule for the async expansion). -/
def stripAsyncSuffix : Tok → Tok
  | .sfx s => .t s
  | x => x

/-- `AsyncSigner` ↦ `Signer`, `async_signer` ↦ `signer` (flavoured type / accessor names). -/
def stripAsyncPrefix : Tok → Tok
  | .pfA s => .t s
  | .pfa s => .t s
  | x => x

/-- `SyncHttpResolver` ↦ `HttpResolver` (only used on the synchronous side of signatures). -/
def stripSyncPrefix : Tok → Tok
  | .pfS s => .t s
  | x => x

/-- Remove `Box::pin(` … `)` wrappers, keeping what is inside. `stack` remembers for every open
parenthesis whether it belongs to such a wrapper. -/
def unboxPin : List Bool → List Tok → List Tok
  | st, .t "Box" :: .t ":" :: .t ":" :: .t "pin" :: .t "(" :: r => unboxPin (true :: st) r
  | st, .t "(" :: r => .t "(" :: unboxPin (false :: st) r
  | true :: st, .t ")" :: r => unboxPin st r
  | _ :: st, .t ")" :: r => .t ")" :: unboxPin st r
  | st, x :: r => x :: unboxPin st r
  | _, [] => []

/-- Erase `.await`, `async`, and the `_async` suffix. -/
def eraseAwait : List Tok → List Tok
  | .t "." :: .t "await" :: r => eraseAwait r
  | .t "async" :: r => eraseAwait r
  | x :: r => stripAsyncSuffix x :: eraseAwait r
  | [] => []

/-- Drop a comma that directly precedes a closing delimiter (formatting artefact). -/
def dropTrailingCommas : List Tok → List Tok
  | .t "," :: .t ")" :: r => .t ")" :: dropTrailingCommas r
  | .t "," :: .t "]" :: r => .t "]" :: dropTrailingCommas r
  | .t "," :: .t "}" :: r => .t "}" :: dropTrailingCommas r
  | x :: r => x :: dropTrailingCommas r
  | [] => []

/-- The normal form of an async arm. -/
def normAsync (ts : List Tok) : List Tok :=
  dropTrailingCommas (eraseAwait (unboxPin [] ts))

/-- The normal form of a sync arm (formatting only). -/
def normSync (ts : List Tok) : List Tok := dropTrailingCommas ts

/-- Erase `&` and `.clone()`: the argument-passing mode. -/
def eraseArgMode : List Tok → List Tok
  | .t "&" :: r => eraseArgMode r
  | .t "." :: .t "clone" :: .t "(" :: .t ")" :: r => eraseArgMode r
  | x :: r => x :: eraseArgMode r
  | [] => []

def rename (a b : String) (ts : List Tok) : List Tok := ts.map (fun x => if x == .t a then .t b else x)

/-- Relations between the two arms of a site, strongest first. -/
inductive Kind
  /-- equal after `normAsync` -/
  | twin
  /-- equal up to one trailing `;` (the statement has unit value in both flavours) -/
  | unitSemi
  /-- equal after also erasing the `Async`/`async_` prefix of flavoured type and accessor names
      (`AsyncSignerWrapper`, `Context::async_signer`) -/
  | flavouredName
  /-- equal after erasing `&` and `.clone()`: the async trait method takes the same value by
      move (`AsyncRawSigner::sign(Vec<u8>)`) that the sync one takes by reference -/
  | argMode
  /-- `argMode`, and the sync arm passes `adjusted_settings` where the async arm passes
      `settings` (side condition: the callee reads no field in which the two differ) -/
  | settingsProj
  deriving DecidableEq, Repr

def related : Kind → List Tok → List Tok → Bool
  | .twin, a, b => normAsync b == normSync a
  | .unitSemi, a, b => normAsync b ++ [.t ";"] == normSync a || normAsync b == normSync a ++ [.t ";"]
  | .flavouredName, a, b => (normAsync b).map stripAsyncPrefix == normSync a
  | .argMode, a, b => eraseArgMode (normAsync b) == eraseArgMode (normSync a)
  | .settingsProj, a, b =>
    eraseArgMode (normAsync b) == rename "adjusted_settings" "settings" (eraseArgMode (normSync a))

def Site.isTwin (s : Site) : Bool := related .twin s.syncArm s.asyncArm

/-- Reviewed exception entry: (file, function, ordinal) ↦ kind. -/
structure Reviewed where
  file : String
  fn : String
  idx : Nat
  kind : Kind

def Site.coveredBy (s : Site) (rs : List Reviewed) : Bool :=
  s.isTwin || rs.any (fun r => r.file == s.file && r.fn == s.fn && r.idx == s.idx && related r.kind s.syncArm s.asyncArm)

/-- Signature twin: the async parameter list is the sync one with flavoured type names. -/
def Sig.isTwin (g : Sig) : Bool :=
  g.asyncSig.map stripAsyncPrefix == g.syncSig.map stripSyncPrefix

/-- The flavoured parameter types of a signature (what the caller must supply in two forms). -/
def Sig.flavoured (g : Sig) : List Tok :=
  g.asyncSig.filter (fun x => stripAsyncPrefix x != x)

/-! ### Settings projection (the `settingsProj` side condition)
Settings are a map from field path to value. `Store::sign_claim` clones the settings and
overwrites the fields `W`; a callee that reads only the fields `R` cannot tell the difference
when `R` and `W` are disjoint. -/

abbrev Settings := String → Nat

def adjust (W : List String) (v : Settings) (s : Settings) : Settings :=
  fun k => if W.contains k then v k else s k

def ReadsOnly {α : Type} (R : List String) (f : Settings → α) : Prop :=
  ∀ s t : Settings, (∀ k, k ∈ R → s k = t k) → f s = f t

/-! ## Program level -/

inductive Flavour
  | sync
  | async
  deriving DecidableEq, Repr

/-- Function bodies. `prim`/`cond` are ordinary (flavour-independent) code, `leaf n` is a call
of the synchronous member of callee pair `n` (`n(..)`), `leafA n` a call of its asynchronous
member (`n_async(..).await`), `site a b` is `if _sync {a} else {b}`. -/
inductive Prog
  | skip
  | prim (n : Nat)
  | leaf (n : Nat)
  | leafA (n : Nat)
  | ret
  | seq (p q : Prog)
  | ite (c : Nat) (p q : Prog)
  | loop (c : Nat) (p : Prog)
  | site (a b : Prog)
  deriving DecidableEq, Repr

/-- Outcome of running a piece of a body: fall through, early `return Ok`, or `Err`. -/
inductive Out (σ ε : Type)
  | next (s : σ)
  | ret (s : σ)
  | err (e : ε)
  deriving DecidableEq, Repr

/-- Meaning of the primitive steps, and of callee pairs that are not themselves modelled
bodies (trait methods of the signer / resolver / validator, supplied by the caller). -/
structure Interp (σ ε : Type) where
  prim : Nat → σ → Except ε σ
  cond : Nat → σ → Bool
  sync : Nat → σ → Except ε σ
  async : Nat → σ → Except ε σ

def ofExcept {σ ε : Type} : Except ε σ → Out σ ε
  | .ok s => .next s
  | .error e => .err e

/-- A callee's `ret`/`next` both continue the caller. -/
def afterCall {σ ε : Type} : Option (Out σ ε) → Option (Out σ ε)
  | some (.ret s) => some (.next s)
  | r => r

/-- The two expansions. `env n = some body`: callee pair `n` is itself an `async_generic`
function with that body. `none` (first component of the result) = out of fuel. -/
def evalF {σ ε : Type} (env : Nat → Option Prog) (I : Interp σ ε) :
    Nat → Flavour → Prog → σ → Option (Out σ ε)
  | _, _, .skip, s => some (.next s)
  | _, _, .prim n, s => some (ofExcept (I.prim n s))
  | _, _, .ret, s => some (.ret s)
  | fuel, _, .leaf n, s =>
    match env n with
    | none => some (ofExcept (I.sync n s))
    | some body =>
      match fuel with
      | 0 => none
      | fuel' + 1 => afterCall (evalF env I fuel' .sync body s)
  | fuel, _, .leafA n, s =>
    match env n with
    | none => some (ofExcept (I.async n s))
    | some body =>
      match fuel with
      | 0 => none
      | fuel' + 1 => afterCall (evalF env I fuel' .async body s)
  | fuel, fl, .seq p q, s =>
    match evalF env I fuel fl p s with
    | some (.next s') => evalF env I fuel fl q s'
    | r => r
  | fuel, fl, .ite c p q, s =>
    if I.cond c s then evalF env I fuel fl p s else evalF env I fuel fl q s
  | fuel, fl, .loop c p, s =>
    if I.cond c s then
      match fuel with
      | 0 => none
      | fuel' + 1 =>
        match evalF env I (fuel' + 1) fl p s with
        | some (.next s') => evalF env I fuel' fl (.loop c p) s'
        | r => r
    else some (.next s)
  | fuel, .sync, .site a _, s => evalF env I fuel .sync a s
  | fuel, .async, .site _ b, s => evalF env I fuel .async b s
termination_by fuel _ p => (fuel, sizeOf p)

/-- `leafA n ↦ leaf n`: the program-level counterpart of `normAsync`. -/
def erase : Prog → Prog
  | .leafA n => .leaf n
  | .seq p q => .seq (erase p) (erase q)
  | .ite c p q => .ite c (erase p) (erase q)
  | .loop c p => .loop c (erase p)
  | .site a b => .site (erase a) (erase b)
  | p => p

def noSite : Prog → Bool
  | .seq p q => noSite p && noSite q
  | .ite _ p q => noSite p && noSite q
  | .loop _ p => noSite p
  | .site _ _ => false
  | _ => true

/-- What the macro does to a body for one flavour (inner sites first). -/
def expand : Flavour → Prog → Prog
  | fl, .seq p q => .seq (expand fl p) (expand fl q)
  | fl, .ite c p q => .ite c (expand fl p) (expand fl q)
  | fl, .loop c p => .loop c (expand fl p)
  | .sync, .site a _ => expand .sync a
  | .async, .site _ b => expand .async b
  | _, p => p

/-- Every site of the program is a twin site: the async arm, with nested sites reduced the way
the macro reduces them, erases to the sync arm. -/
def twins : Prog → Bool
  | .seq p q => twins p && twins q
  | .ite _ p q => twins p && twins q
  | .loop _ p => twins p
  | .site a b => erase (expand .async b) == expand .sync a
  | _ => true

/-! ## Line protocol (correspondence with the *real macro*)
The harness contains a handful of `#[async_generic]` functions over a tracing state, expanded
by the real crate at compile time; the same bodies are the `testProg`s below.

  `run fn=<k> fl=sync|async conds=<bitmask> ctr=<n> fail=<step|->`  →  `<trace>;ok|ret|err<e>`
  `cmp op=… sync=<digest> async=<digest>` → `same` (the prediction of `twins_equal`)
  `site a=<tok,tok,…> b=<…>` → `twin|other` (tokens hex-encoded) -/

structure TState where
  trace : List String
  conds : Nat
  ctr : Nat
  failAt : Option Nat
  deriving DecidableEq, Repr

/-- step ids: prim n ↦ n, sync leaf n ↦ 100+n, async leaf n ↦ 200+n -/
def tstep (tag : String) (id n : Nat) (s : TState) : Except Nat TState :=
  if s.failAt == some id then .error id
  else .ok { s with trace := s.trace ++ [tag ++ toString n], ctr := if id == 8 then s.ctr - 1 else s.ctr }

def tInterp : Interp TState Nat where
  prim n s := tstep "p" n n s
  cond c s := if c == 1 then s.ctr > 0 else s.conds.testBit c
  sync n s := tstep "L" (100 + n) n s
  async n s := tstep "A" (200 + n) n s

open Prog in
def testProg : Nat → Option Prog
  | 0 => some (seq (prim 0) (seq (site (leaf 1) (leafA 1)) (prim 2)))
  | 1 => some (seq (prim 0) (seq (ite 0
            (site (seq (leaf 1) (site (leaf 2) (leafA 3))) (seq (leafA 1) (site (leaf 4) (leafA 2))))
            (prim 5)) (prim 6)))
  | 2 => some (seq (loop 1 (seq (site (leaf 7) (leafA 7)) (prim 8))) (prim 3))
  | 3 => some (seq (prim 4) (seq (site (leaf 10) (leafA 10)) (seq (site (leaf 12) (leafA 12)) (prim 5))))
  | 4 => some (seq (prim 0) (seq (site skip (prim 9)) (prim 2)))
  | 5 => some (seq (site (ite 2 (seq (leaf 11) ret) skip) (ite 2 (seq (leafA 11) ret) skip)) (prim 12))
  | _ => none

/-- callee pairs that are themselves generic test functions: 10 ↦ body 0, 12 ↦ body 5 -/
def testEnv : Nat → Option Prog
  | 10 => testProg 0
  | 12 => testProg 5
  | _ => none

/-! ### The context's signer accessors (the `flavouredName` site of `Builder::save_to_stream`)
`Context::signer()` builds the signer from `settings.signer` on first use; `Context::async_signer()`
has no such construction (TODO in the source) and fails unless `with_async_signer` was called. -/

inductive SignerSlot
  /-- set with `with_signer` / `with_async_signer` -/
  | custom
  /-- to be created from the settings; `configured` = `settings.signer` is present -/
  | fromSettings (configured : Bool)
  deriving DecidableEq, Repr

inductive AccErr
  | missingSignerSettings
  | badParam
  deriving DecidableEq, Repr

def ctxSigner : SignerSlot → Except AccErr Unit
  | .custom => .ok ()
  | .fromSettings true => .ok ()
  | .fromSettings false => .error .missingSignerSettings

def ctxAsyncSigner : SignerSlot → Except AccErr Unit
  | .custom => .ok ()
  | .fromSettings _ => .error .badParam

def accStr : Except AccErr Unit → String
  | .ok _ => "ok"
  | .error .missingSignerSettings => "err:MissingSignerSettings"
  | .error .badParam => "err:BadParam"

def outStr : Option (Out TState Nat) → String
  | none => "fuel"
  | some (.next s) => String.intercalate "," s.trace ++ ";ok"
  | some (.ret s) => String.intercalate "," s.trace ++ ";ok"
  | some (.err e) => "err" ++ toString e

def decodeToks (s : String) : List Tok :=
  (splitList (if s == "-" then "" else s) ",").filterMap (fun h => (fromHex? h).map (fun bs => classify (String.ofList (bs.map (fun b => Char.ofNat b.toNat)))))

def handle (toks : List String) : String :=
  match toks with
  | "run" :: rest =>
    match (field rest "fn").toNat?, (field rest "conds").toNat?, (field rest "ctr").toNat? with
    | some k, some conds, some ctr =>
      match testProg k with
      | some p =>
        let fl := if field rest "fl" == "async" then Flavour.async else Flavour.sync
        let s0 : TState := { trace := [], conds := conds, ctr := ctr, failAt := (field rest "fail").toNat? }
        outStr (evalF testEnv tInterp (ctr + 8) fl p s0)
      | none => "bad-fn"
    | _, _, _ => "bad-req"
  | "cmp" :: rest =>
    -- every pair is predicted equal (`twins_equal`) except where the accessor pair differs
    if field rest "op" == "settings-signer" then
      (if accStr (ctxSigner (.fromSettings true)) == accStr (ctxAsyncSigner (.fromSettings true)) then "same" else "differ")
    else "same"
  | "site" :: rest =>
    if related .twin (decodeToks (field rest "a")) (decodeToks (field rest "b")) then "twin" else "other"
  | _ => "bad-op"

end C2pa.C40
