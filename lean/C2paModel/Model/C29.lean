import C2paModel.Base
/-
C29 — resource files are confined to the manifest directory.

Model of
  * `sanitize_archive_path`                       (sdk/src/utils/path_utils.rs)
  * `uri_to_path`                                 (sdk/src/utils/io_utils.rs)
  * `normalize_lexically`, `resolve_within_root`,
    `resolve_within_root_for_write`,
    `ResourceStore::{add,get,exists,write_stream,path_for_id}`
                                                  (sdk/src/resource_store.rs)
  * `Reader::to_folder` (sdk/src/reader.rs) — `toFolder`, its `write_bytes` closure — `exportRel`
    (`writeUnder` is the closure as it was before it called `resolve_within_root_for_write`)
  * the entry-name handling of `Builder::old_from_archive` (sdk/src/builder.rs), all three
    branches (`resources/`, `manifests/`, `ingredients/<idx>/`) — `archiveEffects`
over
  * a model of Unix `Path` (`components`, `is_absolute`, `join`, `parent`, `ancestors`,
    `starts_with`),
  * a file-system model: a finite association list from *physical* locations
    (lists of names from `/`) to nodes (file / directory / symbolic link), and the
    kernel's path walk over it (`walk`: `.`/`..`/empty segments, symlink expansion,
    trailing slashes, fuel-bounded — running out of fuel is `ELOOP`), from which
    `canonicalize`, `read`, `exists`, `is_dir`, `is_symlink`, `mkdir`,
    `create_dir_all` and `write` are derived.

Strings are lists of bytes (`Nat`, so the theorems cover every byte string); the
Rust code only ever compares/searches ASCII bytes (`/ \ . : _`), which is the same
on UTF-8 `&str`s and on bytes. A `Path`/`PathBuf` is held as its list of raw
`/`-separated segments (`splitSlash`/`joinSlash` are mutually inverse, so this is the
same information as the byte string: `"" ↦ [""]`, `"/" ↦ ["",""]`, `"/a//b/" ↦
["","a","","b",""]`).

The in-memory map of a `ResourceStore` (`Cfg.mem`: what was added before the base path was
set) is looked at first by `get`/`write_stream`/`exists`, as in the code.
Not modelled: the `StoreResolver` chain (absent), permissions, hard links, concurrent
modification of the tree between check and use.
-/
namespace C2pa.C29

abbrev Str := List Nat
/-- A physical location: the names from `/` down, no `.`/`..`/links left. -/
abbrev PPath := List Str
/-- a path as its raw `/`-separated segments -/
abbrev Segs := List Str

/-! ### Unix `Path` -/

/-- Raw `/`-separated segments (never the empty list; `"" ↦ [""]`). -/
def splitSlash : Str → Segs
  | [] => [[]]
  | c :: cs =>
    if c = 47 then [] :: splitSlash cs
    else match splitSlash cs with
      | [] => [[c]]
      | s :: ss => (c :: s) :: ss

def joinSlash : Segs → Str
  | [] => []
  | [s] => s
  | s :: t => s ++ 47 :: joinSlash t

inductive Comp
  | root | cur | parent | normal (n : Str)
  deriving DecidableEq, Repr

/-- `parse_single_component`: `""` and `"."` vanish, `".."` is ParentDir. -/
def single (s : Str) : Option Comp :=
  if s = [] then none
  else if s = [46] then none
  else if s = [46, 46] then some .parent
  else some (.normal s)

/-- `has_root` / `is_absolute`: the text starts with `/` -/
def rooted : Segs → Bool
  | [] :: _ :: _ => true
  | _ => false

/-- the same on the text -/
def isRooted (p : Str) : Bool := p.head? = some 47

/-- the empty path `""` -/
def emptyPath (p : Segs) : Bool := p = [[]] || p = []

/-- `Path::components` on Unix. A leading `.` (path `.` or `./…`) is the only `CurDir`. -/
def componentsSegs (segs : Segs) : List Comp :=
  let hd := if rooted segs then [Comp.root]
            else if segs.head? = some [46] then [Comp.cur] else []
  hd ++ segs.filterMap single

def components (p : Str) : List Comp := componentsSegs (splitSlash p)

/-- `PathBuf::join` / `push` (`p` replaces `base` when absolute; a separator is added unless
`base` is empty or already ends with one). -/
def pathJoin (base p : Segs) : Segs :=
  if rooted p then p
  else if emptyPath base then p
  else if base.getLast? = some [] then base.dropLast ++ p
  else base ++ p

def isSkip (s : Str) : Bool := s = [] || s = [46]

/-- drop leading skippable segments (used on reversed segment lists) -/
def dropSkips : List Str → List Str
  | [] => []
  | s :: t => if isSkip s then dropSkips t else s :: t

/-- `Path::parent`: the slice of the original text up to the end of the last-but-one
component (`None` for `""` and for a path that is only a root). -/
def parentSegs (p : Segs) : Option Segs :=
  match p with
  | [] => none
  | s0 :: rest =>
    match dropSkips rest.reverse with
    | _last :: before =>
      let keep := (dropSkips before).reverse
      if keep = [] then (if rooted p then some [[], []] else some [s0])
      else some (s0 :: keep)
    | [] =>
      if rooted p then none
      else if s0 = [] then none
      else some [[]]

def ancF : Nat → Segs → List Segs
  | 0, _ => []
  | n + 1, p => p :: (match parentSegs p with
                      | none => []
                      | some q => ancF n q)

/-- `Path::ancestors` -/
def ancestors (p : Segs) : List Segs := ancF (p.length + 2) p

/-! ### `sanitize_archive_path`, `uri_to_path` -/

inductive Err | bad | io | notFound
  deriving DecidableEq, Repr

def sanStep (acc : Str) : Comp → Option Str
  | .normal part => some (if acc = [] then part else acc ++ 47 :: part)
  | .cur => some acc
  | .root => none
  | .parent => none

def sanLoop : Str → List Comp → Option Str
  | acc, [] => some acc
  | acc, c :: cs =>
    match sanStep acc c with
    | none => none
    | some a => sanLoop a cs

/-- `sanitize_archive_path` -/
def sanitize (p : Str) : Except Err Str :=
  if p = [] then .error .bad
  else if 92 ∈ p then .error .bad
  else match sanLoop [] (components p) with
    | none => .error .bad
    | some s => if s = [] then .error .bad else .ok s

def replaceColon (s : Str) : Str := s.map (fun c => if c = 58 then 95 else c)

def stripPrefix (pre s : Str) : Option Str :=
  if pre.isPrefixOf s then some (s.drop pre.length) else none

/-- `"self#jumbf="` -/
def selfJumbf : Str := [115, 101, 108, 102, 35, 106, 117, 109, 98, 102, 61]
/-- `"/c2pa/"` -/
def c2paPrefix : Str := [47, 99, 50, 112, 97, 47]

/-- `uri_to_path` -/
def uriToPath (uri : Str) (label : Option Str) : Except Err Str :=
  let p := replaceColon uri
  match stripPrefix selfJumbf p with
  | none => sanitize p
  | some p1 =>
    match stripPrefix c2paPrefix p1 with
    | some p2 => sanitize p2
    | none =>
      match label with
      | some l => sanitize (replaceColon l ++ 47 :: p1)
      | none => sanitize p1

/-- `"c2pa.databoxes"` -/
def dataBoxes : Str := [99, 50, 112, 97, 46, 100, 97, 116, 97, 98, 111, 120, 101, 115]

/-- `"resources/"` -/
def resourcesPrefix : Str := [114, 101, 115, 111, 117, 114, 99, 101, 115, 47]

/-- What `Builder::old_from_archive` does with the name of one zip entry below `resources/`:
`none` = not a resource entry (ignored), `some (.error _)` = the archive is rejected,
`some (.ok key)` = stored under `key`. -/
def archiveEntry (name : Str) : Option (Except Err Str) :=
  if resourcesPrefix.isPrefixOf name ∧ name ≠ resourcesPrefix then
    match sanitize name with
    | .error e => some (.error e)
    | .ok _ =>
      match (splitSlash name)[1]? with
      | none => some (.error .bad)
      | some id => some (sanitize id)
  else none

/-- `"manifests/"` -/
def manifestsPrefix : Str := [109, 97, 110, 105, 102, 101, 115, 116, 115, 47]
/-- `"ingredients/"` -/
def ingredientsPrefix : Str := [105, 110, 103, 114, 101, 100, 105, 101, 110, 116, 115, 47]
/-- `"manifest_data.c2pa"`: the identifier `Ingredient::set_manifest_data` makes up
(`add_with("manifest_data", "application/c2pa", …)` on a store that does not hold it yet) -/
def manifestDataKey : Str :=
  [109, 97, 110, 105, 102, 101, 115, 116, 95, 100, 97, 116, 97, 46, 99, 50, 112, 97]

/-- `str::parse::<usize>` (64 bit): an optional `+`, then at least one ASCII digit, no overflow -/
def parseUsize (s : Str) : Option Nat :=
  let ds := match s with
    | 43 :: t => t
    | _ => s
  if ds = [] then none
  else if ds.all (fun c => decide (48 ≤ c ∧ c ≤ 57)) then
    let v := ds.foldl (fun a c => a * 10 + (c - 48)) 0
    if v < 18446744073709551616 then some v else none
  else none

/-- which resource store an archive entry ends up in -/
inductive StoreId
  | builder | ingredient (i : Nat)
  deriving DecidableEq, Repr

/-- the `manifests/<label>` branch: the data goes, under a made-up identifier, to every
ingredient whose `active_manifest` is a prefix of the label (with `_` read as `:`) -/
def manifestTargets (ams : List (Option Str)) (label : Str) : List (StoreId × Str) :=
  let l := label.map (fun c => if c = 95 then 58 else c)
  (ams.zipIdx).filterMap fun (am, i) =>
    match am with
    | some a => if a.isPrefixOf l then some (StoreId.ingredient i, manifestDataKey) else none
    | none => none

/-- first `if` block of the loop body of `Builder::old_from_archive`: `resources/<id>…` -/
def archResources (name : Str) : Except Err (List (StoreId × Str)) :=
  match archiveEntry name with
  | none => .ok []
  | some (.error e) => .error e
  | some (.ok key) => .ok [(StoreId.builder, key)]

/-- second block: `manifests/<label>…` -/
def archManifests (ams : List (Option Str)) (name : Str) : Except Err (List (StoreId × Str)) :=
  if manifestsPrefix.isPrefixOf name ∧ name ≠ manifestsPrefix then
    match sanitize name with
    | .error e => .error e
    | .ok _ =>
      match (splitSlash name)[1]? with
      | none => .error .bad
      | some label =>
        match sanitize label with
        | .error e => .error e
        | .ok _ => .ok (manifestTargets ams label)
  else .ok []

/-- third block: `ingredients/<index>/<id>…` (`<id>` may be missing or empty: the key is then `""`) -/
def archIngredients (ams : List (Option Str)) (name : Str) : Except Err (List (StoreId × Str)) :=
  if ingredientsPrefix.isPrefixOf name ∧ name ≠ ingredientsPrefix then
    match sanitize name with
    | .error e => .error e
    | .ok _ =>
      match ((splitSlash name)[1]?).bind parseUsize with
      | none => .error .bad
      | some idx =>
        let id := ((splitSlash name)[2]?).getD []
        match (if id ≠ [] then sanitize id else .ok []) with
        | .error e => .error e
        | .ok key => if idx ≥ ams.length then .error .bad else .ok [(StoreId.ingredient idx, key)]
  else .ok []

/-- Everything `Builder::old_from_archive` stores for one zip entry called `name` (other than
`manifest.json`), as (store, identifier) pairs; `ams` = the `active_manifest` of each ingredient
of the definition. `.error` = the archive is rejected. -/
def archiveEffects (ams : List (Option Str)) (name : Str) : Except Err (List (StoreId × Str)) :=
  match archResources name with
  | .error e => .error e
  | .ok e1 =>
    match archManifests ams name with
    | .error e => .error e
    | .ok e2 =>
      match archIngredients ams name with
      | .error e => .error e
      | .ok e3 => .ok (e1 ++ e2 ++ e3)

/-! ### `normalize_lexically` -/

def normStep (out : List Comp) : Comp → List Comp
  | .cur => out
  | .parent =>
    match out.getLast? with
    | some (.normal _) => out.dropLast
    | some .root => out
    | _ => out ++ [.parent]
  | .root => [.root]          -- `push("/")` replaces the buffer
  | .normal n => out ++ [.normal n]

/-- `normalize_lexically`, on components (the `PathBuf` it builds is only ever read back
through `components`). -/
def normalize (cs : List Comp) : List Comp := cs.foldl normStep []

/-- `Path::starts_with` -/
def compsStartWith (p pre : List Comp) : Bool := pre.isPrefixOf p

/-! ### File system -/

inductive Kind
  | file (c : Str) | dir | link (t : Str)
  deriving DecidableEq, Repr

structure FS where
  nodes : List (PPath × Kind)

def FS.look (fs : FS) (p : PPath) : Option Kind := fs.nodes.lookup p

/-- create or replace the node at `p` -/
def FS.set (fs : FS) (p : PPath) (k : Kind) : FS := ⟨(p, k) :: fs.nodes⟩

inductive Errno | enoent | enotdir | eloop | eexist | eisdir
  deriving DecidableEq, Repr

inductive Res
  /-- resolved to an existing node at physical location `p` (never a link when following) -/
  | found (p : PPath) (k : Kind) (fuel : Nat)
  /-- everything but the last component resolved to the directory `dir`; `name` is not there.
      `trail`: the path went on with trailing slashes. -/
  | absent (dir : PPath) (name : Str) (trail : Bool) (fuel : Nat)
  | err (e : Errno)
  deriving DecidableEq, Repr

/-- The kernel's path walk. `cur` is the physical location of the directory reached so far.
`follow = false`: a symbolic link in the last position is not followed (`lstat`, `mkdir`).
The remaining fuel is part of the result so that walks compose exactly. -/
def walk (fs : FS) (follow : Bool) : Nat → PPath → List Str → Res
  | f, cur, [] => .found cur .dir f
  | 0, _, _ :: _ => .err .eloop
  | f + 1, cur, s :: rest =>
    if s = [] ∨ s = [46] then walk fs follow f cur rest
    else if s = [46, 46] then walk fs follow f cur.dropLast rest
    else match fs.look (cur ++ [s]) with
      | none =>
        if rest.all (fun r => r = []) then .absent cur s (!rest.isEmpty) f else .err .enoent
      | some .dir => walk fs follow f (cur ++ [s]) rest
      | some (.file c) =>
        if rest = [] then .found (cur ++ [s]) (.file c) f else .err .enotdir
      | some (.link t) =>
        if rest = [] ∧ follow = false then .found (cur ++ [s]) (.link t) f
        else if t = [] then .err .enoent
        else walk fs follow f (if isRooted t then [] else cur) (splitSlash t ++ rest)

/-- Environment of one operation: the process' working directory and the resolution fuel. -/
structure Env where
  cwd : PPath
  fuel : Nat

/-- where the walk of `p` starts -/
def Env.start (env : Env) (p : Segs) : PPath := if rooted p then [] else env.cwd

def walkP (fs : FS) (env : Env) (follow : Bool) (p : Segs) : Res :=
  if emptyPath p then .err .enoent
  else walk fs follow env.fuel (env.start p) p

/-- `fs::canonicalize` (`realpath`) -/
def canon (fs : FS) (env : Env) (p : Segs) : Option PPath :=
  match walkP fs env true p with
  | .found q _ _ => some q
  | _ => none

/-- `fs::read` / `File::open` + read to end -/
def readFile (fs : FS) (env : Env) (p : Segs) : Option Str :=
  match walkP fs env true p with
  | .found _ (.file c) _ => some c
  | _ => none

/-- `Path::exists` -/
def existsP (fs : FS) (env : Env) (p : Segs) : Bool :=
  match walkP fs env true p with
  | .found _ _ _ => true
  | _ => false

/-- `Path::is_dir` -/
def isDirP (fs : FS) (env : Env) (p : Segs) : Bool :=
  match walkP fs env true p with
  | .found _ .dir _ => true
  | _ => false

/-- `Path::is_symlink` -/
def isSymlinkP (fs : FS) (env : Env) (p : Segs) : Bool :=
  match walkP fs env false p with
  | .found _ (.link _) _ => true
  | _ => false

/-- `mkdir(2)` -/
def mkdir (fs : FS) (env : Env) (p : Segs) : Except Errno FS :=
  match walkP fs env false p with
  | .absent d n _ _ => .ok (fs.set (d ++ [n]) .dir)
  | .found _ _ _ => .error .eexist
  | .err e => .error e

/-- second loop of `DirBuilder::create_dir_all`: the uncreated directories, shallowest first.
The second component is the file system left behind (also on error). -/
def cdaPhase2 (env : Env) : FS → List Segs → Except Errno Unit × FS
  | fs, [] => (.ok (), fs)
  | fs, d :: ds =>
    match mkdir fs env d with
    | .ok fs' => cdaPhase2 env fs' ds
    | .error e =>
      if e = .eexist ∧ isDirP fs env d = true then cdaPhase2 env fs ds else (.error e, fs)

/-- first loop of `DirBuilder::create_dir_all`: try `mkdir` on the ancestors, deepest first,
until one works or already exists. -/
def cdaPhase1 (env : Env) : FS → List Segs → List Segs → Except Errno Unit × FS
  | fs, [], unc => cdaPhase2 env fs unc
  | fs, a :: rest, unc =>
    if emptyPath a ∨ parentSegs a = none then cdaPhase2 env fs unc
    else match mkdir fs env a with
      | .ok fs' => cdaPhase2 env fs' unc
      | .error .enoent => cdaPhase1 env fs rest (a :: unc)
      | .error e =>
        if e = .eexist ∧ isDirP fs env a = true then cdaPhase2 env fs unc else (.error e, fs)

/-- `fs::create_dir_all` -/
def createDirAll (fs : FS) (env : Env) (p : Segs) : Except Errno Unit × FS :=
  if emptyPath p ∨ parentSegs p = none then (.ok (), fs)
  else cdaPhase1 env fs (ancestors p) []

/-- `fs::write`: `open(O_WRONLY|O_CREAT|O_TRUNC)` follows a link in the last position, also a
dangling one (the link's target is then created). -/
def writeFile (fs : FS) (env : Env) (p : Segs) (data : Str) : Except Errno FS :=
  match walkP fs env true p with
  | .found q (.file _) _ => .ok (fs.set q (.file data))
  | .found _ _ _ => .error .eisdir
  | .absent d n false _ => .ok (fs.set (d ++ [n]) (.file data))
  | .absent _ _ true _ => .error .eisdir
  | .err e => .error e

/-! ### `resolve_within_root`, `resolve_within_root_for_write` -/

/-- `resolve_within_root(base, root, path)` -/
def resolveWithinRoot (fs : FS) (env : Env) (base root : Segs) (path : Str) : Except Err Segs :=
  if path = [] then .error .bad
  else if 92 ∈ path then .error .bad
  else if isRooted path then .error .bad
  else
    let joined := pathJoin base (splitSlash path)
    if !compsStartWith (normalize (componentsSegs joined)) (normalize (componentsSegs root)) then
      .error .bad
    else match canon fs env joined with
      | some t =>
        match canon fs env root with
        | none => .error .io
        | some r => if r.isPrefixOf t then .ok joined else .error .bad
      | none => .ok joined

/-- `joined.strip_prefix(ancestor)` has normal components only (`ancestor` is one of
`joined.ancestors()`, so its components are a prefix of those of `joined`) -/
def restNormal (joined a : Segs) : Bool :=
  ((componentsSegs joined).drop (componentsSegs a).length).all fun c =>
    match c with
    | .normal _ => true
    | _ => false

/-- the `for ancestor in joined.ancestors()` loop of `resolve_within_root_for_write` -/
def checkAncestors (fs : FS) (env : Env) (root joined : Segs) : List Segs → Except Err Unit
  | [] => .ok ()
  | a :: rest =>
    match canon fs env a with
    | some c =>
      match canon fs env root with
      | some r =>
        if r.isPrefixOf c then (if restNormal joined a then .ok () else .error .bad)
        else .error .bad
      | none => if restNormal joined a then .ok () else .error .bad
    | none =>
      if isSymlinkP fs env a then .error .bad else checkAncestors fs env root joined rest

/-- `resolve_within_root_for_write(base, root, path)` -/
def resolveForWrite (fs : FS) (env : Env) (base root : Segs) (path : Str) : Except Err Segs :=
  match resolveWithinRoot fs env base root path with
  | .error e => .error e
  | .ok joined =>
    match checkAncestors fs env root joined (ancestors joined) with
    | .error e => .error e
    | .ok () => .ok joined

/-! ### `ResourceStore` with a base path -/

structure Cfg where
  env : Env
  base : Str
  /-- `resource_root`; `none` = defaults to `base` -/
  root : Option Str
  /-- the in-memory map `resources` (what was added before the base path was set) -/
  mem : List (Str × Str) := []

def Cfg.baseSegs (c : Cfg) : Segs := splitSlash c.base
def Cfg.rootSegs (c : Cfg) : Segs := splitSlash (c.root.getD c.base)

/-- `notFound what`: `Error::ResourceNotFound(what)` -/
inductive GetRes | found (c : Str) | notFound (what : Str)
  deriving DecidableEq, Repr

/-- `ResourceStore::get` -/
def get (fs : FS) (c : Cfg) (id : Str) : GetRes :=
  match c.mem.lookup id with
  | some v => .found v
  | none =>
    match resolveWithinRoot fs c.env c.baseSegs c.rootSegs id with
    | .error _ => .notFound id
    | .ok path =>
      match readFile fs c.env path with
      | some v => .found v
      | none => .notFound (joinSlash path)

inductive WsRes | ok (c : Str) | notFound | io
  deriving DecidableEq, Repr

/-- `ResourceStore::write_stream` -/
def writeStream (fs : FS) (c : Cfg) (id : Str) : WsRes :=
  match c.mem.lookup id with
  | some v => .ok v
  | none =>
    match resolveWithinRoot fs c.env c.baseSegs c.rootSegs id with
    | .error _ => .notFound
    | .ok path =>
      match readFile fs c.env path with
      | some v => .ok v
      | none => .io

/-- `ResourceStore::exists` -/
def existsId (fs : FS) (c : Cfg) (id : Str) : Bool :=
  if (c.mem.lookup id).isSome then true
  else
    match resolveWithinRoot fs c.env c.baseSegs c.rootSegs id with
    | .error _ => false
    | .ok path => existsP fs c.env path

/-- `ResourceStore::path_for_id` (does not look at the in-memory map) -/
def pathForId (fs : FS) (c : Cfg) (id : Str) : Option Segs :=
  match resolveWithinRoot fs c.env c.baseSegs c.rootSegs id with
  | .error _ => none
  | .ok path => some path

inductive AddRes | ok | bad | io
  deriving DecidableEq, Repr

/-- `create_dir_all(path.parent().unwrap_or(""))` then `write(path, data)`; returns the file
system left behind also when one of the two fails. -/
def createAndWrite (fs : FS) (env : Env) (path : Segs) (data : Str) : AddRes × FS :=
  match createDirAll fs env ((parentSegs path).getD [[]]) with
  | (.error _, fs1) => (.io, fs1)
  | (.ok _, fs1) =>
    match writeFile fs1 env path data with
    | .error _ => (.io, fs1)
    | .ok fs2 => (.ok, fs2)

/-- `resolve_within_root_for_write(base, root, rel)?`, `create_dir_all(parent)?`, `write`:
what `ResourceStore::add` does with the sanitized identifier, and what the `write_bytes`
closure of `Reader::to_folder` does with the relative path (there `base = root =` the folder). -/
def checkedWrite (fs : FS) (env : Env) (base root : Segs) (rel data : Str) : AddRes × FS :=
  match resolveForWrite fs env base root rel with
  | .error .io => (.io, fs)
  | .error _ => (.bad, fs)
  | .ok path => createAndWrite fs env path data

/-- `ResourceStore::add` (base path configured; the in-memory map is not touched) -/
def add (fs : FS) (c : Cfg) (id data : Str) : AddRes × FS :=
  match sanitize id with
  | .error _ => (.bad, fs)
  | .ok sid => checkedWrite fs c.env c.baseSegs c.rootSegs sid data

/-- The check-free join, `create_dir_all(parent)`, `write` — what the `write_bytes` closure of
`Reader::to_folder` was before it called `resolve_within_root_for_write`, and what
`ResourceStore::add` was before (defect F7). Kept for the refutation `unchecked_write_escapes`. -/
def writeUnder (fs : FS) (env : Env) (dest : Segs) (rel data : Str) : AddRes × FS :=
  createAndWrite fs env (pathJoin dest (splitSlash rel)) data

/-- the `write_bytes` closure of `Reader::to_folder(dest)` -/
def exportRel (fs : FS) (env : Env) (dest : Segs) (rel data : Str) : AddRes × FS :=
  checkedWrite fs env dest dest rel data

/-- one exported item: `write_bytes(uri_to_path(uri, label)?, data)?` -/
def exportItem (fs : FS) (env : Env) (dest : Segs) (uri : Str) (label : Option Str) (data : Str) :
    AddRes × FS :=
  match uriToPath uri label with
  | .error _ => (.bad, fs)
  | .ok rel => exportRel fs env dest rel data

/-- `"manifest_store.json"` -/
def manifestStoreJson : Str :=
  [109, 97, 110, 105, 102, 101, 115, 116, 95, 115, 116, 111, 114, 101, 46, 106, 115, 111, 110]

/-- the URI of data box `label` of claim `claim`:
`"self#jumbf=/c2pa/<claim>/c2pa.databoxes/<label>"` -/
def dataBoxUri (claim label : Str) : Str :=
  selfJumbf ++ c2paPrefix ++ claim ++ 47 :: dataBoxes ++ 47 :: label

/-- `Reader::to_folder(dest)` for a store holding one claim with one data box: `create_dir_all`
of the folder, the two manifest files (contents `json`, `c2pa`), then the data box; stops at the
first error. -/
def toFolder (fs : FS) (env : Env) (dest : Segs) (json c2pa claim label data : Str) : AddRes × FS :=
  match createDirAll fs env dest with
  | (.error _, fs0) => (.io, fs0)
  | (.ok _, fs0) =>
    match exportRel fs0 env dest manifestStoreJson json with
    | (.ok, fs1) =>
      match exportRel fs1 env dest manifestDataKey c2pa with
      | (.ok, fs2) => exportItem fs2 env dest (dataBoxUri claim label) (some claim) data
      | r => r
    | r => r

/-! ### line protocol -/

def ofHex (s : String) : Str := ((fromHex? s).getD []).map UInt8.toNat

def hexNat (n : Nat) : String := String.ofList [hexDigit (n / 16 % 16), hexDigit (n % 16)]

def hx (s : Str) : String := if s.isEmpty then "-" else String.join (s.map hexNat)

def compStr : Comp → Str
  | .root => [47] | .cur => [46] | .parent => [46, 46] | .normal n => n

/-- text of the `PathBuf` holding these components -/
def renderComps : List Comp → Str
  | .root :: rest => 47 :: joinSlash (rest.map compStr)
  | cs => joinSlash (cs.map compStr)

/-- all non-empty prefixes of a physical path -/
def prefixesOf (p : PPath) : List PPath := (List.range p.length).map (fun i => p.take (i + 1))

def physOf (s : Str) : PPath := (splitSlash s).filter (fun x => x ≠ [])

def parseNode (pre : PPath) (s : String) : Option (PPath × Kind) :=
  match s.splitOn ":" with
  | [k, p, v] =>
    let loc := pre ++ physOf (ofHex p)
    if k == "d" then some (loc, .dir)
    else if k == "f" then some (loc, .file (ofHex v))
    else if k == "l" then some (loc, .link (ofHex v))
    else none
  | _ => none

structure Req where
  fs : FS
  cfg : Cfg

def parseReq (toks : List String) : Req :=
  let pre := physOf (ofHex (field toks "pre"))
  let cwd := physOf (ofHex (field toks "cwd"))
  let tree := field toks "tree"
  let nodes := if tree == "-" then [] else (tree.splitOn ";").filterMap (parseNode pre)
  let chain := (prefixesOf pre).map (fun p => (p, Kind.dir))
  let rootS := field toks "root"
  let memS := field toks "mem"
  let mem := if memS == "-" || memS == "" then [] else (memS.splitOn ",").filterMap fun e =>
    match e.splitOn ":" with
    | [k, v] => some (ofHex k, ofHex v)
    | _ => none
  { fs := ⟨([], Kind.dir) :: chain ++ nodes⟩
    cfg := { env := { cwd := cwd, fuel := 4096 }
             base := ofHex (field toks "base")
             root := if rootS == "none" then none else some (ofHex rootS)
             mem := mem } }

def kindStr : Kind → String
  | .dir => "d"
  | .file c => "f:" ++ hx c
  | .link t => "l:" ++ hx t

def absStr (p : PPath) : Str := 47 :: joinSlash p

def insertSorted (x : String × String) : List (String × String) → List (String × String)
  | [] => [x]
  | y :: ys =>
    if x.1 < y.1 then x :: y :: ys else if x.1 == y.1 then y :: ys else y :: insertSorted x ys

/-- nodes set since `old`, newest value per location, sorted by the hex of the location -/
def diffStr (old new : FS) : String :=
  let fresh := new.nodes.take (new.nodes.length - old.nodes.length)
  -- `fresh` is newest-first and `insertSorted` keeps the entry already there: newest wins
  let entries := fresh.foldl (fun acc e => insertSorted (hx (absStr e.1), kindStr e.2) acc) []
  if entries.isEmpty then "-" else ",".intercalate (entries.map fun e => e.1 ++ "=" ++ e.2)

/-- The JUMBF box name of a data box is the last '/'-segment of its label; `Store::to_jumbf_internal`
refuses a name that is empty or contains NUL (`check_jumbf_label`). -/
def unstorableBoxName (label : Str) : Bool :=
  ((splitSlash label).getLast?.getD []).isEmpty || label.contains 0

def exceptStr (r : Except Err Str) : String :=
  match r with
  | .ok s => "ok:" ++ hx s
  | .error .bad => "bad"
  | .error .io => "io"
  | .error .notFound => "nf"

def optLabel (s : String) : Option Str := if s == "none" then none else some (ofHex s)

def handle (toks : List String) : String :=
  match toks with
  | "sanitize" :: rest => exceptStr (sanitize (ofHex (field rest "p")))
  | "uri" :: rest => exceptStr (uriToPath (ofHex (field rest "uri")) (optLabel (field rest "label")))
  | "archive" :: rest =>
    let ams := (splitList (field rest "am") ",").map optLabel
    match archiveEffects ams (ofHex (field rest "name")) with
    | .error _ => "bad"
    | .ok [] => "ignored"
    | .ok effs =>
      "ok:" ++ "+".intercalate (effs.map fun (st, key) =>
        (match st with
          | .builder => "b"
          | .ingredient i => toString i) ++ "=" ++ hx key)
  | "export" :: rest =>
    let claim := ofHex (field rest "claim")
    let label := ofHex (field rest "label")
    -- `to_folder` first serialises the store (manifest_data.c2pa); since the C18 repair
    -- (Store::check_jumbf_label) a data box whose JUMBF box name -- the last '/'-segment of its
    -- label -- is empty or contains NUL cannot be serialised, so the export fails before any
    -- data box file is written
    if unstorableBoxName label then "bad"
    else exceptStr (uriToPath (dataBoxUri claim label) (some claim))
  | "tofolder" :: rest =>
    let r := parseReq rest
    -- contents of the two manifest files: "J" and "C" (the harness canonicalises them so)
    let (res, fs') := toFolder r.fs r.cfg.env r.cfg.baseSegs [74] [67] (ofHex (field rest "claim"))
      (ofHex (field rest "label")) (ofHex (field rest "data"))
    (match res with | .ok => "ok" | .bad => "bad" | .io => "io") ++ " diff=" ++ diffStr r.fs fs'
  | "normalize" :: rest => hx (renderComps (normalize (components (ofHex (field rest "p")))))
  | "components" :: rest =>
    ",".intercalate ((components (ofHex (field rest "p"))).map fun c =>
      match c with
      | .root => "R" | .cur => "C" | .parent => "P" | .normal n => "N" ++ hx n)
  | "parent" :: rest =>
    match parentSegs (splitSlash (ofHex (field rest "p"))) with
    | none => "none"
    | some q => "some:" ++ hx (joinSlash q)
  | "resolve" :: rest =>
    let r := parseReq rest
    exceptStr ((resolveWithinRoot r.fs r.cfg.env r.cfg.baseSegs r.cfg.rootSegs
      (ofHex (field rest "id"))).map joinSlash)
  | "canon" :: rest =>
    let r := parseReq rest
    match canon r.fs r.cfg.env (splitSlash (ofHex (field rest "id"))) with
    | none => "none"
    | some q => "some:" ++ hx (absStr q)
  | "get" :: rest =>
    let r := parseReq rest
    match get r.fs r.cfg (ofHex (field rest "id")) with
    | .found c => "found:" ++ hx c
    | .notFound w => "nf:" ++ hx w
  | "ws" :: rest =>
    let r := parseReq rest
    match writeStream r.fs r.cfg (ofHex (field rest "id")) with
    | .ok c => "ok:" ++ hx c
    | .notFound => "nf"
    | .io => "io"
  | "exists" :: rest =>
    let r := parseReq rest
    if existsId r.fs r.cfg (ofHex (field rest "id")) then "true" else "false"
  | "pfi" :: rest =>
    let r := parseReq rest
    match pathForId r.fs r.cfg (ofHex (field rest "id")) with
    | none => "none"
    | some p => "some:" ++ hx (joinSlash p)
  | "add" :: rest =>
    let r := parseReq rest
    let (res, fs') := add r.fs r.cfg (ofHex (field rest "id")) (ofHex (field rest "data"))
    (match res with | .ok => "ok" | .bad => "bad" | .io => "io") ++ " diff=" ++ diffStr r.fs fs'
  | _ => "bad-op"

end C2pa.C29
