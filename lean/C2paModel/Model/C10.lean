import C2paModel.Base
/-
C10 — resource limits that are not modelled by another property:

* `safe_vec` / `ReaderUtils::read_to_vec` (sdk/src/utils/io_utils.rs): an allocation for data
  read from a stream is requested only after the declared length was checked against what is
  left in the stream.
* `BoundedVecWriter` (same file), the sink of the brotli decompressor in `CAIManifest::from`
  (sdk/src/jumbf/boxes.rs): capacity `max_len` reserved once, every `write` that would pass
  `max_len` is refused.
* the manifest-store loop of `Store::from_jumbf_impl` around `CAIManifest::from`: one fresh
  bounded sink (one reservation of the limit) per compressed manifest box.
* the assertion-count limits: `Store::from_jumbf_impl` refuses a manifest whose assertion store
  has more than `MAX_ASSERTIONS` boxes before looping over them; `Builder::check_assertion_limit`
  refuses the next `add_assertion` once `MAX_ASSERTIONS` are present (but a definition is loaded
  without the check); `Claim::add_assertion_impl` refuses the add once the claim holds
  `MAX_ASSERTIONS`.

Every op of the line protocol below is answered by the real code in the harness
(harness/src/bin/c10.rs): `tovec`/`svec`/`bvw` through hooks on the functions themselves,
`stores`/`asserts` by `Store::from_jumbf_with_context` on real manifest stores edited at the byte
level, `badd`/`bdef` by the public `Builder`, `cadd` by `Claim::add_assertion`.

Integers are Rust integers: `u64`/`usize` (64-bit) with explicit overflow outcomes.
-/
namespace C2pa.C10

def u64Max : Nat := 2 ^ 64 - 1
def isizeMax : Nat := 2 ^ 63 - 1

inductive Err
  | badParam            -- "source stream read out of range" / "read past end of source stream"
  | insufficientMemory  -- try_reserve_exact failed
  | io                  -- the underlying read failed / writer refused
  | tooManyAssertions
  deriving DecidableEq, Repr

/-- `safe_vec::<u8>(item_cnt, None)`: `usize::try_from` cannot fail on a 64-bit target;
`try_reserve_exact(n)` fails with a capacity overflow above `isize::MAX` and when the allocator
cannot provide `n` bytes (`avail` = what the allocator would still give). Returns the reserved
capacity. -/
def safeVec (itemCnt avail : Nat) : Except Err Nat :=
  if itemCnt > isizeMax then .error .insufficientMemory
  else if itemCnt > avail then .error .insufficientMemory
  else .ok itemCnt

/-- `safe_vec::<T>(item_cnt, init_with)` for an element type with `size_of::<T>() = elemSize`
(io_utils.rs:195-209): `try_reserve_exact(n)` asks the allocator for `n * elemSize` *bytes*; the
capacity overflows above `isize::MAX` bytes. With `init_with = Some(_)` (`fill`) the vector is
then resized to `n` elements (no further allocation: the capacity is there). Returns
(bytes reserved, resulting length in elements). `safeVec` is the case `elemSize = 1`, no fill. -/
def safeVecT (elemSize itemCnt avail : Nat) (fill : Bool) : Except Err (Nat × Nat) :=
  if itemCnt * elemSize > isizeMax then .error .insufficientMemory
  else if itemCnt * elemSize > avail then .error .insufficientMemory
  else .ok (itemCnt * elemSize, if fill then itemCnt else 0)

/-- `read_to_vec(data_len)` on a stream of length `len` positioned at `pos` (both ≤ u64::MAX).
Returns (bytes requested from the allocator, bytes read). -/
def readToVec (pos len dataLen avail : Nat) : Except Err (Nat × Nat) :=
  if pos + dataLen > u64Max then .error .badParam            -- checked_add
  else if pos + dataLen > len then .error .badParam          -- read past end
  else match safeVec dataLen avail with
    | .error e => .error e
    | .ok cap => .ok (cap, dataLen)                           -- take(data_len).read_to_end

/-- `BoundedVecWriter`: current length and the bound. -/
structure BVW where
  len : Nat
  maxLen : Nat
  deriving DecidableEq, Repr

/-- `BoundedVecWriter::new(max_len)`: reserves `max_len` bytes once. Returns the writer and the
bytes requested from the allocator. -/
def BVW.new (maxLen avail : Nat) : Except Err (BVW × Nat) :=
  match safeVec maxLen avail with
  | .error e => .error e
  | .ok cap => .ok (⟨0, maxLen⟩, cap)

/-- `usize::saturating_add` -/
def satAdd (a b : Nat) : Nat := if a + b > u64Max then u64Max else a + b

/-- `Write::write(buf)` with `buf.len() = n` -/
def BVW.write (w : BVW) (n : Nat) : Except Err BVW :=
  if satAdd w.len n > w.maxLen then .error .io
  else .ok { w with len := w.len + n }

/-- A decompressor is any producer of output chunks; it stops at the first refused write
(`BrotliDecompress` returns the writer's error). Returns the final writer or the error together
with the writer at the time of the refusal. -/
def BVW.run : BVW → List Nat → Except (Err × BVW) BVW
  | w, [] => .ok w
  | w, n :: rest =>
    match w.write n with
    | .error e => .error (e, w)
    | .ok w' => BVW.run w' rest

/-! ### the manifest-store loop of `Store::from_jumbf_impl` (store.rs:1262-1268) around
`CAIManifest::from` (boxes.rs:1532-1545)

For every manifest box of the store, in order: a box whose first data box is a `brob` box gets a
**fresh** `BoundedVecWriter::new(max_manifest_size)` (one reservation of `max_manifest_size`
bytes *per compressed manifest*), the decompressor output goes through it, a refusal ends the
whole load with an error; any other box is re-read as is. The writer of one manifest is dropped
before the next one is looked at, the parsed manifest (about the decompressed size) stays. -/
inductive StoreIn
  | plain (size : Nat)            -- uncompressed manifest box of `size` bytes
  | brob (chunks : List Nat)      -- compressed manifest: the decompressor's output chunks
  deriving Repr

/-- Returns (number of `max_manifest_size` reservations made, the sizes of the manifests loaded or
the error). -/
def loadStores (maxLen avail : Nat) : List StoreIn → Nat → List Nat → Nat × Except Err (List Nat)
  | [], r, l => (r, .ok l)
  | .plain s :: rest, r, l => loadStores maxLen avail rest r (l ++ [s])
  | .brob ch :: rest, r, l =>
    match BVW.new maxLen avail with
    | .error e => (r, .error e)
    | .ok (w, _) =>
      match w.run ch with
      | .error (e, _) => (r + 1, .error e)
      | .ok w' => loadStores maxLen avail rest (r + 1) (l ++ [w'.len])

def MAX_ASSERTIONS : Nat := 100000

/-- `Store::from_jumbf_impl`: the count check in front of the assertion loop. Returns the number
of loop iterations that will be executed. -/
def readAssertionLoop (numAssertions : Nat) : Except Err Nat :=
  if numAssertions > MAX_ASSERTIONS then .error .tooManyAssertions else .ok numAssertions

/-- `Builder::add_assertion*`: `check_assertion_limit` then push. -/
def builderAdd (count : Nat) : Except Err Nat :=
  if count ≥ MAX_ASSERTIONS then .error .tooManyAssertions else .ok (count + 1)

/-- a sequence of `k` add attempts, ignoring refusals (the caller may go on calling) -/
def builderAdds : Nat → Nat → Nat
  | count, 0 => count
  | count, k + 1 =>
    match builderAdd count with
    | .ok c => builderAdds c k
    | .error _ => builderAdds count k

/-- `Builder::with_definition` / `Builder::from_json` / `with_archive`: the definition's
`assertions` list is deserialised as is — **no** `check_assertion_limit` on this path
(builder.rs: the only caller of `check_assertion_limit` is `add_assertion_impl`). -/
def builderLoad (n : Nat) : Nat := n

/-- `Claim::add_assertion_impl` (claim.rs:1467): the third limit site — what a `Builder::sign`
actually puts into the claim goes through this, whatever the definition held. -/
def claimAdd (count : Nat) : Except Err Nat :=
  if count ≥ MAX_ASSERTIONS then .error .tooManyAssertions else .ok (count + 1)

/-- `k` adds in a row with `?` (the first refusal ends `Builder::to_claim`). -/
def claimAdds : Nat → Nat → Except Err Nat
  | count, 0 => .ok count
  | count, k + 1 =>
    match claimAdd count with
    | .ok c => claimAdds c k
    | .error e => .error e

/-! ### line protocol
  `tovec pos=<n> len=<n> want=<n>`        → `ok <alloc> <read>` | `err:<kind>`
  `bvw max=<n> writes=<n,n,…|->`          → `ok <len>` | `err <len at refusal>` | `err:<kind>` (new failed)
  `svec elem=<n> n=<n> fill=<0|1>`        → `ok <bytes reserved> <len>` | `err:<kind>`
  `stores max=<n> s=<p:size|b:c+c+…>,…`   → `ok <reservations> <manifests loaded>` | `err <reservations>`
  `asserts n=<n>`                         → `ok <iterations>` | `err:<kind>`
  `badd count=<n> k=<n>`                  → `<count after k attempts>`
  `bdef n=<n>`                            → `<count held after loading a definition with n assertions>`
  `cadd count=<n> k=<n>`                  → `ok <count>` | `err:<kind>`   (k adds to a claim holding count)
  `e2e … outcome=<class>`                 → `<class>` (echo; see harness/src/bin/c10.rs)
`avail` is taken as `isize::MAX` (the harness runs with an address-space limit far above its
requests; an allocator refusal shows as `err:InsufficientMemory` on the implementation side and
is reported, not compared). -/

def errStr : Err → String
  | .badParam => "err:BadParam"
  | .insufficientMemory => "err:InsufficientMemory"
  | .io => "err:Io"
  | .tooManyAssertions => "err:TooManyAssertions"

def handle (toks : List String) : String :=
  match toks with
  | "tovec" :: rest =>
    match (field rest "pos").toNat?, (field rest "len").toNat?, (field rest "want").toNat? with
    | some pos, some len, some want =>
      match readToVec pos len want isizeMax with
      | .ok (a, r) => "ok " ++ toString a ++ " " ++ toString r
      | .error e => errStr e
    | _, _, _ => "bad-req"
  | "bvw" :: rest =>
    match (field rest "max").toNat? with
    | some mx =>
      let ws := (splitList (if field rest "writes" == "-" then "" else field rest "writes") ",").filterMap String.toNat?
      match BVW.new mx isizeMax with
      | .error e => errStr e
      | .ok (w, _) =>
        match w.run ws with
        | .ok w' => "ok " ++ toString w'.len
        | .error (_, w') => "err " ++ toString w'.len
    | none => "bad-req"
  | "svec" :: rest =>
    match (field rest "elem").toNat?, (field rest "n").toNat? with
    | some el, some n =>
      match safeVecT el n isizeMax (field rest "fill" == "1") with
      | .ok (b, l) => "ok " ++ toString b ++ " " ++ toString l
      | .error e => errStr e
    | _, _ => "bad-req"
  | "stores" :: rest =>
    match (field rest "max").toNat? with
    | some mx =>
      let parse (t : String) : Option StoreIn :=
        match t.splitOn ":" with
        | ["p", n] => n.toNat?.map StoreIn.plain
        | ["b", cs] => some (StoreIn.brob ((splitList (if cs == "-" then "" else cs) "+").filterMap String.toNat?))
        | _ => none
      let ss := (splitList (field rest "s") ",").filterMap parse
      match loadStores mx isizeMax ss 0 [] with
      | (r, .ok l) => "ok " ++ toString r ++ " " ++ toString l.length
      | (r, .error _) => "err " ++ toString r
    | none => "bad-req"
  | "bdef" :: rest =>
    match (field rest "n").toNat? with
    | some n => toString (builderLoad n)
    | none => "bad-req"
  | "cadd" :: rest =>
    match (field rest "count").toNat?, (field rest "k").toNat? with
    | some c0, some k =>
      match claimAdds c0 k with
      | .ok c => "ok " ++ toString c
      | .error e => errStr e
    | _, _ => "bad-req"
  | "asserts" :: rest =>
    match (field rest "n").toNat? with
    | some n =>
      match readAssertionLoop n with
      | .ok k => "ok " ++ toString k
      | .error e => errStr e
    | none => "bad-req"
  | "badd" :: rest =>
    match (field rest "count").toNat?, (field rest "k").toNat? with
    | some c, some k => toString (builderAdds c k)
    | _, _ => "bad-req"
  -- end-to-end search lines carry the oracle's verdict; there is no model of the SDK's parsers
  | "e2e" :: rest => field rest "outcome"
  | _ => "bad-op"

end C2pa.C10
