import C2paModel.Base
/-
C10 — resource limits that are not modelled by another property:

* `safe_vec` / `ReaderUtils::read_to_vec` (sdk/src/utils/io_utils.rs): an allocation for data
  read from a stream is requested only after the declared length was checked against what is
  left in the stream.
* `BoundedVecWriter` (same file), the sink of the brotli decompressor in `CAIManifest::from`
  (sdk/src/jumbf/boxes.rs): capacity `max_len` reserved once, every `write` that would pass
  `max_len` is refused.
* the assertion-count limits: `Store::from_jumbf_impl` refuses a manifest whose assertion store
  has more than `MAX_ASSERTIONS` boxes before looping over them; `Builder::check_assertion_limit`
  refuses the next `add_assertion` once `MAX_ASSERTIONS` are present.

Integers are Rust integers: `u64`/`usize` (64-bit) with explicit overflow outcomes.
-/
namespace C2pa.C10

def u64Max : Nat := 2 ^ 64 - 1
def isizeMax : Nat := 2 ^ 63 - 1

inductive Err
  | badParam            -- "source stream read out of range" / "read past end of source stream"
  | insufficientMemory  -- try_reserve_exact failed
  | io                  -- the underlying read failed / writer refused
  | tooManyAssertions
  deriving DecidableEq, Repr

/-- `safe_vec::<u8>(item_cnt, None)`: `usize::try_from` cannot fail on a 64-bit target;
`try_reserve_exact(n)` fails with a capacity overflow above `isize::MAX` and when the allocator
cannot provide `n` bytes (`avail` = what the allocator would still give). Returns the reserved
capacity. -/
def safeVec (itemCnt avail : Nat) : Except Err Nat :=
  if itemCnt > isizeMax then .error .insufficientMemory
  else if itemCnt > avail then .error .insufficientMemory
  else .ok itemCnt

/-- `read_to_vec(data_len)` on a stream of length `len` positioned at `pos` (both ≤ u64::MAX).
Returns (bytes requested from the allocator, bytes read). -/
def readToVec (pos len dataLen avail : Nat) : Except Err (Nat × Nat) :=
  if pos + dataLen > u64Max then .error .badParam            -- checked_add
  else if pos + dataLen > len then .error .badParam          -- read past end
  else match safeVec dataLen avail with
    | .error e => .error e
    | .ok cap => .ok (cap, dataLen)                           -- take(data_len).read_to_end

/-- `BoundedVecWriter`: current length and the bound. -/
structure BVW where
  len : Nat
  maxLen : Nat
  deriving DecidableEq, Repr

/-- `BoundedVecWriter::new(max_len)`: reserves `max_len` bytes once. Returns the writer and the
bytes requested from the allocator. -/
def BVW.new (maxLen avail : Nat) : Except Err (BVW × Nat) :=
  match safeVec maxLen avail with
  | .error e => .error e
  | .ok cap => .ok (⟨0, maxLen⟩, cap)

/-- `usize::saturating_add` -/
def satAdd (a b : Nat) : Nat := if a + b > u64Max then u64Max else a + b

/-- `Write::write(buf)` with `buf.len() = n` -/
def BVW.write (w : BVW) (n : Nat) : Except Err BVW :=
  if satAdd w.len n > w.maxLen then .error .io
  else .ok { w with len := w.len + n }

/-- A decompressor is any producer of output chunks; it stops at the first refused write
(`BrotliDecompress` returns the writer's error). Returns the final writer or the error together
with the writer at the time of the refusal. -/
def BVW.run : BVW → List Nat → Except (Err × BVW) BVW
  | w, [] => .ok w
  | w, n :: rest =>
    match w.write n with
    | .error e => .error (e, w)
    | .ok w' => BVW.run w' rest

def MAX_ASSERTIONS : Nat := 100000

/-- `Store::from_jumbf_impl`: the count check in front of the assertion loop. Returns the number
of loop iterations that will be executed. -/
def readAssertionLoop (numAssertions : Nat) : Except Err Nat :=
  if numAssertions > MAX_ASSERTIONS then .error .tooManyAssertions else .ok numAssertions

/-- `Builder::add_assertion*`: `check_assertion_limit` then push. -/
def builderAdd (count : Nat) : Except Err Nat :=
  if count ≥ MAX_ASSERTIONS then .error .tooManyAssertions else .ok (count + 1)

/-- a sequence of `k` add attempts, ignoring refusals (the caller may go on calling) -/
def builderAdds : Nat → Nat → Nat
  | count, 0 => count
  | count, k + 1 =>
    match builderAdd count with
    | .ok c => builderAdds c k
    | .error _ => builderAdds count k

/-! ### line protocol
  `tovec pos=<n> len=<n> want=<n>`        → `ok <alloc> <read>` | `err:<kind>`
  `bvw max=<n> writes=<n,n,…|->`          → `ok <len>` | `err <len at refusal>` | `err:<kind>` (new failed)
  `asserts n=<n>`                         → `ok <iterations>` | `err:<kind>`
  `badd count=<n> k=<n>`                  → `<count after k attempts>`
  `e2e … outcome=<class>`                 → `<class>` (echo; see harness/src/bin/c10.rs)
`avail` is taken as `isize::MAX` (the harness runs with an address-space limit far above its
requests; an allocator refusal shows as `err:InsufficientMemory` on the implementation side and
is reported, not compared). -/

def errStr : Err → String
  | .badParam => "err:BadParam"
  | .insufficientMemory => "err:InsufficientMemory"
  | .io => "err:Io"
  | .tooManyAssertions => "err:TooManyAssertions"

def handle (toks : List String) : String :=
  match toks with
  | "tovec" :: rest =>
    match (field rest "pos").toNat?, (field rest "len").toNat?, (field rest "want").toNat? with
    | some pos, some len, some want =>
      match readToVec pos len want isizeMax with
      | .ok (a, r) => "ok " ++ toString a ++ " " ++ toString r
      | .error e => errStr e
    | _, _, _ => "bad-req"
  | "bvw" :: rest =>
    match (field rest "max").toNat? with
    | some mx =>
      let ws := (splitList (if field rest "writes" == "-" then "" else field rest "writes") ",").filterMap String.toNat?
      match BVW.new mx isizeMax with
      | .error e => errStr e
      | .ok (w, _) =>
        match w.run ws with
        | .ok w' => "ok " ++ toString w'.len
        | .error (_, w') => "err " ++ toString w'.len
    | none => "bad-req"
  | "asserts" :: rest =>
    match (field rest "n").toNat? with
    | some n =>
      match readAssertionLoop n with
      | .ok k => "ok " ++ toString k
      | .error e => errStr e
    | none => "bad-req"
  | "badd" :: rest =>
    match (field rest "count").toNat?, (field rest "k").toNat? with
    | some c, some k => toString (builderAdds c k)
    | _, _ => "bad-req"
  -- end-to-end search lines carry the oracle's verdict; there is no model of the SDK's parsers
  | "e2e" :: rest => field rest "outcome"
  | _ => "bad-op"

end C2pa.C10
