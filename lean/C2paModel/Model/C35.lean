import C2paModel.Model.C11
/-
C35 — model of stream reading under an arbitrary short-read / fault oracle.

A stream is its byte content, a position, a *read schedule* and a *seek schedule*:
* for each successive `read` call with a non-empty buffer the read schedule says what that call
  does: `rd (k+1)` hands out at most `k+1` bytes, `rd 0` fails with a hard I/O error, `intr` fails
  with `ErrorKind::Interrupted`; when the schedule is exhausted reads are full. This covers every
  behaviour `std::io::Read` permits (any positive count ≤ min(buffer, remaining));
* for each successive `seek` call (rewind, `stream_position` of a generic stream, absolute seeks)
  the seek schedule says whether that call fails; when exhausted seeks succeed.

Modelled code:
* `container_from_stream` (sdk/src/jumbf_io.rs): `rewind().ok()?`, the fill loop for the 16-byte
  sniff buffer (`Interrupted` retried, any other error = `None`), `rewind().ok()?`, the magic tests
  (C11's `detectB`), the ID3 branch's seek + `read_exact` probe with its `unwrap_or(false)`;
* `format_from_stream`: `match (hinted, detected)` (`None` — including an I/O error — = the hint);
* `BoxReader::read_header` (sdk/src/jumbf/boxes.rs): one bare `read` of 8 bytes (0 bytes = end of
  data, `Interrupted` is returned like any error), a short first read completed with `read_exact`,
  `read_exact` for the large size; from any stream position;
* `ReaderUtils::read_to_vec` (sdk/src/utils/io_utils.rs): `stream_position`, `seek(End(0))`,
  `seek(Start(old))` when not at the end, the bounds checks, `safe_vec`, then
  `take(len).read_to_end` (std: requests the remaining limit, retries `Interrupted`).
-/
namespace C2pa.C35

open C2pa.C11 (Fmt b sliceEq id3Size firstMatch detectB rulesB isId3 mFLaC
  lJpg lPng lGif lTif lJxl lAvi lAvif lFlac lMp3 lPdf)

/-- What one `Read::read` call does. -/
inductive Ev
  | rd (k : Nat)   -- `rd 0`: hard I/O error; `rd (k+1)`: at most `k+1` bytes
  | intr           -- `ErrorKind::Interrupted`
  deriving DecidableEq, Repr

structure St where
  data : List UInt8
  pos : Nat
  sched : List Ev
  seeks : List Bool := []
  deriving Repr

/-- Result of one `read` call. -/
inductive Rd
  | ok (bs : List UInt8)
  | io
  | intr
  deriving Repr

/-- One `Read::read` call with a buffer of `want` bytes. -/
def readOnce (s : St) (want : Nat) : Rd × St :=
  if want = 0 then (.ok [], s)
  else match s.sched with
    | [] =>
      let bs := (s.data.drop s.pos).take want
      (.ok bs, { s with pos := s.pos + bs.length })
    | .rd 0 :: rest => (.io, { s with sched := rest })
    | .intr :: rest => (.intr, { s with sched := rest })
    | .rd (k + 1) :: rest =>
      let bs := (s.data.drop s.pos).take (min want (k + 1))
      (.ok bs, { s with pos := s.pos + bs.length, sched := rest })

/-- One `Seek::seek` call to absolute position `p`: `(succeeded, state)`. A failing seek leaves the
position where it was. -/
def seekTo (s : St) (p : Nat) : Bool × St :=
  match s.seeks with
  | [] => (true, { s with pos := p })
  | true :: rest => (false, { s with seeks := rest })
  | false :: rest => (true, { s with pos := p, seeks := rest })

/-- Loop "read until `want` bytes or EOF, retrying `Interrupted`" (the sniff loop; also
`read_exact` and `read_to_end` under `take`): the bytes gathered, `none` on a hard I/O error.
Every iteration either consumes a schedule entry or (schedule exhausted) reads everything that
is left, so fuel `want + |schedule|` suffices (`fill`). -/
def readFill : Nat → St → Nat → Option (List UInt8) × St
  | 0, s, _ => (some [], s)
  | fuel + 1, s, want =>
    if want = 0 then (some [], s)
    else match readOnce s want with
      | (.io, s') => (none, s')
      | (.intr, s') => readFill fuel s' want
      | (.ok bs, s') =>
        if bs = [] then (some [], s')   -- `Ok(0)`: end of stream
        else match readFill fuel s' (want - bs.length) with
          | (none, s'') => (none, s'')
          | (some more, s'') => (some (bs ++ more), s'')

def fill (s : St) (want : Nat) : Option (List UInt8) × St :=
  readFill (want + s.sched.length) s want

inductive RErr | eof | io
  deriving DecidableEq, Repr

/-- `Read::read_exact`: as `fill`, but fewer than `want` bytes is `UnexpectedEof`. -/
def readExact (s : St) (want : Nat) : Except RErr (List UInt8) × St :=
  match fill s want with
  | (some bs, s') => if bs.length = want then (.ok bs, s') else (.error .eof, s')
  | (none, s') => (.error .io, s')

/-- The ID3 branch of `container_from_stream` is reached: the stream starts with an ID3v2 header
and none of the eight magic tests before it holds. -/
def id3Reached (pdf : Bool) (buf : List UInt8) : Bool :=
  (firstMatch ((rulesB pdf buf false).take 8)).isNone && isId3 buf

/-- The probe of the ID3 branch: `seek(Start(10 + tag size))`, `read_exact(4)`, `== "fLaC"`.
`Except.error ()` = the seek or a read failed with a hard I/O error. -/
def probe (s : St) (buf : List UInt8) : Except Unit Bool :=
  match seekTo s (10 + id3Size buf) with
  | (false, _) => .error ()
  | (true, s3) =>
    match (readExact s3 4).1 with
    | .ok m => .ok (m == mFLaC)
    | .error .eof => .ok false
    | .error .io => .error ()

/-- `container_from_stream` on a scheduled stream. An I/O error while rewinding or filling the
sniff buffer gives `none` (as coded: `.ok()?`, `Err(_) => return None`); the ID3 probe maps
*any* failure to "not FLAC" (`unwrap_or(false)`), the final rewind's result is dropped. -/
def sniff (pdf : Bool) (data : List UInt8) (sched : List Ev) (seeks : List Bool) : Option Fmt :=
  match seekTo { data := data, pos := 0, sched := sched, seeks := seeks } 0 with
  | (false, _) => none
  | (true, s0) =>
    match fill s0 16 with
    | (none, _) => none
    | (some buf, s1) =>
      match seekTo s1 0 with
      | (false, _) => none
      | (true, s2) =>
        if id3Reached pdf buf then
          match probe s2 buf with
          | .ok flac => detectB pdf buf flac
          | .error _ => detectB pdf buf false   -- `unwrap_or(false)`: the I/O error is dropped
        else detectB pdf buf false

/-- `format_from_stream`: `hinted` = `container_from_format(hint)` (supplied: the container map is
C11's subject). -/
def reconcile (hinted : Option Fmt) (hint : Fmt) (detected : Option Fmt) : Fmt :=
  match hinted, detected with
  | some h, some d => if h == d then hint else d
  | none, some d => d
  | _, none => hint

def formatFromStream (pdf : Bool) (hinted : Option Fmt) (hint : Fmt) (data : List UInt8)
    (sched : List Ev) (seeks : List Bool) : Fmt :=
  reconcile hinted hint (sniff pdf data sched seeks)

inductive Hdr
  | ok (typ : Nat) (size : Nat)
  | empty
  | eof
  deriving Repr, DecidableEq

def be (bs : List UInt8) : Nat := bs.foldl (fun acc x => acc * 256 + x.toNat) 0

/-- `BoxReader::read_header` from stream position `pos`, as coded: one bare `read` into a zeroed
8-byte buffer (`?`: a hard error *and* `Interrupted` are returned), then `read_exact`s. -/
def readHeader (data : List UInt8) (pos : Nat) (sched : List Ev) : Option Hdr :=
  match readOnce { data := data, pos := pos, sched := sched } 8 with
  | (.io, _) => none
  | (.intr, _) => none
  | (.ok [], _) => some .empty
  | (.ok bs, s1) =>
    -- a short first read is completed with `read_exact` (or fails)
    match readExact s1 (8 - bs.length) with
    | (.error .eof, _) => some .eof
    | (.error .io, _) => none
    | (.ok more, s2) =>
      let buf := bs ++ more
      let size := be (buf.take 4)
      let typ := be ((buf.drop 4).take 4)
      if size = 1 then
        match readExact s2 8 with
        | (.ok l, _) => some (.ok typ (be l))
        | (.error .eof, _) => some .eof
        | (.error .io, _) => none
      else some (.ok typ size)

/-- `read_to_vec(data_len)` from position `pos` of a generic `Read + Seek` stream:
`stream_position()?` (a `seek(Current(0))`), `seek(End(0))?`, `seek(Start(old_pos))?` unless
already at the end, `old_pos.checked_add(data_len)` (u64) and `> len` checks, `safe_vec`
(`try_reserve_exact` refuses more than `isize::MAX` bytes), then `take(data_len).read_to_end`:
std asks the stream for the remaining limit on every call, retries `Interrupted`, returns a hard
error, and stops without a further call once the limit is used up. -/
def readToVec (data : List UInt8) (pos want : Nat) (sched : List Ev) (seeks : List Bool) :
    Option (List UInt8) :=
  match seekTo { data := data, pos := pos, sched := sched, seeks := seeks } pos with
  | (false, _) => none
  | (true, s1) =>
    match seekTo s1 data.length with
    | (false, _) => none
    | (true, s2) =>
      match (if pos = data.length then (true, s2) else seekTo s2 pos) with
      | (false, _) => none
      | (true, s3) =>
        if pos + want ≥ 2 ^ 64 then none
        else if pos + want > data.length then none
        else if want ≥ 2 ^ 63 then none
        else (fill s3 want).1

/-! ### line protocol
`sched` = per `read` call: `<k>` (at most k bytes; `0` = hard error) or `i` (Interrupted), `-` = empty;
`seeks` = per `seek` call `1` (fails) / `0`, `-` = empty. -/

def parseSched (s : String) : List Ev :=
  if s == "-" then []
  else (s.splitOn ",").filterMap (fun t => if t == "i" then some Ev.intr else t.toNat?.map Ev.rd)

def parseSeeks (s : String) : List Bool :=
  if s == "-" then [] else (s.splitOn ",").map (· == "1")

def typName (t : Nat) : String :=
  if t = 0x00000000 then "Empty" else if t = 0x6A756D62 then "Jumb" else if t = 0x6A756D64 then "Jumd"
  else if t = 0x66726565 then "Padding" else if t = 0x63327368 then "SaltHash" else if t = 0x6A736F6E then "Json"
  else if t = 0x75756964 then "Uuid" else if t = 0x6A703263 then "Jp2c" else if t = 0x63626F72 then "Cbor"
  else if t = 0x62666462 then "EmbedMediaDesc" else if t = 0x62696462 then "EmbedContent"
  else if t = 0x62726F62 then "Brotli" else "UnknownBox(" ++ toString t ++ ")"

def str? (s : String) : Option Fmt :=
  if s == "-" then some [] else (fromHex? s).map (·.map (fun u => Char.ofNat u.toNat))

def handle (toks : List String) : String :=
  match toks with
  | "sniff" :: rest =>
    match fromHex? (field rest "data") with
    | some data =>
      match sniff (field rest "pdf" == "1") data (parseSched (field rest "sched"))
          (parseSeeks (field rest "seeks")) with
      | some d => String.ofList d
      | none => "-"
    | none => "bad-hex"
  | "format" :: rest =>
    match fromHex? (field rest "data"), str? (field rest "hint") with
    | some data, some hint =>
      let hinted := if field rest "fam" == "-" then none else some (field rest "fam").toList
      toHex ((formatFromStream (field rest "pdf" == "1") hinted hint data
        (parseSched (field rest "sched")) (parseSeeks (field rest "seeks"))).map
          (fun c => UInt8.ofNat c.toNat))
    | _, _ => "bad-hex"
  | "header" :: rest =>
    match fromHex? (field rest "data"), (field rest "pos").toNat? with
    | some data, some pos =>
      match readHeader data pos (parseSched (field rest "sched")) with
      | some (.ok t sz) => "ok " ++ typName t ++ " " ++ toString sz
      | some .empty => "ok Empty 0"
      | some .eof => "eof"
      | none => "err"
    | _, _ => "bad-hex"
  | "tovec" :: rest =>
    match fromHex? (field rest "data"), (field rest "pos").toNat?, (field rest "len").toNat? with
    | some data, some pos, some want =>
      match readToVec data pos want (parseSched (field rest "sched")) (parseSeeks (field rest "seeks")) with
      | some v => "ok " ++ toHex v
      | none => "err"
    | _, _, _ => "bad-req"
  | _ => "bad-op"

end C2pa.C35
