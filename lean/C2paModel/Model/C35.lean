import C2paModel.Model.C11
/-
C35 — model of stream reading under an arbitrary short-read / fault oracle.

A stream is its byte content, a position and a *schedule*: for each successive `read` call
with a non-empty buffer the schedule gives the most that call hands out (`0` = the call
fails with an I/O error); when the schedule is exhausted reads are full. This covers every
behaviour `std::io::Read` permits (any positive count ≤ min(buffer, remaining)).

Modelled code:
* `container_from_stream` (sdk/src/jumbf_io.rs): fill loop for the 16-byte sniff buffer,
  the magic tests (shared with C11), the ID3 branch's seek + `read_exact` peek;
* `BoxReader::read_header` (sdk/src/jumbf/boxes.rs): one `read` of 8 bytes (0 bytes = end
  of data), a short first read completed with `read_exact`, `read_exact` for the large size;
* `ReaderUtils::read_to_vec` (sdk/src/utils/io_utils.rs): bounds check, then
  `take(len).read_to_end`.
-/
namespace C2pa.C35

open C2pa.C11 (Fmt b sliceEq id3Size firstMatch lJpg lPng lGif lTif lJxl lAvi lAvif lFlac lMp3 lPdf)

structure St where
  data : List UInt8
  pos : Nat
  sched : List Nat
  deriving Repr

/-- One `Read::read` call with a buffer of `want` bytes. `none` = I/O error. -/
def readOnce (s : St) (want : Nat) : Option (List UInt8) × St :=
  if want = 0 then (some [], s)
  else match s.sched with
    | [] =>
      let bs := (s.data.drop s.pos).take want
      (some bs, { s with pos := s.pos + bs.length })
    | 0 :: rest => (none, { s with sched := rest })
    | (k + 1) :: rest =>
      let bs := (s.data.drop s.pos).take (min want (k + 1))
      (some bs, { s with pos := s.pos + bs.length, sched := rest })

/-- Loop "read until `want` bytes or EOF" (the fixed sniff loop; also `read_to_end` under
`take`): returns the bytes gathered, `none` on an I/O error. Fuel = `want` suffices because
every successful non-empty read makes progress. -/
def readFill : Nat → St → Nat → Option (List UInt8) × St
  | 0, s, _ => (some [], s)
  | fuel + 1, s, want =>
    if want = 0 then (some [], s)
    else match readOnce s want with
      | (none, s') => (none, s')
      | (some [], s') => (some [], s')
      | (some bs, s') =>
        match readFill fuel s' (want - bs.length) with
        | (none, s'') => (none, s'')
        | (some more, s'') => (some (bs ++ more), s'')

inductive RErr | eof | io
  deriving DecidableEq, Repr

/-- `Read::read_exact`: as `readFill`, but fewer than `want` bytes is `UnexpectedEof`. -/
def readExact (s : St) (want : Nat) : Except RErr (List UInt8) × St :=
  match readFill want s want with
  | (some bs, s') => if bs.length = want then (.ok bs, s') else (.error .eof, s')
  | (none, s') => (.error .io, s')

/-- The magic rules on an explicit buffer and an explicit "fLaC follows the ID3 tag" bit. -/
def rulesB (pdf : Bool) (buf : List UInt8) (isFlac : Bool) : List (Bool × Fmt) :=
  let id3 := decide (buf.length ≥ 10) && sliceEq buf 0 (b "ID3")
  [ (sliceEq buf 0 [0xff, 0xd8, 0xff], lJpg),
    (sliceEq buf 0 [0x89, 0x50, 0x4e, 0x47, 0x0d, 0x0a, 0x1a, 0x0a], lPng),
    (sliceEq buf 0 (b "GIF87a") || sliceEq buf 0 (b "GIF89a"), lGif),
    (sliceEq buf 0 [0x49, 0x49, 0x2A, 0x00] || sliceEq buf 0 [0x4D, 0x4D, 0x00, 0x2A]
      || sliceEq buf 0 [0x49, 0x49, 0x2B, 0x00] || sliceEq buf 0 [0x4D, 0x4D, 0x00, 0x2B], lTif),
    (sliceEq buf 0 [0x00, 0x00, 0x00, 0x0c, 0x4a, 0x58, 0x4c, 0x20, 0x0d, 0x0a, 0x87, 0x0a], lJxl),
    (sliceEq buf 0 (b "RIFF"), lAvi),
    (sliceEq buf 4 (b "ftyp"), lAvif),
    (sliceEq buf 0 (b "fLaC"), lFlac),
    (id3 && isFlac, lFlac),
    (id3, lMp3),
    (buf.getD 0 0 == 0xff && (buf.getD 1 0).toNat / 32 == 7, lMp3) ]
  ++ (if pdf then [(sliceEq buf 0 (b "%PDF"), lPdf)] else [])

/-- `container_from_stream` on a scheduled stream. An I/O error while filling the sniff
buffer gives `none` (as coded: `Err(_) => return None`); the ID3 peek maps any failure to
"not FLAC" (`unwrap_or(false)`). -/
def sniff (pdf : Bool) (data : List UInt8) (sched : List Nat) : Option Fmt :=
  match readFill 16 { data := data, pos := 0, sched := sched } 16 with
  | (none, _) => none
  | (some buf, s1) =>
    if buf.length < 2 then none
    else
      let isFlac := match (readExact { s1 with pos := 10 + id3Size buf } 4).1 with
        | .ok m => m == b "fLaC"
        | .error _ => false
      firstMatch (rulesB pdf buf isFlac)

inductive Hdr
  | ok (typ : Nat) (size : Nat)
  | empty
  | eof
  deriving Repr, DecidableEq

def be (bs : List UInt8) : Nat := bs.foldl (fun acc x => acc * 256 + x.toNat) 0

def padTo (n : Nat) (bs : List UInt8) : List UInt8 := bs ++ List.replicate (n - bs.length) 0

/-- `BoxReader::read_header`, as coded: one `read` into a zeroed 8-byte buffer. -/
def readHeader (data : List UInt8) (sched : List Nat) : Option Hdr :=
  match readOnce { data := data, pos := 0, sched := sched } 8 with
  | (none, _) => none
  | (some [], _) => some .empty
  | (some bs, s1) =>
    -- a short first read is completed with `read_exact` (or fails)
    match readExact s1 (8 - bs.length) with
    | (.error .eof, _) => some .eof
    | (.error .io, _) => none
    | (.ok more, s2) =>
      let buf := bs ++ more
      let size := be (buf.take 4)
      let typ := be ((buf.drop 4).take 4)
      if size = 1 then
        match readExact s2 8 with
        | (.ok l, _) => some (.ok typ (be l))
        | (.error .eof, _) => some .eof
        | (.error .io, _) => none
      else some (.ok typ size)

/-- `read_to_vec(data_len)` from position `pos`: bounds check against the stream length
(u64 `checked_add`), then `take(data_len).read_to_end`. `std`'s `read_to_end` chooses its own
buffer sizes, so the schedule is applied with the largest request (`want - got`); which
schedule entry a given `std` call consumes is not modelled, only *whether a fault was
delivered* (`faulted`, reported by the harness) — a delivered fault is an error (the `std`
contract), otherwise the bytes are those of the fill loop. -/
def readToVec (data : List UInt8) (pos want : Nat) (sched : List Nat) (faulted : Bool) :
    Option (List UInt8) :=
  if pos + want ≥ 2 ^ 64 then none
  else if pos + want > data.length then none
  else if faulted then none
  else (readFill want { data := data, pos := pos, sched := sched.filter (· ≠ 0) } want).1

/-! ### line protocol -/

def parseSched (s : String) : List Nat :=
  if s == "-" then [] else (s.splitOn ",").filterMap String.toNat?

def typName (t : Nat) : String :=
  if t = 0x00000000 then "Empty" else if t = 0x6A756D62 then "Jumb" else if t = 0x6A756D64 then "Jumd"
  else if t = 0x66726565 then "Padding" else if t = 0x63327368 then "SaltHash" else if t = 0x6A736F6E then "Json"
  else if t = 0x75756964 then "Uuid" else if t = 0x6A703263 then "Jp2c" else if t = 0x63626F72 then "Cbor"
  else if t = 0x62666462 then "EmbedMediaDesc" else if t = 0x62696462 then "EmbedContent"
  else if t = 0x62726F62 then "Brotli" else "UnknownBox(" ++ toString t ++ ")"

def handle (toks : List String) : String :=
  match toks with
  | "sniff" :: rest =>
    match fromHex? (field rest "data") with
    | some data =>
      match sniff (field rest "pdf" == "1") data (parseSched (field rest "sched")) with
      | some d => String.ofList d
      | none => "-"
    | none => "bad-hex"
  | "header" :: rest =>
    match fromHex? (field rest "data") with
    | some data =>
      match readHeader data (parseSched (field rest "sched")) with
      | some (.ok t sz) => "ok " ++ typName t ++ " " ++ toString sz
      | some .empty => "ok Empty 0"
      | some .eof => "eof"
      | none => "err"
    | none => "bad-hex"
  | "tovec" :: rest =>
    match fromHex? (field rest "data"), (field rest "pos").toNat?, (field rest "len").toNat? with
    | some data, some pos, some want =>
      match readToVec data pos want (parseSched (field rest "sched")) (field rest "faulted" == "1") with
      | some v => "ok " ++ toHex v
      | none => "err"
    | _, _, _ => "bad-req"
  | _ => "bad-op"

end C2pa.C35
