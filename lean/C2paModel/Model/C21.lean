import C2paModel.Model.C20
/-
C21 — update manifests. The structural rules (`Claim::verify_internal`, update branch:
allowed actions, thumbnail count, no hard binding, exactly one `parentOf`; otherwise at most
one parent), `Store::get_hash_binding_manifest` and `Store::verify_store` are in
`Model/C20.lean` (`manifestRules`, `hbm`, `verifyStore`). This file adds what
`Claim::verify_hash_binding` does for the binding manifest of a store whose active manifest
is an update manifest:

* the hard-binding count rules for the binding manifest (`bindingRules`),
* the exclusion re-basing (`rebase`): the exclusion that starts where the manifest store starts
  is replaced by the actual store range and later exclusions are shifted by the growth,
* the selection of hashed bytes (`sel`) and the data-hash comparison over an idealised
  (injective) hash.
-/
namespace C2pa.C21
open C2pa.C34 C2pa.C20

/-- `HashRange` -/
structure Rng where
  start : Nat
  len : Nat
  deriving DecidableEq, Repr

/-- `exclusions.iter().position(|r| r.start() == s)`, as a split around the first hit -/
def splitAtStart (s : Nat) : List Rng → Option (List Rng × Rng × List Rng)
  | [] => none
  | e :: es =>
    if e.start == s then some ([], e, es)
    else
      match splitAtStart s es with
      | some (a, x, b) => some (e :: a, x, b)
      | none => none

/-- "fix up offsets affected by update manifest" for one exclusion -/
def shift (startOffset adjust : Nat) (e : Rng) : Rng :=
  if e.start > startOffset then { e with start := e.start + adjust } else e

/-- the re-basing block of `verify_hash_binding` (`svi.update_manifest_label.is_some()`,
exclusions present); `range` = `svi.manifest_store_range` -/
def rebase (excl : List Rng) (range : Option Rng) : List Rng :=
  match range with
  | none => excl
  | some rg =>
    match splitAtStart rg.start excl with
    | none => excl
    | some (a, x, b) =>
      let adjust := rg.len - x.len
      let l := a ++ rg :: b
      if rg.start > 0 then l.map (shift rg.start adjust) else l

/-- byte `i` lies in some exclusion -/
def covered (excl : List Rng) (i : Nat) : Bool :=
  excl.any fun e => decide (e.start ≤ i) && decide (i < e.start + e.len)

/-- the bytes that are hashed: those at offsets (counted from `off`) no exclusion covers -/
def sel {α : Type} (excl : List Rng) : Nat → List α → List α
  | _, [] => []
  | off, b :: bs => (if covered excl off then [] else [b]) ++ sel excl (off + 1) bs

/-- hard-binding rules of `verify_hash_binding` for the binding manifest -/
def bindingRules (c : C20.Claim) (nHash : Nat) : List C20.Ev :=
  (if nHash == 0 && !c.update then [C20.fail "claim.hardBindings.missing" false] else []) ++
  (if nHash != 1 && !c.update then [C20.fail "claim.hardBindings.multiple" false] else []) ++
  (if nHash != 0 && c.update then [C20.fail "manifest.update.invalid" false] else [])

/-- data-hash comparison: `stored` is the digest in the assertion, `H` the hash function -/
def dataHashEvent {α δ : Type} [DecidableEq δ] (H : List α → δ) (stored : δ) (excl : List Rng)
    (asset : List α) : C20.Ev :=
  if H (sel excl 0 asset) = stored then C20.succ "assertion.dataHash.match" false
  else C20.fail "assertion.dataHash.mismatch" false

/-! ### the asset step of `verify_store`

After `verify_claim` of the active manifest and `ingredient_checks` both returned `Ok`,
`verify_store` runs `verify_hash_binding` once, on the claim `svi.binding_claim` names
(`get_hash_binding_manifest`), and only when the store holds a claim of that label. The
exclusion re-basing is done only when the *active* claim is an update manifest
(`svi.update_manifest_label`). -/

/-- which routine of `verify_hash_binding` handles a hard binding (`label_raw().starts_with(..)`
in the order tested) -/
inductive HK | data | bmff | boxes | other
  deriving DecidableEq, Repr

def cHashData : Str := "c2pa.hash.data".toList
def cHashBmff : Str := "c2pa.hash.bmff".toList
def cHashBoxes : Str := "c2pa.hash.boxes".toList

def hashKind (l : Str) : HK :=
  if cHashData.isPrefixOf l then .data
  else if cHashBmff.isPrefixOf l then .bmff
  else if cHashBoxes.isPrefixOf l then .boxes
  else .other

/-- `hash_assertions()` in its iteration order: data hashes, then BMFF hashes, then box hashes -/
def hashCAs (c : C20.Claim) : List C20.CA :=
  let hs := c.store.filter C20.CA.isHash
  hs.filter (fun a => hashKind a.label == .data) ++ hs.filter (fun a => hashKind a.label == .bmff) ++
    hs.filter (fun a => hashKind a.label == .boxes)

/-- the status one hard binding logs: `ok` = the hash over the asset matched -/
def hashEvent (k : HK) (ok : Bool) : List C20.Ev :=
  match k, ok with
  | .data, true => [C20.succ "assertion.dataHash.match" false]
  | .data, false => [C20.fail "assertion.dataHash.mismatch" false]
  | .bmff, true => [C20.succ "assertion.bmffHash.match" false]
  | .bmff, false => [C20.fail "assertion.bmffHash.mismatch" false]
  | .boxes, true => [C20.succ "assertion.boxesHash.match" false]
  | .boxes, false => [C20.fail "assertion.boxesHash.mismatch" false]
  | .other, _ => []

def hashEvents : List C20.CA → List Bool → List C20.Ev
  | [], _ => []
  | a :: as, oks => hashEvent (hashKind a.label) (oks.headD true) ++ hashEvents as oks.tail

/-- `verify_hash_binding` on the binding claim; `oks` = per hard binding (iteration order)
whether the hash over the asset matched -/
def bindingEvents (c : C20.Claim) (oks : List Bool) : List C20.Ev :=
  bindingRules c (hashCAs c).length ++ hashEvents (hashCAs c) oks

/-- active manifest and the claim whose hard binding `verify_store` checks -/
def bindingClaim (s : C20.Store) : P (Option (C20.Claim × C20.Claim)) :=
  match s.getLast? with
  | none => some none
  | some root =>
    match hbm s (fuelFor s) root [] with
    | none => none
    | some none => some none
    | some (some bl) =>
      match getClaim s bl with
      | none => some none
      | some bc => some (some (root, bc))

/-- `verify_store` with asset data; second component: label of the claim whose hard binding was
checked against the asset (`none`: the asset step was not reached) -/
def verifyStoreAB (s : C20.Store) (oks : List Bool) : P (C20.Out × Option Str) :=
  match verifyStore s with
  | none => none
  | some o =>
    if o.err then some (o, none)
    else
      match bindingClaim s with
      | none => none
      | some none => some (o, none)
      | some (some (_, bc)) => some (⟨o.log ++ bindingEvents bc oks, false⟩, some bc.label)

/-- a data hash as the validator reads it: stored digest and exclusions -/
structure HB (δ : Type) where
  stored : δ
  excl : List Rng

/-- the exclusions actually used: re-based only under an active update manifest -/
def effExcl (activeIsUpdate : Bool) (range : Option Rng) (excl : List Rng) : List Rng :=
  if activeIsUpdate then rebase excl range else excl

def hashOk {α δ : Type} [DecidableEq δ] (H : List α → δ) (activeIsUpdate : Bool) (range : Option Rng)
    (asset : List α) (hb : HB δ) : Bool :=
  decide (H (sel (effExcl activeIsUpdate range hb.excl) 0 asset) = hb.stored)

/-- `verify_store` against an asset whose binding claim carries data hashes `hbOf bc` -/
def verifyStoreA {α δ : Type} [DecidableEq δ] (H : List α → δ) (hbOf : C20.Claim → List (HB δ))
    (s : C20.Store) (asset : List α) (range : Option Rng) : P (C20.Out × Option Str) :=
  match bindingClaim s with
  | none => none
  | some none => verifyStoreAB s []
  | some (some (root, bc)) => verifyStoreAB s ((hbOf bc).map (hashOk H root.update range asset))

/-! ### line protocol
  verify claims=…                       (the C20 store validator; same grammar)
  verifya claims=… oks=<0|1,…|->        -> ok|err <code>@<A|I>,… B=<label of the binding claim or ->
       (verify_store with the asset: `oks` says, per hard binding of the binding claim in
        iteration order, whether the asset is unchanged (by construction of the case))
  rebase excl=<s:l,…|-> range=<s:l|-> cand=<s:l,…|-> n=<len> upd=<0|1>
       -> same|diff     (same = the effective exclusion list selects the same offsets of an
                         n-byte asset as `cand`; the implementation side hashes the bytes `cand`
                         selects and reports whether the real data hash matches; `upd` = the
                         active claim is an update manifest)
-/

def rngIn (s : String) : Option Rng :=
  match s.splitOn ":" with
  | [a, b] => some ⟨a.toNat!, b.toNat!⟩
  | _ => none

def rngsIn (s : String) : List Rng :=
  if s == "-" || s.isEmpty then [] else (s.splitOn ",").filterMap rngIn

def rngsOut (l : List Rng) : String :=
  if l.isEmpty then "-" else ",".intercalate (l.map fun e => toString e.start ++ ":" ++ toString e.len)

def selIdx (excl : List Rng) (n : Nat) : List Nat := sel excl 0 (List.range n)

def boolsIn (s : String) : List Bool :=
  if s == "-" || s.isEmpty then [] else (s.splitOn ",").map (· == "1")

def handle (toks : List String) : String :=
  match toks with
  | "verify" :: _ => C20.handle toks
  | "filter" :: _ => C20.handle toks
  | "verifya" :: rest =>
    match verifyStoreAB (C20.claimsIn (field rest "claims")) (boolsIn (field rest "oks")) with
    | none => "panic"
    | some (o, b) => C20.outStr (some o) ++ " B=" ++ (match b with | some l => C20.sOut l | none => "-")
  | "rebase" :: rest =>
    let excl := rngsIn (field rest "excl")
    let range := rngIn (field rest "range")
    let cand := rngsIn (field rest "cand")
    let n := (field rest "n").toNat!
    let r := effExcl (field rest "upd" != "0") range excl
    if selIdx r n == selIdx cand n then "same" else "diff"
  | _ => "bad-op"

end C2pa.C21
