import C2paModel.Model.C20
/-
C21 — update manifests. The structural rules (`Claim::verify_internal`, update branch:
allowed actions, thumbnail count, no hard binding, exactly one `parentOf`; otherwise at most
one parent), `Store::get_hash_binding_manifest` and `Store::verify_store` are in
`Model/C20.lean` (`manifestRules`, `hbm`, `verifyStore`). This file adds what
`Claim::verify_hash_binding` does for the binding manifest of a store whose active manifest
is an update manifest:

* the hard-binding count rules for the binding manifest (`bindingRules`),
* the exclusion re-basing (`rebase`): the exclusion that starts where the manifest store starts
  is replaced by the actual store range and later exclusions are shifted by the growth,
* the selection of hashed bytes (`sel`) and the data-hash comparison over an idealised
  (injective) hash.
-/
namespace C2pa.C21
open C2pa.C34 C2pa.C20

/-- `HashRange` -/
structure Rng where
  start : Nat
  len : Nat
  deriving DecidableEq, Repr

/-- `exclusions.iter().position(|r| r.start() == s)`, as a split around the first hit -/
def splitAtStart (s : Nat) : List Rng → Option (List Rng × Rng × List Rng)
  | [] => none
  | e :: es =>
    if e.start == s then some ([], e, es)
    else
      match splitAtStart s es with
      | some (a, x, b) => some (e :: a, x, b)
      | none => none

/-- "fix up offsets affected by update manifest" for one exclusion -/
def shift (startOffset adjust : Nat) (e : Rng) : Rng :=
  if e.start > startOffset then { e with start := e.start + adjust } else e

/-- the re-basing block of `verify_hash_binding` (`svi.update_manifest_label.is_some()`,
exclusions present); `range` = `svi.manifest_store_range` -/
def rebase (excl : List Rng) (range : Option Rng) : List Rng :=
  match range with
  | none => excl
  | some rg =>
    match splitAtStart rg.start excl with
    | none => excl
    | some (a, x, b) =>
      let adjust := rg.len - x.len
      let l := a ++ rg :: b
      if rg.start > 0 then l.map (shift rg.start adjust) else l

/-- byte `i` lies in some exclusion -/
def covered (excl : List Rng) (i : Nat) : Bool :=
  excl.any fun e => decide (e.start ≤ i) && decide (i < e.start + e.len)

/-- the bytes that are hashed: those at offsets (counted from `off`) no exclusion covers -/
def sel {α : Type} (excl : List Rng) : Nat → List α → List α
  | _, [] => []
  | off, b :: bs => (if covered excl off then [] else [b]) ++ sel excl (off + 1) bs

/-- hard-binding rules of `verify_hash_binding` for the binding manifest -/
def bindingRules (c : C20.Claim) (nHash : Nat) : List C20.Ev :=
  (if nHash == 0 && !c.update then [C20.fail "claim.hardBindings.missing" false] else []) ++
  (if nHash != 1 && !c.update then [C20.fail "claim.hardBindings.multiple" false] else []) ++
  (if nHash != 0 && c.update then [C20.fail "manifest.update.invalid" false] else [])

/-- data-hash comparison: `stored` is the digest in the assertion, `H` the hash function -/
def dataHashEvent {α δ : Type} [DecidableEq δ] (H : List α → δ) (stored : δ) (excl : List Rng)
    (asset : List α) : C20.Ev :=
  if H (sel excl 0 asset) = stored then C20.succ "assertion.dataHash.match" false
  else C20.fail "assertion.dataHash.mismatch" false

/-! ### line protocol
  verify claims=…                       (the C20 store validator; same grammar)
  rebase excl=<s:l,…|-> range=<s:l|-> cand=<s:l,…|-> n=<len>
       -> same|diff     (same = the re-based list selects the same offsets of an n-byte asset
                         as `cand`; the implementation side hashes the bytes `cand` selects
                         and reports whether the real re-based data hash matches)
-/

def rngIn (s : String) : Option Rng :=
  match s.splitOn ":" with
  | [a, b] => some ⟨a.toNat!, b.toNat!⟩
  | _ => none

def rngsIn (s : String) : List Rng :=
  if s == "-" || s.isEmpty then [] else (s.splitOn ",").filterMap rngIn

def rngsOut (l : List Rng) : String :=
  if l.isEmpty then "-" else ",".intercalate (l.map fun e => toString e.start ++ ":" ++ toString e.len)

def selIdx (excl : List Rng) (n : Nat) : List Nat := sel excl 0 (List.range n)

def handle (toks : List String) : String :=
  match toks with
  | "verify" :: _ => C20.handle toks
  | "rebase" :: rest =>
    let excl := rngsIn (field rest "excl")
    let range := rngIn (field rest "range")
    let cand := rngsIn (field rest "cand")
    let n := (field rest "n").toNat!
    let r := rebase excl range
    if selIdx r n == selIdx cand n then "same" else "diff"
  | _ => "bad-op"

end C2pa.C21
