import C2paModel.Model.C30
/-
C30 — text level: what quick-xml 0.41's slice reader does with an XMP text, as far as
`extract_xmp_key` (and the element reading of `add_xmp_key`) observe it.

  * `elemEnd`      `ElementParser::feed`: the first `>` outside `'…'` / `"…"`
  * `splitTag`     `ReaderState::emit_start`: `/>` detection, `name_len`
  * `attrNext`     `IterState::next` in XML mode (with `recover`, `skip_value`,
                   `skip_eq_value`, the duplicate check), every error branch included
  * `readEvent`    one `read_event` of `Reader<&[u8]>` (`read_text`, `read_ref`,
                   `read_until_close`, `read_bang_element`, `PiParser`, `emit_end` with the
                   open-tag stack and `check_end_names`); DOCTYPE is not modelled (`unmodelled`)
  * `readToEnd`    `read_to_end` / `read_text(end)` (the tag case of `extract_xmp_key`)
  * `extractTxt`   `extract_xmp_key` on the text itself
  * `scanDesc`     the element reading of `add_xmp_key`: a start/empty tag whose attribute
                   iterator yields no error, as a `Desc`

Recursion over events is by the length of the remaining text; the reader always consumes
something; the definitions carry a run-time guard so that they need no proof here, and
`Lemmas/C30Term.lean` proves the guards dead (`readEvent_length`, `readToEnd_eq`,
`extractLoop_eq`, `extractLoop_ne_guard`).
-/
namespace C2pa.C30

/-- `utils::is_whitespace` -/
def isWs (c : Char) : Bool := c == ' ' || c == '\r' || c == '\n' || c == '\t'

def dropWs : Str → Str
  | [] => []
  | c :: cs => if isWs c then dropWs cs else c :: cs

/-- split before the first character that satisfies `p` -/
def breakOn (p : Char → Bool) : Str → Str × Str
  | [] => ([], [])
  | c :: cs => if p c then ([], c :: cs) else ((c :: (breakOn p cs).1), (breakOn p cs).2)

/-! ### `ElementParser` -/

inductive Q where
  | out | sq | dq
  deriving DecidableEq, Repr

/-- state change of `ElementParser` on a character other than a closing `>` -/
def qstep (q : Q) (c : Char) : Q :=
  if q = .out ∧ c = '\'' then .sq
  else if q = .out ∧ c = '"' then .dq
  else if q = .sq ∧ c = '\'' then .out
  else if q = .dq ∧ c = '"' then .out
  else q

/-- `ElementParser::feed`: (text before the closing `>`, text after it) -/
def elemEnd : Q → Str → Option (Str × Str)
  | _, [] => none
  | q, c :: cs =>
    if q = .out ∧ c = '>' then some ([], cs)
    else
      match elemEnd (qstep q c) cs with
      | none => none
      | some (a, b) => some (c :: a, b)

/-! ### `emit_start` -/

structure Tag where
  name : Str
  /-- the tag content after the name (what `Attributes` iterates over) -/
  attrs : Str
  empty : Bool
  deriving DecidableEq, Repr

def endsSlash : Str → Bool
  | [] => false
  | [c] => c == '/'
  | _ :: c :: cs => endsSlash (c :: cs)

/-- content between `<` and `>` -> tag -/
def splitTag (c : Str) : Tag :=
  let e := endsSlash c
  let c' := if e then c.dropLast else c
  let (n, a) := breakOn isWs c'
  { name := n, attrs := a, empty := e }

/-! ### `Attributes` (XML mode, duplicate check on) -/

inductive ARes where
  | ok (a : Attr)
  | err
  deriving DecidableEq, Repr

inductive ISt where
  | next (s : Str)
  | skipValue (s : Str)
  | skipEqValue (s : Str)
  | done
  deriving DecidableEq, Repr

/-- `skip_value`: up to (not including) the first white space -/
def skipValue (s : Str) : Option Str :=
  match (breakOn isWs s).2 with
  | [] => none
  | r => some r

/-- `skip_eq_value`; called with the text starting at the `=` that followed the key -/
def skipEqValue (s : Str) : Option Str :=
  match dropWs s with
  | [] => none
  | c :: r =>
    if c = '"' ∨ c = '\'' then
      match (breakOn (fun x => x == c) r).2 with
      | [] => none
      | r' => some r'
    else skipValue (c :: r)

def recover : ISt → Option Str
  | .done => none
  | .next s => some s
  | .skipValue s => skipValue s
  | .skipEqValue s => skipEqValue s

inductive KeyEnd where
  /-- the text starting at the `=` -/
  | eq (atEq : Str)
  | keyOnly (st : ISt)

/-- what follows the key characters -/
def keyEnd : Str → KeyEnd
  | [] => .keyOnly .done
  | e :: r3 =>
    if e = '=' then .eq (e :: r3)
    else
      match dropWs r3 with
      | [] => .keyOnly .done
      | x :: r5 => if x = '=' then .eq (x :: r5) else .keyOnly (.next (x :: r5))

/-- `IterState::next`: `none` = end of iteration -/
def attrNext (keys : List Str) (st : ISt) : Option (ARes × List Str × ISt) :=
  match recover st with
  | none => none
  | some s =>
    match dropWs s with
    | [] => none
    | c :: r =>
      let key := c :: (breakOn (fun x => x == '=' || isWs x) r).1
      match keyEnd (breakOn (fun x => x == '=' || isWs x) r).2 with
      | .keyOnly st' => some (.err, keys, st')
      | .eq atEq =>
        if key ∈ keys then some (.err, keys, .skipEqValue atEq)
        else
          match dropWs atEq.tail with
          | [] => some (.err, key :: keys, .done)
          | q :: r6 =>
            if q = '"' ∨ q = '\'' then
              match (breakOn (fun x => x == q) r6).2 with
              | [] => some (.err, key :: keys, .done)
              | _ :: rest => some (.ok ⟨key, (breakOn (fun x => x == q) r6).1⟩, key :: keys, .next rest)
            else some (.err, key :: keys, .skipValue (q :: r6))

/-- the whole iteration (`fuel` = number of `next` calls) -/
def attrsAll : Nat → List Str → ISt → List ARes
  | 0, _, _ => []
  | n + 1, keys, st =>
    match attrNext keys st with
    | none => []
    | some (r, keys', st') => r :: attrsAll n keys' st'

/-- all results of `e.attributes()` for the tag content after the name -/
def attrsOf (a : Str) : List ARes := attrsAll (a.length + 1) [] (.next a)

/-- `e.attributes().find(|a| a is Ok and a.key == key)` -> its raw value -/
def findAttrTxt (k : Str) : List ARes → Option Str
  | [] => none
  | .ok a :: rs => if a.key = k then some a.val else findAttrTxt k rs
  | .err :: rs => findAttrTxt k rs

/-- `for attr in e.attributes()` of `add_xmp_key`: the first `Err` aborts -/
def strictAttrs : List ARes → Option (List Attr)
  | [] => some []
  | .ok a :: rs => (strictAttrs rs).map (a :: ·)
  | .err :: _ => none

/-- The element reading of `add_xmp_key` on a text that starts with the tag: `none` when
the text is not a complete start/empty tag named rdf:Description whose attributes all parse;
else the `Desc` and the text after the tag. -/
def scanDesc (s : Str) : Option (Desc × Str) :=
  match s with
  | '<' :: b =>
    match elemEnd .out b with
    | none => none
    | some (c, rest) =>
      let t := splitTag c
      if t.name = rdfDescription then
        match strictAttrs (attrsOf t.attrs) with
        | some as => some ({ attrs := as, empty := t.empty }, rest)
        | none => none
      else none
  | _ => none

/-! ### `Reader<&[u8]>::read_event` -/

inductive Ev where
  | elem (t : Tag)
  | endTag (name : Str)
  /-- Text, CData, Comment, PI, Decl, GeneralRef -/
  | other
  /-- `Error::IllFormed`: the reader goes on -/
  | illFormed
  /-- `Error::Syntax`: the reader is done -/
  | fatal
  | eof
  /-- `<!D…` / `<!d…` -/
  | unmodelled
  deriving DecidableEq, Repr

/-- `BangType::Comment.feed`: `i` = index of the next character in the chunk that starts at
`<`, `p2 p1` the two characters before it; returns the text after the closing `>` -/
def commentEnd : Nat → Char → Char → Str → Option Str
  | _, _, _, [] => none
  | i, p2, p1, c :: cs =>
    if c = '>' ∧ 5 < i ∧ p1 = '-' ∧ p2 = '-' then some cs else commentEnd (i + 1) p1 c cs

/-- `BangType::CData.feed` -/
def cdataEnd : Char → Char → Str → Option Str
  | _, _, [] => none
  | p2, p1, c :: cs =>
    if c = '>' ∧ p1 = ']' ∧ p2 = ']' then some cs else cdataEnd p1 c cs

/-- `PiParser::feed`: returns (number of characters consumed, text after `>`) -/
def piEnd : Nat → Char → Str → Option (Nat × Str)
  | _, _, [] => none
  | n, p1, c :: cs => if c = '>' ∧ p1 = '?' then some (n + 1, cs) else piEnd (n + 1) c cs

def trimEndWs (s : Str) : Str := (dropWs s.reverse).reverse

/-- `emit_end`: pops the open-tag stack, compares names (`check_end_names`) -/
def emitEnd (stk : List Str) (content : Str) : Ev × List Str :=
  let name := trimEndWs content
  match stk with
  | [] => (.illFormed, [])
  | top :: stk' => if name = top then (.endTag name, stk') else (.illFormed, stk')

/-- `read_until_close`; `s` = the text after `<` -/
def readMarkup (stk : List Str) (s : Str) : Ev × List Str × Option Str :=
  match s with
  | [] => (.fatal, stk, none)
  | c :: r =>
    if c = '!' then
      match r with
      | [] => (.fatal, stk, none)
      | b :: r1 =>
        if b = '-' then
          match commentEnd 3 '!' '-' r1 with
          | none => (.fatal, stk, none)
          | some rest =>
            match r1 with
            | '-' :: _ => (.other, stk, some rest)
            | _ => (.fatal, stk, none)
        else if b = '[' then
          match cdataEnd '!' '[' r1 with
          | none => (.fatal, stk, none)
          | some rest =>
            if ['C', 'D', 'A', 'T', 'A', '['].isPrefixOf r1 then (.other, stk, some rest) else (.fatal, stk, none)
        else if b = 'D' ∨ b = 'd' then (.unmodelled, stk, none)
        else (.fatal, stk, none)
    else if c = '/' then
      match elemEnd .out r with
      | none => (.fatal, stk, none)
      | some (content, rest) =>
        let (ev, stk') := emitEnd stk content
        (ev, stk', some rest)
    else if c = '?' then
      match piEnd 2 '?' r with
      | none => (.fatal, stk, none)
      | some (n, rest) => if 3 < n then (.other, stk, some rest) else (.fatal, stk, none)
    else
      match elemEnd .out (c :: r) with
      | none => (.fatal, stk, none)
      | some (content, rest) =>
        let t := splitTag content
        (.elem t, if t.empty then stk else t.name :: stk, some rest)

/-- `read_ref`; `r` = the text after `&` -/
def readRef (stk : List Str) (r : Str) : Ev × List Str × Option Str :=
  match (breakOn (fun x => x == ';' || x == '&' || x == '<') r).2 with
  | [] => (.illFormed, stk, none)
  | x :: r' => if x = ';' then (.other, stk, some r') else (.illFormed, stk, some (x :: r'))

/-- One `read_event` in a state that is not `Done`: the event class, the open-tag stack and
the remaining text (`none` = the reader is `Done`, every later call yields `Eof`).
`trim` = `Config::trim_text_start`. -/
def readEvent (trim : Bool) (stk : List Str) (s : Str) : Ev × List Str × Option Str :=
  match (if trim then dropWs s else s) with
  | [] => (.eof, stk, none)
  | c :: r =>
    if c = '<' then readMarkup stk r
    else if c = '&' then readRef stk r
    else
      match (breakOn (fun x => x == '<' || x == '&') r).2 with
      | [] => (.other, stk, none)
      | r' => (.other, stk, some r')

/-- `Reader::from_str` start: `remove_utf8_bom` -/
def stripBom : Str → Str
  | c :: cs => if c = Char.ofNat 0xFEFF then cs else c :: cs
  | [] => []

inductive XRes where
  | found (v : Str)
  | notFound
  | unmodelled
  | guard
  deriving DecidableEq, Repr

/-- `read_to_end(name)` with `trim_text_start` switched off: on success the text starting
at the matching end tag, else `none`; then the stack and the reader state. -/
def readToEnd (name : Str) (depth : Nat) (stk : List Str) (s : Str) :
    Ev × Option Str × List Str × Option Str :=
  match readEvent false stk s with
  | (.elem t, stk', some s') =>
    if _h : s'.length < s.length then
      readToEnd name (if !t.empty ∧ t.name = name then depth + 1 else depth) stk' s'
    else (.fatal, none, stk', none)
  | (.endTag n, stk', some s') =>
    if n = name ∧ depth = 0 then (.endTag n, some s, stk', some s')
    else if _h : s'.length < s.length then
      readToEnd name (if n = name then depth - 1 else depth) stk' s'
    else (.fatal, none, stk', none)
  | (.other, stk', some s') =>
    if _h : s'.length < s.length then readToEnd name depth stk' s'
    else (.fatal, none, stk', none)
  | (.other, stk', none) => (.eof, none, stk', none)
  | (ev, stk', st) => (ev, none, stk', st)
termination_by s.length

inductive Act where
  | found (v : Str)
  | notFound
  | unmodelled
  /-- go on reading with this stack and text -/
  | cont (stk : List Str) (s : Str)
  deriving DecidableEq, Repr

def contOrEnd (stk : List Str) : Option Str → Act
  | some s' => .cont stk s'
  | none => .notFound

/-- one turn of the main loop of `extract_xmp_key` -/
def extractStep (k : Str) (stk : List Str) (s : Str) : Act :=
  match readEvent true stk s with
  | (.elem t, stk', st) =>
    if t.name = rdfDescription then
      match findAttrTxt k (attrsOf t.attrs) with
      | some raw => .found (unescapeLenient raw)
      | none => contOrEnd stk' st
    else if t.name = k then
      match st with
      | none => .notFound
      | some s1 =>
        match readToEnd k 0 stk' s1 with
        | (_, some sEnd, _, _) => .found (s1.take (s1.length - sEnd.length))
        | (.unmodelled, none, _, _) => .unmodelled
        | (_, none, stk'', st') => contOrEnd stk'' st'
    else contOrEnd stk' st
  | (.eof, _, _) => .notFound
  | (.unmodelled, _, _) => .unmodelled
  | (_, stk', st) => contOrEnd stk' st

/-- the main loop of `extract_xmp_key` -/
def extractLoop (k : Str) (stk : List Str) (s : Str) : XRes :=
  match extractStep k stk s with
  | .found v => .found v
  | .notFound => .notFound
  | .unmodelled => .unmodelled
  | .cont stk' s' => if _h : s'.length < s.length then extractLoop k stk' s' else .guard
termination_by s.length

/-- `extract_xmp_key(xmp, key)` -/
def extractTxt (k : Str) (xmp : Str) : XRes := extractLoop k [] (stripBom xmp)

def extractProvenanceTxt (xmp : Str) : XRes := extractTxt kProvenance xmp

/-! ### line protocol (additional ops)

  xt s=<hex> k=<hex>   -> none | some:<hex> | unmodelled | guard       extract_xmp_key on the text
  sc s=<hex>           -> <-|o:hexk:hexv|e , …>                        Attributes over a tag content
  sd s=<hex>           -> none | <S|E> at=<-|hexk:hexv,…> rest=<hex>    scanDesc
-/

def aresOut : ARes → String
  | .ok a => "o:" ++ hexOfStr a.key ++ ":" ++ hexOfStr a.val
  | .err => "e"

def attrsOut (as : List Attr) : String :=
  if as.isEmpty then "-" else ",".intercalate (as.map fun a => hexOfStr a.key ++ ":" ++ hexOfStr a.val)

def handleAll (toks : List String) : String :=
  match toks with
  | "xt" :: rest =>
    match strOfHex (field rest "s"), strOfHex (field rest "k") with
    | some s, some k =>
      match extractTxt k s with
      | .found v => "some:" ++ hexOfStr v
      | .notFound => "none"
      | .unmodelled => "unmodelled"
      | .guard => "guard"
    | _, _ => "bad-request"
  | "sc" :: rest =>
    match strOfHex (field rest "s") with
    | some s =>
      let rs := attrsOf s
      if rs.isEmpty then "-" else ",".intercalate (rs.map aresOut)
    | none => "bad-request"
  | "sd" :: rest =>
    match strOfHex (field rest "s") with
    | some s =>
      match scanDesc s with
      | none => "none"
      | some (d, r) => (if d.empty then "E" else "S") ++ " at=" ++ attrsOut d.attrs ++ " rest=" ++ hexOfStr r
    | none => "bad-request"
  | _ => handle toks

end C2pa.C30
