import C2paModel.Base
import C2paModel.Model.C04
/-
C37 — model of the revocation-evidence decision logic:

* `OcspResponse::from_der_checked` (sdk/src/crypto/ocsp/mod.rs): responder-signature gate, the
  per-`SingleResponse` loop with the `certId` binding (`cert_id_matches_signer`), the time-window
  rules for good / revoked (reason none, removeFromCRL, other) / unknown, early returns, which log
  the entries go to;
* `check_stapled_ocsp_response` (sdk/src/crypto/cose/ocsp.rs): responder profile / trust gates,
  "only usable responses are appended";
* `check_ocsp_status` / `process_ocsp_responses`: stapled value first, else (no fetch) the
  responses of certificate-status assertions in order; revoked ⇒ error;
* `Claim::verify_claim` (claim.rs): an error from the revocation check ends the claim's
  verification before the signature is validated; the state is C04's.

DER/OCSP/X.509 parsing, hashing (`certId` reconstruction) and signature / chain verification are
facts supplied with the input (oracles): per `SingleResponse` the three comparisons of
`cert_id_matches_signer` (serial number, issuer name hash, issuer key hash) are separate facts and the
model forms their conjunction as the code does. Times are unix seconds as `Int`. A time value of a
matching `SingleResponse` that the code cannot re-parse (`NaiveDateTime::parse_from_str` fails on a
GeneralizedTime with fractional seconds) is the status `badTime`: `from_der_checked` returns `Err`.
The other `Err` exit (re-encoding an embedded certificate that was just decoded) is not reachable.
-/
namespace C2pa.C37

open C2pa.C04 (Code Kind)

abbrev Entry := Code × Kind

def cRevoked : Code := "signingCredential.ocsp.revoked".toList
def cNotRevoked : Code := "signingCredential.ocsp.notRevoked".toList
def cUnknown : Code := "signingCredential.ocsp.unknown".toList

def info (c : Code) : Entry := (c, .informational)
def succ (c : Code) : Entry := (c, .success)
def failE (c : Code) : Entry := (c, .failure)

inductive Reason
  | none | removeFromCrl | other
  deriving DecidableEq, Repr

inductive Status
  | good (thisUpdate nextUpdate : Int)   -- nextUpdate, or producedAt + 24 h when absent
  | revoked (revAt : Int) (reason : Reason)
  | unknown
  | badTime   -- good / revoked whose thisUpdate / nextUpdate / revocationTime does not re-parse
  deriving DecidableEq, Repr

/-- One `SingleResponse`: the three comparisons `cert_id_matches_signer` makes between its `certId`
and the signing certificate chain (`chain[0]` serial number; SHA-1/SHA-256 of `chain[1]`'s subject
name and public key; all `false` when the chain has no issuer), and what the response says. -/
structure Single where
  serialEq : Bool
  nameHashEq : Bool
  keyHashEq : Bool
  status : Status
  deriving DecidableEq, Repr

/-- `cert_id_matches_signer`: serial number, issuer name hash **and** issuer key hash must match. -/
def Single.certIdMatches (s : Single) : Bool := s.serialEq && s.nameHashEq && s.keyHashEq

inductive Resp
  | undecodable                       -- not DER / not successful / no bytes / no basic response
  | noCerts (singles : List Single)   -- no embedded certificates: signature cannot be checked
  | parsed (sigOk : Bool) (singles : List Single)
  deriving DecidableEq, Repr

/-- What the loop does with one matching `SingleResponse`. -/
inductive Verdict
  | clear (log : List Entry)   -- early `return Ok(output)`; `log` goes straight to the caller's log
  | note (e : Entry)           -- an entry for the internal log; the loop continues
  | pass                       -- nothing recorded; the loop continues
  | abort                      -- `.map_err(|_e| OcspError::InvalidCertificate)?`: the function returns `Err`
  deriving DecidableEq, Repr

def verdict (st : Option Int) (now : Int) : Status → Verdict
  | .good thisU nextU =>
    let inRange := match st with
      | some t => decide (t < thisU) || (decide (t ≥ thisU) && decide (t ≤ nextU))
      | none => decide (now ≥ thisU)
    if inRange then .clear [succ cNotRevoked] else .note (failE cRevoked)
  | .revoked revAt .removeFromCrl =>
    let inRange := match st with
      | some t => decide (revAt > t)
      | none => decide (revAt > now)
    if inRange then .pass else .note (failE cRevoked)
  | .revoked revAt .other =>
    let inRange := match st with
      | some t => decide (t < revAt)
      | none => false
    if inRange then .clear [] else .note (failE cRevoked)
  | .revoked _ .none => .note (failE cRevoked)
  | .unknown => .note (failE cUnknown)
  | .badTime => .abort

/-- The `for single_response in …` loop: `internal` accumulates, an early return drops it;
`none` = the function returned `Err` (nothing was appended to the caller's log before that). -/
def scan (st : Option Int) (now : Int) : List Single → List Entry → Option (List Entry)
  | [], internal => some internal
  | s :: rest, internal =>
    if !s.certIdMatches then scan st now rest internal
    else match verdict st now s.status with
      | .clear l => some l
      | .note e => scan st now rest (internal ++ [e])
      | .pass => scan st now rest internal
      | .abort => none

/-- `from_der_checked`: `none` = `Err`; else (`ocsp_certs.is_some()`, entries appended to the
caller's log). -/
def fromDerChecked (r : Resp) (st : Option Int) (now : Int) : Option (Bool × List Entry) :=
  match r with
  | .undecodable => some (false, [])
  | .noCerts _ => some (false, [])
  | .parsed false _ => some (false, [])
  | .parsed true singles => (scan st now singles []).map fun l => (true, l)

/-- Facts about the responder certificate (first embedded certificate). -/
structure Responder where
  profileOk : Bool   -- end-entity profile with EKU = OCSPSigning, at the signing time
  trusted : Bool     -- chains (with the signer's x5chain appended when applicable) to an anchor
  deriving DecidableEq, Repr

/-- `check_stapled_ocsp_response`: the entries appended to the caller's log (always `Ok`). -/
def checkStapled (r : Resp) (rp : Responder) (st : Option Int) (now : Int) : List Entry :=
  match fromDerChecked r st now with
  | none => []   -- `let Ok(ocsp_data) = … else { return Ok(OcspResponse::default()) }`
  | some (certs, log) =>
    if !certs then []
    else if !rp.profileOk then []
    else if !rp.trusted then []
    else log

def hasCode (l : List Entry) (c : Code) : Bool := l.any (fun e => e.1 == c)

/-- Outcome of the revocation check: `ok = false` is `Err(CertificateNotTrusted)`. -/
structure Outcome where
  ok : Bool
  log : List Entry
  deriving DecidableEq, Repr

def decide1 (l : List Entry) : Option Outcome :=
  if hasCode l cRevoked then some ⟨false, [info cRevoked]⟩
  else if hasCode l cNotRevoked then some ⟨true, [info cNotRevoked]⟩
  else none

/-- `process_ocsp_responses` over the certificate-status assertion responses. -/
def processList (st : Option Int) (now : Int) : List (Resp × Responder) → Outcome
  | [] => ⟨true, []⟩
  | (r, rp) :: rest =>
    match decide1 (checkStapled r rp st now) with
    | some o => o
    | none => processList st now rest

/-- `check_ocsp_status` with fetching disabled and no override: the stapled response if the
header has one, else the assertion responses. -/
def checkOcspStatus (staple : Option (Resp × Responder)) (asserted : List (Resp × Responder))
    (st : Option Int) (now : Int) : Outcome :=
  match staple with
  | some (r, rp) =>
    match decide1 (checkStapled r rp st now) with
    | some o => o
    | none => processList st now asserted   -- an unusable staple is treated as absent
  | none => processList st now asserted

/-- Entries of the claim's verification: the revocation check, then (only if it did not fail)
`rest`, the entries of the remaining checks (signature, profile, trust, assertions, …). -/
def claimLog (staple : Option (Resp × Responder)) (asserted : List (Resp × Responder))
    (st : Option Int) (now : Int) (rest : List Entry) : List Entry :=
  let o := checkOcspStatus staple asserted st now
  if o.ok then o.log ++ rest else o.log

def toCodes (l : List Entry) : C04.Codes :=
  l.foldl (fun c e => c.add { code := e.1, kind := e.2, uri := none }) {}

def claimState (staple : Option (Resp × Responder)) (asserted : List (Resp × Responder))
    (st : Option Int) (now : Int) (rest : List Entry) : C04.State :=
  C04.state { active := some (toCodes (claimLog staple asserted st now rest)), deltas := none }

/-- What a `Reader` reports. `verify_claim` propagates the revocation error with `?`, so does
`verify_store`, `Store::from_stream` and `Reader::with_stream`: a failed revocation check means
there is **no report** (`none`: the read returns the error); otherwise the state of the log. -/
def report (staple : Option (Resp × Responder)) (asserted : List (Resp × Responder))
    (st : Option Int) (now : Int) (rest : List Entry) : Option (C04.State × List Entry) :=
  if (checkOcspStatus staple asserted st now).ok then
    some (claimState staple asserted st now rest, claimLog staple asserted st now rest)
  else none

/-! ### store level: certificate-status assertions -/

/-- `Store::get_store_validation_info` runs `from_der_checked(der, chain, None, …)` over the
responses of the manifest's certificate-status assertions to file them under the serial number they
are about; `prePassLog r` is what that call appends to the log it is handed. -/
def prePassLog (r : Resp) (now : Int) : List Entry :=
  match fromDerChecked r none now with
  | some (_, l) => l
  | none => []

/-- The entries of that pass that reach the validation log: none — the pass uses a scratch log
(repaired; it used to be the validation log itself, see `prePassLeak`). -/
def prePass (_asserted : List (Resp × Responder)) (_now : Int) : List Entry := []

/-- What the pass wrote into the validation log before the repair. -/
def prePassLeak (asserted : List (Resp × Responder)) (now : Int) : List Entry :=
  asserted.flatMap fun x => prePassLog x.1 now

/-- A `Reader`'s report for a manifest whose certificate-status assertion carries `asserted`. -/
def reportStore (staple : Option (Resp × Responder)) (asserted : List (Resp × Responder))
    (st : Option Int) (now : Int) (rest : List Entry) : Option (C04.State × List Entry) :=
  if (checkOcspStatus staple asserted st now).ok then
    let l := prePass asserted now ++ claimLog staple asserted st now rest
    some (C04.state { active := some (toCodes l), deltas := none }, l)
  else none

/-! ### line protocol -/

def parseInt (s : String) : Int := s.toInt?.getD 0
def parseOptInt (s : String) : Option Int := if s == "-" then none else s.toInt?

/-- `<snk>g<this>~<next>` | `<snk>r<at>~<n|c|o>` | `<snk>u` | `<snk>x`; `s`,`n`,`k` = 1/0 for the
serial-number, issuer-name-hash and issuer-key-hash comparisons -/
def parseSingle (s : String) : Option Single :=
  match (s.take 3).toString.toList.map (· == '1') with
  | [sn, nm, ky] =>
    let body := (s.drop 3).toString
    if body == "u" then some ⟨sn, nm, ky, .unknown⟩
    else if body == "x" then some ⟨sn, nm, ky, .badTime⟩
    else
      let k := body.take 1 |>.toString
      match ((body.drop 1).toString).splitOn "~" with
      | [a, b] =>
        if k == "g" then some ⟨sn, nm, ky, .good (parseInt a) (parseInt b)⟩
        else if k == "r" then
          some ⟨sn, nm, ky, .revoked (parseInt a)
            (if b == "n" then .none else if b == "c" then .removeFromCrl else .other)⟩
        else none
      | _ => none
  | _ => none

/-- `U` | `N:<singles>` | `P<0|1>:<singles>` (singles separated by `,`) -/
def parseResp (s : String) : Resp :=
  if s == "U" then .undecodable
  else if s.startsWith "N:" then .noCerts ((splitList (s.drop 2).toString ",").filterMap parseSingle)
  else .parsed (s.startsWith "P1") ((splitList (s.drop 3).toString ",").filterMap parseSingle)

/-- `<resp>/<profileOk><trusted>` -/
def parseRR (s : String) : Option (Resp × Responder) :=
  match s.splitOn "/" with
  | [r, f] =>
    match f.toList with
    | [a, b] => some (parseResp r, ⟨a == '1', b == '1'⟩)
    | _ => none
  | _ => none

def kindStr : Kind → String
  | .success => "s" | .informational => "i" | .failure => "f"

def logStr (l : List Entry) : String :=
  if l.isEmpty then "-" else ",".intercalate (l.map fun e => kindStr e.2 ++ ":" ++ String.ofList e.1)

def parseEntries (s : String) : List Entry :=
  if s == "-" || s == "" then []
  else (s.splitOn ",").filterMap fun t =>
    match t.splitOn ":" with
    | [k, c] => some (c.toList,
        if k == "s" then Kind.success else if k == "i" then Kind.informational else Kind.failure)
    | _ => none

def handle (toks : List String) : String :=
  match toks with
  | "fdc" :: rest =>
    match fromDerChecked (parseResp (field rest "resp")) (parseOptInt (field rest "st"))
      (parseInt (field rest "now")) with
    | none => "err"
    | some o => (if o.1 then "certs" else "nocerts") ++ " log=" ++ logStr o.2
  | "cos" :: rest =>
    let st := parseOptInt (field rest "st")
    let now := parseInt (field rest "now")
    let staple := let s := field rest "staple"; if s == "-" then none else parseRR s
    let asserted := let s := field rest "asserted"
      if s == "-" then [] else (s.splitOn ";").filterMap parseRR
    let o := checkOcspStatus staple asserted st now
    (if o.ok then "ok" else "err") ++ " log=" ++ logStr o.log
  | "e2e" :: rest =>
    let st := parseOptInt (field rest "st")
    let now := parseInt (field rest "now")
    let staple := let s := field rest "staple"; if s == "-" then none else parseRR s
    let restLog := parseEntries (field rest "rest")
    let asserted := let s := field rest "asserted"
      if s == "-" || s == "" then [] else (s.splitOn ";").filterMap parseRR
    match report staple asserted st now restLog with
    | none => "read-error"
    | some (s, l) =>
      s.str ++ " log=" ++ logStr (l.filter fun e => "signingCredential.ocsp.".toList.isPrefixOf e.1)
  | "e2a" :: rest =>
    let st := parseOptInt (field rest "st")
    let now := parseInt (field rest "now")
    let staple := let s := field rest "staple"; if s == "-" then none else parseRR s
    let restLog := parseEntries (field rest "rest")
    let asserted := let s := field rest "asserted"
      if s == "-" || s == "" then [] else (s.splitOn ";").filterMap parseRR
    match reportStore staple asserted st now restLog with
    | none => "read-error"
    | some (s, l) =>
      s.str ++ " log=" ++ logStr (l.filter fun e => "signingCredential.ocsp.".toList.isPrefixOf e.1)
  | _ => "bad-op"

end C2pa.C37
