import C2paModel.Base
/-
C23 — model of cancellation checkpoints.

* `Context::check_progress` (sdk/src/context.rs): call the progress callback (if any); a
  `false` answer, or a set cancel flag, is `OperationCancelled`.
* An operation (sign / read / ingredient import) is abstracted to its *checkpoint skeleton*:
  the sequence of `check_progress` call sites it reaches, each with the disposition the
  source gives to the `Result` (propagated with `?`/returned, or logged as a validation
  failure and continued — the shape of the defect repaired in `verify_hash_binding`).
  Which sites exist and how each treats the result is regenerated from the source into
  `Gen/C23Sites.lean` by translators/c23_sites.py on every run.
-/
namespace C2pa.C23

structure Tick where
  phase : String
  step : Nat
  total : Nat
  deriving DecidableEq, Repr

inductive Disp
  | propagate      -- `?` / tail expression: the error leaves the operation
  | swallow        -- the error is logged as a validation failure and the operation continues
  | discard        -- the error is dropped silently (`.ok()`, `let _ =`, `unwrap_or…`): the
                   -- operation continues and nothing is logged (crypto/ocsp/fetch.rs `.ok()?`)
  deriving DecidableEq, Repr

structure Site where
  tick : Tick
  disp : Disp
  deriving DecidableEq, Repr

inductive Outcome
  | cancelled (callbacks : Nat)             -- OperationCancelled after this many callback calls
  | finished (callbacks : Nat) (loggedCancel : Bool)
  deriving DecidableEq, Repr

/-- The callback: answer to the i-th invocation (0-based). -/
abbrev Cb := Nat → Bool

/-- `check_progress` at invocation index `i`: callback first, then the flag. -/
def checkProgress (cb : Option Cb) (flag : Bool) (i : Nat) : Bool × Nat :=
  match cb with
  | some f => (f i && !flag, i + 1)
  | none => (!flag, i)

/-- Run a skeleton from invocation index `i`. `logged` remembers a swallowed cancellation. -/
def run (cb : Option Cb) (flag : Bool) : List Site → Nat → Bool → Outcome
  | [], i, logged => .finished i logged
  | s :: rest, i, logged =>
    let (ok, i') := checkProgress cb flag i
    if ok then run cb flag rest i' logged
    else match s.disp with
      | .propagate => .cancelled i'
      | .swallow => run cb flag rest i' true
      | .discard => run cb flag rest i' logged

/-- `check_progress` when the callback itself calls `Context::cancel()` during invocation
`flagAt`: the flag is tested *after* the callback, so that very checkpoint already fails. -/
def checkProgressF (cb : Cb) (flagAt : Nat) (flag : Bool) (i : Nat) : Bool × Nat × Bool :=
  let flag' := flag || (i == flagAt)
  (cb i && !flag', i + 1, flag')

/-- Run with a callback that sets the cancel flag during invocation `flagAt`. -/
def runF (cb : Cb) (flagAt : Nat) : List Site → Nat → Bool → Bool → Outcome
  | [], i, _, logged => .finished i logged
  | s :: rest, i, flag, logged =>
    let (ok, i', flag') := checkProgressF cb flagAt flag i
    if ok then runF cb flagAt rest i' flag' logged
    else match s.disp with
      | .propagate => .cancelled i'
      | .swallow => runF cb flagAt rest i' flag' true
      | .discard => runF cb flagAt rest i' flag' logged

def AllPropagate (sites : List Site) : Prop := ∀ s ∈ sites, s.disp = .propagate

/-- Well-formed progress trace: steps ≥ 1, never above a non-zero total, strictly increasing
within a run of consecutive ticks of one phase. -/
def tickOk (t : Tick) : Bool := 1 ≤ t.step && (t.total == 0 || t.step ≤ t.total)

def traceWf : List Tick → Bool
  | [] => true
  | [t] => tickOk t
  | t :: u :: rest =>
    tickOk t && (t.phase != u.phase || t.step < u.step || u.step == 1) && traceWf (u :: rest)

/-- Strict variant: within consecutive ticks of one phase the step strictly increases; a
restart at 1 is accepted only directly after a tick that completed its phase (`step = total`,
total non-zero) — the per-box / per-range hash passes of box-hash and BMFF verification. A
counter that does not advance (1,1 of 3 …) is ill-formed. -/
def stepOk (t u : Tick) : Bool :=
  t.phase != u.phase || t.step < u.step || (u.step == 1 && t.step == t.total)

def traceWfStrict : List Tick → Bool
  | [] => true
  | [t] => tickOk t
  | t :: u :: rest => tickOk t && stepOk t u && traceWfStrict (u :: rest)

/-! ### a schedule of the cancel flag
`flagAt i` = the value of the cancel flag that checkpoint `i` observes after its callback
returned (set by the callback itself, by another thread while the callback ran, or by another
thread at any time since the previous checkpoint). -/

def checkProgressS (cb : Cb) (flagAt : Nat → Bool) (i : Nat) : Bool × Nat :=
  (cb i && !flagAt i, i + 1)

def runS (cb : Cb) (flagAt : Nat → Bool) : List Site → Nat → Bool → Outcome
  | [], i, logged => .finished i logged
  | s :: rest, i, logged =>
    let (ok, i') := checkProgressS cb flagAt i
    if ok then runS cb flagAt rest i' logged
    else match s.disp with
      | .propagate => .cancelled i'
      | .swallow => runS cb flagAt rest i' true
      | .discard => runS cb flagAt rest i' logged

/-! ### the tick emitters of the source

* `Store::ingredient_checks` (store.rs): `ingredient_step += 1;
  check_progress(VerifyingIngredient, ingredient_step, total_ingredients)` once per ingredient
  assertion of the claim, in order.
* `hash_stream_by_alg_with_progress_impl` (hash_utils.rs; C13 `ticks T n`): `(1,T) … (n,T)`,
  n ≤ T (n = T for a completed run).
* `BmffHash::progress_tick` (bmff_hash.rs): `*step += 1; progress(*step, 0)`.
* the BMFF closure of `Claim::verify_hash_binding` (claim.rs): own counter, total passed on:
  `|_s, t| { step += 1; check_progress(VerifyingAssetHash, step, t) }`.
* nested ingredient levels: for an ingredient that has a manifest in the store,
  `Claim::verify_claim` (one VerifyingSignature tick) and then the recursive
  `ingredient_checks` of that claim run between tick i and tick i+1 of the parent level. -/

def ingredientTicks (n : Nat) : List Tick :=
  (List.range n).map fun i => ⟨"VerifyingIngredient", i + 1, n⟩

def hashTicks (phase : String) (T n : Nat) : List Tick :=
  (List.range n).map fun i => ⟨phase, i + 1, T⟩

def zeroTicks (phase : String) (n : Nat) : List Tick :=
  (List.range n).map fun i => ⟨phase, i + 1, 0⟩

/-- the re-counting closure: the k-th inner tick (s,t) is reported as (from+k+1, t) -/
def recount (phase : String) : Nat → List Tick → List Tick
  | _, [] => []
  | k, t :: rest => ⟨phase, k + 1, t.total⟩ :: recount phase (k + 1) rest

/-- ingredient tree of a claim: each ingredient assertion is plain (no manifest in the store)
or refers to a manifest whose claim has its own list of ingredient assertions -/
inductive Ing
  | plain
  | manifest (children : List Ing)

/-- the VerifyingSignature tick of `Claim::verify_claim` -/
def sigTick : Tick := ⟨"VerifyingSignature", 1, 1⟩

mutual
  /-- ticks caused by one ingredient after its own VerifyingIngredient tick: the signature tick of
  its claim and of every claim below it. Nested `ingredient_checks` levels (depth > 0) report no
  VerifyingIngredient progress (store.rs `if depth == 0`; fix C23-nested-ingredient-progress). -/
  def sigTicks : Ing → List Tick
    | .plain => []
    | .manifest cs => sigTick :: sigTicksL cs
  def sigTicksL : List Ing → List Tick
    | [] => []
    | c :: rest => sigTicks c ++ sigTicksL rest
end

/-- ticks of the top-level `ingredient_checks` (depth 0) for ingredient list `cs` of a claim with
`n` ingredient assertions, from step `i` -/
def emitTop (n : Nat) : Nat → List Ing → List Tick
  | _, [] => []
  | i, c :: rest => ⟨"VerifyingIngredient", i + 1, n⟩ :: (sigTicks c ++ emitTop n (i + 1) rest)

def emitClaim (cs : List Ing) : List Tick := emitTop cs.length 0 cs

mutual
  /-- the emitter **before** the fix: every level reported its own (step, total) -/
  def emitLevelOld (n : Nat) : Nat → List Ing → List Tick
    | _, [] => []
    | i, c :: rest => ⟨"VerifyingIngredient", i + 1, n⟩ :: (emitIngOld c ++ emitLevelOld n (i + 1) rest)
  def emitIngOld : Ing → List Tick
    | .plain => []
    | .manifest cs => sigTick :: emitLevelOld cs.length 0 cs
end

def emitClaimOld (cs : List Ing) : List Tick := emitLevelOld cs.length 0 cs

/-! ### line protocol
`cancel n=<callbacks in the uncancelled run> k=<index answered false>` → `cancelled <k+1>`
`cancelin n=<…> k=<index whose callback calls Context::cancel()>` → `cancelled <k+1>`
`flag n=<…>` → `cancelled 1` (flag set before the operation; callback still invoked once)
`wf trace=<phase:step:total,…>` → `wf` | `bad`   (strict rule)
`seq mode=<false|cancel|thread> k=<k> sites=<file:line,…>`: the checkpoints the operation reached, as
  source locations. Every one must be a row of the regenerated table `Gen.sites` (else
  `unknown-site <file:line>`); the skeleton is built from the table rows (their dispositions)
  and run with: callback false at k / cancel() inside callback k / cancel() by another thread
  while callback k runs.
`ingticks n=<n>` → the VerifyingIngredient ticks of a claim with n plain ingredients
`ingtree shape=<p|m(..)…>` → the VerifyingIngredient / VerifyingSignature ticks of that tree
-/

def skeleton (n : Nat) : List Site :=
  List.replicate n { tick := { phase := "x", step := 1, total := 1 }, disp := .propagate }

/-- the checkpoint of a table row -/
def siteOf (r : String × Nat × Disp) : Site := ⟨⟨r.1, 1, 1⟩, r.2.2⟩

def outStr : Outcome → String
  | .cancelled c => "cancelled " ++ toString c
  | .finished c l => "finished " ++ toString c ++ (if l then " logged" else "")

def parseTick (s : String) : Option Tick :=
  match s.splitOn ":" with
  | [p, a, b] => match a.toNat?, b.toNat? with
    | some x, some y => some { phase := p, step := x, total := y }
    | _, _ => none
  | _ => none

def tickStr (t : Tick) : String := t.phase ++ ":" ++ toString t.step ++ ":" ++ toString t.total

def ticksStr (ts : List Tick) : String :=
  if ts.isEmpty then "-" else ",".intercalate (ts.map tickStr)

/-- `file:line` → the table row, if any -/
def lookupSite (table : List (String × Nat × Disp)) (s : String) : Option (String × Nat × Disp) :=
  match s.splitOn ":" with
  | [f, l] => match l.toNat? with
    | some n => table.find? (fun r => r.1 == f && r.2.1 == n)
    | none => none
  | _ => none

def lookupAll (table : List (String × Nat × Disp)) : List String → Except String (List (String × Nat × Disp))
  | [] => .ok []
  | s :: rest => match lookupSite table s with
    | none => .error s
    | some r => (lookupAll table rest).map (r :: ·)

/-- shape grammar: `p` plain, `m(` children `)` manifest; parser with fuel = input length -/
def parseIngs : Nat → List Char → List Ing × List Char
  | 0, cs => ([], cs)
  | _, [] => ([], [])
  | fuel + 1, 'p' :: cs => let (r, rest) := parseIngs fuel cs; (Ing.plain :: r, rest)
  | fuel + 1, 'm' :: '(' :: cs =>
    let (kids, rest) := parseIngs fuel cs
    let (r, rest') := parseIngs fuel rest
    (Ing.manifest kids :: r, rest')
  | _, ')' :: cs => ([], cs)
  | _, cs => ([], cs)

def handleWith (table : List (String × Nat × Disp)) (toks : List String) : String :=
  match toks with
  | "cancel" :: rest =>
    match (field rest "n").toNat?, (field rest "k").toNat? with
    | some n, some k => outStr (run (some (fun i => i != k)) false (skeleton n) 0 false)
    | _, _ => "bad-req"
  | "cancelin" :: rest =>
    match (field rest "n").toNat?, (field rest "k").toNat? with
    | some n, some k => outStr (runF (fun _ => true) k (skeleton n) 0 false false)
    | _, _ => "bad-req"
  | "flag" :: rest =>
    match (field rest "n").toNat? with
    | some n => outStr (run (some (fun _ => true)) true (skeleton n) 0 false)
    | none => "bad-req"
  | "seq" :: rest =>
    match (field rest "k").toNat? with
    | none => "bad-req"
    | some k =>
      match lookupAll table (splitList (field rest "sites") ",") with
      | .error s => "unknown-site " ++ s
      | .ok rows =>
        let sk := rows.map siteOf
        match field rest "mode" with
        | "false" => outStr (run (some (fun i => i != k)) false sk 0 false)
        | "cancel" => outStr (runF (fun _ => true) k sk 0 false false)
        | "thread" => outStr (runS (fun _ => true) (fun i => decide (k ≤ i)) sk 0 false)
        | _ => "bad-req"
  | "wf" :: rest =>
    let ts := (splitList (field rest "trace") ",").filterMap parseTick
    if traceWfStrict ts then "wf" else "bad"
  | "ingticks" :: rest =>
    match (field rest "n").toNat? with
    | some n => ticksStr (ingredientTicks n)
    | none => "bad-req"
  | "ingtree" :: rest =>
    let cs := (field rest "shape").toList
    ticksStr (emitClaim (parseIngs (cs.length + 1) cs).1)
  | _ => "bad-op"

/-- the handler without a table (no source checkpoints known) -/
def handle (toks : List String) : String := handleWith [] toks

end C2pa.C23
