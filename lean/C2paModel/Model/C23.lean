import C2paModel.Base
/-
C23 — model of cancellation checkpoints.

* `Context::check_progress` (sdk/src/context.rs): call the progress callback (if any); a
  `false` answer, or a set cancel flag, is `OperationCancelled`.
* An operation (sign / read / ingredient import) is abstracted to its *checkpoint skeleton*:
  the sequence of `check_progress` call sites it reaches, each with the disposition the
  source gives to the `Result` (propagated with `?`/returned, or logged as a validation
  failure and continued — the shape of the defect repaired in `verify_hash_binding`).
  Which sites exist and how each treats the result is regenerated from the source into
  `Gen/C23Sites.lean` by translators/c23_sites.py on every run.
-/
namespace C2pa.C23

structure Tick where
  phase : String
  step : Nat
  total : Nat
  deriving DecidableEq, Repr

inductive Disp
  | propagate      -- `?` / tail expression: the error leaves the operation
  | swallow        -- the error is logged as a validation failure and the operation continues
  deriving DecidableEq, Repr

structure Site where
  tick : Tick
  disp : Disp
  deriving DecidableEq, Repr

inductive Outcome
  | cancelled (callbacks : Nat)             -- OperationCancelled after this many callback calls
  | finished (callbacks : Nat) (loggedCancel : Bool)
  deriving DecidableEq, Repr

/-- The callback: answer to the i-th invocation (0-based). -/
abbrev Cb := Nat → Bool

/-- `check_progress` at invocation index `i`: callback first, then the flag. -/
def checkProgress (cb : Option Cb) (flag : Bool) (i : Nat) : Bool × Nat :=
  match cb with
  | some f => (f i && !flag, i + 1)
  | none => (!flag, i)

/-- Run a skeleton from invocation index `i`. `logged` remembers a swallowed cancellation. -/
def run (cb : Option Cb) (flag : Bool) : List Site → Nat → Bool → Outcome
  | [], i, logged => .finished i logged
  | s :: rest, i, logged =>
    let (ok, i') := checkProgress cb flag i
    if ok then run cb flag rest i' logged
    else match s.disp with
      | .propagate => .cancelled i'
      | .swallow => run cb flag rest i' true

/-- `check_progress` when the callback itself calls `Context::cancel()` during invocation
`flagAt`: the flag is tested *after* the callback, so that very checkpoint already fails. -/
def checkProgressF (cb : Cb) (flagAt : Nat) (flag : Bool) (i : Nat) : Bool × Nat × Bool :=
  let flag' := flag || (i == flagAt)
  (cb i && !flag', i + 1, flag')

/-- Run with a callback that sets the cancel flag during invocation `flagAt`. -/
def runF (cb : Cb) (flagAt : Nat) : List Site → Nat → Bool → Bool → Outcome
  | [], i, _, logged => .finished i logged
  | s :: rest, i, flag, logged =>
    let (ok, i', flag') := checkProgressF cb flagAt flag i
    if ok then runF cb flagAt rest i' flag' logged
    else match s.disp with
      | .propagate => .cancelled i'
      | .swallow => runF cb flagAt rest i' flag' true

def AllPropagate (sites : List Site) : Prop := ∀ s ∈ sites, s.disp = .propagate

/-- Well-formed progress trace: steps ≥ 1, never above a non-zero total, strictly increasing
within a run of consecutive ticks of one phase. -/
def tickOk (t : Tick) : Bool := 1 ≤ t.step && (t.total == 0 || t.step ≤ t.total)

def traceWf : List Tick → Bool
  | [] => true
  | [t] => tickOk t
  | t :: u :: rest =>
    tickOk t && (t.phase != u.phase || t.step < u.step || u.step == 1) && traceWf (u :: rest)

/-! ### line protocol
`cancel n=<callbacks in the uncancelled run> k=<index answered false>` → `cancelled <k+1>`
`cancelin n=<…> k=<index whose callback calls Context::cancel()>` → `cancelled <k+1>`
`flag n=<…>` → `cancelled 1` (flag set before the operation; callback still invoked once)
`wf trace=<phase:step:total,…>` → `wf` | `bad`
-/

def skeleton (n : Nat) : List Site :=
  List.replicate n { tick := { phase := "x", step := 1, total := 1 }, disp := .propagate }

def outStr : Outcome → String
  | .cancelled c => "cancelled " ++ toString c
  | .finished c l => "finished " ++ toString c ++ (if l then " logged" else "")

def parseTick (s : String) : Option Tick :=
  match s.splitOn ":" with
  | [p, a, b] => match a.toNat?, b.toNat? with
    | some x, some y => some { phase := p, step := x, total := y }
    | _, _ => none
  | _ => none

def handle (toks : List String) : String :=
  match toks with
  | "cancel" :: rest =>
    match (field rest "n").toNat?, (field rest "k").toNat? with
    | some n, some k => outStr (run (some (fun i => i != k)) false (skeleton n) 0 false)
    | _, _ => "bad-req"
  | "cancelin" :: rest =>
    match (field rest "n").toNat?, (field rest "k").toNat? with
    | some n, some k => outStr (runF (fun _ => true) k (skeleton n) 0 false false)
    | _, _ => "bad-req"
  | "flag" :: rest =>
    match (field rest "n").toNat? with
    | some n => outStr (run (some (fun _ => true)) true (skeleton n) 0 false)
    | none => "bad-req"
  | "wf" :: rest =>
    let ts := (splitList (field rest "trace") ",").filterMap parseTick
    if traceWf ts then "wf" else "bad"
  | _ => "bad-op"

end C2pa.C23
