import C2paModel.Model.C07Base
/-
C09 — BMFF absolute-offset fix-up (sdk/src/asset_handlers/bmff_io.rs).

Mirrors `adjust_offset`, `adjust_offset_u32` and, field by field, `adjust_known_offsets_from`
as called by `BmffIO::write_cai` / `remove_cai_store_from_stream` after a C2PA box was
inserted, replaced or removed:

  * `pivot`  = end of the changed box in the SOURCE layout,
  * `adjust` = size difference (new − old), a signed 64-bit number.

The harness finds every offset field of a real BMFF file with an independent walker and
sends (kind, width, value, iloc construction method, iloc item base, track id) per field; the
model answers with the value each field must hold afterwards (or `err`), compared with the
bytes the real function leaves in the file.

Which boxes are patched, and how, as coded (one arm of `adjField` per section of the Rust
function; the table `sites` below is compared with a table regenerated from the source by
translators/c09_adjust_sites.py):

  /moov/trak/mdia/minf/stbl/stco   entries, u32        adjust_offset_u32
  /moov/trak/mdia/minf/stbl/co64   entries, u64        adjust_offset
  /meta/iloc                       base_offset (4|8) of items with construction_method 0:
                                     adjust_offset (+ u32 range check for width 4);
                                   extent_offset (4|8) of items with construction_method 0 and
                                     base_offset == 0 and extent_offset != 0:
                                     adjust_offset_u32 / adjust_offset;
                                   all other iloc fields unchanged
  /moof/traf/tfhd                  base_data_offset when flag 0x000001: adjust_offset
  /mfra/tfra                       moof_offset of every entry: adjust_offset_u32 (version 0)
                                   / adjust_offset (version 1)   [after the C09 repair; before
                                   it every entry was overwritten with the offset of the LAST
                                   moof of the track — `tfraLegacy`]
  /moov/trak/mdia/minf/stbl/saio   entries: adjust_offset_u32 (version 0) / adjust_offset
-/
namespace C2pa.C09Bmff

open C2pa.C07 (Bytes slice)

def U64 : Nat := 18446744073709551616
def U32 : Nat := 4294967296

/-- `adjust_offset(offset, adjust, pivot)`: offsets below the pivot stay; the others are
`checked_add_signed` (error on a negative result or one ≥ 2^64). -/
def adjOffset (offset : Nat) (adjust : Int) (pivot : Nat) : Option Nat :=
  if offset < pivot then some offset
  else
    let r : Int := (offset : Int) + adjust
    if 0 ≤ r ∧ r < (U64 : Int) then some r.toNat else none

/-- `adjust_offset_u32`: the same, then `u32::try_from`. -/
def adjOffset32 (offset : Nat) (adjust : Int) (pivot : Nat) : Option Nat :=
  match adjOffset offset adjust pivot with
  | some v => if v < U32 then some v else none
  | none => none

inductive Kind | stco | co64 | saio | tfhd | tfra | ilocb | iloce
  deriving DecidableEq, Repr

structure Field where
  kind : Kind
  /-- width of the field in bytes (4 or 8) -/
  width : Nat
  val : Nat
  /-- iloc: construction method of the item -/
  cm : Nat := 0
  /-- iloc extent: the item's base_offset as read from the file -/
  base : Nat := 0
  /-- tfhd / tfra: track id -/
  tid : Nat := 0
  deriving DecidableEq, Repr

/-- `u32::try_from` / identity, by field width. -/
def fit (w v : Nat) : Option Nat :=
  if w == 4 then (if v < U32 then some v else none)
  else if w == 8 then (if v < U64 then some v else none)
  else none

/-- Offset adjustment by field width (`adjust_offset_u32` for 4-byte fields). -/
def adjW (w v : Nat) (adj : Int) (pivot : Nat) : Option Nat :=
  if w == 4 then adjOffset32 v adj pivot else adjOffset v adj pivot

/-- New value of one field, section by section of `adjust_known_offsets_from`. -/
def adjField (adj : Int) (pivot : Nat) (f : Field) : Option Nat :=
  match f.kind with
  | .stco => adjOffset32 f.val adj pivot
  | .co64 => adjOffset f.val adj pivot
  | .saio => adjW f.width f.val adj pivot
  | .tfhd => adjOffset f.val adj pivot
  | .tfra => adjW f.width f.val adj pivot
  | .ilocb =>
    if f.width != 4 && f.width != 8 then none        -- "unknown iloc offset size"
    else if f.cm == 0 then (adjOffset f.val adj pivot).bind (fit f.width)
    else some f.val
  | .iloce =>
    if f.width != 4 && f.width != 8 then none
    else if f.cm == 0 && f.base == 0 && f.val != 0 then adjW f.width f.val adj pivot
    else some f.val

/-- `mapM` in `Option`, by structural recursion. -/
def mapOpt {α β : Type} (f : α → Option β) : List α → Option (List β)
  | [] => some []
  | x :: rest =>
    match f x with
    | none => none
    | some y =>
      match mapOpt f rest with
      | none => none
      | some ys => some (y :: ys)

/-- The whole table; any failing field fails the call. -/
def adjustTable (adj : Int) (pivot : Nat) (fs : List Field) : Option (List Nat) :=
  mapOpt (adjField adj pivot) fs

/-- `/mfra/tfra` **as coded before the repair**: every entry of a track received the offset
of the last `moof` (in file order) holding a `tfhd` of that track. -/
def tfraLegacy (moofs : List (Nat × Nat)) (f : Field) : Option Nat :=
  ((moofs.reverse.find? (fun m => m.1 == f.tid)).map (·.2)).bind (fit f.width)

/-- The sections of `adjust_known_offsets_from`: box path, number of `adjust_offset` call
sites, number of `adjust_offset_u32` call sites (compared with the generated table). -/
def sites : List (String × Nat × Nat) :=
  [("/moov/trak/mdia/minf/stbl/stco", 0, 1),
   ("/moov/trak/mdia/minf/stbl/co64", 1, 0),
   ("/meta/iloc", 3, 1),
   ("/moof/traf/tfhd", 1, 0),
   ("/mfra/tfra", 1, 1),
   ("/moov/trak/mdia/minf/stbl/saio", 1, 1)]

/-- Path of the box each field kind lives in. -/
def Kind.path : Kind → String
  | .stco => "/moov/trak/mdia/minf/stbl/stco"
  | .co64 => "/moov/trak/mdia/minf/stbl/co64"
  | .saio => "/moov/trak/mdia/minf/stbl/saio"
  | .tfhd => "/moof/traf/tfhd"
  | .tfra => "/mfra/tfra"
  | .ilocb => "/meta/iloc"
  | .iloce => "/meta/iloc"

/-! ### line protocol -/

def parseKind : String → Option Kind
  | "stco" => some .stco | "co64" => some .co64 | "saio" => some .saio | "tfhd" => some .tfhd
  | "tfra" => some .tfra | "ilocb" => some .ilocb | "iloce" => some .iloce | _ => none

/-- `kind.width.value.cm.base.tid` -/
def parseField (s : String) : Option Field :=
  match s.splitOn "." with
  | [k, w, v, cm, b, t] =>
    match parseKind k, w.toNat?, v.toNat?, cm.toNat?, b.toNat?, t.toNat? with
    | some k, some w, some v, some cm, some b, some t => some ⟨k, w, v, cm, b, t⟩
    | _, _, _, _, _, _ => none
  | _ => none

def natList (l : List Nat) : String :=
  if l.isEmpty then "-" else ",".intercalate (l.map toString)

def optStr : Option Nat → String
  | some v => toString v
  | none => "err"

def handle (toks : List String) : String :=
  match toks with
  | "oracle" :: _ => "oracle"
  | "adjoff" :: rest =>
    match (field rest "w").toNat?, (field rest "o").toNat?, (field rest "adj").toInt?, (field rest "pivot").toNat? with
    | some w, some o, some adj, some pivot =>
      if w == 4 then optStr (adjOffset32 o adj pivot) else optStr (adjOffset o adj pivot)
    | _, _, _, _ => "bad-args"
  | "bmffadj" :: rest =>
    match (field rest "adj").toInt?, (field rest "pivot").toNat? with
    | some adj, some pivot =>
      let fsS := field rest "fields"
      let fs := if fsS == "-" then some [] else mapOpt parseField (splitList fsS ",")
      match fs with
      | none => "bad-fields"
      | some fs =>
        match adjustTable adj pivot fs with
        | some vs => natList vs
        | none => "err"
    | _, _ => "bad-args"
  | _ => "bad-op"

end C2pa.C09Bmff
