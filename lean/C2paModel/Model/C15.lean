import C2paModel.Base
/-
C15 — model of the placeholder workflow for data-hash formats (sdk/src/builder.rs):
`Builder::placeholder`, `set_data_hash_exclusions`, `update_hash_from_stream` (DataHash path),
`sign_embeddable`, and `Store::add_dynamic_assertion_placeholders` (sdk/src/store.rs).

Only *lengths* matter for the size contract. A `DataHash` is represented by the lengths of its
fields and the numeric values of its exclusion ranges (their CBOR size depends on the values);
the JUMBF of a manifest is `base` (everything that does not depend on the sized components)
plus the CBOR size of the DataHash assertion plus the sizes of the dynamic-assertion payloads.
-/
namespace C2pa.C15

/-- Size of a CBOR head for argument `n` (also the size of the unsigned integer `n`). -/
def hdr (n : Nat) : Nat :=
  if n < 24 then 1
  else if n < 256 then 2
  else if n < 65536 then 3
  else if n < 4294967296 then 5
  else 9

/-- A text or byte string of `n` bytes, head included. -/
def str (n : Nat) : Nat := hdr n + n

structure Range where
  start : Nat
  length : Nat
  deriving DecidableEq, Repr

/-- `{"start": s, "length": l}`: map head, two text keys (6 and 7 bytes), two unsigned ints. -/
def rangeSize (r : Range) : Nat := 14 + hdr r.start + hdr r.length

/-- The value of the `exclusions` field: array head + ranges. -/
def exclSize (l : List Range) : Nat := hdr l.length + (l.map rangeSize).sum

structure DataHash where
  /-- `None` when no exclusion was ever added (field skipped) -/
  exclusions : Option (List Range)
  nameLen : Option Nat
  algLen : Option Nat
  hashLen : Nat
  padLen : Nat
  pad2 : Option Nat
  deriving DecidableEq, Repr

def optField (keyLen : Nat) : Option Nat → Nat
  | none => 0
  | some n => 1 + keyLen + str n

/-- CBOR size of the DataHash assertion (`to_assertion()?.data().len()`): a map of at most
six entries (one-byte head), keys `exclusions`/`name`/`alg`/`hash`/`pad`/`pad2`. -/
def dhSize (d : DataHash) : Nat :=
  1
  + (match d.exclusions with | none => 0 | some l => 11 + exclSize l)
  + optField 4 d.nameLen
  + optField 3 d.algLen
  + (5 + str d.hashLen)
  + (4 + str d.padLen)
  + optField 4 d.pad2

/-- The DataHash `Builder::placeholder` adds when the builder has none: name
`"jumbf manifest"`, ten dummy exclusions `(0, 2)`, the digest of ten dummy bytes. -/
def placeholderDH (algLen digestLen : Nat) : DataHash :=
  { exclusions := some (List.replicate 10 ⟨0, 2⟩)
    nameLen := some 14
    algLen := some algLen
    hashLen := digestLen
    padLen := 0
    pad2 := none }

/-- `DataHash::new(name, alg)` followed by `add_exclusion` for each element. -/
def newWith (nameLen algLen : Nat) (excl : List Range) : DataHash :=
  { exclusions := if excl.isEmpty then none else some excl
    nameLen := some nameLen
    algLen := some algLen
    hashLen := 0
    padLen := 0
    pad2 := none }

/-- `Builder::set_data_hash_exclusions`: keeps name and algorithm, replaces the exclusion
list; hash and pads start empty. -/
def setExclusions (existing : DataHash) (defAlgLen : Nat) (excl : List Range) : DataHash :=
  newWith (existing.nameLen.getD 14) (existing.algLen.getD defAlgLen) excl

/-- DataHash path of `Builder::update_hash_from_stream` (and of a caller storing the digest):
same name, algorithm and exclusions; fresh hash; pads dropped. -/
def updateHash (existing : DataHash) (defAlgLen digestLen : Nat) : DataHash :=
  { newWith (existing.nameLen.getD 14) (existing.algLen.getD defAlgLen)
      (existing.exclusions.getD []) with hashLen := digestLen }

/-- `add_dynamic_assertion_placeholders`: the payload reserved for a dynamic assertion whose
`reserve_size()` is `r`: a CBOR array of `r − hdr r` zeros. -/
def daPlaceholder (r : Nat) : Nat := str (r - hdr r)

/-- What `DynamicAssertion::content` returns (`DynamicAssertionContent`). -/
inductive DaKind
  | cbor
  | json
  | binary
  deriving DecidableEq, Repr

/-- A dynamic assertion of the signer: its `reserve_size()`, the length of the content it
finally returns, and the kind of that content. -/
structure Da where
  reserve : Nat
  content : Nat
  kind : DaKind
  deriving DecidableEq, Repr

/-- `write_dynamic_assertions`: CBOR and JSON contents replace the placeholder slot (the JSON
content box has the same 8-byte box header as the CBOR one); a `Binary` content is dropped
(the match arm is empty) and the zero-filled placeholder slot stays in the manifest. -/
def daFinal (d : Da) : Nat :=
  match d.kind with
  | .binary => daPlaceholder d.reserve
  | _ => d.content

inductive Res
  | ok (len : Nat)
  | tooLarge
  deriving DecidableEq, Repr

/-- `Builder::sign_embeddable`, size handling after `sign_manifest` returned `jumbf` bytes.
`placeholderLen` is the field `placeholder_jumbf_len` (`none`: `placeholder()` was not called on
this Builder value — "Mode 2"); `guarded` is "a DataHash or a BoxHash assertion is present"
(a BmffHash binding is not guarded: the caller reserves room for Merkle leaves). -/
def signEmbeddable (placeholderLen : Option Nat) (guarded : Bool) (jumbf : Nat) : Res :=
  match placeholderLen with
  | some len =>
    if jumbf > len && guarded then .tooLarge
    else if jumbf < len then .ok len   -- `jumbf.resize(len, 0)`
    else .ok jumbf
  | none => .ok jumbf

/-- One run of the placeholder workflow. -/
structure Flow where
  /-- JUMBF bytes that do not depend on the sized components -/
  base : Nat
  defAlgLen : Nat
  digestLen : Nat
  /-- DataHash the caller added before `placeholder` -/
  pre : Option DataHash
  /-- argument of `set_data_hash_exclusions`, `none` = not called -/
  excl : Option (List Range)
  rehash : Bool
  /-- dynamic assertions of the signer -/
  das : List Da
  /-- the Builder was rebuilt from its serialised definition (JSON) between `placeholder` and
  `sign_embeddable`: `placeholder_jumbf_len` is `#[serde(skip)]`, the new value has `None` -/
  lost : Bool
  deriving Repr

/-- DataHash held by the builder when `placeholder` serialises the manifest. -/
def Flow.dh0 (f : Flow) : DataHash := f.pre.getD (placeholderDH f.defAlgLen f.digestLen)

/-- JUMBF length recorded by `Builder::placeholder` (`placeholder_jumbf_len`). -/
def Flow.placeholderLen (f : Flow) : Nat :=
  f.base + dhSize f.dh0 + (f.das.map (fun d => daPlaceholder d.reserve)).sum

/-- DataHash held by the builder when `sign_embeddable` runs. -/
def Flow.dhFinal (f : Flow) : DataHash :=
  let d1 := match f.excl with
    | none => f.dh0
    | some l => setExclusions f.dh0 f.defAlgLen l
  if f.rehash then updateHash d1 f.defAlgLen f.digestLen else d1

/-- JUMBF length of the signed manifest before padding. -/
def Flow.signedLen (f : Flow) : Nat :=
  f.base + dhSize f.dhFinal + (f.das.map daFinal).sum

/-- `placeholder_jumbf_len` as `sign_embeddable` finds it. -/
def Flow.recorded (f : Flow) : Option Nat := if f.lost then none else some f.placeholderLen

def Flow.run (f : Flow) : Res := signEmbeddable f.recorded true f.signedLen

/-- The placeholder workflow with a caller-supplied BoxHash (guarded) or a BmffHash (not
guarded) binding: only the CBOR size of that assertion at the two moments matters. -/
structure OFlow where
  base : Nat
  guarded : Bool
  /-- CBOR size of the binding assertion when `placeholder` serialised the manifest -/
  size0 : Nat
  /-- … when `sign_embeddable` runs (after `update_hash_from_stream`) -/
  size1 : Nat
  das : List Da
  deriving Repr

def OFlow.placeholderLen (f : OFlow) : Nat :=
  f.base + f.size0 + (f.das.map (fun d => daPlaceholder d.reserve)).sum

def OFlow.signedLen (f : OFlow) : Nat := f.base + f.size1 + (f.das.map daFinal).sum

def OFlow.run (f : OFlow) : Res := signEmbeddable (some f.placeholderLen) f.guarded f.signedLen

/-- The legacy pair `data_hashed_placeholder` / `sign_data_hashed_embeddable`
(`Store::get_data_hashed_embeddable_manifest` → `Claim::update_data_hash` →
`DataHash::pad_to_size(original_len)`): the DataHash handed to the second call is rebuilt as
`"jumbf manifest"` / claim algorithm / its exclusions / its hash and padded to the size of the
placeholder's assertion. `pad_to_size` (C14: `datahash_pad_exact`, `pad2 = None`) reaches every
size ≥ the unpadded one and fails below it. -/
structure Legacy where
  defAlgLen : Nat
  /-- DataHash in the builder when `data_hashed_placeholder` ran (`none`: it adds ten dummy
  exclusions, name "jumbf manifest", "sha256", *no* hash) -/
  pre : Option DataHash
  /-- exclusions and hash length of the DataHash passed to `sign_data_hashed_embeddable` -/
  excl : List Range
  hashLen : Nat
  deriving Repr

def Legacy.dh0 (f : Legacy) : DataHash :=
  f.pre.getD (placeholderDH 6 0)

def Legacy.adjusted (f : Legacy) : DataHash :=
  { newWith 14 f.defAlgLen f.excl with hashLen := f.hashLen }

/-- `ok`: the signed manifest has the placeholder's length; `tooLarge`: `JumbfCreationError`. -/
def Legacy.run (f : Legacy) (placeholderLen : Nat) : Res :=
  if dhSize f.adjusted ≤ dhSize f.dh0 then .ok placeholderLen else .tooLarge

/-! ### line protocol -/

def parseRange (s : String) : Range :=
  match s.splitOn ":" with
  | [a, b] => ⟨a.toNat?.getD 0, b.toNat?.getD 0⟩
  | _ => ⟨0, 0⟩

def parseRanges (s : String) : List Range :=
  if s == "-" then [] else (s.splitOn ",").map parseRange

def parsePre (s : String) (algLen : Nat) : Option DataHash :=
  if s == "-" then none
  else match s.splitOn ";" with
    | [n, h, p, e] =>
      let ex := parseRanges e
      some { exclusions := if ex.isEmpty then none else some ex
             nameLen := some (n.toNat?.getD 0)
             algLen := some algLen
             hashLen := h.toNat?.getD 0
             padLen := p.toNat?.getD 0
             pad2 := none }
    | [n, a, h, p, e] =>
      -- five fields: name (`-` = `None`), alg (`-` = `None`, otherwise the definition's), hash, pad, exclusions
      let ex := parseRanges e
      some { exclusions := if ex.isEmpty then none else some ex
             nameLen := if n == "-" then none else some (n.toNat?.getD 0)
             algLen := if a == "-" then none else some algLen
             hashLen := h.toNat?.getD 0
             padLen := p.toNat?.getD 0
             pad2 := none }
    | _ => none

def parseKind (s : String) : DaKind :=
  if s == "j" then .json else if s == "b" then .binary else .cbor

def parseDas (s : String) : List Da :=
  if s == "-" then []
  else (s.splitOn ",").map fun t =>
    match t.splitOn ":" with
    | [a, b] => ⟨a.toNat?.getD 0, b.toNat?.getD 0, .cbor⟩
    | [a, b, k] => ⟨a.toNat?.getD 0, b.toNat?.getD 0, parseKind k⟩
    | _ => ⟨0, 0, .cbor⟩

/-- Reply: the length class of the result relative to the placeholder JUMBF length `ph`
(`signed` = JUMBF length before padding). -/
def reply (ph signed : Nat) : Res → String
  | .tooLarge => "err toolarge"
  | .ok len =>
    if len == ph then "ok slack=" ++ toString (len - signed)
    else if len < ph then "ok shorter=" ++ toString (ph - len)
    else "ok longer=" ++ toString (len - ph)

def handle (toks : List String) : String :=
  match toks with
  | "flow" :: rest =>
    let alg := (field rest "alg").toNat?.getD 0
    let e := field rest "excl"
    let f : Flow :=
      { base := 0
        defAlgLen := alg
        digestLen := (field rest "hash").toNat?.getD 0
        pre := parsePre (field rest "pre") alg
        excl := if e == "none" then none else some (parseRanges e)
        rehash := field rest "rehash" == "1"
        das := parseDas (field rest "da")
        lost := field rest "lost" == "1" }
    reply f.placeholderLen f.signedLen f.run
  | "oflow" :: rest =>
    let f : OFlow :=
      { base := 0
        guarded := field rest "guarded" == "1"
        size0 := (field rest "s0").toNat?.getD 0
        size1 := (field rest "s1").toNat?.getD 0
        das := parseDas (field rest "da") }
    reply f.placeholderLen f.signedLen f.run
  | "legacy" :: rest =>
    let alg := (field rest "alg").toNat?.getD 0
    let f : Legacy :=
      { defAlgLen := alg
        pre := parsePre (field rest "pre") alg
        excl := parseRanges (field rest "excl")
        hashLen := (field rest "hash").toNat?.getD 0 }
    match f.run 0 with
    | .ok _ => "ok slack=0"
    | .tooLarge => "err toosmall"
  | _ => "bad-op"

end C2pa.C15
