import C2paModel.Base
/-
C15 — model of the placeholder workflow for data-hash formats (sdk/src/builder.rs):
`Builder::placeholder`, `set_data_hash_exclusions`, `update_hash_from_stream` (DataHash path),
`sign_embeddable`, and `Store::add_dynamic_assertion_placeholders` (sdk/src/store.rs).

Only *lengths* matter for the size contract. A `DataHash` is represented by the lengths of its
fields and the numeric values of its exclusion ranges (their CBOR size depends on the values);
the JUMBF of a manifest is `base` (everything that does not depend on the sized components)
plus the CBOR size of the DataHash assertion plus the sizes of the dynamic-assertion payloads.
-/
namespace C2pa.C15

/-- Size of a CBOR head for argument `n` (also the size of the unsigned integer `n`). -/
def hdr (n : Nat) : Nat :=
  if n < 24 then 1
  else if n < 256 then 2
  else if n < 65536 then 3
  else if n < 4294967296 then 5
  else 9

/-- A text or byte string of `n` bytes, head included. -/
def str (n : Nat) : Nat := hdr n + n

structure Range where
  start : Nat
  length : Nat
  deriving DecidableEq, Repr

/-- `{"start": s, "length": l}`: map head, two text keys (6 and 7 bytes), two unsigned ints. -/
def rangeSize (r : Range) : Nat := 14 + hdr r.start + hdr r.length

/-- The value of the `exclusions` field: array head + ranges. -/
def exclSize (l : List Range) : Nat := hdr l.length + (l.map rangeSize).sum

structure DataHash where
  /-- `None` when no exclusion was ever added (field skipped) -/
  exclusions : Option (List Range)
  nameLen : Option Nat
  algLen : Option Nat
  hashLen : Nat
  padLen : Nat
  pad2 : Option Nat
  deriving DecidableEq, Repr

def optField (keyLen : Nat) : Option Nat → Nat
  | none => 0
  | some n => 1 + keyLen + str n

/-- CBOR size of the DataHash assertion (`to_assertion()?.data().len()`): a map of at most
six entries (one-byte head), keys `exclusions`/`name`/`alg`/`hash`/`pad`/`pad2`. -/
def dhSize (d : DataHash) : Nat :=
  1
  + (match d.exclusions with | none => 0 | some l => 11 + exclSize l)
  + optField 4 d.nameLen
  + optField 3 d.algLen
  + (5 + str d.hashLen)
  + (4 + str d.padLen)
  + optField 4 d.pad2

/-- The DataHash `Builder::placeholder` adds when the builder has none: name
`"jumbf manifest"`, ten dummy exclusions `(0, 2)`, the digest of ten dummy bytes. -/
def placeholderDH (algLen digestLen : Nat) : DataHash :=
  { exclusions := some (List.replicate 10 ⟨0, 2⟩)
    nameLen := some 14
    algLen := some algLen
    hashLen := digestLen
    padLen := 0
    pad2 := none }

/-- `DataHash::new(name, alg)` followed by `add_exclusion` for each element. -/
def newWith (nameLen algLen : Nat) (excl : List Range) : DataHash :=
  { exclusions := if excl.isEmpty then none else some excl
    nameLen := some nameLen
    algLen := some algLen
    hashLen := 0
    padLen := 0
    pad2 := none }

/-- `Builder::set_data_hash_exclusions`: keeps name and algorithm, replaces the exclusion
list; hash and pads start empty. -/
def setExclusions (existing : DataHash) (defAlgLen : Nat) (excl : List Range) : DataHash :=
  newWith (existing.nameLen.getD 14) (existing.algLen.getD defAlgLen) excl

/-- DataHash path of `Builder::update_hash_from_stream` (and of a caller storing the digest):
same name, algorithm and exclusions; fresh hash; pads dropped. -/
def updateHash (existing : DataHash) (defAlgLen digestLen : Nat) : DataHash :=
  { newWith (existing.nameLen.getD 14) (existing.algLen.getD defAlgLen)
      (existing.exclusions.getD []) with hashLen := digestLen }

/-- `add_dynamic_assertion_placeholders`: the payload reserved for a dynamic assertion whose
`reserve_size()` is `r`: a CBOR array of `r − hdr r` zeros. -/
def daPlaceholder (r : Nat) : Nat := str (r - hdr r)

inductive Res
  | ok (len : Nat)
  | tooLarge
  deriving DecidableEq, Repr

/-- `Builder::sign_embeddable`, size handling after `sign_manifest` returned `jumbf` bytes. -/
def signEmbeddable (placeholderLen : Option Nat) (hasDataHash : Bool) (jumbf : Nat) : Res :=
  match placeholderLen with
  | some len =>
    if jumbf > len && hasDataHash then .tooLarge
    else if jumbf < len then .ok len   -- `jumbf.resize(len, 0)`
    else .ok jumbf
  | none => .ok jumbf

/-- One run of the placeholder workflow. -/
structure Flow where
  /-- JUMBF bytes that do not depend on the sized components -/
  base : Nat
  defAlgLen : Nat
  digestLen : Nat
  /-- DataHash the caller added before `placeholder` -/
  pre : Option DataHash
  /-- argument of `set_data_hash_exclusions`, `none` = not called -/
  excl : Option (List Range)
  rehash : Bool
  /-- dynamic assertions: (reserve_size, length of the content finally returned) -/
  das : List (Nat × Nat)
  deriving Repr

/-- DataHash held by the builder when `placeholder` serialises the manifest. -/
def Flow.dh0 (f : Flow) : DataHash := f.pre.getD (placeholderDH f.defAlgLen f.digestLen)

/-- JUMBF length recorded by `Builder::placeholder` (`placeholder_jumbf_len`). -/
def Flow.placeholderLen (f : Flow) : Nat :=
  f.base + dhSize f.dh0 + (f.das.map (fun d => daPlaceholder d.1)).sum

/-- DataHash held by the builder when `sign_embeddable` runs. -/
def Flow.dhFinal (f : Flow) : DataHash :=
  let d1 := match f.excl with
    | none => f.dh0
    | some l => setExclusions f.dh0 f.defAlgLen l
  if f.rehash then updateHash d1 f.defAlgLen f.digestLen else d1

/-- JUMBF length of the signed manifest before padding. -/
def Flow.signedLen (f : Flow) : Nat :=
  f.base + dhSize f.dhFinal + (f.das.map (fun d => d.2)).sum

def Flow.run (f : Flow) : Res := signEmbeddable (some f.placeholderLen) true f.signedLen

/-! ### line protocol -/

def parseRange (s : String) : Range :=
  match s.splitOn ":" with
  | [a, b] => ⟨a.toNat?.getD 0, b.toNat?.getD 0⟩
  | _ => ⟨0, 0⟩

def parseRanges (s : String) : List Range :=
  if s == "-" then [] else (s.splitOn ",").map parseRange

def parsePre (s : String) (algLen : Nat) : Option DataHash :=
  if s == "-" then none
  else match s.splitOn ";" with
    | [n, h, p, e] =>
      let ex := parseRanges e
      some { exclusions := if ex.isEmpty then none else some ex
             nameLen := some (n.toNat?.getD 0)
             algLen := some algLen
             hashLen := h.toNat?.getD 0
             padLen := p.toNat?.getD 0
             pad2 := none }
    | _ => none

def parseDas (s : String) : List (Nat × Nat) :=
  if s == "-" then []
  else (s.splitOn ",").map fun t =>
    match t.splitOn ":" with
    | [a, b] => (a.toNat?.getD 0, b.toNat?.getD 0)
    | _ => (0, 0)

def handle (toks : List String) : String :=
  match toks with
  | "flow" :: rest =>
    let alg := (field rest "alg").toNat?.getD 0
    let e := field rest "excl"
    let f : Flow :=
      { base := 0
        defAlgLen := alg
        digestLen := (field rest "hash").toNat?.getD 0
        pre := parsePre (field rest "pre") alg
        excl := if e == "none" then none else some (parseRanges e)
        rehash := field rest "rehash" == "1"
        das := parseDas (field rest "da") }
    match f.run with
    | .ok len => "ok slack=" ++ toString (len - f.signedLen)
    | .tooLarge => "err toolarge"
  | _ => "bad-op"

end C2pa.C15
